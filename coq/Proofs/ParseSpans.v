(* Tracked spans stay inside the span of the construct that contains them (C14): every
   with_span of the posting parser yields a span between the input it started from and the
   rest it left, and these nest. Spans are in "bytes remaining" form (Model/Comb.v rspan). *)
From Coq Require Import List NArith ZArith Bool Lia Arith.
From Okv Require Import Model.Lit Model.Syntax Model.Comb Model.ParseExpr Model.ParseMeta
  Model.ParsePosting Model.ParseTxn Model.ParseDirective Model.ParseLedger
  Proofs.CombSpec Proofs.ParseSafe.
Import ListNotations.
Open Scope N_scope.

(* hi >= fst sp >= snd sp >= lo   (remaining bytes: hi at the start, lo at the end) *)
Definition bnd (hi lo : N) (sp : rspan) : Prop := lo <= snd sp /\ snd sp <= fst sp /\ fst sp <= hi.
Definition obnd (hi lo : N) (o : option rspan) : Prop :=
  match o with Some sp => bnd hi lo sp | None => True end.

Lemma bnd_mono : forall hi lo hi' lo' sp, bnd hi lo sp -> hi <= hi' -> lo' <= lo -> bnd hi' lo' sp.
Proof. unfold bnd; intros; lia. Qed.
Lemma obnd_mono : forall hi lo hi' lo' o, obnd hi lo o -> hi <= hi' -> lo' <= lo -> obnd hi' lo' o.
Proof. destruct o; simpl; eauto using bnd_mono. Qed.

Ltac sfx :=
  repeat match goal with
         | H : suffix _ _ |- _ => apply suffix_utf8_len in H
         end.

(* a bind step with the intermediate rest exposed *)
Lemma triple_bind' : forall A B n (p : parser A) (k : A -> parser B) Q1 (Q : list N -> B -> list N -> Prop),
  triple n p Q1 ->
  (forall i a m, (length i <= n)%nat -> suffix m i -> Q1 i a m ->
     match k a m with
     | POk b r => suffix r m -> Q i b r
     | _ => True
     end) ->
  (forall a, safe n (k a)) ->
  triple n (bind p k) Q.
Proof.
  intros A B n p k Q1 Q Hp HQ Hk i Hi. unfold bind. pose proof (Hp i Hi) as H1.
  destruct (p i) as [a m | | |]; auto. destruct H1 as [Hs H1].
  assert (Hm : (length m <= n)%nat) by (apply suffix_length in Hs; lia).
  pose proof (Hk a m Hm) as H2. specialize (HQ i a m Hi Hs H1).
  destruct (k a m) as [b r | c l r | |]; auto.
  - destruct H2 as [Hs' _]. split; [eapply suffix_trans; eauto | auto].
  - eapply suffix_trans; eauto.
Qed.

Lemma triple_with_span : forall A n (p : parser A), safe n p ->
  triple n (with_span p) (fun i a r => snd a = (utf8_len i, utf8_len r)).
Proof.
  intros A n p H i Hi. specialize (H i Hi). unfold with_span. destruct (p i); auto.
  destruct H; auto.
Qed.

Lemma triple_terminated_with_span : forall A B n (p : parser A) (q : parser B),
  safe n p -> safe n q ->
  triple n (terminated (with_span p) q) (fun i a r => bnd (utf8_len i) (utf8_len r) (snd a)).
Proof.
  intros A B n p q Hp Hq. unfold terminated.
  eapply triple_bind'; [apply triple_with_span; exact Hp | | intros; psafe].
  intros i a m Hi Hs Ha. unfold bind. pose proof (Hq m) as H2.
  assert (Hm : (length m <= n)%nat) by (apply suffix_length in Hs; lia).
  specialize (H2 Hm). destruct (q m) as [b r | | |]; auto. simpl.
  intros Hr. destruct H2 as [H2 _]. rewrite Ha. unfold bnd; cbn [fst snd]. sfx. lia.
Qed.

Lemma posting_account_spans : forall n fuel, (n <= fuel)%nat ->
  triple n (posting_account fuel) (fun i a r => bnd (utf8_len i) (utf8_len r) (snd a)).
Proof.
  intros. unfold posting_account. apply triple_terminated_with_span; [| psafe].
  apply safe_try_map, safe_pmap, safe_taken, cons_safe, cons_repeat_till1; auto.
  - apply cons_bind_r; psafe; auto with psafe.
  - psafe.
Qed.

(* ---- the lot loop ---- *)
Lemma lot_loop_spans : forall n fuel, (n <= fuel)%nat ->
  forall k l psp hi i, (lot_missing l < k)%nat -> (length i <= n)%nat ->
    utf8_len i <= hi -> obnd hi (utf8_len i) psp ->
    match lot_loop fuel k l psp i with
    | POk a r => suffix r i /\ obnd hi (utf8_len r) (snd a)
    | PErr _ _ r => suffix r i
    | _ => False
    end.
Proof.
  intros n fuel Hf. induction k; intros l psp hi i Hk Hi Hhi Hp; [lia |].
  simpl. destruct i as [| c t]; [simpl; auto with sfx |].
  set (i := c :: t) in *.
  destruct (N.eqb c 123); [| destruct (N.eqb c 91); [| destruct (N.eqb c 40); [| simpl; auto with sfx]]].
  - destruct (lot_price l) eqn:E; [simpl; auto with sfx |].
    unfold bind at 1.
    pose proof (triple_with_span _ n (lot_amount fuel) (safe_lot_amount n fuel Hf) i Hi) as H1.
    destruct (with_span (lot_amount fuel) i) as [pr m | | |]; auto. destruct H1 as [Hs H1].
    assert (Hm : (length m <= n)%nat) by (apply suffix_length in Hs; lia).
    unfold bind at 1.
    pose proof (safe_space0 n m Hm) as H2. destruct (space0 m) as [u m' | | |]; auto.
    2: { eapply suffix_trans; eauto. }
    destruct H2 as [Hs2 _].
    assert (Hm' : (length m' <= n)%nat) by (apply suffix_length in Hs2; lia).
    match goal with |- context [lot_loop fuel k ?l' ?p' m'] =>
      specialize (IHk l' p' hi m') end.
    assert (Hk' : (lot_missing {| lot_price := Some (fst pr); lot_date := lot_date l; lot_note := lot_note l |} < k)%nat)
      by (unfold lot_missing in *; simpl; rewrite E in Hk; lia).
    assert (B1 : utf8_len m' <= hi) by (sfx; lia).
    assert (B2 : obnd hi (utf8_len m') (Some (snd pr))) by (cbn [obnd]; rewrite H1; unfold bnd; cbn [fst snd]; sfx; lia).
    specialize (IHk Hk' Hm' B1 B2).
    destruct (lot_loop fuel k _ _ m') as [a r | c0 l0 r | |]; auto.
    + destruct IHk; split; auto. eapply suffix_trans; [eassumption |]. eapply suffix_trans; eauto.
    + eapply suffix_trans; [eassumption |]. eapply suffix_trans; eauto.
  - destruct (lot_date l) eqn:E; [simpl; auto with sfx |].
    unfold bind at 1.
    assert (S1 : safe n (delimited (chr 91 ;;; space0) date (space0 ;;; chr 93))) by psafe.
    pose proof (S1 i Hi) as H1.
    destruct (delimited (chr 91 ;;; space0) date (space0 ;;; chr 93) i) as [d m | | |]; auto.
    destruct H1 as [Hs _].
    assert (Hm : (length m <= n)%nat) by (apply suffix_length in Hs; lia).
    unfold bind at 1.
    pose proof (safe_space0 n m Hm) as H2. destruct (space0 m) as [u m' | | |]; auto.
    2: { eapply suffix_trans; eauto. }
    destruct H2 as [Hs2 _].
    assert (Hm' : (length m' <= n)%nat) by (apply suffix_length in Hs2; lia).
    match goal with |- context [lot_loop fuel k ?l' ?p' m'] =>
      specialize (IHk l' p' hi m') end.
    assert (Hk' : (lot_missing {| lot_price := lot_price l; lot_date := Some d; lot_note := lot_note l |} < k)%nat)
      by (unfold lot_missing in *; simpl; rewrite E in Hk; lia).
    assert (B1 : utf8_len m' <= hi) by (sfx; lia).
    assert (B2 : obnd hi (utf8_len m') psp) by (eapply obnd_mono; [eassumption | lia | sfx; lia]).
    specialize (IHk Hk' Hm' B1 B2).
    destruct (lot_loop fuel k _ _ m') as [a r | c0 l0 r | |]; auto.
    + destruct IHk; split; auto. eapply suffix_trans; [eassumption |]. eapply suffix_trans; eauto.
    + eapply suffix_trans; [eassumption |]. eapply suffix_trans; eauto.
  - destruct (lot_note l) eqn:E; [simpl; auto with sfx |].
    unfold bind at 1.
    assert (S1 : safe n (paren (take_till0 is_note_stop))) by (apply safe_paren; psafe).
    pose proof (S1 i Hi) as H1.
    destruct (paren (take_till0 is_note_stop) i) as [d m | | |]; auto.
    destruct H1 as [Hs _].
    assert (Hm : (length m <= n)%nat) by (apply suffix_length in Hs; lia).
    unfold bind at 1.
    pose proof (safe_space0 n m Hm) as H2. destruct (space0 m) as [u m' | | |]; auto.
    2: { eapply suffix_trans; eauto. }
    destruct H2 as [Hs2 _].
    assert (Hm' : (length m' <= n)%nat) by (apply suffix_length in Hs2; lia).
    match goal with |- context [lot_loop fuel k ?l' ?p' m'] =>
      specialize (IHk l' p' hi m') end.
    assert (Hk' : (lot_missing {| lot_price := lot_price l; lot_date := lot_date l; lot_note := Some d |} < k)%nat)
      by (unfold lot_missing in *; simpl; rewrite E in Hk; lia).
    assert (B1 : utf8_len m' <= hi) by (sfx; lia).
    assert (B2 : obnd hi (utf8_len m') psp) by (eapply obnd_mono; [eassumption | lia | sfx; lia]).
    specialize (IHk Hk' Hm' B1 B2).
    destruct (lot_loop fuel k _ _ m') as [a r | c0 l0 r | |]; auto.
    + destruct IHk; split; auto. eapply suffix_trans; [eassumption |]. eapply suffix_trans; eauto.
    + eapply suffix_trans; [eassumption |]. eapply suffix_trans; eauto.
Qed.

Lemma lot_spans : forall n fuel, (n <= fuel)%nat ->
  triple n (lot fuel) (fun i a r => obnd (utf8_len i) (utf8_len r) (snd a)).
Proof.
  intros n fuel Hf i Hi. unfold lot, bind.
  pose proof (safe_space0 n i Hi) as H1. destruct (space0 i) as [u m | | |]; auto.
  destruct H1 as [Hs _].
  assert (Hm : (length m <= n)%nat) by (apply suffix_length in Hs; lia).
  pose proof (lot_loop_spans n fuel Hf 4 {| lot_price := None; lot_date := None; lot_note := None |} None
                             (utf8_len i) m) as H2.
  assert (K : (lot_missing {| lot_price := None; lot_date := None; lot_note := None |} < 4)%nat)
    by (unfold lot_missing; simpl; lia).
  assert (B1 : utf8_len m <= utf8_len i) by (sfx; lia).
  specialize (H2 K Hm B1 I).
  destruct (lot_loop fuel 4 _ None m) as [a r | c l r | |]; auto.
  - destruct H2; split; auto. eapply suffix_trans; eauto.
  - eapply suffix_trans; eauto.
Qed.

(* ---- chains of binds: collect what every step established, then conclude ---- *)
Lemma safe_as_triple : forall A n (p : parser A), safe n p -> triple n p (fun _ _ _ => True).
Proof. intros; assumption. Qed.

Create HintDb ptriple.
#[export] Hint Extern 9 (triple _ _ _) => (apply safe_as_triple; psafe; auto with psafe) : ptriple.

Ltac tchain :=
  repeat (cbv beta;
          first [ apply triple_ret
                | eapply triple_bind; [ solve [eauto with ptriple] | intro ] ]).
Ltac tdecomp :=
  repeat match goal with
         | H : exists _, _ |- _ => destruct H
         | H : _ /\ _ |- _ => destruct H
         end; subst.

Ltac span_mono :=
  first [ eapply bnd_mono; [eassumption | sfx; lia | sfx; lia]
        | eapply obnd_mono; [eassumption | sfx; lia | sfx; lia] ].

Lemma amount_ws_spans : forall n fuel, (n <= fuel)%nat ->
  triple n (terminated (with_span (value_expr fuel)) space0)
         (fun i a r => bnd (utf8_len i) (utf8_len r) (snd a)).
Proof. intros. apply triple_terminated_with_span; psafe; auto with psafe. Qed.

Lemma cond_with_span_spans : forall A n b (p : parser A), safe n p ->
  triple n (cond b (with_span p)) (fun i a r => obnd (utf8_len i) (utf8_len r) (option_map snd a)).
Proof.
  intros A n b p Hp. unfold cond. destruct b.
  - unfold pmap. eapply triple_conseq.
    + eapply triple_bind; [apply triple_with_span; exact Hp | intro; apply triple_ret].
    + cbv beta. intros i a r _ _ H. tdecomp. cbn [option_map obnd]. rewrite H1.
      unfold bnd; cbn [fst snd]. sfx. lia.
  - intros i _. simpl. auto with sfx.
Qed.
#[export] Hint Resolve amount_ws_spans lot_spans posting_account_spans : ptriple.

Definition amt_spans_ok (hi lo : N) (x : rspan * option rspan * option rspan) : Prop :=
  let '(a, c, l) := x in bnd hi lo a /\ obnd hi lo c /\ obnd hi lo l.

Lemma posting_amount_spans : forall n fuel, (n <= fuel)%nat ->
  triple n (posting_amount fuel) (fun i a r => amt_spans_ok (utf8_len i) (utf8_len r) (snd a)).
Proof.
  intros n fuel Hf. unfold posting_amount. eapply triple_conseq.
  - eapply triple_bind; [apply amount_ws_spans; exact Hf | intro am].
    eapply triple_bind; [apply lot_spans; exact Hf | intro lt].
    eapply triple_bind; [apply safe_as_triple; psafe | intro is_at].
    eapply triple_bind; [apply safe_as_triple; psafe | intro is_dat].
    eapply triple_bind; [apply cond_with_span_spans; psafe; auto with psafe | intro cost].
    apply triple_ret.
  - cbv beta. intros i a r _ _ H. tdecomp. cbn [snd amt_spans_ok].
    split; [| split]; span_mono.
Qed.

Lemma triple_opt : forall A n (p : parser A) Q, triple n p Q ->
  triple n (opt p) (fun i a r => match a with Some x => Q i x r | None => True end).
Proof.
  intros A n p Q H i Hi. specialize (H i Hi). unfold opt.
  destruct (p i) as [a r | [] l r | |]; auto with sfx.
Qed.

(* a postcondition on (remaining at start, remaining at end, value) that only improves when
   the end moves further *)
Lemma triple_terminated_mono : forall A B n (p : parser A) (q : parser B) (P : N -> N -> A -> Prop),
  (forall hi lo lo' a, P hi lo a -> lo' <= lo -> P hi lo' a) ->
  triple n p (fun i a r => P (utf8_len i) (utf8_len r) a) -> safe n q ->
  triple n (terminated p q) (fun i a r => P (utf8_len i) (utf8_len r) a).
Proof.
  intros A B n p q P Hmono Hp Hq. unfold terminated. eapply triple_conseq.
  - eapply triple_bind; [exact Hp | intro a].
    eapply triple_bind; [apply safe_as_triple; exact Hq | intro; apply triple_ret].
  - cbv beta. intros i a r _ _ H. tdecomp. eapply Hmono; [eassumption | sfx; lia].
Qed.

Lemma amt_spans_ok_mono : forall hi lo lo' x, amt_spans_ok hi lo x -> lo' <= lo -> amt_spans_ok hi lo' x.
Proof.
  intros hi lo lo' [[a c] l] (H1 & H2 & H3) Hlo. cbn [amt_spans_ok].
  split; [| split]; [eapply bnd_mono | eapply obnd_mono | eapply obnd_mono]; eauto; lia.
Qed.

Definition oamt_spans_ok (hi lo : N) (o : option (s_posting_amount * (rspan * option rspan * option rspan))) : Prop :=
  match o with Some x => amt_spans_ok hi lo (snd x) | None => True end.

Lemma opt_posting_amount_spans : forall n fuel, (n <= fuel)%nat ->
  triple n (context L_amount (opt (terminated (posting_amount fuel) space0)))
         (fun i a r => oamt_spans_ok (utf8_len i) (utf8_len r) a).
Proof.
  intros n fuel Hf. apply triple_context. eapply triple_conseq.
  - apply triple_opt.
    apply (triple_terminated_mono _ _ n (posting_amount fuel) space0
             (fun hi lo a => amt_spans_ok hi lo (snd a))).
    + intros. eapply amt_spans_ok_mono; eauto.
    + apply posting_amount_spans; exact Hf.
    + psafe.
  - cbv beta. intros i a r _ _ H. destruct a; exact H.
Qed.

Lemma opt_balance_spans : forall n fuel, (n <= fuel)%nat ->
  triple n (opt (context L_balance (with_span (delimited (chr 61 ;;; space0) (value_expr fuel) space0))))
         (fun i a r => obnd (utf8_len i) (utf8_len r) (option_map snd a)).
Proof.
  intros n fuel Hf. eapply triple_conseq.
  - apply triple_opt, triple_context, triple_with_span. psafe; auto with psafe.
  - cbv beta. intros i a r _ Hs H. destruct a as [x |]; cbn [option_map obnd]; [| exact I].
    rewrite H. unfold bnd; cbn [fst snd]. sfx. lia.
Qed.

Definition body_spans_ok (hi lo : N) (x : rspan * option rspan * option rspan * option rspan * option rspan) : Prop :=
  let '(a, am, co, lp, ba) := x in
  bnd hi lo a /\ obnd hi lo am /\ obnd hi lo co /\ obnd hi lo lp /\ obnd hi lo ba.

Definition rest_spans_ok (acc : rspan) (hi lo : N)
           (x : rspan * option rspan * option rspan * option rspan * option rspan) : Prop :=
  let '(a, am, co, lp, ba) := x in
  a = acc /\ obnd hi lo am /\ obnd hi lo co /\ obnd hi lo lp /\ obnd hi lo ba.

Lemma posting_body_spans : forall n fuel, (n <= fuel)%nat ->
  triple n (posting_body fuel) (fun i a r => body_spans_ok (utf8_len i) (utf8_len r) (snd a)).
Proof.
  intros n fuel Hf. unfold posting_body. eapply triple_conseq.
  - eapply triple_bind; [apply safe_as_triple; psafe | intro cs].
    eapply triple_bind; [apply triple_context, posting_account_spans; exact Hf | intro acc].
    eapply (triple_bind _ _ n _ _ (fun _ _ _ => True)
              (fun _ i a r => rest_spans_ok (snd acc) (utf8_len i) (utf8_len r) (snd a)));
      [apply safe_as_triple; psafe | intro shortcut].
    destruct shortcut.
    + eapply triple_conseq.
      * eapply triple_bind; [apply safe_as_triple; psafe; auto with psafe | intro md]. apply triple_ret.
      * cbv beta. intros i a r _ _ H. tdecomp. cbn [snd rest_spans_ok obnd]. auto.
    + eapply triple_conseq.
      * eapply triple_bind; [apply opt_posting_amount_spans; exact Hf | intro am].
        eapply triple_bind; [apply opt_balance_spans; exact Hf | intro bal].
        eapply triple_bind; [apply safe_as_triple; psafe; auto with psafe | intro md]. apply triple_ret.
      * cbv beta. intros i a r _ _ H. tdecomp. cbn [snd rest_spans_ok].
        split; [reflexivity |].
        match goal with H : oamt_spans_ok _ _ ?am |- _ =>
          destruct am as [[pa [[s1 s2] s3]] |]; cbn [oamt_spans_ok snd amt_spans_ok] in H end;
        tdecomp; cbn [option_map fst snd obnd];
        repeat (split; [first [exact I | span_mono] |]); first [exact I | span_mono].
  - cbv beta. intros i a r _ _ H. tdecomp.
    destruct a as [p [[[[a0 am] co] lp] ba]]. cbn [snd rest_spans_ok body_spans_ok] in *.
    tdecomp. split; [span_mono |]. repeat (split; [span_mono |]). span_mono.
Qed.

Definition pspans_ok (hi lo : N) (ps : posting_spans) : Prop :=
  bnd hi lo (ps_posting ps) /\ bnd hi lo (ps_account ps) /\ obnd hi lo (ps_amount ps) /\
  obnd hi lo (ps_cost ps) /\ obnd hi lo (ps_lot_price ps) /\ obnd hi lo (ps_balance ps).

Lemma pspans_ok_mono : forall hi lo hi' lo' ps,
  pspans_ok hi lo ps -> hi <= hi' -> lo' <= lo -> pspans_ok hi' lo' ps.
Proof.
  unfold pspans_ok. intros hi lo hi' lo' ps (H1 & H2 & H3 & H4 & H5 & H6) Hh Hl.
  split; [| split; [| split; [| split; [| split]]]];
    first [eapply bnd_mono; eauto | eapply obnd_mono; eauto].
Qed.

Lemma triple_with_span_keep : forall A n (p : parser A) Q, triple n p Q ->
  triple n (with_span p) (fun i a r => Q i (fst a) r /\ snd a = (utf8_len i, utf8_len r)).
Proof.
  intros A n p Q H i Hi. specialize (H i Hi). unfold with_span. destruct (p i); auto.
  destruct H; auto.
Qed.

Lemma posting_spans_ok : forall n fuel, (n <= fuel)%nat ->
  triple n (posting fuel) (fun i a r => pspans_ok (utf8_len i) (utf8_len r) (snd a)).
Proof.
  intros n fuel Hf. unfold posting, pmap. eapply triple_conseq.
  - eapply triple_bind;
      [apply triple_with_span_keep, triple_context, posting_body_spans; exact Hf | intro x].
    apply triple_ret.
  - cbv beta. intros i a r _ Hs H. tdecomp.
    destruct x as [[p [[[[a0 am] co] lp] ba]] sp]. cbn [fst snd body_spans_ok] in *. tdecomp.
    unfold pspans_ok. cbn [ps_posting ps_account ps_amount ps_cost ps_lot_price ps_balance snd].
    split; [unfold bnd; cbn [fst snd]; sfx; lia |].
    repeat (split; [span_mono |]). span_mono.
Qed.

(* repeat(0.., p) when every element carries spans *)
Lemma many0_forall : forall A n (p : parser A) (P : N -> N -> A -> Prop),
  (forall hi lo hi' lo' a, P hi lo a -> hi <= hi' -> lo' <= lo -> P hi' lo' a) ->
  triple n p (fun i a r => (length r < length i)%nat /\ P (utf8_len i) (utf8_len r) a) ->
  forall f i, (length i <= f)%nat -> (length i <= n)%nat ->
    match many0 f p i with
    | POk l r => suffix r i /\ Forall (P (utf8_len i) (utf8_len r)) l
    | PErr _ _ r => suffix r i
    | _ => False
    end.
Proof.
  intros A n p P Hmono Hp. induction f; intros i Hf Hn; simpl.
  - specialize (Hp i Hn). destruct (p i) as [a r | [] l r | |]; auto with sfx.
    destruct Hp as [_ [Hlt _]]. lia.
  - specialize (Hp i Hn). destruct (p i) as [a r | [] l r | |]; auto with sfx.
    destruct Hp as [Hs [Hlt HP]]. rewrite consumed_true by assumption.
    assert (H1 : (length r <= f)%nat) by lia.
    assert (H2 : (length r <= n)%nat) by lia.
    specialize (IHf r H1 H2). destruct (many0 f p r) as [l r' | c l r' | |]; auto.
    + destruct IHf as [Hs' Hall]. split; [eapply suffix_trans; eauto |].
      constructor.
      * eapply Hmono; [eassumption | lia | sfx; lia].
      * eapply Forall_impl; [| exact Hall]. intros a0 Ha0. eapply Hmono; [eassumption | sfx; lia | lia].
    + eapply suffix_trans; eauto.
Qed.
Lemma triple_many0_forall : forall A n f (p : parser A) (P : N -> N -> A -> Prop),
  (forall hi lo hi' lo' a, P hi lo a -> hi <= hi' -> lo' <= lo -> P hi' lo' a) ->
  (n <= f)%nat ->
  triple n p (fun i a r => (length r < length i)%nat /\ P (utf8_len i) (utf8_len r) a) ->
  triple n (many0 f p) (fun i l r => Forall (P (utf8_len i) (utf8_len r)) l).
Proof.
  intros A n f p P Hmono Hf Hp i Hi.
  pose proof (many0_forall A n p P Hmono Hp f i) as H.
  assert (H1 : (length i <= f)%nat) by lia. specialize (H H1 Hi).
  destruct (many0 f p i); auto.
Qed.

Lemma transaction_spans : forall n fuel, (n <= fuel)%nat ->
  triple n (transaction fuel)
         (fun i a r => (length r < length i)%nat /\ Forall (pspans_ok (utf8_len i) (utf8_len r)) (snd a)).
Proof.
  intros n fuel Hf. apply triple_and; [apply cons_transaction; exact Hf |].
  unfold transaction, till_line_ending_or_semi. eapply triple_conseq.
  - eapply triple_bind; [apply safe_as_triple; apply cons_safe, triple_context, cons_date | intro d].
    eapply triple_bind; [apply safe_as_triple; psafe | intro ed].
    eapply triple_bind; [apply safe_as_triple; psafe | intro is_shortest].
    eapply triple_bind; [apply safe_as_triple; psafe | intro u].
    eapply triple_bind; [apply safe_as_triple; psafe | intro cs].
    eapply triple_bind; [apply safe_as_triple; psafe | intro code].
    eapply triple_bind; [apply safe_as_triple; psafe | intro payee].
    eapply triple_bind; [apply safe_as_triple; psafe; auto with psafe | intro md].
    eapply triple_bind; [| intro posts; apply triple_ret].
    apply (triple_many0_forall _ n fuel _ (fun hi lo a => pspans_ok hi lo (snd a))).
    + intros. eapply pspans_ok_mono; eauto.
    + exact Hf.
    + apply triple_and.
      * apply cons_preceded_l; auto with psafe. psafe.
      * unfold preceded. eapply triple_conseq.
        -- eapply triple_bind; [apply safe_as_triple; apply cons_safe, cons_posting_indent | intro].
           apply triple_cut_err, posting_spans_ok. exact Hf.
        -- cbv beta. intros i a r _ _ H. tdecomp.
           eapply pspans_ok_mono; [eassumption | sfx; lia | lia].
  - cbv beta. intros i a r _ _ H. tdecomp. cbn [snd].
    match goal with H : Forall _ ?posts |- _ => revert H; generalize posts end.
    intros posts Hall. rewrite Forall_map. eapply Forall_impl; [| exact Hall].
    intros a Ha. cbv beta in Ha. eapply pspans_ok_mono; [eassumption | sfx; lia | sfx; lia].
Qed.

Lemma parse_ledger_entry_spans : forall n fuel, (n <= fuel)%nat ->
  triple n (parse_ledger_entry fuel)
         (fun i a r => (length r < length i)%nat /\ Forall (pspans_ok (utf8_len i) (utf8_len r)) (snd a)).
Proof.
  intros n fuel Hf. apply triple_and; [apply cons_parse_ledger_entry; exact Hf |].
  assert (Nil : forall (p : parser s_entry), safe n p ->
            triple n (pmap (fun e => (e, @nil posting_spans)) p)
                   (fun i a r => Forall (pspans_ok (utf8_len i) (utf8_len r)) (snd a))).
  { intros p Hp. unfold pmap. eapply triple_conseq.
    - eapply triple_bind; [apply safe_as_triple; exact Hp | intro; apply triple_ret].
    - cbv beta. intros i a r _ _ H. tdecomp. constructor. }
  intros i Hi. unfold parse_ledger_entry.
  destruct i as [| c t]; [simpl; auto with sfx |].
  set (i := c :: t) in *.
  destruct (N.eqb c 97).
  { match goal with |- match alt ?p ?q i with _ => _ end =>
      assert (S : triple n (alt p q) (fun i a r => Forall (pspans_ok (utf8_len i) (utf8_len r)) (snd a))) end.
    { apply triple_alt; unfold preceded.
      - eapply triple_conseq.
        + eapply triple_bind; [apply safe_as_triple; psafe | intro].
          apply triple_cut_err, Nil. auto with psafe.
        + cbv beta. intros j a r _ _ H. tdecomp.
          eapply Forall_impl; [| eassumption]. intros ps Hps. cbv beta in Hps.
          eapply pspans_ok_mono; [eassumption | sfx; lia | lia].
      - eapply triple_conseq.
        + eapply triple_bind; [apply safe_as_triple; psafe | intro].
          apply triple_cut_err, Nil. auto with psafe.
        + cbv beta. intros j a r _ _ H. tdecomp.
          eapply Forall_impl; [| eassumption]. intros ps Hps. cbv beta in Hps.
          eapply pspans_ok_mono; [eassumption | sfx; lia | lia]. }
    apply S; assumption. }
  destruct (N.eqb c 99); [apply Nil; auto with psafe |].
  destruct (N.eqb c 101); [apply Nil; auto with psafe |].
  destruct (N.eqb c 105); [apply Nil; auto with psafe |].
  destruct (is_comment_prefix c); [apply Nil; auto with psafe |].
  destruct (is_digit c); [| simpl; auto with sfx].
  assert (S : triple n (pmap (fun x : s_txn * list posting_spans => (STxn (fst x), snd x)) (transaction fuel))
                     (fun i a r => Forall (pspans_ok (utf8_len i) (utf8_len r)) (snd a))).
  { unfold pmap. eapply triple_conseq.
    - eapply triple_bind; [apply transaction_spans; exact Hf | intro; apply triple_ret].
    - cbv beta. intros j a r _ _ H. tdecomp. cbn [snd].
      eapply Forall_impl; [| eassumption]. intros ps Hps. cbv beta in Hps.
      eapply pspans_ok_mono; [eassumption | lia | sfx; lia]. }
  apply S; assumption.
Qed.
