(* C05: the parser only returns well-formed entries: the image of parse_ledger is inside
   wf_ledger (every entry wf_entry; after a payee that starts with `(` without a code, no `)` in
   anything that follows).  With it the well-formedness hypothesis of the round trip is
   discharged for every text that parses. *)
From Coq Require Import List NArith ZArith Bool Lia Arith.
From Okv Require Import Model.Lit Model.Syntax Model.Comb Model.ParseExpr Model.ParseMeta
  Model.ParsePosting Model.ParseTxn Model.ParseDirective Model.ParseLedger Model.Display
  Model.RoundTripSpec
  Proofs.CombSpec Proofs.ParseTotal Proofs.RoundTripBase Proofs.RoundTripMeta Proofs.RoundTripSame
  Proofs.RoundTripLedger
  Proofs.RoundTripImageExpr Proofs.RoundTripImageDirective Proofs.RoundTripImageTxn Proofs.RoundTripImageNo41.
Import ListNotations.
Open Scope N_scope.

Lemma pmap_inv' : forall A B (f : A -> B) (p : parser A) i b r,
  pmap f p i = POk b r -> exists a, p i = POk a r /\ b = f a.
Proof.
  intros A B f p i b r H. unfold pmap, bind, ret in H. destruct (p i) as [a r0 | | |]; try discriminate.
  inversion H; subst. eauto.
Qed.

Lemma preceded_peek_cut_inv : forall A (kw : list N) (p : parser A) i a r,
  preceded (peek (literal kw)) (cut_err p) i = POk a r -> p i = POk a r.
Proof.
  intros A kw p i a r H. unfold preceded, bind, peek in H.
  destruct (literal kw i) as [x r0 | | |]; try discriminate.
  unfold cut_err in H. destruct (p i) as [y r1 | | |]; try discriminate. exact H.
Qed.

(* which parser produced an entry *)
Inductive entry_from (fuel : nat) (i : list N) (e : s_entry) (sps : list posting_spans) (r : list N) : Prop :=
| from_directive : wf_entry e = true -> entry_open_paren e = false -> entry_from fuel i e sps r
| from_txn : forall t, e = STxn t -> transaction fuel i = POk (t, sps) r -> entry_from fuel i e sps r.

Lemma directive_not_open : forall e, (match e with STxn _ => False | _ => True end) -> entry_open_paren e = false.
Proof. intros [] H; try reflexivity. contradiction. Qed.

Definition not_txn (e : s_entry) : Prop := match e with STxn _ => False | _ => True end.

Lemma okv_ret' : forall A (a : A) (P : A -> Prop), P a -> ok_val (ret a) P.
Proof. intros A a P H i x r E. unfold ret in E. inversion E; subst. exact H. Qed.

Lemma account_declaration_not_txn : forall fuel, ok_val (account_declaration fuel) not_txn.
Proof.
  intros. unfold account_declaration. eapply okv_bind; [apply okv_any |]. intros name _.
  eapply okv_bind; [apply okv_any |]. intros ds _. apply okv_ret'. exact I.
Qed.
Lemma commodity_declaration_not_txn : forall fuel, ok_val (commodity_declaration fuel) not_txn.
Proof.
  intros. unfold commodity_declaration. eapply okv_bind; [apply okv_any |]. intros name _.
  eapply okv_bind; [apply okv_any |]. intros ds _. apply okv_ret'. exact I.
Qed.
Lemma apply_tag_not_txn : ok_val apply_tag not_txn.
Proof.
  unfold apply_tag. eapply okv_bind; [apply okv_any |]. intros key _.
  eapply okv_bind; [apply okv_any |]. intros v _. apply okv_ret'. exact I.
Qed.
Lemma end_apply_tag_not_txn : ok_val end_apply_tag not_txn.
Proof.
  unfold end_apply_tag. repeat (eapply okv_bind; [apply okv_any |]; intros ? _). apply okv_ret'. exact I.
Qed.
Lemma include_not_txn : ok_val include not_txn.
Proof. unfold include. apply okv_pmap. intros i a r _. exact I. Qed.
Lemma top_comment_not_txn : forall fuel, ok_val (top_comment fuel) not_txn.
Proof. intros. unfold top_comment. apply okv_pmap. intros i a r _. exact I. Qed.

Theorem parse_ledger_entry_from : forall fuel i e sps r,
  parse_ledger_entry fuel i = POk (e, sps) r -> entry_from fuel i e sps r.
Proof.
  intros fuel i e sps r H. unfold parse_ledger_entry in H. destruct i as [| c t]; [discriminate |].
  destruct (c =? 97).
  { apply alt_inv in H. destruct H as [H | H]; apply preceded_peek_cut_inv in H;
      apply pmap_inv' in H; destruct H as (e0 & H & Ee); inversion Ee; subst; apply from_directive.
    - eapply account_declaration_wf; eauto.
    - apply directive_not_open. eapply account_declaration_not_txn; eauto.
    - eapply apply_tag_wf; eauto.
    - apply directive_not_open. eapply apply_tag_not_txn; eauto. }
  destruct (c =? 99).
  { apply pmap_inv' in H. destruct H as (e0 & H & Ee). inversion Ee; subst. apply from_directive.
    - eapply (commodity_declaration_wf amount_wf); eauto.
    - apply directive_not_open. eapply commodity_declaration_not_txn; eauto. }
  destruct (c =? 101).
  { apply pmap_inv' in H. destruct H as (e0 & H & Ee). inversion Ee; subst. apply from_directive.
    - eapply end_apply_tag_wf; eauto.
    - apply directive_not_open. eapply end_apply_tag_not_txn; eauto. }
  destruct (c =? 105).
  { apply pmap_inv' in H. destruct H as (e0 & H & Ee). inversion Ee; subst. apply from_directive.
    - eapply include_wf; eauto.
    - apply directive_not_open. eapply include_not_txn; eauto. }
  destruct (is_comment_prefix c).
  { apply pmap_inv' in H. destruct H as (e0 & H & Ee). inversion Ee; subst. apply from_directive.
    - eapply top_comment_wf; eauto.
    - apply directive_not_open. eapply top_comment_not_txn; eauto. }
  destruct (Comb.is_digit c); [| discriminate].
  apply pmap_inv' in H. destruct H as ([t0 sps0] & H & Ee). inversion Ee; subst. cbn [fst snd] in *.
  eapply from_txn; [reflexivity | exact H].
Qed.

Theorem parse_ledger_entry_wf : forall fuel i e sps r,
  parse_ledger_entry fuel i = POk (e, sps) r -> wf_entry e = true.
Proof.
  intros fuel i e sps r H. destruct (parse_ledger_entry_from _ _ _ _ _ H) as [W _ | t -> T]; [exact W |].
  cbn [wf_entry]. eapply (transaction_wf value_expr_wf posting_amount_wf date_wf); eauto.
Qed.

(* the entries from a point of the text on: well formed as a ledger, and without `)` when the
   text from there on has none *)
Lemma entries_loop_wf : forall fuel n bs total i acc es,
  entries_loop fuel n bs total i acc = LOk es ->
  exists tl, es = rev acc ++ tl /\ wf_ledger (map e_entry tl) = true /\
             (no41 i = true -> forallb np_entry (map e_entry tl) = true).
Proof.
  intros fuel. induction n as [| n IH]; intros bs total i acc es H; [discriminate |].
  cbn [entries_loop] in H.
  destruct (vertical_space fuel i) as [u r | c l st | w |] eqn:V; try discriminate.
  - destruct r as [| c0 r0].
    + inversion H; subst. exists []. rewrite app_nil_r. repeat split; reflexivity.
    + unfold with_span in H.
      destruct (parse_ledger_entry fuel (c0 :: r0)) as [[e sps] r' | c l st | w |] eqn:E; try discriminate.
      * cbn [abs_span fst snd] in H.
        destruct (compute_line_number bs (total - utf8_len (c0 :: r0))) as [ln |]; [| discriminate].
        destruct (consumed (c0 :: r0) r'); [| discriminate].
        destruct (IH _ _ _ _ _ H) as (tl & Ees & Wtl & Ntl).
        eexists (_ :: tl). split; [rewrite Ees; cbn [rev]; rewrite <- app_assoc; reflexivity |].
        cbn [map e_entry wf_ledger forallb]. split.
        -- rewrite (parse_ledger_entry_wf _ _ _ _ _ E), Wtl. cbn [andb]. rewrite andb_true_r.
           destruct (parse_ledger_entry_from _ _ _ _ _ E) as [_ Q | t -> T]; [rewrite Q; reflexivity |].
           cbn [entry_open_paren]. destruct (open_paren_payee t) eqn:Op; [| reflexivity].
           destruct (transaction_open_paren_np _ _ _ _ _ T Op) as [N1 N2].
           cbn [negb orb np_entry]. rewrite N1, (Ntl N2). reflexivity.
        -- intros Ni. pose proof (vertical_space_np _ _ _ _ Ni V) as Nr.
           destruct (parse_ledger_entry_np _ _ _ _ _ Nr E) as [N1 N2].
           rewrite N1, (Ntl N2). reflexivity.
      * destruct (parse_error_new bs total i st c l); discriminate.
  - destruct (parse_error_new bs total i st c l); discriminate.
Qed.

Theorem parser_image_wf : forall s es, parse_ledger s = LOk es -> wf_ledger (map e_entry es) = true.
Proof.
  intros s es H. unfold parse_ledger in H. destruct (entries_loop_wf _ _ _ _ _ _ _ H) as (tl & E & W & _).
  cbn [rev app] in E. subst tl. exact W.
Qed.

(* ---- formatting a parsed text ---- *)
Theorem format_preserves_parsed : forall w s es,
  parse_ledger s = LOk es ->
  exists es', parse_ledger (format_entries w (map e_entry es)) = LOk es' /\
              same_meaning (map e_entry es) (map e_entry es').
Proof. intros w s es H. apply format_roundtrip. eapply parser_image_wf; eauto. Qed.

Theorem format_idempotent_parsed : forall w s t,
  format_text w s = Some t -> format_text w t = Some t.
Proof.
  intros w s t H. eapply format_idempotent; [exact H |]. intros es E. eapply parser_image_wf; eauto.
Qed.
