(* C05 — documented syntax is read; formatting preserves meaning and is idempotent.

   PRINT-PARSE ROUND TRIP (printer model Model/Display.v, parser model Model/Parse*.v, for every
   display-width oracle `width`): covered constructs = ALL constructs of the syntax tree:
   numeric literal in context, amount, value expression (parentheses, + - * / chains in
   left-fold normal form, unary minus), lot price {..} / {{..}}, lot date, lot note, cost @ / @@,
   posting line (indent, clear mark, account, padding, amount, lot, cost, balance assertion,
   metadata lines), metadata (comment / word tags / key: value / key:: expr), transaction
   header (date, effective date, clear mark, code, payee), whole transaction, top-level
   comment, account / commodity declarations with comment / note / alias / format
   sub-directives, apply tag, end apply tag, include, and the entry iterator with the blank
   line that `format` puts after every entry.
   The trees on which the round trip holds are the ones satisfying `wf_entry`
   (Model/RoundTripSpec.v, one executable boolean per construct), in a list satisfying
   `wf_ledger` (every entry wf_entry, and - the one condition that is not local to an entry -
   after a transaction without code whose payee starts with `(`, nothing that is printed with a
   `)`); `same_meaning` is equality up to the number-format flag of numbers whose integer part
   has fewer than four digits.  C05_parser_image_wf shows that parse_ledger only returns such
   lists, so C05_format_preserves and C05_format_idempotent hold for EVERY text that parses,
   with no side condition.

   DOCUMENTED GRAMMAR ACCEPTED: C05_grammar_accepted_txn_partial covers every construct of
   doc/syntax.md (Model/DocGrammar.v and Model/DocGrammarTxn.v, where every transcription choice
   is listed): ledger-file structure, vertical-space (sp* new-line), new-line including <EOF> for
   the last line, LF and CRLF line ends, top-level comments (all five prefixes, blocks of lines),
   include, apply tag (key, key: value, key:: expr), end apply tag, account and commodity
   declarations with note / alias / comment sub-directives, any Unicode text in names and
   comments, and transactions: header (date with either separator, effective date, clear mark,
   code, payee), metadata lines (tag words, key: value, comment), postings (indent, clear mark,
   account, "  " or tab, value expression with arbitrary sp*: parentheses up to 100 deep, a syntax
   tree up to 256 high (so chains of up to 255 operators), + - * /, unary minus, amount = documented decimal that fits 96 bits / 28 places with optional
   commodity; lot price / date / note in any order, cost @ / @@, balance assertion).
   (C05_grammar_accepted_partial is the earlier theorem without transactions; it is implied.)
   Still NOT covered by the acceptance theorem (hence `_partial`): metadata written on the same
   line as a posting or as the transaction header (`posting-line metadata? new-line`), and
   `commodity-format`, which the doc names but never defines.  Documented texts that the parser
   rejects, each excluded from the grammar by a listed choice with a vm_compute witness in
   Proofs/DocAcceptTxn.v (the finding_ examples): an account of Unicode white space only, a comment like
   `:a: hello`, an account that starts with * or ! without a mark, a payee that starts with (
   without a code when a ) follows later, a day that does not exist, a number over 96 bits,
   parentheses more than 100 deep (F7), an expression whose syntax tree is more than 256 high, e.g.
   256 numbers joined by + in parentheses (C06-F23). *)
From Coq Require Import List NArith.
From Okv Require Import Model.Lit Model.Syntax Model.Comb Model.ParseExpr Model.ParseMeta Model.ParsePosting
  Model.ParseTxn Model.ParseLedger Model.Display Model.DocGrammar Model.RoundTripSpec
  Model.DocGrammarTxn Proofs.DocAccept Proofs.DocAcceptTxn Proofs.RoundTripNum Proofs.RoundTripExpr Proofs.RoundTripLot Proofs.RoundTripMeta
  Proofs.RoundTripPosting Proofs.RoundTripTxn Proofs.RoundTripDirective Proofs.RoundTripSame
  Proofs.RoundTripLedger Proofs.RoundTripImage.
Import ListNotations.

Theorem C05_grammar_accepted_partial : forall s : list N,
  In_doc_grammar s -> exists es, parse_ledger s = LOk es.
Proof. exact doc_grammar_accepted. Qed.
Print Assumptions C05_grammar_accepted_partial.

(* the documented grammar with transactions *)
Theorem C05_grammar_accepted_txn_partial : forall s : list N,
  In_doc_grammar_txn s -> exists es, parse_ledger s = LOk es.
Proof. exact doc_grammar_txn_accepted. Qed.
Print Assumptions C05_grammar_accepted_txn_partial.

Theorem C05_grammar_txn_extends : forall s : list N, In_doc_grammar s -> In_doc_grammar_txn s.
Proof. exact In_doc_grammar_txn_extends. Qed.
Print Assumptions C05_grammar_txn_extends.

(* ---- the round trip, construct by construct ---- *)
Theorem C05_rt_number : forall d k, wf_num d = true -> starts_not is_decimal_char k ->
  exists d', pretty_decimal (show d ++ k) = POk d' k /\ same_num d d'.
Proof. exact pretty_decimal_show. Qed.
Print Assumptions C05_rt_number.

Theorem C05_rt_date : forall d k, wf_date d = true -> starts_not Comb.is_digit k ->
  ParseExpr.date (fmt_date d ++ k) = POk d k.
Proof. exact date_fmt. Qed.
Print Assumptions C05_rt_date.

Theorem C05_rt_amount : forall a k, wf_amount a = true -> follow_amount a k ->
  exists a', amount (fst (fmt_amount a) ++ k) = POk a' (rest_amount a k) /\ same_amount a a'.
Proof. exact amount_fmt. Qed.
Print Assumptions C05_rt_amount.

Theorem C05_rt_value_expr : forall fuel v k,
  wf_vexpr v = true -> follow_v v k -> (length (show_vexpr v) <= fuel)%nat ->
  exists v', value_expr fuel (show_vexpr v ++ k) = POk v' (rest_vexpr v k) /\ same_v v v'.
Proof. exact value_expr_fmt. Qed.
Print Assumptions C05_rt_value_expr.

Theorem C05_rt_lot : forall fuel l k, wf_lot l = true -> starts_not is_lot_open (skip_sp k) ->
  (length (print_lot l) <= fuel)%nat ->
  exists l' psp, lot fuel (print_lot l ++ k) = POk (l', psp) (skip_sp k) /\ same_lot l l'.
Proof. exact lot_fmt. Qed.
Print Assumptions C05_rt_lot.

Theorem C05_rt_posting_amount : forall fuel pa k,
  wf_posting_amount pa = true -> follow_pa k -> (length (print_pa pa) <= fuel)%nat ->
  exists pa' sps, posting_amount fuel (print_pa pa ++ k) = POk (pa', sps) (rest_pa pa k) /\
                  same_posting_amount pa pa'.
Proof. exact posting_amount_fmt. Qed.
Print Assumptions C05_rt_posting_amount.

Theorem C05_rt_metadata_line : forall fuel m k, wf_metadata m = true ->
  (length (print_metadata m) <= fuel)%nat ->
  line_metadata fuel ([59; 32] ++ print_metadata m ++ 10 :: k) = POk m k.
Proof. exact line_metadata_fmt. Qed.
Print Assumptions C05_rt_metadata_line.

Theorem C05_rt_metadata_block : forall fuel ms k, forallb wf_metadata ms = true -> follow_block k ->
  (length (10%N :: flat_map meta_line ms ++ k) <= fuel)%nat ->
  block_metadata fuel (10 :: flat_map meta_line ms ++ k) = POk ms k.
Proof. exact block_metadata_fmt. Qed.
Print Assumptions C05_rt_metadata_block.

Theorem C05_rt_account : forall fuel a k, wf_account a = true -> follow_account k ->
  (length a <= fuel)%nat ->
  exists sp, posting_account fuel (a ++ k) = POk (a, sp) (skip_sp k).
Proof. exact posting_account_fmt. Qed.
Print Assumptions C05_rt_account.

Theorem C05_rt_posting : forall width fuel p k, wf_posting p = true -> follow_block k ->
  (length (print_posting width p ++ k) <= fuel)%nat ->
  exists p' sps,
    preceded posting_indent (cut_err (posting fuel)) (print_posting width p ++ k) = POk (p', sps) k /\
    same_posting p p'.
Proof. exact posting_item_fmt. Qed.
Print Assumptions C05_rt_posting.

Theorem C05_rt_transaction : forall width fuel t k, wf_txn t = true -> follow_txn k ->
  (open_paren_payee t = true -> no41 (print_txn width t ++ k) = true) ->
  (length (print_txn width t ++ k) <= fuel)%nat ->
  exists t' sps, transaction fuel (print_txn width t ++ k) = POk (t', sps) k /\ same_txn t t'.
Proof. exact transaction_fmt. Qed.
Print Assumptions C05_rt_transaction.

(* every entry (transaction, comment, apply tag, end apply tag, include, account and commodity
   declarations), followed by the blank line `format` writes after it *)
Theorem C05_rt_entry : forall width fuel e k, wf_entry e = true ->
  (entry_open_paren e = true -> no41 (print_entry width e ++ 10 :: k) = true) ->
  (length (print_entry width e ++ 10%N :: k) <= fuel)%nat ->
  exists e' sps, parse_ledger_entry fuel (print_entry width e ++ 10 :: k) = POk (e', sps) (10 :: k) /\
                 same_entry e e'.
Proof. exact entry_fmt. Qed.
Print Assumptions C05_rt_entry.

(* ---- the whole text ---- *)
Theorem C05_roundtrip : forall width es, wf_ledger es = true ->
  exists es', parse_ledger (format_entries width es) = LOk es' /\ same_meaning es (map e_entry es').
Proof. exact format_roundtrip. Qed.
Print Assumptions C05_roundtrip.

(* entries with the same meaning are printed the same *)
Theorem C05_same_meaning_same_text : forall width es es',
  same_meaning es es' -> format_entries width es' = format_entries width es.
Proof. exact same_meaning_format. Qed.
Print Assumptions C05_same_meaning_same_text.

(* the two laws with the well-formedness of the entries as the hypothesis *)
Theorem C05_format_preserves_wf : forall width s es,
  parse_ledger s = LOk es -> wf_ledger (map e_entry es) = true ->
  exists es', parse_ledger (format_entries width (map e_entry es)) = LOk es' /\
              same_meaning (map e_entry es) (map e_entry es').
Proof. exact format_preserves. Qed.
Print Assumptions C05_format_preserves_wf.

Theorem C05_format_idempotent_wf : forall width s t,
  format_text width s = Some t ->
  (forall es, parse_ledger s = LOk es -> wf_ledger (map e_entry es) = true) ->
  format_text width t = Some t.
Proof. exact format_idempotent. Qed.
Print Assumptions C05_format_idempotent_wf.

(* ---- the parser only returns well-formed entries ---- *)
Theorem C05_parser_image_number : forall i d r, pretty_decimal i = POk d r -> wf_num d = true.
Proof. exact RoundTripImageExpr.pretty_decimal_wf. Qed.
Print Assumptions C05_parser_image_number.

Theorem C05_parser_image_value_expr : forall fuel i v r, value_expr fuel i = POk v r -> wf_vexpr v = true.
Proof. exact RoundTripImageExpr.value_expr_wf. Qed.
Print Assumptions C05_parser_image_value_expr.

Theorem C05_parser_image_posting_amount : forall fuel i pa sps r,
  posting_amount fuel i = POk (pa, sps) r -> wf_posting_amount pa = true.
Proof. exact RoundTripImageExpr.posting_amount_wf. Qed.
Print Assumptions C05_parser_image_posting_amount.

Theorem C05_parser_image_metadata : forall fuel i ms r,
  block_metadata fuel i = POk ms r -> forallb wf_metadata ms = true.
Proof. exact block_metadata_wf. Qed.
Print Assumptions C05_parser_image_metadata.

Theorem C05_parser_image_posting : forall fuel i p sps r,
  posting fuel i = POk (p, sps) r -> wf_posting p = true.
Proof.
  exact (RoundTripImageTxn.posting_wf RoundTripImageExpr.value_expr_wf RoundTripImageExpr.posting_amount_wf
           RoundTripImageExpr.date_wf).
Qed.
Print Assumptions C05_parser_image_posting.

Theorem C05_parser_image_transaction : forall fuel i t sps r,
  transaction fuel i = POk (t, sps) r -> wf_txn t = true.
Proof.
  exact (RoundTripImageTxn.transaction_wf RoundTripImageExpr.value_expr_wf RoundTripImageExpr.posting_amount_wf
           RoundTripImageExpr.date_wf).
Qed.
Print Assumptions C05_parser_image_transaction.

Theorem C05_parser_image_entry : forall fuel i e sps r,
  parse_ledger_entry fuel i = POk (e, sps) r -> wf_entry e = true.
Proof. exact parse_ledger_entry_wf. Qed.
Print Assumptions C05_parser_image_entry.

(* a transaction whose payee starts with `(` without a code was read from a text without `)`
   from there on: the transaction and the rest of the text have none *)
Theorem C05_parser_image_open_paren : forall fuel i t sps r,
  transaction fuel i = POk (t, sps) r -> open_paren_payee t = true -> np_txn t = true /\ no41 r = true.
Proof. exact RoundTripImageNo41.transaction_open_paren_np. Qed.
Print Assumptions C05_parser_image_open_paren.

(* everything parse_ledger returns is a well-formed ledger *)
Theorem C05_parser_image_wf : forall s es,
  parse_ledger s = LOk es -> wf_ledger (map e_entry es) = true.
Proof. exact parser_image_wf. Qed.
Print Assumptions C05_parser_image_wf.

(* ---- the two laws, for every text ----
   formatting preserves meaning: for every text that parses, the formatted text parses to
   entries with the same meaning *)
Theorem C05_format_preserves : forall width s es,
  parse_ledger s = LOk es ->
  exists es', parse_ledger (format_entries width (map e_entry es)) = LOk es' /\
              same_meaning (map e_entry es) (map e_entry es').
Proof. exact format_preserves_parsed. Qed.
Print Assumptions C05_format_preserves.

(* formatting formatted text returns it unchanged *)
Theorem C05_format_idempotent : forall width s t,
  format_text width s = Some t -> format_text width t = Some t.
Proof. exact format_idempotent_parsed. Qed.
Print Assumptions C05_format_idempotent.
