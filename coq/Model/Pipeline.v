(* The stages composed: a file system whose files are TEXTS, loaded as core/src/load.rs does it
   (Loader::load_impl: canonicalise, cycle check, read, then `for parsed in parse_ledger(..)`:
   an include is expanded in place, every other entry is handed to the callback with the
   path of its file and its ParsedContext; the first syntax error of a file ends the load with
   LoadError::Parse(error, path) AFTER the entries before it), followed by what
   report::process and the balance / register commands do with the delivered entries
   (Model/Lower.v, Model/Named.v, Model/Convert.v, Model/Render.v).  Definitions only.

   Files are parsed when they are visited (`loadt`), never up front: a file with a syntax
   error that no include reaches is harmless.  `parse_fs` is the same file system seen
   through Model/Load.v's abstraction (`Inc written | Ent index`), parsed up front;
   Proofs/PipelineLoad.v proves that `loadt` is `loadc` over it up to the first syntax error
   met, which is how the theorems about `loadc` / `expands` / `cut_of` carry over. *)
From Coq Require Import List NArith ZArith Bool QArith Qcanon.
From Okv Require Import Base.Maps Base.Dec Model.Lit Model.Syntax Model.Glob Model.Load Model.ParseLedger
     Model.Amount Model.Book Model.Query Model.Render Model.PriceDb Model.PriceHazard Model.Convert
     Model.Intern Model.Named Model.Lower.
Import ListNotations.
Open Scope N_scope.

(* ---------- the concrete file system ---------- *)

(* canonical path |-> text (Unicode scalar values), as FakeFileSystem's map / a directory tree *)
Definition tfs := list (path * list N).

Fixpoint tlookup (p : path) (fs : tfs) : option (list N) :=
  match fs with
  | [] => None
  | (k, t) :: r => if path_eqb k p then Some t else tlookup p r
  end.

(* the entries the iterator yields before it ends or fails *)
Definition parsed_of (text : list N) : list parsed_entry :=
  match parse_ledger text with LOk es | LErr es _ => es | _ => [] end.

(* ---------- seen through Model/Load.v ---------- *)

(* the i-th entry of a file is `Inc written` when it is an include, else `Ent i` *)
Fixpoint abs_entries (i : N) (es : list parsed_entry) : list Load.entry :=
  match es with
  | [] => []
  | e :: r => (match e_entry e with SInclude w => Inc w | _ => Ent i end) :: abs_entries (i + 1) r
  end.

Definition parse_fs (fs : tfs) : fsys := map (fun kt => (fst kt, abs_entries 0 (parsed_of (snd kt)))) fs.

(* the same keys with nothing parsed: all that FileSystem::glob looks at *)
Definition keys_fs (fs : tfs) : fsys := map (fun kt => (fst kt, @nil Load.entry)) fs.

(* ---------- the loader on texts ---------- *)

(* what the callback receives: the canonical path of the file, and the ParsedContext / entry
   (l_index, the position among the file's entries, is book-keeping of the model only) *)
Record loaded := { l_path : path; l_index : N; l_parsed : parsed_entry }.

Inductive tstatus :=
| TDone
| TFailed (e : lerr)                       (* the LoadErrors of Model/Load.v *)
| TParse (p : path) (e : parse_error)      (* LoadError::Parse(e, p) *)
| THazard (p : path)                       (* the parser's hazard values on the text of p *)
| TOutOfFuel.

Definition trun := (list loaded * tstatus)%type.

Definition tthen (a b : trun) : trun :=
  match snd a with
  | TDone => (fst a ++ fst b, snd b)
  | _ => a
  end.

Definition tload_all (ld : path -> trun) (ps : list path) : trun :=
  fold_right (fun p acc => tthen (ld p) acc) ([], TDone) ps.

(* the for loop over the entries of the file at cp, from its i-th entry on; `last` is how the
   iterator ends: TDone at the end of the text, TParse cp e at a syntax error *)
Fixpoint tload_entries (ld : path -> trun) (keys : fsys) (cp : path) (i : N) (es : list parsed_entry)
                       (last : tstatus) : trun :=
  match es with
  | [] => ([], last)
  | e :: r =>
      match e_entry e with
      | SInclude w =>
          match include_targets keys cp w with
          | inl x => ([], TFailed x)
          | inr ps => tthen (tload_all ld ps) (tload_entries ld keys cp (i + 1) r last)
          end
      | _ => tthen ([{| l_path := cp; l_index := i; l_parsed := e |}], TDone)
                   (tload_entries ld keys cp (i + 1) r last)
      end
  end.

Fixpoint loadt (fuel : nat) (fs : tfs) (loading : list path) (p : path) : trun :=
  match fuel with
  | O => ([], TOutOfFuel)
  | S f =>
      let cp := canonicalize p in
      if existsb (path_eqb cp) loading then ([], TFailed IncludeCycle)
      else
        match tlookup cp fs with
        | None => ([], TFailed IONotFound)
        | Some text =>
            let ld := loadt f fs (cp :: loading) in
            match parse_ledger text with
            | LOk es => tload_entries ld (keys_fs fs) cp 0 es TDone
            | LErr es e => tload_entries ld (keys_fs fs) cp 0 es (TParse cp e)
            | LPanic _ | LDiverge _ | LFuel => ([], THazard cp)
            end
        end
  end.

(* Loader::load *)
Definition load_texts (fuel : nat) (fs : tfs) (root : path) : trun := loadt fuel fs [] root.

Definition loaded_entries (out : list loaded) : list s_entry := map (fun l => e_entry (l_parsed l)) out.

(* ---------- load, book, report ---------- *)

Inductive fstage := FsLoad | FsParse | FsProcess | FsPrices | FsQuery.

Inductive fr_result :=
| FrLoadError (e : lerr)
| FrParseError (p : path) (e : parse_error)
(* ReportError::BookKeep(e, ErrorContext::new(renderer, path, pctx)): the path and the
   ParsedContext (span of the entry, line of its start) the callback was called with *)
| FrProcessError (p : path) (sp : span) (line_start : N) (e : nerr) (entry : nat)
| FrCommodityNotFound
| FrConversionError (e : conv_err)
| FrReport (balance : list (aid * list (cid * Qc)))
           (register : list (aid * list (cid * Qc) * list (cid * Qc)))
| FrHazard (st : fstage).

(* what the commands do once the entries are booked (the part of Model/Lower.v `pipeline`
   after process) *)
Definition report_of (qfuel : nat) (choose : chooser) (o : report_opts) (tc : list str) (st : nstate)
  : fr_result :=
  let b := n_book st in
  match repository_chk (s_events b) (ro_db o) with
  | None => FrHazard FsPrices
  | Some recs =>
      match conversion_of o tc (n_com st) with
      | inr _ => FrCommodityNotFound
      | inl cv =>
          match balance_query qfuel choose recs b cv (ro_start o) (ro_end o) with
          | COutOfFuel => FrHazard FsQuery
          | CErr e => FrConversionError e
          | COk bal => FrReport (render_balance bal) (render_register (postings_of b None))
          end
      end
  end.

(* report::process on a sequence of entries: names numbered by first appearance, then booked *)
Definition book_entries (es : list s_entry) : nres nstate * nat :=
  let '(_, _, nes) := low_entries [] [] es in process_named nes.

Definition of_status (s : tstatus) (ok : fr_result) : fr_result :=
  match s with
  | TDone => ok
  | TFailed e => FrLoadError e
  | TParse p e => FrParseError p e
  | THazard _ => FrHazard FsParse
  | TOutOfFuel => FrHazard FsLoad
  end.

(* report::process over Loader::load, then the query.  The callback books each entry as it is
   delivered and its error ends the load, so a book-keeping error on a delivered entry comes
   before whatever ended the load later. *)
Definition run_loaded (qfuel : nat) (choose : chooser) (o : report_opts) (r : trun) : fr_result :=
  let '(_, tc, nes) := low_entries [] [] (loaded_entries (fst r)) in
  match process_named nes with
  | (NPanic, _) => FrHazard FsProcess
  | (NErr e, i) =>
      match nth_error (fst r) i with
      | Some l => FrProcessError (l_path l) (e_span (l_parsed l)) (e_line_start (l_parsed l)) e i
      | None => FrHazard FsProcess
      end
  | (NOk st, _) => of_status (snd r) (report_of qfuel choose o tc st)
  end.

Definition run_files (lfuel qfuel : nat) (choose : chooser) (o : report_opts) (fs : tfs) (root : path)
  : fr_result :=
  run_loaded qfuel choose o (load_texts lfuel fs root).

(* the result without the place of a book-keeping error (which file, which span): what two
   ways of cutting the same ledger into files must agree on *)
Definition unplaced (r : fr_result) : fr_result :=
  match r with
  | FrProcessError _ _ _ e i => FrProcessError [] (0, 0) 0 e i
  | _ => r
  end.

Definition is_include (e : s_entry) : bool := match e with SInclude _ => true | _ => false end.
