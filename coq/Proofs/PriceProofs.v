(* Lemmas about Model/PriceDb.v: the Distance order, lookup (as_of), insertion, source
   precedence, the edges read off the events, identity. *)
From Coq Require Import List NArith ZArith Bool QArith Qcanon Lia Sorting.Sorted Permutation.
From Okv Require Import Base.Maps Base.Dec Model.Amount Model.Book Model.PriceDb Model.PriceSpec.
Import ListNotations.
Open Scope Qc_scope.

(* ------------------------------------------------------------------ *)
(* Distance: lexicographic order, as arithmetic                        *)
(* ------------------------------------------------------------------ *)

Definition leP (a b : dist) : Prop :=
  (d_ledger a < d_ledger b)%nat \/
  (d_ledger a = d_ledger b /\
   ((d_all a < d_all b)%nat \/ (d_all a = d_all b /\ (d_stale a <= d_stale b)%Z))).
Definition ltP (a b : dist) : Prop :=
  (d_ledger a < d_ledger b)%nat \/
  (d_ledger a = d_ledger b /\
   ((d_all a < d_all b)%nat \/ (d_all a = d_all b /\ (d_stale a < d_stale b)%Z))).

Lemma dist_leb_iff : forall a b, dist_leb a b = true <-> leP a b.
Proof.
  intros [la na sa] [lb nb sb]. unfold dist_leb, dist_cmp, leP. cbn [d_ledger d_all d_stale].
  destruct (Nat.compare_spec la lb); destruct (Nat.compare_spec na nb);
    destruct (Z.compare_spec sa sb); split; intros; try discriminate; try reflexivity; lia.
Qed.
Lemma dist_ltb_iff : forall a b, dist_ltb a b = true <-> ltP a b.
Proof.
  intros [la na sa] [lb nb sb]. unfold dist_ltb, dist_cmp, ltP. cbn [d_ledger d_all d_stale].
  destruct (Nat.compare_spec la lb); destruct (Nat.compare_spec na nb);
    destruct (Z.compare_spec sa sb); split; intros; try discriminate; try reflexivity; lia.
Qed.
Lemma dist_leb_false_iff : forall a b, dist_leb a b = false <-> ltP b a.
Proof.
  intros a b. split; intros H.
  - destruct (dist_leb a b) eqn:E; [discriminate|].
    assert (~ leP a b) by (intro X; apply dist_leb_iff in X; congruence).
    destruct a as [la na sa], b as [lb nb sb]; unfold leP, ltP in *; cbn [d_ledger d_all d_stale] in *; lia.
  - destruct (dist_leb a b) eqn:E; [|reflexivity]. apply dist_leb_iff in E.
    destruct a as [la na sa], b as [lb nb sb]; unfold leP, ltP in *; cbn [d_ledger d_all d_stale] in *; lia.
Qed.
Lemma dist_ltb_false_iff : forall a b, dist_ltb a b = false <-> leP b a.
Proof.
  intros a b. split; intros H.
  - destruct (dist_ltb a b) eqn:E; [discriminate|].
    assert (~ ltP a b) by (intro X; apply dist_ltb_iff in X; congruence).
    destruct a as [la na sa], b as [lb nb sb]; unfold leP, ltP in *; cbn [d_ledger d_all d_stale] in *; lia.
  - destruct (dist_ltb a b) eqn:E; [|reflexivity]. apply dist_ltb_iff in E.
    destruct a as [la na sa], b as [lb nb sb]; unfold leP, ltP in *; cbn [d_ledger d_all d_stale] in *; lia.
Qed.

Lemma dist_eq : forall a b,
  d_ledger a = d_ledger b -> d_all a = d_all b -> d_stale a = d_stale b -> a = b.
Proof. intros [? ? ?] [? ? ?]; cbn; intros; subst; reflexivity. Qed.

Lemma dist_cmp_eq : forall a b, dist_cmp a b = Eq <-> a = b.
Proof.
  intros [la na sa] [lb nb sb]. unfold dist_cmp. cbn [d_ledger d_all d_stale].
  destruct (Nat.compare_spec la lb); destruct (Nat.compare_spec na nb);
    destruct (Z.compare_spec sa sb); split; intros E; try discriminate; try reflexivity;
    try (inversion E; lia); subst; reflexivity.
Qed.

Ltac dist_arith :=
  repeat match goal with d : dist |- _ =>
    let l := fresh "l" in let n := fresh "n" in let s := fresh "s" in destruct d as [l n s] end;
  unfold leP, ltP, extend, dist0 in *; cbn [d_ledger d_all d_stale] in *;
  repeat match goal with s : source |- _ => destruct s end; try lia.

Lemma leP_refl : forall a, leP a a. Proof. intros; dist_arith. Qed.
Lemma leP_trans : forall a b c, leP a b -> leP b c -> leP a c. Proof. intros; dist_arith. Qed.
Lemma leP_antisym : forall a b, leP a b -> leP b a -> a = b.
Proof. intros a b H1 H2. apply dist_eq; dist_arith. Qed.
Lemma ltP_leP : forall a b, ltP a b -> leP a b. Proof. intros; dist_arith. Qed.
Lemma ltP_irrefl : forall a, ~ ltP a a. Proof. intros a H; dist_arith. Qed.
Lemma leP_ltP_trans : forall a b c, leP a b -> ltP b c -> ltP a c. Proof. intros; dist_arith. Qed.
Lemma ltP_leP_trans : forall a b c, ltP a b -> leP b c -> ltP a c. Proof. intros; dist_arith. Qed.
Lemma ltP_trans : forall a b c, ltP a b -> ltP b c -> ltP a c. Proof. intros; dist_arith. Qed.
Lemma leP_total : forall a b, leP a b \/ ltP b a. Proof. intros; dist_arith. Qed.
Lemma leP_not_ltP : forall a b, leP a b -> ~ ltP b a. Proof. intros a b H1 H2; dist_arith. Qed.
Lemma leP_cases : forall a b, leP a b -> ltP a b \/ a = b.
Proof.
  intros a b H. destruct (leP_total b a) as [H2|H2]; [right; apply leP_antisym; assumption | left; assumption].
Qed.

(* extend is monotone and strictly inflationary *)
Lemma extend_mono : forall a b s st, leP a b -> leP (extend a s st) (extend b s st).
Proof. intros; dist_arith. Qed.
Lemma extend_infl : forall a s st, ltP a (extend a s st).
Proof. intros; dist_arith. Qed.
Lemma extend_stale_nonneg : forall a s st, (0 <= d_stale a)%Z -> (0 <= d_stale (extend a s st))%Z.
Proof. intros; dist_arith. Qed.

(* ------------------------------------------------------------------ *)
(* association lists                                                   *)
(* ------------------------------------------------------------------ *)
Section MapLemmas.
  Context {V : Type}.
  Lemma pget_set_same : forall (k : N) (v : V) m, get k (set k v m) = Some v.
  Proof.
    intros k v m. induction m as [|[k' v'] r IH]; cbn.
    - rewrite N.eqb_refl. reflexivity.
    - destruct (k' =? k)%N eqn:E; cbn; rewrite ?E, ?N.eqb_refl; auto.
  Qed.
  Lemma pget_set_other : forall (k k' : N) (v : V) m, k <> k' -> get k' (set k v m) = get k' m.
  Proof.
    intros k k' v m Hne. induction m as [|[k2 v2] r IH]; cbn.
    - destruct (k =? k')%N eqn:E; [apply N.eqb_eq in E; contradiction | reflexivity].
    - destruct (k2 =? k)%N eqn:E; cbn.
      + apply N.eqb_eq in E; subst k2.
        destruct (k =? k')%N eqn:E2; [apply N.eqb_eq in E2; contradiction | reflexivity].
      + destruct (k2 =? k')%N; auto.
  Qed.
  Lemma keys_set_in : forall (k : N) (v : V) m x, In x (keys (set k v m)) <-> x = k \/ In x (keys m).
  Proof.
    intros k v m x. induction m as [|[k2 v2] r IH]; cbn.
    - intuition.
    - destruct (k2 =? k)%N eqn:E; cbn.
      + apply N.eqb_eq in E; subst. intuition.
      + unfold keys in IH. rewrite IH. intuition.
  Qed.
  Lemma NoDup_keys_set : forall (k : N) (v : V) m, NoDup (keys m) -> NoDup (keys (set k v m)).
  Proof.
    intros k v m. induction m as [|[k2 v2] r IH]; cbn; intros H.
    - constructor; [intros []|constructor].
    - inversion H as [|? ? Hn Hd]; subst. destruct (k2 =? k)%N eqn:E; cbn.
      + apply N.eqb_eq in E; subst. constructor; assumption.
      + constructor; [|apply IH; assumption].
        intro Hin. apply keys_set_in in Hin. destruct Hin as [->|Hin]; [rewrite N.eqb_refl in E; discriminate | contradiction].
  Qed.
  Lemma get_In : forall (k : N) (v : V) m, get k m = Some v -> In (k, v) m.
  Proof.
    intros k v m. induction m as [|[k2 v2] r IH]; cbn; [discriminate|].
    destruct (k2 =? k)%N eqn:E; intros H.
    - apply N.eqb_eq in E; subst. inversion H; subst. left; reflexivity.
    - right; auto.
  Qed.
  Lemma In_get : forall (k : N) (v : V) m, NoDup (keys m) -> In (k, v) m -> get k m = Some v.
  Proof.
    intros k v m. induction m as [|[k2 v2] r IH]; cbn; intros Hnd Hin; [contradiction|].
    inversion Hnd as [|? ? Hn Hd]; subst. destruct Hin as [E|Hin].
    - inversion E; subst. rewrite N.eqb_refl. reflexivity.
    - destruct (k2 =? k)%N eqn:E; [|auto].
      apply N.eqb_eq in E; subst. exfalso. apply Hn. change k with (fst (k, v)). apply in_map. assumption.
  Qed.
  Lemma get_None_not_in : forall (k : N) (m : amap V), get k m = None -> ~ In k (keys m).
  Proof.
    intros k m. induction m as [|[k2 v2] r IH]; cbn; intros H; [tauto|].
    destruct (k2 =? k)%N eqn:E; [discriminate|]. intros [->|Hin]; [rewrite N.eqb_refl in E; discriminate|].
    apply IH; assumption.
  Qed.
End MapLemmas.

Lemma convert_single_identity : forall fuel choose recs c v date,
  convert_single fuel choose recs c v c date = COk (c, v).
Proof. intros. unfold convert_single. rewrite N.eqb_refl. reflexivity. Qed.

(* ------------------------------------------------------------------ *)
(* (date, rate) order, build's sort, and the as-of lookup               *)
(* ------------------------------------------------------------------ *)
Definition dr_leP (a b : Z * Qc) : Prop :=
  (fst a < fst b)%Z \/ (fst a = fst b /\ snd a <= snd b).

Lemma dr_leb_iff : forall a b, dr_leb a b = true <-> dr_leP a b.
Proof.
  intros [da ra] [db rb]. unfold dr_leb, dr_leP. cbn [fst snd].
  destruct (Z.compare_spec da db) as [E|E|E].
  - subst. rewrite Qcle_alt. destruct (ra ?= rb); split; intros H; try discriminate; try reflexivity.
    + right; split; [reflexivity|discriminate].
    + right; split; [reflexivity|discriminate].
    + destruct H as [H|[_ H]]; [lia|]. exfalso; apply H; reflexivity.
  - split; intros _; [left; assumption|reflexivity].
  - split; intros H; [discriminate|]. destruct H as [H|[H _]]; lia.
Qed.

Lemma dr_leP_refl : forall a, dr_leP a a.
Proof. intros a. right. split; [reflexivity|apply Qcle_refl]. Qed.
Lemma dr_leP_trans : forall a b c, dr_leP a b -> dr_leP b c -> dr_leP a c.
Proof.
  intros a b c [H1|[H1 H1']] [H2|[H2 H2']]; unfold dr_leP.
  - left; lia.
  - left; lia.
  - left; lia.
  - right. split; [lia|]. eapply Qcle_trans; eassumption.
Qed.
Lemma dr_leP_total : forall a b, dr_leP a b \/ dr_leP b a.
Proof.
  intros a b. unfold dr_leP. destruct (Z.lt_total (fst a) (fst b)) as [H|[H|H]].
  - left; left; assumption.
  - destruct (Qclt_le_dec (snd a) (snd b)) as [L|L].
    + left; right. split; [assumption|apply Qclt_le_weak; assumption].
    + right; right. split; [symmetry; assumption|assumption].
  - right; left; assumption.
Qed.
Lemma dr_leP_antisym : forall a b, dr_leP a b -> dr_leP b a -> a = b.
Proof.
  intros [da ra] [db rb] [H1|[H1 H1']] [H2|[H2 H2']]; cbn [fst snd] in *; try lia.
  subst. f_equal. apply Qcle_antisym; assumption.
Qed.
Lemma dr_leb_false : forall a b, dr_leb a b = false -> dr_leP b a.
Proof.
  intros a b H. destruct (dr_leP_total a b) as [X|X]; [|assumption].
  apply dr_leb_iff in X. congruence.
Qed.
Lemma dr_leP_date : forall a b, dr_leP a b -> (fst a <= fst b)%Z.
Proof. intros a b [H|[H _]]; lia. Qed.

Lemma dr_insert_in : forall x l y, In y (dr_insert x l) <-> y = x \/ In y l.
Proof.
  intros x l y. induction l as [|z r IH]; cbn.
  - intuition.
  - destruct (dr_leb x z); cbn; [intuition|]. rewrite IH. intuition.
Qed.
Lemma dr_sort_in : forall l y, In y (dr_sort l) <-> In y l.
Proof.
  intros l y. induction l as [|z r IH]; cbn; [tauto|].
  rewrite dr_insert_in, IH. intuition.
Qed.
Lemma dr_insert_sorted : forall x l, StronglySorted dr_leP l -> StronglySorted dr_leP (dr_insert x l).
Proof.
  intros x l H. induction H as [|z r Hs IH Hall]; cbn.
  - constructor; constructor.
  - destruct (dr_leb x z) eqn:E.
    + constructor; [constructor; assumption|].
      apply dr_leb_iff in E. constructor; [assumption|].
      rewrite Forall_forall in *. intros y Hy. eapply dr_leP_trans; [exact E|auto].
    + constructor; [assumption|]. apply dr_leb_false in E.
      rewrite Forall_forall in *. intros y Hy. apply dr_insert_in in Hy. destruct Hy as [->|Hy]; auto.
Qed.
Lemma dr_sort_sorted : forall l, StronglySorted dr_leP (dr_sort l).
Proof. induction l as [|z r IH]; cbn; [constructor|apply dr_insert_sorted; assumption]. Qed.
Lemma dr_sort_nil : forall l, dr_sort l = [] -> l = [].
Proof.
  intros [|z r] H; [reflexivity|]. exfalso.
  assert (X : In z (dr_sort (z :: r))) by (apply dr_sort_in; left; reflexivity).
  rewrite H in X. exact X.
Qed.

(* as_of, one element at a time *)
Lemma as_of_cons : forall x r D,
  as_of (x :: r) D =
  if (fst x <=? D)%Z then match as_of r D with Some y => Some y | None => Some x end else None.
Proof.
  intros x r D. unfold as_of. cbn [partition_point].
  destruct (fst x <=? D)%Z; [|reflexivity].
  destruct (partition_point (fun dr => (fst dr <=? D)%Z) r) as [|k] eqn:E; [reflexivity|].
  cbn [nth_error].
  assert (H : forall l k, partition_point (fun dr : Z * Qc => (fst dr <=? D)%Z) l = S k ->
                          exists y, nth_error l k = Some y).
  { clear. intros l. induction l as [|a l IH]; cbn; intros k H; [discriminate|].
    destruct (fst a <=? D)%Z; [|discriminate]. injection H as H1. destruct k as [|k'].
    - exists a; reflexivity.
    - cbn. apply IH. exact H1. }
  destruct (H r k E) as [y Hy]. rewrite Hy. reflexivity.
Qed.

Lemma as_of_sorted_some : forall rs D d r,
  StronglySorted dr_leP rs -> as_of rs D = Some (d, r) ->
  In (d, r) rs /\ (d <= D)%Z /\
  forall d' r', In (d', r') rs -> (d' <= D)%Z -> dr_leP (d', r') (d, r).
Proof.
  intros rs D d r Hs. revert d r. induction Hs as [|x l Hs IH Hall]; intros d r H.
  - discriminate.
  - rewrite as_of_cons in H. destruct (fst x <=? D)%Z eqn:Ex; [|discriminate].
    apply Z.leb_le in Ex. rewrite Forall_forall in Hall.
    destruct (as_of l D) as [[d0 r0]|] eqn:El.
    + inversion H; subst. destruct (IH d r eq_refl) as (Hin & Hd & Hmax).
      split; [right; assumption|]. split; [assumption|].
      intros d' r' [E|Hin'] Hle.
      * subst x. apply Hall. assumption.
      * apply Hmax; assumption.
    + inversion H; subst x. split; [left; reflexivity|]. split; [assumption|].
      intros d' r' [E|Hin'] Hle.
      * inversion E; subst. apply dr_leP_refl.
      * exfalso. (* as_of l D = None although an element of l is dated <= D *)
        clear IH H. induction l as [|y l' IHl]; [contradiction|].
        rewrite as_of_cons in El. destruct (fst y <=? D)%Z eqn:Ey.
        -- destruct (as_of l' D); discriminate.
        -- apply Z.leb_gt in Ey. inversion Hs as [|? ? Hs' Hall']; subst.
           rewrite Forall_forall in Hall'. destruct Hin' as [E|Hin'].
           ++ subst y. cbn in Ey. lia.
           ++ specialize (Hall' _ Hin'). apply dr_leP_date in Hall'. cbn in Hall'. lia.
Qed.

Lemma as_of_sorted_none : forall rs D,
  StronglySorted dr_leP rs ->
  (as_of rs D = None <-> forall d r, In (d, r) rs -> (D < d)%Z).
Proof.
  intros rs D Hs. induction Hs as [|x l Hs IH Hall].
  - split; [intros _ d r []|reflexivity].
  - rewrite as_of_cons. rewrite Forall_forall in Hall. destruct (fst x <=? D)%Z eqn:Ex.
    + apply Z.leb_le in Ex. split.
      * destruct (as_of l D); discriminate.
      * intros H. destruct x as [dx rx]. specialize (H dx rx (or_introl eq_refl)). cbn in Ex. lia.
    + apply Z.leb_gt in Ex. split; [|reflexivity]. intros _ d r [E|Hin].
      * subst x. exact Ex.
      * specialize (Hall _ Hin). apply dr_leP_date in Hall. cbn in Hall. lia.
Qed.

(* the statement used by the property: on what `build` stores *)
Lemma as_of_build_some : forall rs D d r,
  as_of (dr_sort rs) D = Some (d, r) <->
  In (d, r) rs /\ (d <= D)%Z /\
  forall d' r', In (d', r') rs -> (d' <= D)%Z -> dr_leP (d', r') (d, r).
Proof.
  intros rs D d r. split.
  - intros H. destruct (as_of_sorted_some _ _ _ _ (dr_sort_sorted rs) H) as (Hin & Hd & Hmax).
    split; [apply dr_sort_in; assumption|]. split; [assumption|].
    intros d' r' Hin' Hle. apply Hmax; [apply dr_sort_in; assumption|assumption].
  - intros (Hin & Hd & Hmax).
    destruct (as_of (dr_sort rs) D) as [[d0 r0]|] eqn:E.
    + destruct (as_of_sorted_some _ _ _ _ (dr_sort_sorted rs) E) as (Hin0 & Hd0 & Hmax0).
      f_equal. apply dr_leP_antisym.
      * apply Hmax; [apply dr_sort_in; assumption|assumption].
      * apply Hmax0; [apply dr_sort_in; assumption|assumption].
    + exfalso. pose proof (proj1 (as_of_sorted_none _ D (dr_sort_sorted rs)) E) as E'.
      specialize (E' d r (proj2 (dr_sort_in rs (d, r)) Hin)). lia.
Qed.
Lemma as_of_build_none : forall rs D,
  as_of (dr_sort rs) D = None <-> forall d r, In (d, r) rs -> (D < d)%Z.
Proof.
  intros rs D. split; intros H.
  - pose proof (proj1 (as_of_sorted_none _ D (dr_sort_sorted rs)) H) as H'.
    intros d r Hin. apply (H' d r). apply dr_sort_in. assumption.
  - apply (proj2 (as_of_sorted_none _ D (dr_sort_sorted rs))).
    intros d r Hin. apply (H d r). apply (proj1 (dr_sort_in rs (d, r))). assumption.
Qed.

(* the declarative lookup of Model/PriceSpec.v is what build + partition_point computes *)
Definition spec_step (D : Z) (best : option (Z * Qc)) (x : Z * Qc) : option (Z * Qc) :=
  if (fst x <=? D)%Z
  then match best with None => Some x | Some b => if dr_leb b x then Some x else Some b end
  else best.

Lemma spec_fold_some : forall D rs acc d r,
  fold_left (spec_step D) rs acc = Some (d, r) ->
  (acc = Some (d, r) \/ (In (d, r) rs /\ (d <= D)%Z)) /\
  (forall x, In x rs -> (fst x <= D)%Z -> dr_leP x (d, r)) /\
  (forall b, acc = Some b -> dr_leP b (d, r)).
Proof.
  intros D rs. induction rs as [|x l IH]; cbn [fold_left]; intros acc d r H.
  - split; [left; assumption|]. split; [intros ? []|]. intros b E. rewrite E in H. inversion H. apply dr_leP_refl.
  - destruct (IH _ _ _ H) as (H1 & H2 & H3). unfold spec_step in H1, H3.
    destruct (fst x <=? D)%Z eqn:Ex.
    + apply Z.leb_le in Ex. destruct acc as [b|].
      * destruct (dr_leb b x) eqn:Eb.
        -- apply dr_leb_iff in Eb. split; [|split].
           ++ destruct H1 as [E|[Hin Hd]].
              ** inversion E; subst. right. split; [left; reflexivity|assumption].
              ** right. split; [right; assumption|assumption].
           ++ intros y [->|Hy] Hle; [apply H3; reflexivity|apply H2; assumption].
           ++ intros b' E. inversion E; subst. eapply dr_leP_trans; [exact Eb|apply H3; reflexivity].
        -- apply dr_leb_false in Eb. split; [|split].
           ++ destruct H1 as [E|[Hin Hd]]; [left; assumption|right; split; [right; assumption|assumption]].
           ++ intros y [->|Hy] Hle; [eapply dr_leP_trans; [exact Eb|apply H3; reflexivity]|apply H2; assumption].
           ++ intros b' E. inversion E; subst. apply H3; reflexivity.
      * split; [|split].
        -- destruct H1 as [E|[Hin Hd]].
           ++ inversion E; subst. right. split; [left; reflexivity|assumption].
           ++ right. split; [right; assumption|assumption].
        -- intros y [->|Hy] Hle; [apply H3; reflexivity|apply H2; assumption].
        -- intros b' E; discriminate.
    + apply Z.leb_gt in Ex. split; [|split].
      * destruct H1 as [E|[Hin Hd]]; [left; assumption|right; split; [right; assumption|assumption]].
      * intros y [->|Hy] Hle; [lia|apply H2; assumption].
      * assumption.
Qed.

Lemma spec_fold_none : forall D rs acc,
  fold_left (spec_step D) rs acc = None ->
  acc = None /\ forall x, In x rs -> (D < fst x)%Z.
Proof.
  intros D rs. induction rs as [|x l IH]; cbn [fold_left]; intros acc H.
  - split; [assumption|intros ? []].
  - destruct (IH _ H) as (H1 & H2). unfold spec_step in H1.
    destruct (fst x <=? D)%Z eqn:Ex.
    + destruct acc as [b|]; [destruct (dr_leb b x)|]; discriminate.
    + apply Z.leb_gt in Ex. split; [assumption|]. intros y [->|Hy]; [assumption|apply H2; assumption].
Qed.

Lemma spec_as_of_eq : forall rs D, spec_as_of rs D = as_of (dr_sort rs) D.
Proof.
  intros rs D. unfold spec_as_of. change (fun best x => _) with (spec_step D).
  destruct (fold_left (spec_step D) rs None) as [[d r]|] eqn:E.
  - symmetry. apply as_of_build_some. destruct (spec_fold_some _ _ _ _ _ E) as (H1 & H2 & _).
    destruct H1 as [X|[Hin Hd]]; [discriminate|]. split; [assumption|]. split; [assumption|].
    intros d' r' Hin' Hle. apply (H2 (d', r')); assumption.
  - symmetry. apply as_of_build_none. destruct (spec_fold_none _ _ _ E) as (_ & H2).
    intros d r Hin. apply (H2 (d, r)). assumption.
Qed.

(* ------------------------------------------------------------------ *)
(* what insert_price / load_price_db / build store                     *)
(* ------------------------------------------------------------------ *)
Definition lookup (recs : records) (w o : cid) : option pentry :=
  match get w recs with Some inn => get o inn | None => None end.

(* effect on one ordered pair of pushing `new` with source src *)
Definition upd (en : option pentry) (src : source) (new : list (Z * Qc)) : option pentry :=
  match new with
  | [] => en
  | _ => Some (match en with
               | Some e => if source_ltb (pe_source e) src
                           then {| pe_source := src; pe_rates := new |}
                           else {| pe_source := pe_source e; pe_rates := pe_rates e ++ new |}
               | None => {| pe_source := src; pe_rates := new |}
               end)
  end.

Lemma source_ltb_irrefl : forall s, source_ltb s s = false.
Proof. destruct s; reflexivity. Qed.

Lemma upd_nil : forall en src, upd en src [] = en.
Proof. reflexivity. Qed.

Lemma upd_app : forall en src l1 l2, upd (upd en src l1) src l2 = upd en src (l1 ++ l2).
Proof.
  intros en src l1 l2. destruct l1 as [|a l1]; [reflexivity|].
  destruct l2 as [|b l2]; [rewrite app_nil_r; reflexivity|].
  cbn [upd app]. f_equal. destruct en as [e|].
  - destruct (source_ltb (pe_source e) src) eqn:E; cbn [pe_source pe_rates].
    + rewrite source_ltb_irrefl. reflexivity.
    + rewrite E. cbn. rewrite <- app_assoc. reflexivity.
  - cbn [pe_source pe_rates]. rewrite source_ltb_irrefl. reflexivity.
Qed.

Lemma lookup_insert_impl : forall recs src d oc ov wc wv w o,
  lookup (insert_impl recs src d oc ov wc wv) w o =
  if (w =? wc)%N && (o =? oc)%N then upd (lookup recs wc oc) src [(d, wv / ov)]
  else lookup recs w o.
Proof.
  intros. unfold insert_impl, lookup.
  destruct (w =? wc)%N eqn:Ew.
  - apply N.eqb_eq in Ew; subst w. rewrite pget_set_same. cbn [andb].
    destruct (o =? oc)%N eqn:Eo.
    + apply N.eqb_eq in Eo; subst o. rewrite pget_set_same. cbn [upd].
      destruct (get wc recs) as [inn|]; cbn [get].
      * destruct (get oc inn) as [e|]; cbn [pe_source pe_rates].
        -- destruct (source_ltb (pe_source e) src); reflexivity.
        -- destruct src; reflexivity.
      * destruct src; reflexivity.
    + assert (oc <> o) by (intro; subst; rewrite N.eqb_refl in Eo; discriminate).
      rewrite pget_set_other by assumption. destruct (get wc recs); reflexivity.
  - assert (wc <> w) by (intro; subst; rewrite N.eqb_refl in Ew; discriminate).
    rewrite pget_set_other by assumption. reflexivity.
Qed.

Lemma lookup_insert_price : forall recs e w o,
  lookup (insert_price recs e) w o = upd (lookup recs w o) (e_source e) (ev_rates w o e).
Proof.
  intros recs e w o. unfold insert_price, ev_rates.
  destruct (qc_zero (e_xv e) || qc_zero (e_yv e)); [reflexivity|].
  rewrite (N.eqb_sym (e_yc e) w), (N.eqb_sym (e_xc e) o), (N.eqb_sym (e_xc e) w), (N.eqb_sym (e_yc e) o).
  rewrite !lookup_insert_impl.
  destruct ((w =? e_xc e)%N && (o =? e_yc e)%N) eqn:E2.
  - apply andb_true_iff in E2. destruct E2 as [A2 B2]. apply N.eqb_eq in A2, B2. subst w o.
    destruct ((e_xc e =? e_yc e)%N && (e_yc e =? e_xc e)%N) eqn:E1.
    + apply andb_true_iff in E1. destruct E1 as [A1 _]. apply N.eqb_eq in A1.
      rewrite <- A1. rewrite upd_app. reflexivity.
    + reflexivity.
  - destruct ((w =? e_yc e)%N && (o =? e_xc e)%N) eqn:E1.
    + apply andb_true_iff in E1. destruct E1 as [A1 B1]. apply N.eqb_eq in A1, B1. subst w o.
      rewrite app_nil_r. reflexivity.
    + reflexivity.
Qed.

Lemma lookup_fold_insert : forall src evs recs w o,
  (forall e, In e evs -> e_source e = src) ->
  lookup (fold_left insert_price evs recs) w o =
  upd (lookup recs w o) src (flat_map (ev_rates w o) evs).
Proof.
  intros src evs. induction evs as [|e r IH]; intros recs w o Hs; cbn [fold_left flat_map].
  - reflexivity.
  - rewrite IH by (intros; apply Hs; right; assumption).
    rewrite lookup_insert_price, (Hs e (or_introl eq_refl)), upd_app. reflexivity.
Qed.

Lemma load_price_db_fold : forall db recs,
  load_price_db recs db = fold_left insert_price (map pline_event db) recs.
Proof.
  unfold load_price_db. induction db as [|l r IH]; intros recs; cbn; [reflexivity|apply IH].
Qed.

Definition sort_entry (en : pentry) : pentry :=
  {| pe_source := pe_source en; pe_rates := dr_sort (pe_rates en) |}.

Lemma get_map_snd : forall {A B} (f : A -> B) (k : N) (m : amap A),
  get k (map (fun p => (fst p, f (snd p))) m) = option_map f (get k m).
Proof.
  intros A B f k m. induction m as [|[k' v] r IH]; cbn; [reflexivity|].
  destruct (k' =? k)%N; [reflexivity|assumption].
Qed.

Lemma lookup_build : forall recs w o,
  lookup (build recs) w o = option_map sort_entry (lookup recs w o).
Proof.
  intros recs w o. unfold lookup, build.
  rewrite (get_map_snd (fun inn : inner => map (fun oe => (fst oe, sort_entry (snd oe))) inn)).
  destruct (get w recs) as [inn|]; cbn [option_map]; [|reflexivity].
  apply (get_map_snd sort_entry).
Qed.

(* C09_source_precedence: per ordered pair the repository holds exactly the price-DB records
   if there is one, else the ledger-derived ones; sorted *)
Lemma repository_lookup : forall evs db w o,
  (forall e, In e evs -> e_source e = SLedger) ->
  lookup (repository evs db) w o =
  match pair_records evs db w o with
  | (_, []) => None
  | (src, rs) => Some {| pe_source := src; pe_rates := dr_sort rs |}
  end.
Proof.
  intros evs db w o Hs. unfold repository. rewrite lookup_build, load_price_db_fold.
  rewrite (lookup_fold_insert SPriceDB).
  2:{ intros e Hin. apply in_map_iff in Hin. destruct Hin as (l & <- & _). reflexivity. }
  rewrite (lookup_fold_insert SLedger) by assumption.
  unfold pair_records, lookup at 1. cbn [get].
  destruct (flat_map (ev_rates w o) (map pline_event db)) as [|a l].
  - cbn [upd]. destruct (flat_map (ev_rates w o) evs) as [|b l2]; reflexivity.
  - destruct (flat_map (ev_rates w o) evs) as [|b l2]; reflexivity.
Qed.

(* duplicate-free keys everywhere (HashMap) *)
Definition wf_recs (recs : records) : Prop :=
  NoDup (keys recs) /\ forall w inn, get w recs = Some inn -> NoDup (keys inn).

Lemma wf_recs_nil : wf_recs []. Proof. split; [constructor|intros; discriminate]. Qed.

Lemma wf_insert_impl : forall recs src d oc ov wc wv,
  wf_recs recs -> wf_recs (insert_impl recs src d oc ov wc wv).
Proof.
  intros recs src d oc ov wc wv [H1 H2]. unfold insert_impl. split.
  - apply NoDup_keys_set. assumption.
  - intros w inn Hg. destruct (N.eq_dec wc w) as [->|Hne].
    + rewrite pget_set_same in Hg. inversion Hg; subst. apply NoDup_keys_set.
      destruct (get w recs) as [i|] eqn:E; [eapply H2; eassumption|constructor].
    + rewrite pget_set_other in Hg by assumption. eapply H2; eassumption.
Qed.
Lemma wf_insert_price : forall recs e, wf_recs recs -> wf_recs (insert_price recs e).
Proof.
  intros recs e H. unfold insert_price. destruct (qc_zero (e_xv e) || qc_zero (e_yv e)); [assumption|].
  apply wf_insert_impl, wf_insert_impl, H.
Qed.
Lemma wf_fold_insert : forall evs recs, wf_recs recs -> wf_recs (fold_left insert_price evs recs).
Proof. induction evs as [|e r IH]; intros recs H; cbn; [assumption|apply IH, wf_insert_price, H]. Qed.

Lemma keys_map_snd : forall {A B} (f : A -> B) (m : amap A),
  keys (map (fun p => (fst p, f (snd p))) m) = keys m.
Proof. intros. unfold keys. rewrite map_map. apply map_ext. reflexivity. Qed.

Lemma wf_build : forall recs, wf_recs recs -> wf_recs (build recs).
Proof.
  intros recs [H1 H2]. unfold build. split.
  - rewrite (keys_map_snd (fun inn : inner => map (fun oe => (fst oe, sort_entry (snd oe))) inn)). assumption.
  - intros w inn Hg.
    rewrite (get_map_snd (fun inn : inner => map (fun oe => (fst oe, sort_entry (snd oe))) inn)) in Hg.
    destruct (get w recs) as [i|] eqn:E; cbn in Hg; [|discriminate]. inversion Hg; subst.
    rewrite (keys_map_snd sort_entry). eapply H2; eassumption.
Qed.
Lemma wf_repository : forall evs db, wf_recs (repository evs db).
Proof.
  intros. unfold repository. apply wf_build. rewrite load_price_db_fold.
  apply wf_fold_insert, wf_fold_insert, wf_recs_nil.
Qed.

Lemma in_omap : forall {A B} (f : A -> option B) l y,
  In y (omap f l) <-> exists x, In x l /\ f x = Some y.
Proof.
  intros A B f l y. induction l as [|a r IH]; cbn.
  - split; [intros []|intros (x & [] & _)].
  - destruct (f a) as [b|] eqn:E; cbn; rewrite ?IH; split.
    + intros [->|(x & Hx & Hf)]; [exists a; auto|exists x; auto].
    + intros (x & [->|Hx] & Hf); [left; congruence|right; exists x; auto].
    + intros (x & Hx & Hf); exists x; auto.
    + intros (x & [->|Hx] & Hf); [congruence|exists x; auto].
Qed.

Lemma out_edges_lookup : forall recs D w e,
  wf_recs recs ->
  (In e (out_edges recs D w) <-> exists o en, lookup recs w o = Some en /\ edge_of D (o, en) = Some e).
Proof.
  intros recs D w e [H1 H2]. unfold out_edges, lookup.
  destruct (get w recs) as [inn|] eqn:E.
  - rewrite in_omap. split.
    + intros ([o en] & Hin & Hf). exists o, en. split; [|assumption].
      apply In_get; [eapply H2; eassumption|assumption].
    + intros (o & en & Hg & Hf). exists (o, en). split; [apply get_In; assumption|assumption].
  - split; [intros []|intros (o & en & X & _); discriminate].
Qed.

Lemma cmem_iff : forall c l, cmem c l = true <-> In c l.
Proof.
  intros c l. unfold cmem. rewrite existsb_exists. split.
  - intros (x & Hx & E). apply N.eqb_eq in E. subst. assumption.
  - intros H. exists c. split; [assumption|apply N.eqb_refl].
Qed.
Lemma dedup_in : forall l x, In x (dedup l) <-> In x l.
Proof.
  induction l as [|a r IH]; intros x; cbn; [tauto|].
  destruct (cmem a r) eqn:E.
  - rewrite IH. apply cmem_iff in E. split; [auto|intros [->|H]; assumption].
  - cbn. rewrite IH. tauto.
Qed.

Lemma ev_rates_mentions : forall w o e, ev_rates w o e <> [] -> (o = e_xc e \/ o = e_yc e).
Proof.
  intros w o e H. unfold ev_rates in H. destruct (qc_zero (e_xv e) || qc_zero (e_yv e)); [contradiction H; reflexivity|].
  destruct ((e_yc e =? w)%N && (e_xc e =? o)%N) eqn:E1.
  - apply andb_true_iff in E1. destruct E1 as [_ B]. apply N.eqb_eq in B. left; congruence.
  - destruct ((e_xc e =? w)%N && (e_yc e =? o)%N) eqn:E2; [|contradiction H; reflexivity].
    apply andb_true_iff in E2. destruct E2 as [_ B]. apply N.eqb_eq in B. right; congruence.
Qed.

Lemma flat_map_ev_rates_mentions : forall w o es,
  flat_map (ev_rates w o) es <> [] -> In o (flat_map (fun e => [e_xc e; e_yc e]) es).
Proof.
  intros w o es. induction es as [|e r IH]; cbn [flat_map]; intros H; [contradiction H; reflexivity|].
  destruct (ev_rates w o e) as [|a l] eqn:E.
  - cbn in H. right. right. apply IH. assumption.
  - destruct (ev_rates_mentions w o e) as [->| ->]; [rewrite E; discriminate| |]; cbn; auto.
Qed.

(* C09_edges_from_events: the graph the search walks is the one read off the events *)
Lemma edges_from_events : forall evs db D w e,
  (forall x, In x evs -> e_source x = SLedger) ->
  (In e (out_edges (repository evs db) D w) <-> In e (spec_out evs db (ev_comms evs db) D w)).
Proof.
  intros evs db D w e Hs.
  rewrite (out_edges_lookup _ D w e (wf_repository evs db)).
  unfold spec_out. rewrite in_omap. split.
  - intros (o & en & Hl & He). rewrite repository_lookup in Hl by assumption.
    exists o. split.
    + unfold ev_comms. apply dedup_in. rewrite flat_map_app.
      unfold pair_records in Hl. apply in_or_app.
      destruct (flat_map (ev_rates w o) (map pline_event db)) as [|a l] eqn:Edb.
      * left. apply (flat_map_ev_rates_mentions w). intro X. rewrite X in Hl. discriminate.
      * right. apply (flat_map_ev_rates_mentions w). rewrite Edb. discriminate.
    + unfold spec_edge. destruct (pair_records evs db w o) as [src rs].
      rewrite spec_as_of_eq. destruct rs as [|a l]; [discriminate|].
      assert (Een : en = {| pe_source := src; pe_rates := dr_sort (a :: l) |}) by congruence.
      subst en. unfold edge_of in He. cbn [snd fst pe_rates pe_source] in He.
      destruct (as_of (dr_sort (a :: l)) D) as [[rd rate]|]; [assumption|discriminate].
  - intros (o & _ & He). unfold spec_edge in He.
    destruct (pair_records evs db w o) as [src rs] eqn:Ep. rewrite spec_as_of_eq in He.
    destruct rs as [|a l]; [cbn in He; discriminate|].
    exists o, {| pe_source := src; pe_rates := dr_sort (a :: l) |}. split.
    + rewrite repository_lookup by assumption. rewrite Ep. reflexivity.
    + unfold edge_of. cbn [snd fst pe_rates pe_source].
      destruct (as_of (dr_sort (a :: l)) D) as [[rd rate]|]; [assumption|discriminate].
Qed.

(* ------------------------------------------------------------------ *)
(* reciprocal                                                          *)
(* ------------------------------------------------------------------ *)
Lemma qc_zero_false : forall x, qc_zero x = false -> x <> 0.
Proof.
  intros x H E. unfold qc_zero, Qc_eq_bool in H. destruct (Qc_eq_dec x 0); [discriminate|contradiction].
Qed.

Lemma ev_rates_sym : forall a b e d r,
  In (d, r) (ev_rates a b e) -> In (d, / r) (ev_rates b a e) /\ r <> 0.
Proof.
  intros a b e d r. unfold ev_rates.
  destruct (qc_zero (e_xv e) || qc_zero (e_yv e)) eqn:Z; [intros []|].
  apply orb_false_iff in Z. destruct Z as [Zx Zy].
  apply qc_zero_false in Zx, Zy. intros H. apply in_app_or in H. destruct H as [H|H].
  - destruct ((e_yc e =? a)%N && (e_xc e =? b)%N) eqn:E; [|destruct H].
    destruct H as [H|[]]. inversion H; subst d r. rewrite andb_comm in E. rewrite E. split.
    + apply in_or_app. right. left. f_equal. field. split; assumption.
    + intro X. apply Zy. replace (e_yv e) with ((e_yv e / e_xv e) * e_xv e) by (field; assumption).
      rewrite X. ring.
  - destruct ((e_xc e =? a)%N && (e_yc e =? b)%N) eqn:E; [|destruct H].
    destruct H as [H|[]]. inversion H; subst d r. rewrite andb_comm in E. rewrite E. split.
    + apply in_or_app. left. left. f_equal. field. split; assumption.
    + intro X. apply Zx. replace (e_xv e) with ((e_xv e / e_yv e) * e_yv e) by (field; assumption).
      rewrite X. ring.
Qed.

Lemma flat_ev_rates_sym : forall a b es d r,
  In (d, r) (flat_map (ev_rates a b) es) -> In (d, / r) (flat_map (ev_rates b a) es) /\ r <> 0.
Proof.
  intros a b es d r H. apply in_flat_map in H. destruct H as (e & He & Hin).
  destruct (ev_rates_sym _ _ _ _ _ Hin) as [H1 H2]. split; [|assumption].
  apply in_flat_map. exists e. split; assumption.
Qed.

Lemma flat_ev_rates_nonempty_sym : forall a b es,
  flat_map (ev_rates a b) es <> [] -> flat_map (ev_rates b a) es <> [].
Proof.
  intros a b es H. destruct (flat_map (ev_rates a b) es) as [|[d r] l] eqn:E; [contradiction H; reflexivity|].
  assert (X : In (d, r) (flat_map (ev_rates a b) es)) by (rewrite E; left; reflexivity).
  apply flat_ev_rates_sym in X. destruct X as [X _]. intro Y. rewrite Y in X. exact X.
Qed.

(* a record for (A, B) at rate r is a record for (B, A) at 1/r, same date and source *)
Lemma repository_reciprocal : forall evs db a b en d r,
  (forall x, In x evs -> e_source x = SLedger) ->
  lookup (repository evs db) a b = Some en -> In (d, r) (pe_rates en) ->
  r <> 0 /\
  exists en', lookup (repository evs db) b a = Some en' /\ pe_source en' = pe_source en /\
              In (d, / r) (pe_rates en').
Proof.
  intros evs db a b en d r Hs Hl Hin. rewrite repository_lookup in * by assumption.
  unfold pair_records in *.
  destruct (flat_map (ev_rates a b) (map pline_event db)) as [|x l] eqn:Edb.
  - (* ledger-derived *)
    assert (Eba : flat_map (ev_rates b a) (map pline_event db) = []).
    { destruct (flat_map (ev_rates b a) (map pline_event db)) as [|y l'] eqn:E'; [reflexivity|].
      exfalso. apply (flat_ev_rates_nonempty_sym b a (map pline_event db)); [rewrite E'; discriminate|assumption]. }
    rewrite Eba. destruct (flat_map (ev_rates a b) evs) as [|x l] eqn:El; [discriminate|].
    assert (Een : en = {| pe_source := SLedger; pe_rates := dr_sort (x :: l) |}) by congruence.
    subst en. clear Hl. cbn [pe_rates pe_source] in *. apply (proj1 (dr_sort_in _ _)) in Hin.
    rewrite <- El in Hin. destruct (flat_ev_rates_sym _ _ _ _ _ Hin) as [H1 H2]. split; [assumption|].
    destruct (flat_map (ev_rates b a) evs) as [|y l'] eqn:E'; [destruct H1|].
    eexists. split; [reflexivity|]. split; [reflexivity|]. cbn [pe_rates]. apply dr_sort_in. assumption.
  - assert (Een : en = {| pe_source := SPriceDB; pe_rates := dr_sort (x :: l) |}) by congruence.
    subst en. clear Hl. cbn [pe_rates pe_source] in *. apply (proj1 (dr_sort_in _ _)) in Hin.
    rewrite <- Edb in Hin. destruct (flat_ev_rates_sym _ _ _ _ _ Hin) as [H1 H2]. split; [assumption|].
    destruct (flat_map (ev_rates b a) (map pline_event db)) as [|y l'] eqn:E'; [destruct H1|].
    eexists. split; [reflexivity|]. split; [reflexivity|]. cbn [pe_rates]. apply dr_sort_in. assumption.
Qed.
