(* Sub-directive lines of `account` / `commodity` blocks (Model/Lower.v low_entry): which
   aliases a block declares does not depend on the notes, comments and format lines around
   the alias lines, and every alias line is declared wherever it stands. *)
From Coq Require Import List NArith.
From Okv Require Import Model.Syntax Model.Lower.
Import ListNotations.

Lemma account_alias_line_declared : forall ds1 a ds2,
  In a (account_aliases (ds1 ++ ADAlias a :: ds2)).
Proof.
  intros. unfold account_aliases. rewrite flat_map_app. apply in_or_app. right.
  cbn [flat_map]. left. reflexivity.
Qed.

Lemma commodity_alias_line_declared : forall ds1 a ds2,
  In a (commodity_aliases (ds1 ++ CDAlias a :: ds2)).
Proof.
  intros. unfold commodity_aliases. rewrite flat_map_app. apply in_or_app. right.
  cbn [flat_map]. left. reflexivity.
Qed.

Lemma account_other_line : forall ds1 d ds2, (forall a, d <> ADAlias a) ->
  account_aliases (ds1 ++ d :: ds2) = account_aliases (ds1 ++ ds2).
Proof.
  intros ds1 d ds2 H. unfold account_aliases. rewrite !flat_map_app. f_equal.
  cbn [flat_map]. destruct d; try reflexivity. exfalso. eapply H. reflexivity.
Qed.

Lemma commodity_other_line : forall ds1 d ds2, (forall a, d <> CDAlias a) ->
  commodity_aliases (ds1 ++ d :: ds2) = commodity_aliases (ds1 ++ ds2).
Proof.
  intros ds1 d ds2 H. unfold commodity_aliases. rewrite !flat_map_app. f_equal.
  cbn [flat_map]. destruct d; try reflexivity. exfalso. eapply H. reflexivity.
Qed.

(* the aliases of a block in the order of their lines *)
Lemma commodity_aliases_app : forall ds1 ds2,
  commodity_aliases (ds1 ++ ds2) = commodity_aliases ds1 ++ commodity_aliases ds2.
Proof. intros. unfold commodity_aliases. apply flat_map_app. Qed.

Lemma account_aliases_app : forall ds1 ds2,
  account_aliases (ds1 ++ ds2) = account_aliases ds1 ++ account_aliases ds2.
Proof. intros. unfold account_aliases. apply flat_map_app. Qed.

Theorem alias_lines :
  (forall ds1 a ds2, In a (account_aliases (ds1 ++ ADAlias a :: ds2))) /\
  (forall ds1 a ds2, In a (commodity_aliases (ds1 ++ CDAlias a :: ds2))) /\
  (forall ds1 d ds2, (forall a, d <> ADAlias a) ->
     account_aliases (ds1 ++ d :: ds2) = account_aliases (ds1 ++ ds2)) /\
  (forall ds1 d ds2, (forall a, d <> CDAlias a) ->
     commodity_aliases (ds1 ++ d :: ds2) = commodity_aliases (ds1 ++ ds2)).
Proof.
  split; [exact account_alias_line_declared |].
  split; [exact commodity_alias_line_declared |].
  split; [exact account_other_line | exact commodity_other_line].
Qed.

(* ---- through the numbering of names (Model/Lower.v intern) ---- *)
From Coq Require Import Bool Lia.
From Okv Require Import Base.Maps Model.Intern Model.Named.

Lemma name_eqb_refl : forall s, name_eqb s s = true.
Proof. induction s as [| c s IH]; [reflexivity |]. cbn. rewrite N.eqb_refl. exact IH. Qed.

Lemma find_name_app : forall t u s i,
  find_name (t ++ u) s i =
  match find_name t s i with Some j => Some j | None => find_name u s (i + N.of_nat (length t))%N end.
Proof.
  induction t as [| x t IH]; intros u s i.
  - cbn. f_equal. lia.
  - cbn [app find_name length]. destruct (name_eqb x s); [reflexivity |].
    rewrite IH. destruct (find_name t s (i + 1)); [reflexivity |]. f_equal. lia.
Qed.

Lemma intern_found : forall t s t' i, intern t s = (t', i) -> find_name t' s 0%N = Some i.
Proof.
  intros t s t' i. unfold intern. destruct (find_name t s 0%N) as [j |] eqn:E; intros H; injection H as <- <-.
  - exact E.
  - rewrite find_name_app, E. cbn. rewrite name_eqb_refl. reflexivity.
Qed.

Lemma intern_keeps : forall t s t' i x j, intern t s = (t', i) ->
  find_name t x 0%N = Some j -> find_name t' x 0%N = Some j.
Proof.
  intros t s t' i x j. unfold intern. destruct (find_name t s 0%N); intros H; injection H as <- <-; intros F.
  - exact F.
  - rewrite find_name_app, F. reflexivity.
Qed.

Lemma intern_all_keeps : forall l t t' is x j, intern_all t l = (t', is) ->
  find_name t x 0%N = Some j -> find_name t' x 0%N = Some j.
Proof.
  induction l as [| s l IH]; intros t t' is x j H F.
  - cbn in H. injection H as <- <-. exact F.
  - cbn [intern_all] in H. destruct (intern t s) as [t1 i] eqn:E1.
    destruct (intern_all t1 l) as [t2 is2] eqn:E2. injection H as <- <-.
    eapply IH; [exact E2 |]. eapply intern_keeps; eassumption.
Qed.

(* every written name of the list gets its number into the result *)
Lemma intern_all_in : forall l t t' is s, intern_all t l = (t', is) -> In s l ->
  exists i, In i is /\ find_name t' s 0%N = Some i.
Proof.
  induction l as [| x l IH]; intros t t' is s H Hin; [destruct Hin |].
  cbn [intern_all] in H. destruct (intern t x) as [t1 i] eqn:E1.
  destruct (intern_all t1 l) as [t2 is2] eqn:E2. injection H as <- <-.
  destruct Hin as [-> | Hin].
  - exists i. split; [left; reflexivity |].
    eapply intern_all_keeps; [exact E2 |]. eapply intern_found; exact E1.
  - destruct (IH _ _ _ _ E2 Hin) as [k [Hk Fk]]. exists k. split; [right; exact Hk | exact Fk].
Qed.

(* A `commodity` block with an alias line `a` anywhere in it lowers to a declaration that
   lists the number of `a`; an `account` block likewise. *)
Lemma commodity_block_lists_alias : forall ta tc name ds1 a ds2,
  exists ta' tc' n als fmt i,
    low_entry ta tc (SCommodity name (ds1 ++ CDAlias a :: ds2)) = (ta', tc', NCommodity n als fmt) /\
    In i als /\ find_name tc' a 0%N = Some i.
Proof.
  intros. cbn [low_entry]. destruct (intern tc name) as [t1 n] eqn:E1.
  destruct (intern_all t1 (commodity_aliases (ds1 ++ CDAlias a :: ds2))) as [t2 als] eqn:E2.
  destruct (intern_all_in _ _ _ _ a E2 (commodity_alias_line_declared ds1 a ds2)) as [i [Hi Fi]].
  exists ta, t2, n, als, (commodity_format (ds1 ++ CDAlias a :: ds2)), i. auto.
Qed.

Lemma account_block_lists_alias : forall ta tc name ds1 a ds2,
  exists ta' tc' n als i,
    low_entry ta tc (SAccount name (ds1 ++ ADAlias a :: ds2)) = (ta', tc', NAccount n als) /\
    In i als /\ find_name ta' a 0%N = Some i.
Proof.
  intros. cbn [low_entry]. destruct (intern ta name) as [t1 n] eqn:E1.
  destruct (intern_all t1 (account_aliases (ds1 ++ ADAlias a :: ds2))) as [t2 als] eqn:E2.
  destruct (intern_all_in _ _ _ _ a E2 (account_alias_line_declared ds1 a ds2)) as [i [Hi Fi]].
  exists t2, tc, n, als, i. auto.
Qed.

(* ---- a refused alias line anywhere in the block rejects the declaration ---- *)
From Okv Require Import Proofs.InternProofs Proofs.NamedProofs.

(* an alias that stands for another canonical, anywhere in the list (NamedProofs has the
   single-alias form with the error kind) *)
Lemma insert_aliases_other : forall als s c a c0,
  In a als -> get a s = Some (RAlias c0) -> c0 <> c -> exists e, insert_aliases s als c = inr e.
Proof.
  induction als as [| x r IH]; intros s c a c0 I G N; [destruct I |]. cbn [insert_aliases].
  destruct (insert_alias s x c) as [s1 | e] eqn:E; [| eauto].
  destruct I as [-> | I].
  - rewrite (insert_alias_rejects_other _ _ _ _ G N) in E. discriminate.
  - apply (IH s1 c a c0 I); [| exact N]. unfold insert_alias in E.
    destruct (get x s) as [[| c1] |] eqn:Gx; try discriminate.
    + destruct (c1 =? c)%N; inversion E; subst. exact G.
    + inversion E; subst. apply add_rec_le; assumption.
Qed.

Lemma alias_of_another_anywhere_rejected : forall s name als a c0,
  In a als -> get a s = Some (RAlias c0) -> c0 <> name -> exists e, declare s name als = inr e.
Proof.
  intros s name als a c0 I G N. unfold declare.
  destruct (insert_canonical s name) as [[s1 c] | e] eqn:E; [| eauto].
  assert (G1 : get a s1 = Some (RAlias c0) /\ c = name).
  { unfold insert_canonical in E. destruct (get name s) as [[| c1] |] eqn:Gn; inversion E; subst.
    - split; [exact G | reflexivity].
    - split; [apply add_rec_le; assumption | reflexivity]. }
  destruct G1 as [G1 ->].
  destruct (insert_aliases_other als s1 name a c0 I G1 N) as [e' E']. rewrite E'. eauto.
Qed.

(* what the written name `a` means in the state: its number in the table of names, and the
   record the store has for that number *)
Definition names_record (tbl : list str) (s : store) (a : str) : option irec :=
  match find_name tbl a 0%N with Some i => get i s | None => None end.

Theorem refused_alias_line_rejects_block :
  (* commodity blocks *)
  (forall ta tc name ds1 a ds2 ta' tc' e st,
     low_entry ta tc (SCommodity name (ds1 ++ CDAlias a :: ds2)) = (ta', tc', e) ->
     (names_record tc' (n_com st) a = Some RCanonical \/
      exists c0, names_record tc' (n_com st) a = Some (RAlias c0) /\ find_name tc' name 0%N <> Some c0) ->
     exists err, process_named_entry st e = NErr (NInvalidCommodity err)) /\
  (* account blocks *)
  (forall ta tc name ds1 a ds2 ta' tc' e st,
     low_entry ta tc (SAccount name (ds1 ++ ADAlias a :: ds2)) = (ta', tc', e) ->
     (names_record ta' (n_acc st) a = Some RCanonical \/
      exists c0, names_record ta' (n_acc st) a = Some (RAlias c0) /\ find_name ta' name 0%N <> Some c0) ->
     exists err, process_named_entry st e = NErr (NInvalidAccount err)).
Proof.
  split.
  - intros ta tc name ds1 a ds2 ta' tc' e st L H. cbn [low_entry] in L.
    destruct (intern tc name) as [t1 n] eqn:E1.
    destruct (intern_all t1 (commodity_aliases (ds1 ++ CDAlias a :: ds2))) as [t2 als] eqn:E2.
    injection L as <- <- <-.
    destruct (intern_all_in _ _ _ _ a E2 (commodity_alias_line_declared ds1 a ds2)) as [i [Hi Fi]].
    assert (Fn : find_name t2 name 0%N = Some n).
    { eapply intern_all_keeps; [exact E2 |]. eapply intern_found; exact E1. }
    unfold names_record in H. rewrite Fi in H. cbn [process_named_entry].
    destruct H as [G | [c0 [G N]]].
    + destruct (alias_already_canonical_rejected _ n als i Hi G) as [er Er]. rewrite Er. eauto.
    + assert (N' : c0 <> n) by (intros ->; apply N; exact Fn).
      destruct (alias_of_another_anywhere_rejected _ n als i c0 Hi G N') as [er Er]. rewrite Er. eauto.
  - intros ta tc name ds1 a ds2 ta' tc' e st L H. cbn [low_entry] in L.
    destruct (intern ta name) as [t1 n] eqn:E1.
    destruct (intern_all t1 (account_aliases (ds1 ++ ADAlias a :: ds2))) as [t2 als] eqn:E2.
    injection L as <- <- <-.
    destruct (intern_all_in _ _ _ _ a E2 (account_alias_line_declared ds1 a ds2)) as [i [Hi Fi]].
    assert (Fn : find_name t2 name 0%N = Some n).
    { eapply intern_all_keeps; [exact E2 |]. eapply intern_found; exact E1. }
    unfold names_record in H. rewrite Fi in H. cbn [process_named_entry].
    destruct H as [G | [c0 [G N]]].
    + destruct (alias_already_canonical_rejected _ n als i Hi G) as [er Er]. rewrite Er. eauto.
    + assert (N' : c0 <> n) by (intros ->; apply N; exact Fn).
      destruct (alias_of_another_anywhere_rejected _ n als i c0 Hi G N') as [er Er]. rewrite Er. eauto.
Qed.
