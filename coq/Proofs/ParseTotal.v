(* Totality of the parser model: parse_ledger never returns a hazard value
   (Panic: winnow's repeat assertion / compute_line_number's assertion; Diverge: an entry
   iterator that does not advance; Fuel: the model's own recursion budget). *)
From Coq Require Import List NArith ZArith Bool Lia Arith.
From Okv Require Import Model.Lit Model.Syntax Model.Comb Model.ParseExpr Model.ParseMeta
  Model.ParsePosting Model.ParseTxn Model.ParseDirective Model.ParseLedger
  Proofs.CombSpec Proofs.ParseExprErase Proofs.ParseSafe.
Import ListNotations.

Definition no_hazard (r : ledger_result) : Prop :=
  match r with
  | LOk _ | LErr _ _ => True
  | LPanic _ | LDiverge _ | LFuel => False
  end.

Lemma utf8_encode1_length : forall c, N.of_nat (length (utf8_encode1 c)) = utf8_len1 c.
Proof.
  intros c. unfold utf8_encode1, utf8_len1.
  destruct (N.ltb c 128); [reflexivity |].
  destruct (N.ltb c 2048); [reflexivity |].
  destruct (N.ltb c 65536); reflexivity.
Qed.

Lemma blen_utf8_encode : forall s, blen (utf8_encode s) = utf8_len s.
Proof.
  unfold blen, utf8_encode. induction s; simpl; [reflexivity |].
  rewrite app_length, Nat2N.inj_add, utf8_encode1_length, IHs. reflexivity.
Qed.

Lemma compute_line_number_some : forall s pos, (pos <= utf8_len s)%N ->
  exists l, compute_line_number (utf8_encode s) pos = Some l.
Proof.
  intros s pos H. unfold compute_line_number. rewrite blen_utf8_encode.
  destruct (N.leb_spec pos (utf8_len s)); [eauto | lia].
Qed.

Lemma parse_error_new_some : forall s start stopped cut lbl,
  exists e, parse_error_new (utf8_encode s) (utf8_len s) start stopped cut lbl = Some e.
Proof.
  intros. unfold parse_error_new.
  destruct (compute_line_number_some s (utf8_len s - utf8_len start)%N) as [l ->]; [lia |].
  eauto.
Qed.

Lemma entries_loop_total : forall s n i acc,
  suffix i s -> (length i < n)%nat ->
  no_hazard (entries_loop (length s) n (utf8_encode s) (utf8_len s) i acc).
Proof.
  intros s. induction n; intros i acc Hs Hn; [lia |].
  assert (Hi : (length i <= length s)%nat) by (now apply suffix_length).
  simpl.
  pose proof (safe_vertical_space (length s) (length s) (le_n _) i Hi) as Hv.
  destruct (vertical_space (length s) i) as [u r | c l st | |]; try contradiction.
  2: { destruct (parse_error_new_some s i st c l) as [e ->]. exact I. }
  destruct Hv as [Hr _].
  destruct r as [| c0 r0]; [exact I |].
  set (r := c0 :: r0) in *.
  assert (Hrl : (length r <= length s)%nat) by (apply suffix_length in Hr; lia).
  pose proof (cons_parse_ledger_entry (length s) (length s) (le_n _) r Hrl) as He.
  unfold with_span.
  destruct (parse_ledger_entry (length s) r) as [[e sps] r' | c l st | |]; try contradiction.
  2: { destruct (parse_error_new_some s i st c l) as [e ->]. exact I. }
  destruct He as [Hr' Hlt].
  cbn [abs_span fst snd].
  destruct (compute_line_number_some s (utf8_len s - utf8_len r)%N) as [ln ->]; [lia |].
  rewrite consumed_true by assumption.
  apply IHn.
  - eapply suffix_trans; [eassumption |]. eapply suffix_trans; eassumption.
  - apply suffix_length in Hr. lia.
Qed.

Theorem parse_total : forall s, no_hazard (parse_ledger s).
Proof.
  intros s. unfold parse_ledger. apply entries_loop_total; [apply suffix_refl | lia].
Qed.

(* ---- the expression parser never builds a tree deeper than its budget ---- *)
Definition ok_val {A} (p : parser A) (P : A -> Prop) : Prop :=
  forall i a r, p i = POk a r -> P a.

Lemma okv_bind : forall A B (p : parser A) (k : A -> parser B) (P1 : A -> Prop) (P : B -> Prop),
  ok_val p P1 -> (forall a, P1 a -> ok_val (k a) P) -> ok_val (bind p k) P.
Proof.
  intros A B p k P1 P Hp Hk i b r H. unfold bind in H.
  destruct (p i) as [a m | | |] eqn:E; try discriminate.
  eapply Hk; eauto.
Qed.
Lemma okv_any : forall A (p : parser A), ok_val p (fun _ => True).
Proof. intros A p i a r _. exact I. Qed.
Lemma okv_pmap : forall A B (f : A -> B) p (P : B -> Prop),
  ok_val p (fun a => P (f a)) -> ok_val (pmap f p) P.
Proof.
  intros. unfold pmap. eapply okv_bind; eauto. intros a Ha i b r H0. inversion H0; subst. exact Ha.
Qed.
Lemma okv_delimited : forall A B C (p : parser A) (q : parser B) (r : parser C) (P : B -> Prop),
  ok_val q P -> ok_val (delimited p q r) P.
Proof.
  intros. unfold delimited. eapply okv_bind; [apply okv_any |]. intros _ _.
  eapply okv_bind; [eassumption |]. intros b Hb.
  eapply okv_bind; [apply okv_any |]. intros _ _ i x r0 H0. inversion H0; subst. exact Hb.
Qed.

Lemma okv_try_map_some : forall A B (p : parser A) (f : A -> option B) (P : B -> Prop),
  ok_val p (fun a => forall b, f a = Some b -> P b) -> ok_val (try_map p f) P.
Proof.
  intros A B p f P Hp i b r H. unfold try_map in H.
  destruct (p i) as [a m | | |] eqn:E; try discriminate.
  destruct (f a) as [b' |] eqn:F; [| discriminate]. inversion H; subst.
  eapply Hp; eauto.
Qed.

(* an invariant of a chain: P of the folded left part, Q of the operands, the operators
   classified by isop; a fold step may rely on the height check having passed *)
Lemma okv_chain_loop_gen : forall (op : parser s_binop) (operand : parser s_expr)
    (P Q : s_expr -> Prop) (isop : s_binop -> bool),
  ok_val operand Q -> ok_val op (fun o => isop o = true) ->
  (forall o l r, P l -> isop o = true -> Q r ->
                 fits_under (Nat.max (expr_height l) (expr_height r)) = true -> P (SBinary o l r)) ->
  forall f lhs, P lhs -> ok_val (chain_loop f op operand lhs) P.
Proof.
  intros op operand P Q isop Hop Hsp Hstep.
  assert (Hsep : ok_val (delimited space0 op space0) (fun o => isop o = true))
    by (apply okv_delimited; exact Hsp).
  induction f; intros lhs Hl i e r H; cbn [chain_loop] in H.
  - destruct (delimited space0 op space0 i) as [b m | [] l m | |]; try discriminate.
    + destruct (operand m) as [a m' | [] l m' | |]; try discriminate.
      * destruct (fits_under _); discriminate.
      * inversion H; subst; assumption.
    + inversion H; subst; assumption.
  - destruct (delimited space0 op space0 i) as [b m | [] l m | |] eqn:ES; try discriminate.
    + destruct (operand m) as [a m' | [] l m' | |] eqn:E; try discriminate.
      * destruct (fits_under _) eqn:F; [| discriminate].
        eapply IHf; [| eassumption].
        apply Hstep; [assumption | eapply Hsep; eauto | eapply Hop; eauto | exact F].
      * inversion H; subst; assumption.
    + inversion H; subst; assumption.
Qed.
Lemma okv_infixl_e_gen : forall fuel op operand (P Q : s_expr -> Prop) (isop : s_binop -> bool),
  ok_val operand Q -> ok_val op (fun o => isop o = true) ->
  (forall e, Q e -> P e) ->
  (forall o l r, P l -> isop o = true -> Q r ->
                 fits_under (Nat.max (expr_height l) (expr_height r)) = true -> P (SBinary o l r)) ->
  ok_val (infixl_e fuel op operand) P.
Proof.
  intros fuel op operand P Q isop Hop Hsp Hin Hstep i e r H. unfold infixl_e in H.
  destruct (operand i) as [a m | | |] eqn:E; try discriminate.
  eapply okv_chain_loop_gen; [exact Hop | exact Hsp | exact Hstep | | eassumption].
  apply Hin. eapply Hop; eauto.
Qed.
(* the same invariant of operands and chain *)
Lemma okv_infixl_e : forall fuel op operand (P : s_expr -> Prop),
  ok_val operand P ->
  (forall o l r, P l -> P r -> fits_under (Nat.max (expr_height l) (expr_height r)) = true ->
                 P (SBinary o l r)) ->
  ok_val (infixl_e fuel op operand) P.
Proof.
  intros fuel op operand P Hop Hstep.
  apply okv_infixl_e_gen with (Q := P) (isop := fun _ => true); auto.
  intros i o r _. reflexivity.
Qed.
Lemma okv_unary_e : forall ve (Q : s_vexpr -> Prop) (P : s_expr -> Prop),
  ok_val ve Q ->
  (forall v, Q v -> P (SValue v)) ->
  (forall v, Q v -> fits_under (vexpr_height v) = true -> P (SUnaryNeg (SValue v))) ->
  ok_val (unary_e ve) P.
Proof.
  intros ve Q P Hve Hval Hneg i e r H. unfold unary_e in H. destruct i as [| c t]; [discriminate |].
  destruct (N.eqb c 45).
  - assert (G : ok_val (negate_e ve) P).
    { unfold negate_e. apply okv_try_map_some. unfold preceded.
      eapply okv_bind; [apply okv_any |]. intros _ _ j v r' Hv b Hb.
      destruct (fits_under (vexpr_height v)) eqn:F; [| discriminate]. inversion Hb; subst.
      apply Hneg; [eapply Hve; eauto | exact F]. }
    eapply G; eauto.
  - assert (G : ok_val (pmap SValue ve) P).
    { apply okv_pmap. intros j v r' Hv. apply Hval. eapply Hve; eauto. }
    eapply G; eauto.
Qed.
Lemma okv_paren_e : forall add (P : s_expr -> Prop) (Q : s_vexpr -> Prop),
  ok_val add P ->
  (forall e, P e -> fits_under (expr_height e) = true -> Q (SParen e)) ->
  ok_val (paren_e add) Q.
Proof.
  intros add P Q Hadd Hp. unfold paren_e. apply okv_try_map_some. unfold paren.
  apply okv_delimited, okv_delimited. intros j e r' He b Hb.
  destruct (fits_under (expr_height e)) eqn:F; [| discriminate]. inversion Hb; subst.
  apply Hp; [eapply Hadd; eauto | exact F].
Qed.

(* ---- nesting ---- *)
Lemma value_expr_d_depth : forall fuel d,
  ok_val (value_expr_d fuel d) (fun v => (vexpr_depth v <= d)%nat).
Proof.
  intros fuel.
  assert (GA : forall d, ok_val (pmap SAmount amount) (fun v => (vexpr_depth v <= d)%nat)).
  { intros d. apply okv_pmap. intros j a r' _. simpl. lia. }
  induction d; intros i v r H; simpl in H; destruct i as [| c t]; try discriminate.
  - destruct (N.eqb c 40); [discriminate |]. eapply GA; eauto.
  - destruct (N.eqb c 40); [| eapply GA; eauto].
    match type of H with paren_e ?p _ = _ =>
      assert (G : ok_val (paren_e p) (fun v => (vexpr_depth v <= S d)%nat)) end.
    { apply okv_paren_e with (P := fun e => (expr_depth e <= d)%nat).
      - apply okv_infixl_e; [apply okv_infixl_e |].
        + apply okv_unary_e with (Q := fun v => (vexpr_depth v <= d)%nat); [exact IHd | |]; intros; simpl; assumption.
        + intros; simpl; lia.
        + intros; simpl; lia.
      - intros e He _. simpl. lia. }
    eapply G; eauto.
Qed.

Theorem value_expr_depth_bounded : forall fuel i v r,
  value_expr fuel i = POk v r -> (vexpr_depth v <= max_expr_depth)%nat.
Proof. intros fuel i v r H. rewrite value_expr_erase in H. eapply value_expr_d_depth. exact H. Qed.

(* ---- height: no tree taller than MAX_EXPR_HEIGHT leaves the parser ---- *)
Lemma fits_under_lt : forall h, fits_under h = true -> (S h <= max_expr_height)%nat.
Proof. intros h H. unfold fits_under in H. apply Nat.ltb_lt in H. lia. Qed.

Lemma value_expr_d_height : forall fuel d,
  ok_val (value_expr_d fuel d) (fun v => (vexpr_height v <= max_expr_height)%nat).
Proof.
  intros fuel.
  assert (GA : ok_val (pmap SAmount amount) (fun v => (vexpr_height v <= max_expr_height)%nat)).
  { apply okv_pmap. intros j a r' _. cbn [vexpr_height]. unfold max_expr_height. lia. }
  induction d; intros i v r H; simpl in H; destruct i as [| c t]; try discriminate.
  - destruct (N.eqb c 40); [discriminate |]. eapply GA; eauto.
  - destruct (N.eqb c 40); [| eapply GA; eauto].
    match type of H with paren_e ?p _ = _ =>
      assert (G : ok_val (paren_e p) (fun v => (vexpr_height v <= max_expr_height)%nat)) end.
    { apply okv_paren_e with (P := fun e => (expr_height e <= max_expr_height)%nat).
      - apply okv_infixl_e; [apply okv_infixl_e |].
        + apply okv_unary_e with (Q := fun v => (vexpr_height v <= max_expr_height)%nat); [exact IHd | |].
          * intros v0 Hv. exact Hv.
          * intros v0 _ F. apply fits_under_lt in F. exact F.
        + intros o l r0 _ _ F. apply fits_under_lt in F. exact F.
        + intros o l r0 _ _ F. apply fits_under_lt in F. exact F.
      - intros e _ F. apply fits_under_lt in F. exact F. }
    eapply G; eauto.
Qed.

Theorem value_expr_height_bounded : forall fuel i v r,
  value_expr fuel i = POk v r -> (vexpr_height v <= max_expr_height)%nat.
Proof. intros fuel i v r H. rewrite value_expr_erase in H. eapply value_expr_d_height. exact H. Qed.

(* a chain of n operators is a tree of height > n: no chain longer than the bound *)
Fixpoint chain_length (e : s_expr) : nat :=
  match e with
  | SBinary _ l _ => S (chain_length l)
  | _ => O
  end.
Lemma chain_length_height : forall e, (chain_length e < expr_height e)%nat.
Proof.
  induction e; cbn [chain_length expr_height]; try lia.
  destruct v; cbn [vexpr_height]; lia.
Qed.
