(* Non-vacuity: concrete literals satisfying the hypotheses of the C07 theorems. *)
From Coq Require Import QArith.
From Coq Require Import List NArith ZArith Bool Lia.
From Okv Require Import Model.Lit Model.LitSpec Proofs.LitProofs Proofs.LitShow.
Import ListNotations.
Open Scope N_scope.

(* "12,345.67" *)
Definition ex_grouped : list N := [49; 50; 44; 51; 52; 53; 46; 54; 55].
Definition ex_grouped_lit : lit :=
  {| l_neg := false; l_int := [49; 50; 51; 52; 53]; l_frac := [54; 55]; l_grouped := true |}.
Definition ex_grouped_dec : pdec :=
  {| neg := false; mant := 1234567; scale := 2; pfmt := Some Comma3Dot |}.

Example ex_grouped_spec : spec_scan ex_grouped = Some ex_grouped_lit.
Proof. vm_compute. reflexivity. Qed.
Example ex_grouped_fits : fits ex_grouped_lit = true.
Proof. vm_compute. reflexivity. Qed.
Example ex_grouped_pdec : pdec_of ex_grouped_lit = ex_grouped_dec.
Proof. vm_compute. reflexivity. Qed.
Example ex_grouped_scan : scan ex_grouped = SOk ex_grouped_dec.
Proof. vm_compute. reflexivity. Qed.
Example ex_grouped_show : show ex_grouped_dec = ex_grouped.
Proof. vm_compute. reflexivity. Qed.
Example ex_grouped_big : big ex_grouped_dec = true.
Proof. vm_compute. reflexivity. Qed.
Example ex_grouped_wf : wf_pdec ex_grouped_dec.
Proof.
  unfold wf_pdec, ex_grouped_dec, max96. cbn [neg mant scale pfmt].
  repeat split; intros; try discriminate; lia.
Qed.

(* "-0" : the sign of a zero is dropped, the value is still exact *)
Example ex_neg_zero : scan [45; 48] = SOk {| neg := false; mant := 0; scale := 0; pfmt := None |}.
Proof. vm_compute. reflexivity. Qed.

(* "-1234.5" : plain style, negative *)
Example ex_plain : scan [45; 49; 50; 51; 52; 46; 53] =
                   SOk {| neg := true; mant := 12345; scale := 1; pfmt := Some Plain |}.
Proof. vm_compute. reflexivity. Qed.

(* 2^96 = 79228162514264337593543950336 is well formed but does not fit *)
Definition ex_too_big : list N :=
  [55; 57; 50; 50; 56; 49; 54; 50; 53; 49; 52; 50; 54; 52; 51; 51; 55; 53; 57; 51; 53; 52; 51;
   57; 53; 48; 51; 51; 54].
Example ex_too_big_spec :
  exists t, spec_scan ex_too_big = Some t /\ fits t = false /\ lit_mant t = 2 ^ 96.
Proof. eexists. split; [vm_compute; reflexivity|]. split; vm_compute; reflexivity. Qed.
Example ex_too_big_scan : scan ex_too_big = SErr InvalidDecimal.
Proof. vm_compute. reflexivity. Qed.

(* malformed: "1,23" "1,2345" "1234,567" "." "--5" *)
Example ex_malformed :
  map spec_scan [[49; 44; 50; 51]; [49; 44; 50; 51; 52; 53]; [49; 50; 51; 52; 44; 53; 54; 55];
                 [46]; [45; 45; 53]] = [None; None; None; None; None].
Proof. vm_compute. reflexivity. Qed.
Example ex_malformed_scan :
  map scan [[49; 44; 50; 51]; [49; 44; 50; 51; 52; 53]; [49; 50; 51; 52; 44; 53; 54; 55];
            [46]; [45; 45; 53]] =
  [SErr (IncompleteGroup 4); SErr (CommaRequired 5); SErr (UnexpectedChar 4); SErr NoDigit;
   SErr (UnexpectedChar 1)].
Proof. vm_compute. reflexivity. Qed.
