(* Text tools for the C15 round trip: span / drop_sp / trim on texts of known shape, and
   split_lines on a text made of LF-terminated lines. *)
From Coq Require Import List NArith ZArith Bool Lia ZifyBool ZifyN ZifyNat.
From Okv Require Import Model.Lit Model.SingleEntry2 Model.TxnText Model.TxnTextSpec.
Import ListNotations.
Open Scope N_scope.

Local Arguments N.add : simpl never.
Local Arguments N.mul : simpl never.
Local Arguments N.sub : simpl never.
Local Arguments N.leb : simpl never.
Local Arguments N.ltb : simpl never.
Local Arguments N.eqb : simpl never.

(* reduce comparisons between character literals *)
Ltac ev_lit :=
  repeat match goal with
  | |- context [N.eqb (Npos ?p) (Npos ?q)] =>
      let v := eval vm_compute in (N.eqb (Npos p) (Npos q)) in
      change (N.eqb (Npos p) (Npos q)) with v
  | |- context [N.leb (Npos ?p) (Npos ?q)] =>
      let v := eval vm_compute in (N.leb (Npos p) (Npos q)) in
      change (N.leb (Npos p) (Npos q)) with v
  end.

(* character-class facts are linear arithmetic over booleans *)
Ltac chr :=
  unfold is_num_char, non_commodity, is_tag_char, is_word_char, is_payee_char, is_white, is_sp,
         is_ascii_ws, is_digit in *; lia.

(* ---------------- forallb / has_char ---------------- *)
Lemma forallb_imp : forall (f g : N -> bool) l,
  (forall c, f c = true -> g c = true) -> forallb f l = true -> forallb g l = true.
Proof.
  intros f g l H. induction l as [|c l IH]; [reflexivity|].
  cbn [forallb]. intros E. apply andb_true_iff in E. destruct E as [E1 E2].
  rewrite (H c E1), (IH E2). reflexivity.
Qed.

Lemma forallb_app_true : forall (f : N -> bool) a b,
  forallb f a = true -> forallb f b = true -> forallb f (a ++ b) = true.
Proof. intros. rewrite forallb_app, H, H0. reflexivity. Qed.

Lemma no_char_forallb : forall x l, no_char x l = forallb (fun c => negb (c =? x)) l.
Proof.
  intros x l. unfold no_char, has_char. induction l as [|c l IH]; [reflexivity|].
  cbn [existsb forallb]. rewrite negb_orb, IH. reflexivity.
Qed.

Lemma has_char_false : forall x l, has_char x l = false -> forallb (fun c => negb (c =? x)) l = true.
Proof. intros x l H. rewrite <- no_char_forallb. unfold no_char. rewrite H. reflexivity. Qed.

Lemma forallb_has_char : forall x l, forallb (fun c => negb (c =? x)) l = true -> has_char x l = false.
Proof.
  intros x l H. rewrite <- no_char_forallb in H. unfold no_char in H.
  destruct (has_char x l); [discriminate|reflexivity].
Qed.

Lemma forallb_rev : forall (f : N -> bool) l, forallb f (rev l) = forallb f l.
Proof.
  intros f l. induction l as [|c l IH]; [reflexivity|].
  cbn [rev forallb]. rewrite forallb_app, IH. cbn [forallb]. rewrite andb_true_r. apply andb_comm.
Qed.

Lemma forallb_hd : forall (f : N -> bool) c l, forallb f (c :: l) = true -> f c = true.
Proof. intros f c l H. cbn [forallb] in H. apply andb_true_iff in H. tauto. Qed.

Lemma forallb_tl : forall (f : N -> bool) c l, forallb f (c :: l) = true -> forallb f l = true.
Proof. intros f c l H. cbn [forallb] in H. apply andb_true_iff in H. tauto. Qed.

Lemma forallb_repeat : forall (f : N -> bool) c n, f c = true -> forallb f (repeat c n) = true.
Proof. intros f c n H. induction n; cbn [repeat forallb]; [reflexivity|]. rewrite H, IHn. reflexivity. Qed.

(* ---------------- span ---------------- *)
Definition stops (f : N -> bool) (b : str) : Prop :=
  match b with [] => True | c :: _ => f c = false end.

Lemma span_stop : forall f b, stops f b -> span f b = ([], b).
Proof. intros f [|c b] H; [reflexivity|]. cbn [span]. cbn [stops] in H. rewrite H. reflexivity. Qed.

Lemma span_app : forall f a b, forallb f a = true -> stops f b -> span f (a ++ b) = (a, b).
Proof.
  intros f a b. induction a as [|c a IH]; intros Ha Hb.
  - apply span_stop. exact Hb.
  - cbn [app span]. rewrite (forallb_hd _ _ _ Ha), (IH (forallb_tl _ _ _ Ha) Hb). reflexivity.
Qed.

Lemma span_all : forall f a, forallb f a = true -> span f a = (a, []).
Proof. intros f a H. rewrite <- (app_nil_r a) at 1. apply span_app; [exact H|exact I]. Qed.

(* span of a text of unknown make-up, followed by a stopper *)
Lemma span_facts : forall f a,
  a = fst (span f a) ++ snd (span f a) /\ forallb f (fst (span f a)) = true /\ stops f (snd (span f a)).
Proof.
  intros f a. induction a as [|c a IH]; [repeat split|].
  cbn [span]. destruct (f c) eqn:E.
  - destruct (span f a) as [x y]. cbn [fst snd] in *. destruct IH as (H1 & H2 & H3).
    split; [cbn [app]; rewrite <- H1; reflexivity|]. split; [cbn [forallb]; rewrite E, H2; reflexivity|exact H3].
  - cbn [fst snd app forallb stops]. repeat split. exact E.
Qed.

Lemma span_app_gen : forall f a b, stops f b -> b <> [] ->
  span f (a ++ b) = (fst (span f a), snd (span f a) ++ b).
Proof.
  intros f a b Hb Hne. induction a as [|c a IH].
  - cbn [app span fst snd]. apply span_stop. exact Hb.
  - cbn [app span]. destruct (f c) eqn:E.
    + rewrite IH. destruct (span f a) as [x y]. reflexivity.
    + reflexivity.
Qed.

(* ---------------- drop_sp ---------------- *)
Lemma drop_sp_stop : forall l, stops is_sp l -> drop_sp l = l.
Proof. intros l H. unfold drop_sp. rewrite span_stop by exact H. reflexivity. Qed.

Lemma drop_sp_nil : drop_sp [] = [].
Proof. reflexivity. Qed.

Lemma drop_sp_32 : forall l, drop_sp (32 :: l) = drop_sp l.
Proof. intros l. unfold drop_sp. cbn [span]. change (is_sp 32) with true. cbv iota. destruct (span is_sp l). reflexivity. Qed.

Lemma drop_sp_spaces : forall n l, drop_sp (spaces n ++ l) = drop_sp l.
Proof.
  intros n l. induction n as [|n IH]; [reflexivity|].
  unfold spaces in *. cbn [repeat app]. rewrite drop_sp_32. exact IH.
Qed.

(* ---------------- trim ---------------- *)
Lemma rev_last : forall (l : str), l <> [] -> rev l = last l 0 :: rev (removelast l).
Proof.
  intros l H. rewrite (app_removelast_last 0 H) at 1. rewrite rev_app_distr. reflexivity.
Qed.

Lemma trim_start_stop : forall l, stops is_white l -> trim_start l = l.
Proof. intros l H. unfold trim_start. rewrite span_stop by exact H. reflexivity. Qed.

Lemma trim_start_32 : forall l, trim_start (32 :: l) = trim_start l.
Proof.
  intros l. unfold trim_start. cbn [span]. change (is_white 32) with true. cbv iota.
  destruct (span is_white l). reflexivity.
Qed.

Lemma now_stops_start : forall l, no_outer_white l = true -> stops is_white l.
Proof.
  intros [|c l] H; [exact I|]. cbn [stops]. unfold no_outer_white in H.
  apply andb_true_iff in H. destruct H as [H _]. destruct (is_white c); [discriminate|reflexivity].
Qed.

Lemma trim_end_id : forall l, no_outer_white l = true -> trim_end l = l.
Proof.
  intros l H. unfold trim_end. destruct l as [|c l]; [reflexivity|].
  rewrite trim_start_stop; [apply rev_involutive|].
  rewrite rev_last by discriminate. cbn [stops].
  unfold no_outer_white in H. apply andb_true_iff in H. destruct H as [_ H].
  destruct (is_white (last (c :: l) 0)); [discriminate|reflexivity].
Qed.

Lemma trim_id : forall l, no_outer_white l = true -> trim l = l.
Proof.
  intros l H. unfold trim. rewrite trim_start_stop by (apply now_stops_start; exact H).
  apply trim_end_id. exact H.
Qed.

(* no white space at the start: no space or tab either *)
Lemma now_stops_sp : forall l, no_outer_white l = true -> stops is_sp l.
Proof.
  intros l H. pose proof (now_stops_start l H) as S. destruct l as [|c l]; [exact I|].
  cbn [stops] in *. chr.
Qed.

(* ---------------- strip_cr ---------------- *)
Lemma strip_cr_id : forall l, has_char 13 l = false -> strip_cr l = l.
Proof.
  intros l H. unfold strip_cr. destruct l as [|c l]; [reflexivity|].
  rewrite rev_last by discriminate.
  apply has_char_false in H. rewrite <- forallb_rev in H. rewrite rev_last in H by discriminate.
  apply forallb_hd in H. destruct (last (c :: l) 0 =? 13); [discriminate|reflexivity].
Qed.

(* ---------------- lines ---------------- *)
Definition nolf (l : str) : bool := forallb (fun c => negb (c =? 10)) l.
Definition unlines (ls : list str) : str := flat_map (fun l => l ++ [10]) ls.

Lemma unlines_app : forall a b, unlines (a ++ b) = unlines a ++ unlines b.
Proof. intros. unfold unlines. apply flat_map_app. Qed.

Lemma unlines_cons : forall l ls, unlines (l :: ls) = l ++ 10 :: unlines ls.
Proof. intros. unfold unlines. cbn [flat_map]. rewrite <- app_assoc. reflexivity. Qed.

Lemma split_aux_line : forall l cur r, nolf l = true ->
  split_lines_aux (l ++ 10 :: r) cur = (rev cur ++ l) :: split_lines_aux r [].
Proof.
  induction l as [|c l IH]; intros cur r H.
  - cbn [app split_lines_aux]. ev_lit. cbv iota. rewrite app_nil_r. reflexivity.
  - cbn [app split_lines_aux]. unfold nolf in H. pose proof (forallb_hd _ _ _ H) as Hc.
    apply forallb_tl in H. cbv beta in Hc. destruct (c =? 10); [discriminate|].
    rewrite IH by exact H. cbn [rev]. rewrite <- app_assoc. reflexivity.
Qed.

Lemma split_unlines : forall ls, forallb nolf ls = true -> split_lines (unlines ls) = ls.
Proof.
  unfold split_lines. induction ls as [|l ls IH]; intros H; [reflexivity|].
  cbn [forallb] in H. apply andb_true_iff in H. destruct H as [H1 H2].
  rewrite unlines_cons, split_aux_line by exact H1. rewrite IH by exact H2. reflexivity.
Qed.

Lemma nolf_app : forall a b, nolf a = true -> nolf b = true -> nolf (a ++ b) = true.
Proof. intros. apply forallb_app_true; assumption. Qed.

Lemma one_line_nolf : forall l, one_line l = true -> nolf l = true.
Proof.
  intros l H. unfold one_line in H. apply andb_true_iff in H. destruct H as [H _].
  rewrite no_char_forallb in H. exact H.
Qed.

Lemma one_line_no13 : forall l, one_line l = true -> has_char 13 l = false.
Proof.
  intros l H. unfold one_line in H. apply andb_true_iff in H. destruct H as [_ H].
  unfold no_char in H. destruct (has_char 13 l); [discriminate|reflexivity].
Qed.
