(* From single-entry transactions to the book-keeping model: a list of balanced transactions in
   one commodity, whose balance assertions agree with the running total, is accepted after the
   funding transaction, and the account ends at opening + sum of the amounts. *)
From Coq Require Import List NArith ZArith Bool QArith Qcanon Lia.
From Okv Require Import Base.Maps Base.Dec Model.Amount Model.Book Model.Lit Model.SingleEntry2
  Model.Camt Model.CamtBook Model.CamtSpec Proofs.CamtBasics Proofs.CamtImport Proofs.CamtBook_Maps.
Import ListNotations.
Open Scope Qc_scope.

(* value of the account posting, of a charge posting; the amount of the counter posting *)
Definition val (t : txn) : Qc := d_value (oa_value (x_amount t)).
Definition ch_val (c : charge) : Qc := d_value (oa_value (ch_amount c)).
Definition dest_oamount (t : txn) : oamount :=
  match x_transferred t with
  | Some tr => amount_with_sign tr (d_neg (oa_value (x_amount t)))
  | None => oa_neg (x_amount t)
  end.

Lemma dest_amount_eq : forall t, dest_amount t = to_posting_amount t (dest_oamount t).
Proof. intros t. unfold dest_amount, dest_oamount. destruct (x_transferred t); reflexivity. Qed.

Lemma qsum_cons : forall x l, qsum (x :: l) = x + qsum l.
Proof. reflexivity. Qed.

Lemma qsum_nil : qsum [] = 0.
Proof. reflexivity. Qed.

Lemma qsum_app : forall a b, qsum (a ++ b) = qsum a + qsum b.
Proof.
  induction a as [|x a IH]; intros b; cbn [app].
  - rewrite qsum_nil. ring.
  - rewrite !qsum_cons, IH. ring.
Qed.

Section Sem.
  Variable ia : str -> aid.
  Variable ic : str -> cid.
  Variable acct : str.
  Variable c0 : str.

  (* a transaction in commodity c0 that balances, whose counter postings go elsewhere, and whose
     assertion (if any) is the running total v plus its own amount *)
  Definition txn_ok (v : Qc) (t : txn) : Prop :=
    oa_comm (x_amount t) = c0 /\ x_rates t = [] /\ oa_comm (dest_oamount t) = c0 /\
    Forall (fun c => oa_comm (ch_amount c) = c0) (x_charges t) /\
    val t + d_value (oa_value (dest_oamount t)) + qsum (map ch_val (x_charges t)) = 0 /\
    match x_dest t with Some a => ia a <> ia acct | None => True end /\
    match x_balance t with
    | None => True
    | Some b => oa_comm b = c0 /\ d_value (oa_value b) = v + val t
    end.

  Fixpoint run_ok (v : Qc) (ts : list txn) : Prop :=
    match ts with
    | [] => True
    | t :: r => txn_ok v t /\ run_ok (v + val t) r
    end.

  Hypothesis c0_ne : c0 <> [].
  Hypothesis H_comm : ia s_expenses_commissions <> ia acct.
  Hypothesis H_inc : ia s_income_unknown <> ia acct.
  Hypothesis H_exp : ia s_expenses_unknown <> ia acct.

  Lemma vexpr_of_c0 : forall a, oa_comm a = c0 ->
    vexpr_of ic (as_syntax_amount a) = VAmt (d_value (oa_value a)) (Some (ic c0)).
  Proof.
    intros a H. unfold vexpr_of, as_syntax_amount. cbn [sa_value sa_comm]. rewrite H.
    destruct c0; [contradiction|reflexivity].
  Qed.

  Lemma posting_of_gen : forall t a acc cl bal meta,
    oa_comm a = c0 -> x_rates t = [] ->
    match bal with Some b => oa_comm b = c0 | None => True end ->
    posting_of ia ic {| sp_account := acc; sp_clear := cl; sp_amount := Some (to_posting_amount t a);
                        sp_balance := option_map as_syntax_amount bal; sp_meta := meta |}
    = simple (ia acc) (ic c0) (d_value (oa_value a)) (option_map (fun b => d_value (oa_value b)) bal).
  Proof.
    intros t a acc cl bal meta Ha Hr Hb. unfold posting_of, simple, to_posting_amount, rate_of.
    cbn [sp_account sp_amount sp_balance option_map pa_amount pa_cost]. rewrite Hr. cbn [rates_get option_map].
    rewrite (vexpr_of_c0 a Ha).
    destruct bal as [b|]; cbn [option_map]; [rewrite (vexpr_of_c0 b Hb)|]; reflexivity.
  Qed.

  Lemma posts_ok_eq : forall A C v ps v1 s1 v2 s2,
    posts_ok A C v ps v1 s1 -> v1 = v2 -> s1 = s2 -> posts_ok A C v ps v2 s2.
  Proof. intros; subst; auto. Qed.

  Lemma charges_posts_ok : forall t v cs,
    x_rates t = [] -> Forall (fun c => oa_comm (ch_amount c) = c0) cs ->
    posts_ok (ia acct) (ic c0) v (map (fun c => posting_of ia ic (charge_posting t c)) cs) v
             (qsum (map ch_val cs)).
  Proof.
    intros t v cs Hr F. induction F as [|c cs Hc F IH]; cbn [map].
    - apply po_nil.
    - rewrite qsum_cons. unfold charge_posting at 1.
      rewrite (posting_of_gen t (ch_amount c) s_expenses_commissions Uncleared None _ Hc Hr I).
      apply po_other; auto.
  Qed.

  Lemma txn_posts_ok : forall v t, txn_ok v t ->
    posts_ok (ia acct) (ic c0) v (t_posts (txn_of ia ic (to_double_entry t acct))) (v + val t) 0.
  Proof.
    intros v t (Ha & Hr & Hd & Hc & Hs & Hx & Hb).
    unfold txn_of. cbn [t_posts]. unfold to_double_entry. cbn [tr_posts].
    assert (SRC : posting_of ia ic (src_posting t acct)
                  = simple (ia acct) (ic c0) (val t) (option_map (fun b => d_value (oa_value b)) (x_balance t))).
    { unfold src_posting. apply posting_of_gen; auto. destruct (x_balance t); tauto. }
    assert (DST : forall dflt, posting_of ia ic (dest_posting t dflt)
                  = simple (ia (match x_dest t with Some a => a | None => dflt end)) (ic c0)
                           (d_value (oa_value (dest_oamount t))) None).
    { intros dflt. unfold dest_posting. rewrite dest_amount_eq.
      apply (posting_of_gen t (dest_oamount t) _ _ None); auto. }
    assert (W : option_map (fun b => d_value (oa_value b)) (x_balance t) = None \/
                option_map (fun b => d_value (oa_value b)) (x_balance t) = Some (v + val t)).
    { destruct (x_balance t) as [b|]; [right|left; reflexivity]. cbn. f_equal. tauto. }
    pose proof (charges_posts_ok t) as CH.
    destruct (d_sign_positive (oa_value (x_amount t))).
    - cbn [map]. rewrite map_app, map_map. cbn [map]. rewrite SRC, DST.
      eapply posts_ok_eq.
      + apply po_mine; [exact W|].
        eapply posts_ok_app; [apply CH; auto|].
        apply po_other; [|apply po_nil].
        destruct (x_dest t); auto.
      + reflexivity.
      + etransitivity; [|exact Hs]. ring.
    - cbn [map]. rewrite map_app, map_map. cbn [map]. rewrite SRC, DST.
      eapply posts_ok_eq.
      + apply po_other; [destruct (x_dest t); auto|].
        eapply posts_ok_app; [apply CH; auto|].
        apply po_mine; [exact W|apply po_nil].
      + reflexivity.
      + etransitivity; [|exact Hs]. ring.
  Qed.

  Lemma process_run : forall ts v s n,
    s_fmt s = [] -> bal_get (s_bal s) (ia acct) = rz (ic c0) v -> run_ok v ts ->
    exists s' n',
      process_from n s (map (fun t => ETxn (txn_of ia ic (to_double_entry t acct))) ts) = (Ok s', n') /\
      s_fmt s' = [] /\ bal_get (s_bal s') (ia acct) = rz (ic c0) (v + qsum (map val ts)).
  Proof.
    induction ts as [|t r IH]; intros v s n F B H.
    - exists s, n. cbn [map process_from qsum fold_right]. replace (v + 0) with v by ring. auto.
    - destruct H as [T H]. apply txn_posts_ok in T.
      destruct (add_transaction_simple (ia acct) (ic c0) s _ v (v + val t) F B T) as (s1 & E & F1 & B1).
      cbn [map process_from process_entry]. rewrite E.
      destruct (IH (v + val t) s1 (S n) F1 B1 H) as (s' & n' & E' & F' & B').
      exists s', n'. split; [exact E'|]. split; [exact F'|].
      rewrite B'. rewrite qsum_cons. f_equal. ring.
  Qed.

  (* the general (semantic) conservation theorem *)
  Theorem conserves_balanced : forall fa opening txns,
    fa <> ia acct ->
    match opening with Some o => oa_comm o = c0 | None => True end ->
    run_ok (match opening with Some o => d_value (oa_value o) | None => 0 end) txns ->
    exists L n,
      process (ledger_of ia ic fa acct opening txns) = (Ok L, n) /\
      bal_get (s_bal L) (ia acct) =
      a_remove_zeros [(ic c0, (match opening with Some o => d_value (oa_value o) | None => 0 end)
                              + qsum (map val txns))].
  Proof.
    intros fa opening txns Hfa Ho Hr. unfold process, ledger_of.
    assert (B0 : bal_get (s_bal bstate0) (ia acct) = rz (ic c0) 0) by (rewrite rz_zero; reflexivity).
    destruct opening as [o|].
    - set (ov := d_value (oa_value o)) in *.
      assert (P : posts_ok (ia acct) (ic c0) 0
                    (t_posts (match funding ia ic fa acct o with ETxn t => t | _ => {| t_date := 0%Z; t_posts := [] |} end))
                    ov 0).
      { unfold funding. cbn [t_posts]. rewrite (vexpr_of_c0 o Ho).
        rewrite (vexpr_of_c0 (oa_neg o)) by exact Ho.
        eapply posts_ok_eq.
        - apply (po_mine (ia acct) (ic c0) 0 ov None); [left; reflexivity|].
          apply (po_other (ia acct) (ic c0) (0 + ov) fa (d_value (oa_value (oa_neg o))) []); [exact Hfa|apply po_nil].
        - fold ov. ring.
        - cbn [oa_neg oa_value]. rewrite d_value_neg. fold ov. ring. }
      destruct (add_transaction_simple (ia acct) (ic c0) bstate0 _ 0 ov eq_refl B0 P) as (s1 & E & F1 & B1).
      cbn [app process_from]. unfold funding in *. cbn [process_entry]. rewrite E.
      destruct (process_run txns ov s1 1%nat F1 B1 Hr) as (s' & n' & E' & F' & B').
      exists s', n'. split; [exact E'|exact B'].
    - cbn [app].
      destruct (process_run txns 0 bstate0 0%nat eq_refl B0 Hr) as (s' & n' & E' & F' & B').
      exists s', n'. split; [exact E'|exact B'].
  Qed.

End Sem.

(* ---- run_ok over appended lists and under set_last_balance ---- *)
Section Run.
  Variable ia : str -> aid.
  Variable acct : str.
  Variable c0 : str.
  Notation run_ok := (run_ok ia acct c0).
  Notation txn_ok := (txn_ok ia acct c0).

  Lemma run_ok_app : forall a b v,
    run_ok v (a ++ b) <-> run_ok v a /\ run_ok (v + qsum (map val a)) b.
  Proof.
    induction a as [|t a IH]; intros b v; cbn [app run_ok map].
    - cbn [qsum fold_right]. replace (v + 0) with v by ring. tauto.
    - rewrite IH, qsum_cons. replace (v + val t + qsum (map val a)) with (v + (val t + qsum (map val a))) by ring.
      tauto.
  Qed.

  Lemma txn_ok_set_balance : forall v v' t b,
    txn_ok v' t -> oa_comm b = c0 -> d_value (oa_value b) = v + val t -> txn_ok v (set_balance t b).
  Proof.
    intros v v' t b (Ha & Hr & Hd & Hc & Hs & Hx & _) Hb Hv.
    unfold txn_ok. repeat split; auto.
  Qed.

  Lemma run_ok_set_last : forall ts v b,
    run_ok v ts -> oa_comm b = c0 -> d_value (oa_value b) = v + qsum (map val ts) ->
    run_ok v (set_last_balance ts b).
  Proof.
    intros ts v b H Hb Hv. destruct ts as [|x r]; [exact I|].
    assert (NE : x :: r <> []) by discriminate.
    destruct (exists_last NE) as (l & t & E). rewrite E in *.
    rewrite set_last_balance_snoc.
    - apply run_ok_app in H. destruct H as [H1 [H2 _]].
      apply run_ok_app. split; [exact H1|]. split; [|exact I].
      eapply txn_ok_set_balance; eauto.
      rewrite Hv, map_app, qsum_app. cbn [map qsum fold_right]. ring.
  Qed.

  Lemma val_set_last : forall ts b, map val (set_last_balance ts b) = map val ts.
  Proof.
    induction ts as [|t r IH]; intros b; [reflexivity|].
    cbn [set_last_balance]. destruct r as [|t2 r2]; [reflexivity|].
    change (map val (t :: t2 :: r2)) with (val t :: map val (t2 :: r2)). rewrite <- (IH b). reflexivity.
  Qed.
End Run.
