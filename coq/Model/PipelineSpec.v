(* Declarative side of the composed pipeline (properties C11, C14 end to end): `cut_text_of`,
   the ways of cutting a sequence of ledger entries into a tree of TEXT files — Model/LoadSpec.v's
   `cut_of` with entries in the place of ids and "the text of the file parses to" in the place
   of "the content of the file is". *)
From Coq Require Import List NArith Bool Sorting.Sorted.
From Okv Require Import Model.Syntax Model.Comb Model.Glob Model.GlobSpec Model.Load Model.LoadSpec Model.ParseLedger
     Model.Pipeline Proofs.ParseLines.
Import ListNotations.
Open Scope N_scope.

(* no path twice *)
Definition wf_tfs (fs : tfs) : Prop := NoDup (map fst fs).

(* cut_text_of fs p L: the tree of files reachable from p is a way of cutting the entry
   sequence L at entry boundaries.  The text of each file parses (completely) to some of the
   entries, in order, and in between them include directives — literal or glob — each
   standing for the files that hold the next stretch of L, taken in path order.  (Texts are
   related to entries through the parser, not by slicing the characters of one big text:
   where an entry ends can depend on what follows it — a payee that starts with `(` — so a
   slice of a text need not parse to a slice of its entries.) *)
Inductive cut_text_of (fs : tfs) : path -> list s_entry -> Prop :=
| CT_file : forall p text pes L,
    In (canonicalize p, text) fs ->
    parse_ledger text = LOk pes ->
    cut_text_entries fs (canonicalize p) (map e_entry pes) L ->
    cut_text_of fs p L
with cut_text_entries (fs : tfs) : path -> list s_entry -> list s_entry -> Prop :=
| CTE_nil : forall cp, cut_text_entries fs cp [] []
| CTE_ent : forall cp e r L,
    is_include e = false ->
    cut_text_entries fs cp r L -> cut_text_entries fs cp (e :: r) (e :: L)
| CTE_inc : forall cp w r ps L1 L2,
    include_set (keys_fs fs) cp w ps ->
    cut_text_list fs ps L1 ->
    cut_text_entries fs cp r L2 ->
    cut_text_entries fs cp (SInclude w :: r) (L1 ++ L2)
with cut_text_list (fs : tfs) : list path -> list s_entry -> Prop :=
| CTL_nil : cut_text_list fs [] []
| CTL_cons : forall p ps L1 L2,
    cut_text_of fs p L1 -> cut_text_list fs ps L2 -> cut_text_list fs (p :: ps) (L1 ++ L2).

Scheme cut_text_of_mind := Minimality for cut_text_of Sort Prop
  with cut_text_entries_mind := Minimality for cut_text_entries Sort Prop
  with cut_text_list_mind := Minimality for cut_text_list Sort Prop.
Combined Scheme cut_text_mutind from cut_text_of_mind, cut_text_entries_mind, cut_text_list_mind.

(* the entry an abstract delivery (path, index) stands for *)
Definition entry_at (fs : tfs) (x : path * N) : option parsed_entry :=
  match tlookup (fst x) fs with
  | None => None
  | Some text => nth_error (parsed_of text) (N.to_nat (snd x))
  end.

(* what a delivered entry must carry for a diagnostic to name the right place: l_path is a
   file of the file system, l_parsed is the l_index-th entry the parser yields on its text and
   is not an include, its span is exactly a slice [mid] of that text, and its line_start is 1 +
   the number of line feeds before that slice *)
Definition placed (fs : tfs) (l : loaded) : Prop :=
  exists text pre mid post,
    tlookup (l_path l) fs = Some text /\
    nth_error (result_entries (parse_ledger text)) (N.to_nat (l_index l)) = Some (l_parsed l) /\
    is_include (e_entry (l_parsed l)) = false /\
    text = pre ++ mid ++ post /\
    e_span (l_parsed l) = (utf8_len pre, utf8_len pre + utf8_len mid) /\
    e_line_start (l_parsed l) = 1 + count_lf pre.

(* no include among the entries: a ledger in one file *)
Definition no_includes (es : list s_entry) : Prop := forall w, ~ In (SInclude w) es.
