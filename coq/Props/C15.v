(* C15 — import emits ledger text that reads back as intended.  Theorems only.

   Printer: Model/TxnText.v `txn_text` / `print_all` (Display of a syntax::Transaction under the
   configured precisions, one `writeln!` per transaction).  Reader: Model/TxnText.v `read_all`
   (line-based model of parse_ledger on the shapes importers print).  `clean` (Model/TxnTextSpec.v)
   lists the conditions on the text fields; what it excludes is exactly the known classes K0..K4
   (no escape syntax in the ledger language) plus what the importers themselves remove (line
   breaks, outer white space).  `same_txn` is equality of every field, numbers up to the padding
   `rescale` adds (same value, scale max(scale, min(precision, 28)) or as far as 96 bits allow; a
   negative zero may lose its sign).

   Covered, for every clean transaction: date, effective date, clear mark, code, payee, comment
   and `key: value` metadata lines of the transaction and of each posting, and per posting the
   clear mark, account, amount with commodity, ` @ ` cost and ` = ` balance assertion.  Nothing is
   left partial. *)
From Coq Require Import List NArith ZArith Bool.
From Okv Require Import Model.Lit Model.SingleEntry2 Model.TxnText Model.TxnTextSpec.
From Okv Require Import Proofs.TxnTextRescale Proofs.TxnTextRoundtrip Proofs.TxnTextExamples.
Import ListNotations.
Open Scope N_scope.

(* Numbers are printed without change of value, only padded: the printed Decimal is numerically
   equal to the built one, keeps its sign bit, and its scale is max(scale, min(precision, 28))
   whenever the padded mantissa fits 96 bits (else as many places as fit). *)
Theorem C15_rescale_value : forall p a,
  (scale (sa_value a) <= 28)%nat ->
  let target := Nat.max (scale (sa_value a)) (Nat.min (prec_of p (sa_comm a)) 28) in
  same_value (sa_value a) (display_rescale p a) = true /\
  neg (display_rescale p a) = neg (sa_value a) /\
  (mant (sa_value a) * pow10n (target - scale (sa_value a)) <= max96N -> scale (display_rescale p a) = target) /\
  padded_scale_ok p a (display_rescale p a) = true.
Proof. exact display_rescale_spec. Qed.
Print Assumptions C15_rescale_value.

(* The text ImportCmd writes for one clean transaction (its Display text and one more newline)
   reads back as exactly one transaction, the same one. *)
Theorem C15_roundtrip : forall p ws t, clean t = true ->
  exists t', read_all (txn_text p ws t ++ [10]) = RItems [ITxn t'] false /\ same_txn p t t' = true.
Proof. exact roundtrip. Qed.
Print Assumptions C15_roundtrip.

Theorem C15_one_txn_per_record : forall p ws t, clean t = true ->
  exists items, read_all (txn_text p ws t ++ [10]) = RItems items false /\ length items = 1%nat.
Proof. exact one_txn_per_record. Qed.
Print Assumptions C15_one_txn_per_record.

(* The whole output of an import run: as many transactions as were printed, each the same. *)
Theorem C15_roundtrip_all : forall p wss ts, forallb clean ts = true ->
  exists ts', read_all (print_all p wss ts) = RItems (map ITxn ts') false /\
              length ts' = length ts /\ list_same (same_txn p) ts ts' = true.
Proof. exact roundtrip_all. Qed.
Print Assumptions C15_roundtrip_all.

(* The known classes are real: for each there is a transaction, clean but for that one field,
   whose printed text does not read back as itself. *)
Theorem C15_K0_refuted : exists p ws t, k_payee_semicolon t = true /\
  ~ (exists t', read_all (txn_text p ws t ++ [10]) = RItems [ITxn t'] false /\ same_txn p t t' = true).
Proof. exact K0_refuted. Qed.
Print Assumptions C15_K0_refuted.

Theorem C15_K1_refuted : exists p ws t, k_payee_paren t = true /\
  ~ (exists t', read_all (txn_text p ws t ++ [10]) = RItems [ITxn t'] false /\ same_txn p t t' = true).
Proof. exact K1_refuted. Qed.
Print Assumptions C15_K1_refuted.

Theorem C15_K2_refuted : exists p ws t, k_code_paren t = true /\
  ~ (exists t', read_all (txn_text p ws t ++ [10]) = RItems [ITxn t'] false /\ same_txn p t t' = true).
Proof. exact K2_refuted. Qed.
Print Assumptions C15_K2_refuted.

Theorem C15_K3_refuted : exists p ws t, k_comment_meta t = true /\
  ~ (exists t', read_all (txn_text p ws t ++ [10]) = RItems [ITxn t'] false /\ same_txn p t t' = true).
Proof. exact K3_refuted. Qed.
Print Assumptions C15_K3_refuted.

Theorem C15_K4_refuted : exists p ws t, k_commodity t = true /\
  ~ (exists t', read_all (txn_text p ws t ++ [10]) = RItems [ITxn t'] false /\ same_txn p t t' = true).
Proof. exact K4_refuted. Qed.
Print Assumptions C15_K4_refuted.
