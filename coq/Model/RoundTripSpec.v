(* Vocabulary of the C05 print-parse round trip.  Definitions only.

   wf_X : the trees on which  parse (print x)  gives x back (up to same_X), one executable
          boolean per construct.  They describe the image of the parser: everything listed
          here is a side condition that the parser model establishes by construction
          (Proofs/RoundTripImage.v) and the printer model needs in order to be read back.
   same_X : equality of trees up to the number-format flag where it can not be observed
          (PrettyDecimal `format` of a number whose integer part has fewer than four digits:
          `None`, `Some Plain` and `Some Comma3Dot` print the same text).
   rest_X : what the parser of X leaves of the continuation k (a number without commodity
          swallows the blanks that follow it). *)
From Coq Require Import List NArith ZArith Bool Arith.
From Okv Require Import Model.Lit Model.LitSpec Model.Syntax Model.Comb Model.ParseExpr Model.ParseMeta
  Model.ParsePosting Model.ParseTxn Model.ParseDirective Model.Display.
Import ListNotations.
Open Scope N_scope.

(* ---- small executable helpers ---- *)
Fixpoint str_eqb (a b : str) : bool :=
  match a, b with
  | [], [] => true
  | x :: a', y :: b' => (x =? y) && str_eqb a' b'
  | _, _ => false
  end.

Definition is_empty {A} (l : list A) : bool := match l with [] => true | _ => false end.
Definition opt_all {A} (f : A -> bool) (o : option A) : bool :=
  match o with Some x => f x | None => true end.
(* the first character, if any, satisfies f *)
Definition starts (f : N -> bool) (s : str) : bool :=
  match s with c :: _ => f c | [] => false end.

Definition skip_sp (s : str) : str := snd (span_while is_sp s).

Definition no_nl (s : str) : bool := forallb (fun c => negb (is_nl c)) s.
Definition end_trimmed (s : str) : bool := str_eqb (trim_end s) s.
Definition trimmed (s : str) : bool := str_eqb (trim s) s.
(* a text that fills the rest of a line and is read back by  till_line_ending + trim_end  after
   a greedy run of blanks: no line break, no blank in front, no white space at the end *)
Definition wf_line_text (s : str) : bool := no_nl s && end_trimmed s && negb (starts is_sp s).

(* ---- numbers ---- *)
(* the integer part has four digits or more: only then is the grouping style visible *)
Definition big4 (d : pdec) : bool := pow10_N (3 + scale d) <=? mant d.

(* a Decimal the scanner returns: 96-bit mantissa, scale <= 28, no negative zero, and a number
   with four or more integer digits records how it was written (Plain or Comma3Dot) *)
Definition wf_num (d : pdec) : bool :=
  (Z.of_N (mant d) <=? max96)%Z && (scale d <=? 28)%nat &&
  (negb (neg d) || negb (mant d =? 0)) &&
  (match pfmt d with None => negb (big4 d) | Some _ => true end).

Definition same_num (d d' : pdec) : Prop :=
  mant d' = mant d /\ scale d' = scale d /\ neg d' = neg d /\ (big4 d = true -> pfmt d' = pfmt d).

(* ---- dates: what chrono prints with four digits and reads back ---- *)
Definition wf_date (d : Syntax.date) : bool :=
  (0 <=? d_year d)%Z && (d_year d <=? 9999)%Z &&
  (1 <=? d_month d) && (d_month d <=? 12) &&
  (1 <=? d_day d) && (d_day d <=? days_in_month (Z.to_N (d_year d)) (d_month d)).

(* ---- amounts ---- *)
Definition wf_commodity (c : str) : bool := forallb (fun x => negb (is_non_commodity x)) c.
Definition wf_amount (a : s_amount) : bool := wf_num (sa_value a) && wf_commodity (sa_commodity a).
Definition same_amount (a a' : s_amount) : Prop :=
  same_num (sa_value a) (sa_value a') /\ sa_commodity a' = sa_commodity a.

Definition rest_amount (a : s_amount) (k : str) : str :=
  match sa_commodity a with [] => skip_sp k | _ :: _ => k end.

(* ---- value expressions: the left-fold normal form of expr.rs ----
   LAdd: a chain  m + m - m ...  folded to the left; LMul: a chain  u x u / u ...  (x the times sign); LUn: an
   operand: a non-negative literal, a parenthesised expression, or one minus sign in front of
   a value expression (which may itself be a negative literal).
   Excluded, because the parser can not produce them and their printed form reads back as a
   different tree: a negative literal as an operand ("-5" is read as a negation), a negation of
   anything but a value expression (nested unary, unary over binary), a binary whose left or
   right operand is of a looser level (precedence), a right-nested chain. *)
Inductive level := LAdd | LMul | LUn.

Fixpoint wf_v (v : s_vexpr) : bool :=
  match v with
  | SAmount a => wf_amount a
  | SParen e => wf_e LAdd e
  end
with wf_e (l : level) (e : s_expr) : bool :=
  match e with
  | SBinary op a b =>
      match l, op with
      | LAdd, SAdd | LAdd, SSub => wf_e LAdd a && wf_e LMul b
      | LAdd, SMul | LAdd, SDiv | LMul, SMul | LMul, SDiv => wf_e LMul a && wf_e LUn b
      | _, _ => false
      end
  | SUnaryNeg e1 =>
      match e1 with
      | SValue v => wf_v v
      | _ => false
      end
  | SValue v =>
      match v with
      | SAmount a => wf_amount a && negb (neg (sa_value a))
      | SParen e1 => wf_e LAdd e1
      end
  end.

(* at most MAX_EXPR_DEPTH levels of parentheses, and a syntax tree of height at most
   MAX_EXPR_HEIGHT (so: no chain of more than MAX_EXPR_HEIGHT - 1 operators) *)
Definition wf_vexpr (v : s_vexpr) : bool :=
  wf_v v && (vexpr_depth v <=? max_expr_depth)%nat && (vexpr_height v <=? max_expr_height)%nat.

Fixpoint same_v (v v' : s_vexpr) : Prop :=
  match v, v' with
  | SAmount a, SAmount a' => same_amount a a'
  | SParen e, SParen e' => same_e e e'
  | _, _ => False
  end
with same_e (e e' : s_expr) : Prop :=
  match e, e' with
  | SUnaryNeg a, SUnaryNeg a' => same_e a a'
  | SBinary op a b, SBinary op' a' b' => op' = op /\ same_e a a' /\ same_e b b'
  | SValue v, SValue v' => same_v v v'
  | _, _ => False
  end.

Definition rest_vexpr (v : s_vexpr) (k : str) : str :=
  match v with SAmount a => rest_amount a k | SParen _ => k end.

(* ---- exchange, lot, cost ---- *)
Definition wf_exchange (x : s_exchange) : bool :=
  match x with STotal v => wf_vexpr v | SRate v => wf_vexpr v end.
Definition same_exchange (x x' : s_exchange) : Prop :=
  match x, x' with
  | STotal v, STotal v' => same_v v v'
  | SRate v, SRate v' => same_v v v'
  | _, _ => False
  end.
Definition same_opt {A} (R : A -> A -> Prop) (o o' : option A) : Prop :=
  match o, o' with
  | Some x, Some x' => R x x'
  | None, None => True
  | _, _ => False
  end.

(* a lot note ends at the first of ( ) @ *)
Definition wf_note (n : str) : bool := forallb (fun c => negb (is_note_stop c)) n.
Definition wf_lot (l : s_lot) : bool :=
  opt_all wf_exchange (lot_price l) && opt_all wf_date (lot_date l) && opt_all wf_note (lot_note l).
Definition same_lot (l l' : s_lot) : Prop :=
  same_opt same_exchange (lot_price l) (lot_price l') /\
  lot_date l' = lot_date l /\ lot_note l' = lot_note l.

Definition wf_posting_amount (pa : s_posting_amount) : bool :=
  wf_vexpr (pa_amount pa) && opt_all wf_exchange (pa_cost pa) && wf_lot (pa_lot pa).
Definition same_posting_amount (pa pa' : s_posting_amount) : Prop :=
  same_v (pa_amount pa) (pa_amount pa') /\
  same_opt same_exchange (pa_cost pa) (pa_cost pa') /\
  same_lot (pa_lot pa) (pa_lot pa').

(* ---- metadata ---- *)
Definition is_tag_stop (c : N) : bool := is_ascii_whitespace c || (c =? 58).
(* a tag / key: not empty, no ASCII white space, no colon *)
Definition wf_tag (t : str) : bool := negb (is_empty t) && forallb (fun c => negb (is_tag_stop c)) t.
(* the value of  key: value : the rest of the line with the white space around it removed *)
Definition wf_meta_value (v : s_meta_value) : bool :=
  match v with
  | MText s => no_nl s && trimmed s
  | MExpr s => no_nl s && trimmed s
  end.

(* texts that the two earlier alternatives of line_metadata would take:
   `:tag:...`  and  `key sp* :...` *)
Definition kv_like (s : str) : bool :=
  let (w, r) := span_while (fun c => negb (is_tag_stop c)) s in
  negb (is_empty w) && starts (N.eqb 58) (skip_sp r).
Definition tags_like (s : str) : bool :=
  match s with
  | 58 :: s1 =>
      let (w, r) := span_while (fun c => negb (is_tag_stop c)) s1 in
      negb (is_empty w) && starts (N.eqb 58) r
  | _ => false
  end.

Definition wf_metadata (m : s_metadata) : bool :=
  match m with
  | MWordTags tags => negb (is_empty tags) && forallb wf_tag tags
  | MKeyValue k v => wf_tag k && wf_meta_value v
  | MComment s => wf_line_text s && negb (tags_like s) && negb (kv_like s)
  end.

(* ---- postings ---- *)
(* an account: words of non-separator characters (no blank, tab, ; CR LF) joined by single
   blanks; not made of white space only (the parser rejects such a name) *)
Fixpoint acct_tail (s : str) : bool :=
  match s with
  | [] => true
  | c :: r =>
      if c =? 32
      then match r with d :: _ => negb (is_account_stop d) && acct_tail r | [] => false end
      else negb (is_account_stop c) && acct_tail r
  end.
Definition wf_account (a : str) : bool :=
  match a with
  | [] => false
  | c :: r => negb (is_account_stop c) && acct_tail r && negb (is_empty (trim a))
  end.
Definition is_clear_mark (c : N) : bool := (c =? 42) || (c =? 33).

Definition wf_posting (p : s_posting) : bool :=
  wf_account (sp_account p) &&
  (* an account that starts with * or ! is read as a clear mark unless one is printed before it *)
  (match sp_clear p with Uncleared => negb (starts is_clear_mark (sp_account p)) | _ => true end) &&
  opt_all wf_posting_amount (sp_amount p) &&
  opt_all wf_vexpr (sp_balance p) &&
  forallb wf_metadata (sp_metadata p).

Definition same_posting (p p' : s_posting) : Prop :=
  sp_account p' = sp_account p /\ sp_clear p' = sp_clear p /\
  same_opt same_posting_amount (sp_amount p) (sp_amount p') /\
  same_opt same_v (sp_balance p) (sp_balance p') /\
  sp_metadata p' = sp_metadata p.

(* ---- transactions ---- *)
Definition wf_code (c : str) : bool := forallb (fun x => negb (x =? 41)) c.
Definition wf_payee (cs : Syntax.clear_state) (code : option str) (p : str) : bool :=
  forallb (fun c => negb (is_payee_stop c)) p && end_trimmed p && negb (starts is_sp p) &&
  (* with neither mark nor code in front, a payee that starts with * or ! is read as a mark *)
  (match cs, code with Uncleared, None => negb (starts is_clear_mark p) | _, _ => true end).

Definition wf_txn (t : s_txn) : bool :=
  wf_date (st_date t) && opt_all wf_date (st_edate t) && opt_all wf_code (st_code t) &&
  wf_payee (st_clear t) (st_code t) (st_payee t) &&
  forallb wf_metadata (st_metadata t) && forallb wf_posting (st_posts t).

(* The one condition that is not local to an entry: with no code, a payee that starts with ( is
   read as the payee only when no ) follows anywhere in the rest of the text (the code parser
   runs to the end of the input and gives up).  See wf_ledger below. *)
Definition open_paren_payee (t : s_txn) : bool :=
  match st_code t with None => starts (N.eqb 40) (st_payee t) | Some _ => false end.

Definition same_txn (t t' : s_txn) : Prop :=
  st_date t' = st_date t /\ st_edate t' = st_edate t /\ st_clear t' = st_clear t /\
  st_code t' = st_code t /\ st_payee t' = st_payee t /\
  Forall2 same_posting (st_posts t) (st_posts t') /\ st_metadata t' = st_metadata t.

(* ---- directives ---- *)
(* a multi-line text as multiline_text builds it: one or more lines, each ended by "\n", no
   other line break character; `bad` is what a line must not start with (the characters the
   greedy prefix parser would have taken) *)
Definition wf_multiline (bad : N -> bool) (s : str) : bool :=
  negb (is_empty s) &&
  str_eqb (flat_map (fun l => l ++ [10]) (str_lines s)) s &&
  forallb (fun l => no_nl l && negb (starts bad l)) (str_lines s).

Definition wf_account_detail (d : s_account_detail) : bool :=
  match d with
  | ADComment v => wf_multiline is_comment_prefix v
  | ADNote v => wf_multiline is_sp v
  | ADAlias v => wf_line_text v
  end.
Definition wf_commodity_detail (d : s_commodity_detail) : bool :=
  match d with
  | CDComment v => wf_multiline is_comment_prefix v
  | CDNote v => wf_multiline is_sp v
  | CDAlias v => wf_line_text v
  | CDFormat a => wf_amount a
  end.

(* consecutive comment (note) sub-directives are read as one: the parser never returns two in
   a row *)
Fixpoint no_adjacent {A} (same_kind : A -> A -> bool) (l : list A) : bool :=
  match l with
  | x :: ((y :: _) as r) => negb (same_kind x y) && no_adjacent same_kind r
  | _ => true
  end.
Definition ad_merges (a b : s_account_detail) : bool :=
  match a, b with
  | ADComment _, ADComment _ => true
  | ADNote _, ADNote _ => true
  | _, _ => false
  end.
Definition cd_merges (a b : s_commodity_detail) : bool :=
  match a, b with
  | CDComment _, CDComment _ => true
  | CDNote _, CDNote _ => true
  | _, _ => false
  end.

Definition same_commodity_detail (d d' : s_commodity_detail) : Prop :=
  match d, d' with
  | CDFormat a, CDFormat a' => same_amount a a'
  | _, _ => d' = d
  end.

Definition wf_entry (e : s_entry) : bool :=
  match e with
  | STxn t => wf_txn t
  | SComment s => wf_multiline is_comment_prefix s
  | SApplyTag key value => wf_tag key && opt_all wf_meta_value value
  | SEndApplyTag => true
  | SInclude path => wf_line_text path
  | SAccount name details =>
      wf_line_text name && forallb wf_account_detail details && no_adjacent ad_merges details
  | SCommodity name details =>
      wf_line_text name && forallb wf_commodity_detail details && no_adjacent cd_merges details
  end.

Definition entry_open_paren (e : s_entry) : bool :=
  match e with STxn t => open_paren_payee t | _ => false end.

(* ---- trees whose printed form contains no `)` : no parenthesised expression, no code, no lot
   note, no `)` in any text field ---- *)
Definition no41 (s : str) : bool := forallb (fun c => negb (c =? 41)) s.
Definition np_vexpr (v : s_vexpr) : bool :=
  match v with SAmount a => no41 (sa_commodity a) | SParen _ => false end.
Definition np_exchange (x : s_exchange) : bool :=
  match x with STotal v => np_vexpr v | SRate v => np_vexpr v end.
Definition np_lot (l : s_lot) : bool :=
  opt_all np_exchange (lot_price l) && is_none (lot_note l).
Definition np_posting_amount (pa : s_posting_amount) : bool :=
  np_vexpr (pa_amount pa) && opt_all np_exchange (pa_cost pa) && np_lot (pa_lot pa).
Definition np_meta_value (v : s_meta_value) : bool :=
  match v with MText s => no41 s | MExpr s => no41 s end.
Definition np_metadata (m : s_metadata) : bool :=
  match m with
  | MComment s => no41 s
  | MWordTags tags => forallb no41 tags
  | MKeyValue k v => no41 k && np_meta_value v
  end.
Definition np_posting (p : s_posting) : bool :=
  no41 (sp_account p) && opt_all np_posting_amount (sp_amount p) && opt_all np_vexpr (sp_balance p) &&
  forallb np_metadata (sp_metadata p).
Definition np_txn (t : s_txn) : bool :=
  is_none (st_code t) && no41 (st_payee t) &&
  forallb np_metadata (st_metadata t) && forallb np_posting (st_posts t).
Definition np_account_detail (d : s_account_detail) : bool :=
  match d with ADComment s => no41 s | ADNote s => no41 s | ADAlias s => no41 s end.
Definition np_commodity_detail (d : s_commodity_detail) : bool :=
  match d with
  | CDComment s => no41 s | CDNote s => no41 s | CDAlias s => no41 s
  | CDFormat a => no41 (sa_commodity a)
  end.
Definition np_entry (e : s_entry) : bool :=
  match e with
  | STxn t => np_txn t
  | SComment s => no41 s
  | SApplyTag key value => no41 key && opt_all np_meta_value value
  | SEndApplyTag => true
  | SInclude path => no41 path
  | SAccount name ds => no41 name && forallb np_account_detail ds
  | SCommodity name ds => no41 name && forallb np_commodity_detail ds
  end.

(* a list of entries as `format` may be given it: every entry well formed, and after a payee
   that starts with ( without a code, nothing that would be printed with a ) *)
Fixpoint wf_ledger (es : list s_entry) : bool :=
  match es with
  | [] => true
  | e :: r =>
      wf_entry e && (negb (entry_open_paren e) || (np_entry e && forallb np_entry r)) && wf_ledger r
  end.

Definition same_entry (e e' : s_entry) : Prop :=
  match e, e' with
  | STxn t, STxn t' => same_txn t t'
  | SCommodity n ds, SCommodity n' ds' => n' = n /\ Forall2 same_commodity_detail ds ds'
  | STxn _, _ | SCommodity _ _, _ => False
  | _, _ => e' = e
  end.

Definition same_meaning (es es' : list s_entry) : Prop := Forall2 same_entry es es'.
