//! C17: rewrite rules and layered configuration resolve as documented.
//! Lists of YAML documents -> load_from_yaml -> ConfigSet::select; then CSV records through
//! import::import under the selected entry and Txn::to_double_entry.
use crate::c17x;
use crate::camtgen;
use crate::coq::{self, Shards, Stats};
use crate::impgen::*;
use crate::prng::Rng;
use crate::Opts;
use serde::{Deserialize, Serialize};
use serde_json::json;

#[derive(Clone, Debug, Serialize, Deserialize)]
pub struct Case17 {
    pub docs: Vec<Doc>,
    pub path: String,
    /// layout used for the import run (replaces the selected entry's `format`)
    pub layout: Format,
    pub header: Vec<String>,
    pub rows: Vec<Row>,
}

const FILE_PATHS: [&str; 7] = [
    "data/bank/okane/2024-01.csv",
    "stmt/card/visa-okane.csv",
    "import/bank/checking/202109.csv",
    "x.csv",
    // a directory name continued by other characters: `path: bank/` must not select these
    "data/bankcard/2024.csv",
    "stmt/cards/visa/okane-card.csv",
    "import/bank.old/bank/2021.csv",
];

/// byte offsets at which a path component of `file` starts
fn component_starts(file: &str) -> Vec<usize> {
    let mut v = vec![0];
    v.extend(file.match_indices('/').map(|(i, _)| i + 1));
    v
}

pub fn gen_doc_path(r: &mut Rng, file: &str) -> String {
    if r.chance(1, 6) {
        // does not occur in the file path
        return (*r.pick(&["viseca/", "zz", "bank\\okane", "OKANE", "2025"])).to_string();
    }
    let b = file.as_bytes();
    if r.chance(1, 4) {
        // a directory written with its trailing separator: the beginning of a component (all of it,
        // or only some of its first characters) followed by '/'; it occurs in the file path exactly
        // when the '/' is there too, never because the text without the '/' occurs
        let starts = component_starts(file);
        let st = *r.pick(&starts);
        let comp_len = file[st..].find('/').unwrap_or(file.len() - st);
        let take = if r.chance(1, 2) { comp_len } else { 1 + r.below(comp_len.max(1) as u64) as usize };
        let take = take.min(comp_len);
        if file.is_char_boundary(st + take) && take > 0 {
            // sometimes with the preceding separator or the preceding component
            let from = if st > 0 && r.chance(1, 3) { if r.chance(1, 2) { st - 1 } else { *r.pick(&starts).min(&st) } } else { st };
            return format!("{}/", &file[from..st + take]);
        }
    }
    if r.chance(1, 12) {
        // shapes a path normaliser would rewrite ("./x", "x//y", "x/./y"); the documented rule is the
        // plain substring test on the path as written
        let starts = component_starts(file);
        let st = *r.pick(&starts);
        let end = file[st..].find('/').map(|n| st + n).unwrap_or(file.len());
        let next_end = if end < file.len() { file[end + 1..].find('/').map(|n| end + 1 + n).unwrap_or(file.len()) } else { end };
        return match r.below(3) {
            0 => format!("./{}", &file[st..end]),
            1 if end < file.len() => format!("{}//{}", &file[st..end], &file[end + 1..next_end]),
            _ if end < file.len() => format!("{}/./{}", &file[st..end], &file[end + 1..next_end]),
            _ => format!("{}/.", &file[st..end]),
        };
    }
    let len = (*r.pick(&[0usize, 1, 2, 4, 4, 5, 5, 9])).min(b.len());
    let start = r.below((b.len() - len + 1) as u64) as usize;
    file[start..start + len].to_string()
}

pub fn gen_small_format(r: &mut Rng) -> Format {
    let mut fields = Vec::new();
    for k in 0..13 {
        if r.chance(1, 4) {
            let pos = match r.below(3) {
                0 => Pos::Index(r.below(9) as usize),
                1 => Pos::Label((*r.pick(&["Date", "日付", "Amount", "Payee", "Fees & Comm"])).to_string()),
                _ => Pos::Template(vec![Seg::Named(K_CATEGORY), Seg::Lit(" - ".into()), if r.chance(1, 2) { Seg::Named(K_NOTE) } else { Seg::Indexed(r.below(5) as usize) }]),
            };
            fields.push((k, pos));
        }
    }
    let mut precisions = Vec::new();
    for c in ["CHF", "EUR"] {
        if r.chance(1, 4) {
            precisions.push((c.to_string(), r.below(4) as u8));
        }
    }
    Format {
        date: (*r.pick(&["%Y-%m-%d", "%Y/%m/%d", "%d.%m.%Y", ""])).to_string(),
        precisions,
        fields,
        delimiter: (*r.pick(&["", ",", ";", "\t"])).to_string(),
        skip: r.below(3) as i32,
        new_to_old: r.chance(1, 3),
    }
}

fn gen_doc(r: &mut Rng, file: &str, rich: bool) -> Doc {
    let p = if rich { 9 } else { 4 };
    Doc {
        path: gen_doc_path(r, file),
        encoding: if r.chance(p, 10) { Some(r.below(3) as usize) } else { None },
        account: if r.chance(p, 10) { Some(r.pick(&SRC_ACCOUNTS).to_string()) } else { None },
        liability: if r.chance(p, 10) { Some(r.chance(1, 2)) } else { None },
        operator: if r.chance(1, 3) { Some((*r.pick(&["Okane Bank (fee)", "Broker"])).to_string()) } else { None },
        commodity: if r.chance(p, 10) {
            Some(if r.chance(2, 3) { Commodity::Primary(r.pick(&COMMODITIES).to_string()) } else { Commodity::Spec(r.pick(&COMMODITIES).to_string(), gen_conv(r)) })
        } else {
            None
        },
        format: if r.chance(1, 2) { Some(gen_small_format(r)) } else { None },
        rewrite: {
            let n = *r.pick(&[0u64, 1, 1, 2, 2, 3, 4]);
            (0..n).map(|_| gen_rule(r, 4)).collect()
        },
    }
}

/// the layouts of the import run: date, payee, category, secondary commodity, amount(s)
fn gen_layout(r: &mut Rng) -> (Format, Vec<String>) {
    let header: Vec<String> = ["Date", "Payee", "Category", "Symbol", "In", "Out"].iter().map(|s| s.to_string()).collect();
    let by_label = r.chance(1, 3);
    let pos = |i: usize| if by_label { Pos::Label(header[i].clone()) } else { Pos::Index(i) };
    let mut fields = vec![(K_DATE, pos(0)), (K_PAYEE, pos(1)), (K_CATEGORY, pos(2)), (K_SECONDARY_COMMODITY, pos(3))];
    if r.chance(1, 2) {
        fields.push((K_AMOUNT, pos(4)));
    } else {
        fields.push((K_CREDIT, pos(4)));
        fields.push((K_DEBIT, pos(5)));
    }
    fields.sort_by_key(|x| x.0);
    (Format { date: "%Y-%m-%d".into(), precisions: vec![], fields, delimiter: "".into(), skip: 0, new_to_old: r.chance(1, 4) }, header)
}

pub fn gen_rows(r: &mut Rng, layout: &Format) -> Vec<Row> {
    let credit_debit = layout.fields.iter().any(|(k, _)| *k == K_CREDIT);
    let n = 1 + r.below(4);
    let mut rows = Vec::new();
    for i in 0..n {
        let date = format!("2024-{:02}-{:02}", 1 + r.below(12), 1 + r.below(28));
        let payee = gen_payee_text(r);
        let cat = if r.chance(1, 2) { r.pick(&CATEGORIES).to_string() } else { String::new() };
        let sym = if r.chance(1, 3) { r.pick(&COMMODITIES).to_string() } else { String::new() };
        let v = format!("{}.{:02}", r.below(5000), r.below(100));
        let (a, b) = if credit_debit {
            match r.below(8) {
                0 => ("0".to_string(), String::new()),
                1 => (String::new(), "0".to_string()),
                2 | 3 | 4 => (v, String::new()),
                _ => (String::new(), v),
            }
        } else {
            match r.below(10) {
                0 => (String::new(), String::new()),
                1 => ("0".to_string(), String::new()),
                2 => ("-0.00".to_string(), String::new()),
                3 | 4 | 5 => (v, String::new()),
                _ => (format!("-{}", v), String::new()),
            }
        };
        let _ = i;
        rows.push(Row { fields: vec![date.clone(), payee, cat, sym, a, b], date_text: date });
    }
    rows
}

pub fn gen_case(r: &mut Rng) -> Case17 {
    let file = (*r.pick(&FILE_PATHS)).to_string();
    let n = 1 + r.below(4);
    let docs: Vec<Doc> = (0..n).map(|i| { let rich = i == 0 || r.chance(1, 3); gen_doc(r, &file, rich) }).collect();
    let (layout, header) = gen_layout(r);
    let rows = gen_rows(r, &layout);
    let mut docs = docs;
    if r.chance(1, 5) {
        // a named group that matches the empty string on one of the records, then a rule that
        // tells the rewritten (empty) payee from the original one
        let payee = rows[r.below(rows.len() as u64) as usize].fields[1].clone();
        let pair = gen_empty_group_rules(r, &payee);
        let matching: Vec<usize> = (0..docs.len()).filter(|i| file.contains(&docs[*i].path)).collect();
        let di = if matching.is_empty() || r.chance(1, 6) { r.below(docs.len() as u64) as usize } else { *r.pick(&matching) };
        let at = r.below(docs[di].rewrite.len() as u64 + 1) as usize;
        let mut pair = pair;
        let b = pair.pop().unwrap();
        let a = pair.pop().unwrap();
        docs[di].rewrite.insert(at, a);
        // the follow-up comes later in the same document, not always adjacent
        let at2 = at + 1 + r.below((docs[di].rewrite.len() - at) as u64) as usize;
        let at2 = at2.min(docs[di].rewrite.len());
        docs[di].rewrite.insert(at2, b);
    }
    let mut rows = rows;
    if r.chance(1, 5) {
        repeat_parent_rule(r, &mut docs, &file, &mut rows);
    }
    Case17 { docs, path: file, layout, header, rows }
}

/// Two layered documents (a shorter and a longer path, both occurring in the file path) where the
/// longer-path document repeats a rule of the shorter-path one verbatim at a later position, with
/// a rule in between that rewrites the payee so that the second occurrence matters:
///   parent [A: ^w1 (?P<payee>.*)$]   child [B: ^w2 (?P<payee>.*)$, A, C: ^w3$ -> account]
/// and a record whose payee is "w2 w1 w3": B makes it "w1 w3", the repeated A makes it "w3", C books
/// it.  The merged rule list is the concatenation - a repeated rule is applied again.
fn repeat_parent_rule(r: &mut Rng, docs: &mut Vec<Doc>, file: &str, rows: &mut [Row]) {
    while docs.len() < 2 {
        docs.push(gen_doc(r, file, false));
    }
    let mut idx: Vec<usize> = (0..docs.len()).collect();
    r.shuffle(&mut idx);
    let (pi, ci) = (idx[0], idx[1]);
    // two substrings of the file path on character boundaries, the parent's shorter (or as long
    // and earlier in the file: the sort is stable)
    let b = file.len();
    let l1 = r.below(4) as usize;
    let l2 = (l1 + r.below(5) as usize).max(if pi < ci { l1 } else { l1 + 1 }).min(b);
    let l1 = l1.min(l2);
    let a1 = r.below((b - l1 + 1) as u64) as usize;
    let a2 = r.below((b - l2 + 1) as u64) as usize;
    if !(file.is_char_boundary(a1) && file.is_char_boundary(a1 + l1) && file.is_char_boundary(a2) && file.is_char_boundary(a2 + l2)) {
        return;
    }
    docs[pi].path = file[a1..a1 + l1].to_string();
    docs[ci].path = file[a2..a2 + l2].to_string();
    let mut ws = ["Migros", "Coop", "Card", "ATM", "Shop", "Cafe", "Rent", "Debit"].to_vec();
    r.shuffle(&mut ws);
    let (w1, w2, w3) = (ws[0], ws[1], ws[2]);
    let anchored = r.chance(4, 5);
    let strip = |w: &str| Pat { start: anchored, items: vec![Item::Plain(Atom::Lit(format!("{} ", w))), Item::Payee(Atom::Rest)], end: anchored, valid: true };
    let as_list = r.chance(1, 3);
    let a = Rule { matcher: vec![vec![(RF_PAYEE, strip(w1))]], as_list, pending: r.chance(1, 4), payee: None, account: if r.chance(1, 4) { Some(r.pick(&ACCOUNTS).to_string()) } else { None }, conversion: None };
    let bb = Rule { matcher: vec![vec![(RF_PAYEE, strip(w2))]], as_list: r.chance(1, 3), pending: false, payee: None, account: None, conversion: None };
    let c = Rule { matcher: vec![vec![(RF_PAYEE, Pat { start: true, items: vec![Item::Plain(Atom::Lit(w3.to_string()))], end: true, valid: true })]], as_list: false, pending: r.chance(1, 4), payee: None, account: Some(r.pick(&ACCOUNTS).to_string()), conversion: None };
    let at = r.below(docs[pi].rewrite.len() as u64 + 1) as usize;
    docs[pi].rewrite.insert(at, a.clone());
    // the child: B, then A once more (now and then not quite verbatim), then C, other rules between
    let mut again = a;
    if r.chance(1, 8) {
        again.pending = !again.pending;
    }
    let n = docs[ci].rewrite.len();
    let mut pos: Vec<usize> = (0..3).map(|_| r.below(n as u64 + 1) as usize).collect();
    pos.sort();
    docs[ci].rewrite.insert(pos[2], c);
    docs[ci].rewrite.insert(pos[1], again);
    docs[ci].rewrite.insert(pos[0], bb);
    let k = r.below(rows.len() as u64) as usize;
    rows[k].fields[1] = format!("{} {} {}", recase(r, w2), recase(r, w1), recase(r, w3));
}

/// how many rules hit a record, following the fold (statistics only); `cat_caps`: the captures of
/// a category match count too (the Viseca adapter keeps them)
/// `dropped_caps`: [hits whose category / secondary_commodity pattern has a payee / code group the
/// adapter drops, those of them whose element has a payee matcher too]
pub fn count_hits(rules: &[config_rule::R], payee0: &str, cat: &str, sym: &str, cat_caps: bool, empty_caps: &mut usize, dropped_caps: &mut [usize; 2]) -> usize {
    let mut payee = payee0.to_string();
    let mut hits = 0;
    for rule in rules {
        let mut hit: Option<Option<String>> = None;
        'or: for a in &rule.matcher {
            if a.is_empty() {
                continue;
            }
            let mut cap: Option<String> = None;
            let mut dropped = false;
            for (f, re) in a {
                let target = match *f {
                    RF_PAYEE => &payee,
                    RF_CATEGORY => cat,
                    RF_SECONDARY_COMMODITY => sym,
                    _ => continue 'or,
                };
                match re.as_ref().and_then(|re| re.captures(target)) {
                    Some(c) => {
                        if *f == RF_PAYEE || (cat_caps && *f == RF_CATEGORY) {
                            if let Some(m) = c.name("payee") {
                                cap = Some(m.as_str().to_string());
                            }
                            if c.name("payee").map(|m| m.as_str().is_empty()).unwrap_or(false) || c.name("code").map(|m| m.as_str().is_empty()).unwrap_or(false) {
                                *empty_caps += 1;
                            }
                        } else if c.name("payee").is_some() || c.name("code").is_some() {
                            dropped = true;
                        }
                    }
                    None => continue 'or,
                }
            }
            if dropped {
                dropped_caps[0] += 1;
                if a.iter().any(|(f, _)| *f == RF_PAYEE) {
                    dropped_caps[1] += 1;
                }
            }
            hit = Some(cap);
            break;
        }
        if let Some(cap) = hit {
            hits += 1;
            if let Some(p) = rule.payee.clone().or(cap) {
                payee = p;
            }
        }
    }
    hits
}

pub mod config_rule {
    pub struct R {
        pub matcher: Vec<Vec<(usize, Option<regex::Regex>)>>,
        pub payee: Option<String>,
    }
}

/// the rules of a selected entry with their patterns compiled (statistics only)
pub fn rules_for_stats(e: &okane::import::config::ConfigEntry) -> Vec<config_rule::R> {
    e.rewrite
        .iter()
        .map(|r| {
            let ands: Vec<&okane::import::config::FieldMatcher> = match &r.matcher {
                okane::import::config::RewriteMatcher::Or(v) => v.iter().collect(),
                okane::import::config::RewriteMatcher::Field(f) => vec![f],
            };
            config_rule::R {
                matcher: ands
                    .iter()
                    .map(|fm| {
                        fm.fields
                            .iter()
                            .map(|(f, s)| (RFIELDS.iter().position(|x| *x == f.to_string()).unwrap_or(99), regex::RegexBuilder::new(s).case_insensitive(true).build().ok()))
                            .collect()
                    })
                    .collect(),
                payee: r.payee.clone(),
            }
        })
        .collect()
}

pub fn emit(sh: &mut Shards, st: &mut Stats, c: &Case17, tag: &str) {
    let yaml = docs_yaml(&c.docs);
    let pats = collect_pats(&c.docs);
    let sel = run_select(&yaml, &c.path);
    let csv = csv_text(&[], &c.header, &c.rows, ',', false);
    let mut max_hits = 0;
    let mut empty_caps = 0usize;
    let mut dropped_caps = [0usize; 2];
    let imp = match &sel {
        SelObs::Ok(e) => {
            let mut e2 = e.clone();
            e2.format = c.layout.to_spec();
            let rules = rules_for_stats(&e2);
            for row in &c.rows {
                max_hits = max_hits.max(count_hits(&rules, &row.fields[1], &row.fields[2], &row.fields[3], false, &mut empty_caps, &mut dropped_caps));
            }
            run_import(&csv, &e2)
        }
        _ => ImpObs::NotRun,
    };
    let matching_docs = c.docs.iter().filter(|d| c.path.contains(&d.path)).count();
    let nontrivial = matching_docs >= 2 || (max_hits >= 2 && matches!(imp, ImpObs::Ok(..)));
    st.eval(&(yaml.clone(), c.path.clone(), csv.clone(), c.layout.term()), nontrivial);
    st.count(&format!("gen:{}", tag));
    st.count(&format!("docs_matching:{}", matching_docs.min(4)));
    for d in &c.docs {
        if let Some(stem) = d.path.strip_suffix('/') {
            if !stem.is_empty() {
                st.count(match (c.path.contains(&d.path), c.path.contains(stem)) {
                    (true, _) => "doc_path_with_trailing_slash:occurs",
                    (false, true) => "doc_path_with_trailing_slash:only_without_the_slash_occurs",
                    (false, false) => "doc_path_with_trailing_slash:absent",
                });
            }
        }
    }
    {
        // the documents that apply, in merge order; does a later one repeat a rule it inherits?
        let mut m: Vec<&Doc> = c.docs.iter().filter(|d| c.path.contains(&d.path)).collect();
        m.sort_by_key(|d| d.path.len());
        let repeated = (1..m.len()).any(|j| m[j].rewrite.iter().any(|rule| m[..j].iter().any(|d| d.rewrite.contains(rule))));
        if repeated {
            st.count("layered:a longer-path document repeats an inherited rule verbatim");
        }
    }
    st.count(&format!("max_rules_hitting_a_record:{}", max_hits.min(4)));
    if empty_caps > 0 && matches!(imp, ImpObs::Ok(..)) {
        st.count("cases_with_a_named_group_matching_empty");
    }
    if matches!(imp, ImpObs::Ok(..)) {
        if dropped_caps[0] > 0 {
            st.count("csv_cases_where_a_hit_has_a_named_group_in_category_or_secondary_commodity");
        }
        if dropped_caps[1] > 0 {
            st.count("csv_cases_where_a_hit_has_a_named_group_in_category_or_secondary_commodity:with_a_payee_matcher_in_the_element");
        }
    }
    st.count(match &sel {
        SelObs::None => "select:none",
        SelObs::Err(..) => "select:invalid_config",
        SelObs::Ok(_) => "select:ok",
        SelObs::Panic(_) => "select:panic",
        SelObs::Load(_) => "select:yaml_load_failed",
    });
    st.count(&match &imp {
        ImpObs::NotRun => "import:not_run".to_string(),
        ImpObs::Err(k, _) => format!("import:err{}", k),
        ImpObs::Panic(_) => "import:panic".to_string(),
        ImpObs::Ok(..) => "import:ok".to_string(),
    });
    st.add("shape:documents", c.docs.len() as u64);
    st.add("shape:rules", c.docs.iter().map(|d| d.rewrite.len() as u64).sum());
    st.add("shape:records", c.rows.len() as u64);
    let rep = json!({
        "property": "C17",
        "config_yaml": yaml,
        "path": c.path,
        "csv": csv,
        "import_layout": serde_json::to_value(&c.layout).unwrap(),
        "select": match &sel {
            SelObs::None => json!("no document matches"),
            SelObs::Err(_, t) | SelObs::Panic(t) | SelObs::Load(t) => json!({"error": t}),
            SelObs::Ok(e) => json!(format!("{:?}", e)),
        },
        "import": imp_json(&imp),
        "case": serde_json::to_value(c).unwrap(),
        "reproduce": "write config_yaml and csv to files (csv under `path`) and run: okane import --config <yaml> <path>; the harness replaces format: by import_layout",
    });
    if st.samples.len() < 2 || (st.samples.len() < 5 && nontrivial && matches!(imp, ImpObs::Ok(..))) {
        st.sample(rep.clone(), 5);
    }
    let date_fmt = c.layout.date.clone();
    let term = format!(
        "K {} {} {} {} {} {} {}",
        coq::list(c.docs.iter().map(|d| d.term())),
        s_term(&c.path),
        sel_term(&sel, &pats),
        c.layout.term(),
        coq::list(c.header.iter().map(|h| s_term(h))),
        coq::list(c.rows.iter().map(|r| row_term(r, &date_fmt))),
        imp_term(&imp)
    );
    sh.push(term, vec![rep]);
}


// ---------------------------------------------------------------- Camt053 records

/// A Camt053 run: configuration documents whose rules look at the party / information fields of
/// the statement's records, and one small statement.
#[derive(Clone, Debug, Serialize, Deserialize)]
pub struct Case17Camt {
    pub docs: Vec<Doc>,
    pub path: String,
    pub stmt: camtgen::Statement,
    /// shapes the generator built on purpose (statistics)
    #[serde(default)]
    pub tags: Vec<String>,
}

const C_NAMES: [&str; 7] = ["Landlord AG", "Migros", "Coop City", "Jiro Okane", "山田 商店", "ACME Corp 42", "Okane Bank"];
const C_INFOS: [&str; 8] = ["Payment order 42", "Standing order 7", "Card 1234 Migros", "Salary 2024", "rent February", "Invoice 77 Coop", "Okane Pay Cafe 0400", "ATM 55 Zurich"];
const C_IDS: [&str; 4] = ["CH9300762011623852957", "12345-6", "DE02120300000000202051", "A-77"];

/// the texts of one record by RewriteField code (3..=11)
fn record_texts(e: &camtgen::Entry, d: Option<&camtgen::Detail>) -> Vec<(usize, String)> {
    let mut v: Vec<(usize, String)> = Vec::new();
    if let Some(d) = d {
        if let Some(p) = &d.parties {
            for (k, t) in [(3, &p.creditor), (4, &p.creditor_account), (5, &p.ultimate_creditor), (6, &p.debtor), (7, &p.debtor_account), (8, &p.ultimate_debtor), (9, &p.remittance)] {
                if let Some(t) = t {
                    v.push((k, t.clone()));
                }
            }
        }
    }
    v.push((10, e.info.clone()));
    if let Some(d) = d {
        if let Some(i) = &d.info {
            v.push((11, i.clone()));
        }
    }
    v
}

/// a pattern for a field whose text in the target record is `text` (None: the field is absent)
fn gen_camt_pat(r: &mut Rng, text: Option<&str>, hit: bool, capture: u64) -> Pat {
    let other = if r.chance(1, 2) { *r.pick(&C_NAMES) } else { *r.pick(&C_INFOS) };
    let t = if hit { text.unwrap_or(other) } else { other };
    let words: Vec<&str> = t.split(' ').filter(|w| !w.is_empty()).collect();
    let w = |r: &mut Rng| {
        let x = *r.pick(&words);
        recase(r, x)
    };
    let first = words[0].to_string();
    let lit = |s: String| Item::Plain(Atom::Lit(s));
    let miss = if hit { None } else { Some(lit(format!("{}#", first))) };
    let mut p = match capture {
        // no capture
        0 => Pat { start: false, items: vec![lit(w(r))], end: false, valid: true },
        // the whole field as the payee
        1 => Pat { start: r.chance(1, 2), items: vec![Item::Payee(Atom::Rest)], end: r.chance(1, 2), valid: true },
        // what follows the first word
        2 => Pat { start: true, items: vec![lit(format!("{} ", first)), Item::Payee(Atom::Rest)], end: r.chance(1, 2), valid: true },
        // the first run of digits as the code
        3 => Pat { start: false, items: vec![Item::Code(Atom::Digits)], end: false, valid: true },
        // a word as the payee, digits after it as the code
        4 => Pat { start: false, items: vec![Item::Payee(Atom::Lit(w(r))), Item::Plain(Atom::Rest), Item::Code(Atom::Digits0)], end: false, valid: true },
        // payee and code in one field: "Card (?P<code>[0-9]+) (?P<payee>.*)"
        _ => Pat { start: false, items: vec![lit(format!("{} ", first)), Item::Code(Atom::Digits), lit(" ".into()), Item::Payee(Atom::Rest)], end: false, valid: true },
    };
    if let Some(m) = miss {
        // a literal that occurs in no text of the vocabulary
        p.items.insert(0, m);
    }
    p
}

fn gen_camt_and(r: &mut Rng, texts: &[(usize, String)], hit: bool, nfields: usize, capturing: bool) -> Vec<(usize, Pat)> {
    let mut fields: Vec<usize> = if hit { texts.iter().map(|x| x.0).collect() } else { (3..=11).collect() };
    r.shuffle(&mut fields);
    fields.truncate(nfields.max(1));
    let miss_at = if hit { usize::MAX } else { r.below(fields.len() as u64) as usize };
    fields
        .iter()
        .enumerate()
        .map(|(i, f)| {
            let text = texts.iter().find(|x| x.0 == *f).map(|x| x.1.as_str());
            let cap = if capturing { *r.pick(&[0u64, 1, 1, 2, 2, 1, 2, 3, 4, 5, 0, 1]) } else { 0 };
            (*f, gen_camt_pat(r, text, i != miss_at && text.is_some(), cap))
        })
        .collect()
}

fn gen_camt_rule(r: &mut Rng, texts: &[(usize, String)], tags: &mut Vec<String>) -> Rule {
    let account = if r.chance(3, 5) { Some(r.pick(&ACCOUNTS).to_string()) } else { None };
    let mut matcher: Vec<Vec<(usize, Pat)>> = Vec::new();
    let as_list;
    if r.chance(2, 5) && texts.len() >= 2 {
        // an OR-list whose first element captures in a field early in RewriteField order and
        // then fails on a later field; a later element matches: the first element's captures
        // must not be seen by the later elements nor end up in the result
        let mut present: Vec<usize> = texts.iter().map(|x| x.0).collect();
        present.sort();
        let i = r.below(present.len() as u64 - 1) as usize;
        let early = present[i];
        let late = *r.pick(&present[i + 1..]);
        let text_of = |f: usize| texts.iter().find(|x| x.0 == f).map(|x| x.1.as_str());
        let cap = *r.pick(&[1u64, 2, 1, 2, 1, 2, 4, 5]);
        let mut first = vec![(early, gen_camt_pat(r, text_of(early), true, cap)), (late, gen_camt_pat(r, text_of(late), false, 0))];
        if r.chance(1, 3) {
            // a third field between or after them
            let extra: Vec<usize> = present.iter().copied().filter(|f| *f != early && *f != late).collect();
            if !extra.is_empty() {
                let f = *r.pick(&extra);
                let cap = *r.pick(&[0u64, 1, 3]);
                first.push((f, gen_camt_pat(r, text_of(f), true, cap)));
            }
        }
        matcher.push(first);
        if r.chance(1, 4) {
            let nf = 1 + r.below(2) as usize;
            matcher.push(gen_camt_and(r, texts, false, nf, true));
        }
        // the element that matches: often without a capture of its own, or reading the payee
        let second = if r.chance(1, 4) {
            vec![(RF_PAYEE, Pat { start: false, items: vec![Item::Plain(Atom::Rest)], end: false, valid: true })]
        } else {
            let nf = 1 + r.below(2) as usize;
            let capturing = r.chance(1, 3);
            gen_camt_and(r, texts, true, nf, capturing)
        };
        matcher.push(second);
        as_list = true;
        tags.push("or_list:an element captures, then fails on a later field; a later element matches".into());
    } else {
        let n = if r.chance(1, 2) { 1 } else { 1 + r.below(3) as usize };
        for _ in 0..n {
            let hit = r.chance(2, 3);
            let nf = 1 + r.below(3) as usize;
            matcher.push(gen_camt_and(r, texts, hit, nf, true));
        }
        as_list = n > 1 || r.chance(1, 3);
    }
    // the order the fields are written in does not matter to the importer (a map): shuffled here
    for a in matcher.iter_mut() {
        r.shuffle(a);
        if a.len() >= 2 && a.iter().filter(|(_, p)| p.items.iter().any(|i| !matches!(i, Item::Plain(_)))).count() >= 2 {
            tags.push("and_list:two or more capturing fields".into());
        }
    }
    Rule { matcher, as_list, pending: r.chance(1, 3), payee: if r.chance(1, 6) { Some(gen_payee_text(r)) } else { None }, account, conversion: None }
}

/// a rule on the accumulated payee: tells what the earlier rules left there
fn gen_payee_followup(r: &mut Rng) -> Rule {
    let w = if r.chance(1, 2) { *r.pick(&C_NAMES) } else { *r.pick(&C_INFOS) };
    let words: Vec<&str> = w.split(' ').collect();
    let word = *r.pick(&words);
    let word = recase(r, word);
    Rule {
        matcher: vec![vec![(RF_PAYEE, Pat { start: r.chance(1, 4), items: vec![Item::Plain(Atom::Lit(word))], end: false, valid: true })]],
        as_list: false,
        pending: r.chance(1, 4),
        payee: None,
        account: Some(r.pick(&ACCOUNTS).to_string()),
        conversion: None,
    }
}

pub fn gen_camt_case(r: &mut Rng) -> Case17Camt {
    use camtgen::*;
    let file = (*r.pick(&FILE_PATHS)).to_string();
    let ccy = "CHF".to_string();
    let amt = |m: u64| XAmt { v: Dec { neg: false, m, scale: 2, bare_dot: false }, ccy: ccy.clone() };
    let pick_opt = |r: &mut Rng, pool: &[&str], num: u64, den: u64| -> Option<String> { if r.chance(num, den) { Some(r.pick(pool).to_string()) } else { None } };
    let n_entries = 1 + r.below(3) as usize;
    let mut entries = Vec::new();
    let mut k = 0;
    for _ in 0..n_entries {
        k += 1;
        let credit = r.chance(2, 5);
        let booking = XDate { y: 2024, m: 1 + r.below(12) as u32, d: 1 + r.below(28) as u32, dttm: None };
        let nd = *r.pick(&[0usize, 1, 1, 2]);
        let mut details = Vec::new();
        let mut sum = 0u64;
        for j in 0..nd {
            let m = 1 + r.below(500_000);
            sum += m;
            let parties = Parties {
                creditor: pick_opt(r, &C_NAMES, 3, 5),
                creditor_account: pick_opt(r, &C_IDS, 1, 4),
                ultimate_creditor: pick_opt(r, &C_NAMES, 1, 4),
                debtor: pick_opt(r, &C_NAMES, 2, 5),
                debtor_account: pick_opt(r, &C_IDS, 1, 5),
                ultimate_debtor: pick_opt(r, &C_NAMES, 1, 4),
                remittance: pick_opt(r, &C_INFOS, 3, 5),
                nested: r.chance(1, 3),
                iban: r.chance(1, 2),
            };
            details.push(Detail {
                reference: if r.chance(2, 3) { Some(format!("2024/{}/{}", k, j + 1)) } else { None },
                amt: amt(m),
                credit,
                details: None,
                charges: None,
                info: pick_opt(r, &C_INFOS, 4, 5),
                frag: Frag::default(),
                parties: Some(parties),
                reversal: gen_rvsl_detail(r),
                charges_total: None,
            });
        }
        let m = if nd == 0 { 1 + r.below(500_000) } else { sum };
        entries.push(Entry {
            amt: amt(m),
            credit,
            booking,
            value: None,
            charges: None,
            dtls_element: nd > 0,
            details,
            info: r.pick(&C_INFOS).to_string(),
            frag: Frag::default(),
            batch: if r.chance(1, 4) && nd > 0 { BatchHdr::Absent } else { BatchHdr::Consistent },
            reversal: gen_rvsl_entry(r),
            charges_total: None,
        });
    }
    let stmt = Statement { balances: vec![Balance { opening: false, amt: amt(1 + r.below(900_000)), credit: true }], entries };
    // the records the rules are aimed at
    let mut recs: Vec<Vec<(usize, String)>> = Vec::new();
    for e in &stmt.entries {
        if e.details.is_empty() {
            recs.push(record_texts(e, None));
        }
        for d in &e.details {
            recs.push(record_texts(e, Some(d)));
        }
    }
    let mut tags = Vec::new();
    let n_rules = 1 + r.below(4) as usize;
    let mut rules: Vec<Rule> = Vec::new();
    for _ in 0..n_rules {
        let target = r.pick(&recs).clone();
        rules.push(gen_camt_rule(r, &target, &mut tags));
        if r.chance(1, 3) {
            rules.push(gen_payee_followup(r));
        }
    }
    if r.chance(1, 40) {
        // a field the Camt053 importer does not know, or a regex that does not compile
        let bad = if r.chance(1, 2) { (RF_CATEGORY, Pat::lit("Food")) } else { (3, Pat { start: false, items: vec![], end: false, valid: false }) };
        let k = r.below(rules.len() as u64) as usize;
        // a map: one pattern per field
        rules[k].matcher[0].retain(|(f, _)| *f != bad.0);
        rules[k].matcher[0].push(bad);
        tags.push("rules:a matcher the Camt053 importer refuses".into());
    }
    // one or two layered documents: the settings in the first, the rules split between them
    let mut d0 = Doc {
        path: { let l = r.below(5) as usize; let a = r.below((file.len() - l + 1) as u64) as usize; if file.is_char_boundary(a) && file.is_char_boundary(a + l) { file[a..a + l].to_string() } else { String::new() } },
        encoding: Some(0),
        account: Some(r.pick(&SRC_ACCOUNTS).to_string()),
        liability: Some(false),
        operator: None,
        commodity: Some(Commodity::Primary("CHF".into())),
        format: if r.chance(1, 2) { Some(Format { date: String::new(), precisions: vec![], fields: vec![], delimiter: String::new(), skip: 0, new_to_old: r.chance(1, 2) }) } else { None },
        rewrite: Vec::new(),
    };
    let mut docs = Vec::new();
    if rules.len() >= 2 && r.chance(1, 2) {
        let cut = 1 + r.below(rules.len() as u64 - 1) as usize;
        let later = rules.split_off(cut);
        d0.rewrite = rules;
        let l = d0.path.len() + 1 + r.below(4) as usize;
        let l = l.min(file.len());
        let a = r.below((file.len() - l + 1) as u64) as usize;
        let path = if file.is_char_boundary(a) && file.is_char_boundary(a + l) { file[a..a + l].to_string() } else { file.clone() };
        let d1 = Doc { path, encoding: None, account: None, liability: None, operator: None, commodity: None, format: None, rewrite: later };
        if r.chance(1, 3) {
            docs.push(d1);
            docs.push(d0);
        } else {
            docs.push(d0);
            docs.push(d1);
        }
    } else {
        d0.rewrite = rules;
        docs.push(d0);
    }
    tags.sort();
    tags.dedup();
    Case17Camt { docs, path: file, stmt, tags }
}

fn entity_term(texts: &[(usize, String)], reference: &Option<String>, debit: bool) -> String {
    format!("CE {} {} {}", coq::list(texts.iter().map(|(k, t)| format!("({}, {})", k, s_term(t)))), os_term(reference), coq::bool_(debit))
}

pub fn emit_camt(sh: &mut Shards, st: &mut Stats, c: &Case17Camt, tag: &str) {
    let yaml = docs_yaml(&c.docs);
    let pats = collect_pats(&c.docs);
    let sel = run_select(&yaml, &c.path);
    let xml = camtgen::xml(std::slice::from_ref(&c.stmt));
    let imp = match &sel {
        SelObs::Ok(e) => run_import_fmt(&xml, okane::import::Format::IsoCamt053, e),
        _ => ImpObs::NotRun,
    };
    let matching_docs = c.docs.iter().filter(|d| c.path.contains(&d.path)).count();
    let nontrivial = matches!(imp, ImpObs::Ok(..)) && c.docs.iter().any(|d| d.rewrite.iter().any(|r| r.matcher.len() >= 2 || r.matcher.iter().any(|a| a.len() >= 2)));
    st.eval(&(yaml.clone(), c.path.clone(), xml.clone()), nontrivial);
    st.count(&format!("gen:{}", tag));
    st.count("records:camt053");
    st.count(&format!("docs_matching:{}", matching_docs.min(4)));
    for t in &c.tags {
        st.count(&format!("camt:{}", t));
    }
    st.count(match &sel {
        SelObs::None => "select:none",
        SelObs::Err(..) => "select:invalid_config",
        SelObs::Ok(_) => "select:ok",
        SelObs::Panic(_) => "select:panic",
        SelObs::Load(_) => "select:yaml_load_failed",
    });
    st.count(&match &imp {
        ImpObs::NotRun => "camt_import:not_run".to_string(),
        ImpObs::Err(..) => "camt_import:refused".to_string(),
        ImpObs::Panic(_) => "camt_import:panic".to_string(),
        ImpObs::Ok(..) => "camt_import:ok".to_string(),
    });
    st.add("shape:documents", c.docs.len() as u64);
    st.add("shape:rules", c.docs.iter().map(|d| d.rewrite.len() as u64).sum());
    let entries: Vec<String> = c
        .stmt
        .entries
        .iter()
        .map(|e| {
            if e.details.is_empty() {
                coq::list(vec![entity_term(&record_texts(e, None), &None, !e.credit)])
            } else {
                coq::list(e.details.iter().map(|d| entity_term(&record_texts(e, Some(d)), &d.reference, !d.credit)))
            }
        })
        .collect();
    st.add("shape:records", c.stmt.entries.iter().map(|e| e.details.len().max(1) as u64).sum());
    let rep = json!({
        "property": "C17",
        "config_yaml": yaml,
        "path": c.path,
        "xml": xml,
        "select": match &sel {
            SelObs::None => json!("no document matches"),
            SelObs::Err(_, t) | SelObs::Panic(t) | SelObs::Load(t) => json!({"error": t}),
            SelObs::Ok(e) => json!(format!("{:?}", e)),
        },
        "import": imp_json(&imp),
        "camt_case": serde_json::to_value(c).unwrap(),
        "reproduce": "write config_yaml and xml to files (xml under `path`) and run: okane import --config <yaml> --format iso-camt053 <path>",
    });
    if st.samples.len() < 6 && nontrivial && st.dist.get("records:camt053").copied().unwrap_or(0) <= 40 && xml.len() < 6000 {
        st.sample(rep.clone(), 6);
    }
    let term = format!("KC {} {} {} {} {}", coq::list(c.docs.iter().map(|d| d.term())), s_term(&c.path), sel_term(&sel, &pats), coq::list(entries), imp_term(&imp));
    sh.push(term, vec![rep]);
}

pub const HEADER: &str = "From Coq Require Import List NArith ZArith QArith Qcanon.\nFrom Okv Require Import Base.Dec Model.ImpConfig Model.ImpExtract Model.ImpSingleEntry Model.ImpCsv Model.ImpCamtMatch Run.ImpPattern Run.ImpCase";

pub struct Corpus {
    pub csv: Vec<Case17>,
    pub camt: Vec<Case17Camt>,
    pub vis: Vec<c17x::Case17Vis>,
    pub cmd: Vec<c17x::Case17Cmd>,
    pub replay: bool,
}

fn corpus_cases(o: &Opts) -> Corpus {
    let mut files: Vec<std::path::PathBuf> = Vec::new();
    let mut replay = false;
    if let Some(i) = o.extra.iter().position(|a| a == "--replay") {
        replay = true;
        if let Some(p) = o.extra.get(i + 1) {
            files.push(p.into());
        }
    } else if let Ok(rd) = std::fs::read_dir(&o.corpus) {
        files = rd.filter_map(|e| e.ok()).map(|e| e.path()).collect();
        files.sort();
    }
    let mut c = Corpus { csv: Vec::new(), camt: Vec::new(), vis: Vec::new(), cmd: Vec::new(), replay };
    for p in files {
        if let Ok(t) = std::fs::read_to_string(&p) {
            if let Ok(v) = serde_json::from_str::<serde_json::Value>(&t) {
                if let Some(x) = v.get("case") {
                    if let Ok(x) = serde_json::from_value::<Case17>(x.clone()) {
                        c.csv.push(x);
                    }
                }
                if let Some(x) = v.get("camt_case") {
                    if let Ok(x) = serde_json::from_value::<Case17Camt>(x.clone()) {
                        c.camt.push(x);
                    }
                }
                if let Some(x) = v.get("vis_case") {
                    if let Ok(x) = serde_json::from_value::<c17x::Case17Vis>(x.clone()) {
                        c.vis.push(x);
                    }
                }
                if let Some(x) = v.get("cmd_case") {
                    if let Ok(x) = serde_json::from_value::<c17x::Case17Cmd>(x.clone()) {
                        c.cmd.push(x);
                    }
                }
            }
        }
    }
    c
}

pub fn run(o: &Opts) {
    let mut st = Stats::new();
    let mut sh = Shards::new(&o.out, if o.thorough { o.shards * 6 } else { o.shards }, &format!("{} Run.Classify_C17.\nImport ListNotations.\nOpen Scope N_scope.", HEADER));
    st.rule = RULE.into();
    st.assumptions.push("matcher patterns come from a small language (literal / [0-9]+ / \\d* / .* atoms, optional ^ $, named groups payee and code) for which leftmost-first backtracking in the model is what the regex crate computes; text is UTF-8 without line breaks".into());
    st.assumptions.push("Camt053 rule lists do not use the bank-transaction-code matchers (domain_code, domain_family, domain_sub_family); statement texts have no outer white space (quick-xml trims) and every amount is non-zero".into());
    st.assumptions.push("file paths are valid Unicode and use '/' (on this platform PathBufExt::from_slash is the identity)".into());
    st.assumptions.push("Viseca statements: the text parser (viseca/parser.rs FIRST_LINE and the category / exchange-rate / fee / Air- lines) is an oracle - the model starts from the payee and category texts the statement was written from; every document that names a commodity names CHF, the currency the statement text is written for; a payee written without a spent amount does not end in `[A-Z]{3} <number>` (FIRST_LINE would read that as a spent amount), category lines do not begin with a digit, amounts are non-zero".into());
    st.assumptions.push("command leg: the printed ledger is read back with okane's own parse_ledger (texts are words, numbers and spaces: none of the C15 known classes); the statement files are UTF-8 and every document that sets an encoding sets UTF-8; amounts are non-zero (the sign bit of a zero decides the posting order and is not recoverable from the printed text; zero cells are exercised by the in-process CSV cases)".into());
    let corpus = corpus_cases(o);
    let replay = corpus.replay;
    for c in &corpus.csv {
        emit(&mut sh, &mut st, c, "corpus");
    }
    for c in &corpus.camt {
        emit_camt(&mut sh, &mut st, c, "corpus");
    }
    for c in &corpus.vis {
        c17x::emit_vis(&mut sh, &mut st, c, "corpus");
    }
    let bin = std::env::var("OKV_OKANE_BIN").ok().filter(|b| std::path::Path::new(b).exists());
    let scratch = c17x::CmdScratch::new();
    match &bin {
        Some(bin) => {
            for c in &corpus.cmd {
                c17x::emit_cmd(&mut sh, &mut st, c, "corpus", bin, &scratch);
            }
        }
        None => st.assumptions.push("OKV_OKANE_BIN not set: the command leg did not run".to_string()),
    }
    if !replay {
        let mut r = Rng::new(o.seed, 1701);
        let n = if o.thorough { 12000 } else { 2000 };
        for _ in 0..n {
            let c = gen_case(&mut r);
            emit(&mut sh, &mut st, &c, "random");
        }
        let mut r = Rng::new(o.seed, 1702);
        let n = if o.thorough { 6000 } else { 1000 };
        for _ in 0..n {
            let c = gen_camt_case(&mut r);
            emit_camt(&mut sh, &mut st, &c, "random");
        }
        let mut r = Rng::new(o.seed, 1703);
        let n = if o.thorough { 4000 } else { 500 };
        for _ in 0..n {
            let c = c17x::gen_vis_case(&mut r);
            c17x::emit_vis(&mut sh, &mut st, &c, "random");
        }
        if let Some(bin) = &bin {
            let mut r = Rng::new(o.seed, 1704);
            let n = if o.thorough { 2400 } else { 260 };
            let root = scratch.root_str();
            for _ in 0..n {
                let c = c17x::gen_cmd_case(&mut r, &root);
                c17x::emit_cmd(&mut sh, &mut st, &c, "random", bin, &scratch);
            }
        }
    }
    drop(scratch);
    sh.finish(&st);
}

const RULE: &str = "1-4 YAML documents (random subsets of encoding/account/account_type/operator/commodity/format, 0-4 rewrite rules each with single/OR-list matchers over payee/category/secondary_commodity, capture groups including ones that match the empty string on a record (`Lit(?P<payee>.*)`, `(?P<code>\\d*)`) followed by rules that tell the emptied payee from the original, two fifths of the category / secondary_commodity patterns with `(?P<payee>...)` / `(?P<code>...)` groups of their own (literal, `.*`, `\\d*`), which the CSV adapter matches and then drops - mostly in elements that have a payee matcher too, payee/account/pending/conversion settings; paths drawn as substrings of the file path with frequent equal lengths, as directory prefixes with a trailing '/' where the file path continues the name with other characters (bank/ against bankcard/, bank.old/) or not, and as ./x, x//y, x/./y shapes) through load_from_yaml and ConfigSet::select; then 1-4 CSV records through import::import(Csv) under the selected entry (its `format` replaced by the harness's column layout) and Txn::to_double_entry; one case in five has two layered documents (paths of different length, in either file order) where the longer-path document repeats a rule of the shorter-path one verbatim (now and then with one flag changed) at a later position, after a rule that rewrites the payee, and a record `w2 w1 w3` for which the second occurrence decides the account; plus (a third of the run) Camt053 records: statements of 1-3 entries without TxDtls or with 1-2 TxDtls carrying creditor / ultimate creditor / debtor / ultimate debtor names (inline or inside Pty), account ids (IBAN or Othr), remittance information, AddtlTxInf and AddtlNtryInf, AcctSvcrRef present or not, and 1-2 layered documents with 1-8 rules aimed at the records: single matchers and OR-lists of 1-3 AND elements over 1-3 of those fields and the accumulated payee, the fields written in random order, patterns that match or miss with (?P<payee>...) / (?P<code>...) groups in several fields of one element, two fifths of the rules built as `an element that captures in a field early in RewriteField order and then fails on a later field, followed by an element that matches`, follow-up rules on the payee, now and then a matcher the Camt053 importer refuses; through import::import(IsoCamt053) under the selected entry and to_double_entry, payee / code / counter account / pending mark of every transaction compared with the rule hits and with the model; non-trivial = at least two documents match the path, or at least two rules hit one record (Camt053: the import succeeded and some rule has an OR-list or a multi-field element); distinct by YAML + path + CSV / XML; plus (500 quick / 4000 thorough) Viseca records: statement text of 1-4 records (first line only; with a category line; with a spent amount in CHF / EUR / USD, exchange-rate line, processing-fee line, Air- lines; a fifth ending in ` -`; apostrophe-grouped amounts) and 1-3 layered documents (paths as for CSV over .txt file paths, operator now and then missing) with 0-4 rules each over payee and category - category patterns with (?P<payee>..) / (?P<code>..) groups, which the Viseca adapter keeps, and one that matches the empty category of a record without a category line; now and then a field the adapter refuses - half of the cases with `a rule that rewrites the payee of one record (strips the first word, keeps the last or the first word, or a payee: setting) followed, not always directly, by a rule that matches exactly one of the rewritten payee and the statement's payee`, a sixth with a named group matching the empty string; through load_from_yaml, ConfigSet::select, import::import(Viseca) and to_double_entry; payee / code / counter account / pending mark compared with the rule hits and with the model (Model/ImpVisecaMatch.v); plus (260 quick / 2400 thorough) runs of the built binary `okane import --config CFG SOURCE` in a fresh process (10 s limit) inside a scratch tree the harness builds and removes: CSV (three quarters) or Viseca statement, 2-4 layered documents with different accounts / account types / commodities / column layouts / rules; SOURCE relative to a current directory one or two levels down (`statements/bank.csv` from inside `archive/`), relative with `./`, `x/../`, `sub/../sub`, `../cwd/` or a doubled separator, absolute, relative or absolute through a directory that is a symbolic link into `vault/<name>/`, or itself a symbolic link to a file of another name; directory and link-target names are drawn from the same words as the components of SOURCE and half of the non-base documents take their path from the directories ABOVE the source (component-aligned pieces of the real location, now and then of the scratch directory); the printed ledger is read back with parse_ledger and must be what the rules of the declarative merge for the string AS GIVEN produce (every document whose path occurs in that string, shortest first), `config matching ... not found` and the invalid-config errors likewise; non-trivial (command) = some document's path occurs in only one of the given string and the resolved location";
