(* C05 round trip, directives: every non-transaction entry that satisfies wf_entry, printed and
   followed by a blank line, is read back by parse_ledger_entry as the same entry. *)
From Coq Require Import List NArith ZArith Bool Lia Arith.
From Okv Require Import Model.Lit Model.LitSpec Model.Syntax Model.Comb Model.ParseExpr Model.ParseMeta
  Model.ParsePosting Model.ParseTxn Model.ParseDirective Model.ParseLedger Model.Display
  Model.DocGrammar Model.RoundTripSpec
  Proofs.CombSpec Proofs.DocAccept Proofs.DisplayLines Proofs.RoundTripBase Proofs.RoundTripNum.
Import ListNotations.
Open Scope N_scope.

(* ---- texts on one line ---- *)
Lemma no_nl_text : forall s, no_nl s = true -> text s.
Proof. intros s H. exact H. Qed.

Lemma end_trimmed_eq : forall s, end_trimmed s = true -> trim_end s = s.
Proof. intros s H. apply str_eqb_eq. exact H. Qed.

Lemma trimmed_eq : forall s, trimmed s = true -> trim s = s.
Proof. intros s H. apply str_eqb_eq. exact H. Qed.

Lemma trim_sp_cons : forall t, trim (32 :: t) = trim t.
Proof. reflexivity. Qed.

(* what wf_line_text gives *)
Lemma wf_line_text_facts : forall s, wf_line_text s = true ->
  text s /\ trim_end s = s /\ forall k, starts_not is_sp (s ++ 10 :: k).
Proof.
  intros s H. unfold wf_line_text in H. rewrite !andb_true_iff in H. destruct H as [[H1 H2] H3].
  split; [exact H1 |]. split; [apply end_trimmed_eq; exact H2 |].
  intros k. destruct s as [| c s]; [reflexivity |]. simpl in *. apply negb_true_iff in H3. exact H3.
Qed.

(* a line: the text up to the line feed, then the line feed *)
Lemma line_rest_ok : forall s k, text s ->
  (x <- till_line_ending ;; line_ending_or_eof ;;; ret x) (s ++ 10 :: k) = POk s k.
Proof.
  intros s k Hs. unfold bind. rw (till_line_ending_ok s (10 :: k) k Hs (ends_lf k)).
  rw (line_ending_or_eof_ok (10 :: k) k (ends_lf k)). reflexivity.
Qed.

(* ---- include ---- *)
Lemma include_roundtrip : forall fuel path k, wf_line_text path = true ->
  parse_ledger_entry fuel (Display.kw_include ++ path ++ 10 :: 10 :: k) = POk (SInclude path, []) (10 :: k).
Proof.
  intros fuel path k H. destruct (wf_line_text_facts path H) as (Ht & Htr & Hsp).
  change (Display.kw_include ++ path ++ 10 :: 10 :: k)
    with (105 :: 110 :: 99 :: 108 :: 117 :: 100 :: 101 :: [32] ++ path ++ 10 :: 10 :: k).
  change (parse_ledger_entry fuel (105 :: 110 :: 99 :: 108 :: 117 :: 100 :: 101 :: [32] ++ path ++ 10 :: 10 :: k))
    with (pmap (fun e => (e, @nil posting_spans)) include
            (ParseDirective.kw_include ++ [32] ++ path ++ 10 :: 10 :: k)).
  unfold include, pmap, delimited, bind.
  rw literal_app.
  rw (space1_ok [32] (path ++ 10 :: 10 :: k) ltac:(split; [discriminate | reflexivity]) (Hsp (10 :: k))).
  rw (till_line_ending_ok path (10 :: 10 :: k) (10 :: k) Ht (ends_lf _)).
  rw (line_ending_or_eof_ok (10 :: 10 :: k) (10 :: k) (ends_lf _)).
  unfold ret. rewrite Htr. reflexivity.
Qed.

(* ---- end apply tag ---- *)
Lemma end_apply_tag_roundtrip : forall fuel k,
  parse_ledger_entry fuel (kw_end_apply_tag ++ 10 :: 10 :: k) = POk (SEndApplyTag, []) (10 :: k).
Proof. intros. reflexivity. Qed.

(* ---- apply tag ---- *)
Lemma wf_tag_facts : forall t, wf_tag t = true ->
  t <> [] /\ all (fun c => negb (is_ascii_whitespace c || (c =? 58))) t /\
  forall k, starts_not is_sp (t ++ k).
Proof.
  intros t H. unfold wf_tag in H. apply andb_true_iff in H. destruct H as [H1 H2].
  split; [destruct t; [discriminate | discriminate] |]. split; [exact H2 |].
  intros k. destruct t as [| c t]; [discriminate |]. simpl in H2. apply andb_true_iff in H2.
  destruct H2 as [H2 _]. simpl. unfold is_tag_stop, is_ascii_whitespace in H2. unfold is_sp.
  destruct (c =? 32); [discriminate |]. destruct (c =? 9); [discriminate | reflexivity].
Qed.

(* the value of a tag, as printed, followed by the line end *)
Lemma meta_value_roundtrip : forall v k, wf_meta_value v = true ->
  opt metadata_value (print_meta_value v ++ 10 :: k) = POk (Some v) (10 :: k).
Proof.
  intros v k H. apply opt_ok.
  destruct v as [t | t]; cbn [wf_meta_value] in H; apply andb_true_iff in H; destruct H as [Hn Ht];
    apply trimmed_eq in Ht; unfold metadata_value, print_meta_value.
  - (* ": " t *)
    assert (E : pmap (fun x => MExpr (trim x)) (preceded (literal [58; 58]) till_line_ending)
                  (([58; 32] ++ t) ++ 10 :: k) = PErr false 0 (([58; 32] ++ t) ++ 10 :: k))
      by reflexivity.
    rewrite (alt_r _ _ _ _ _ _ E). unfold pmap, preceded, bind.
    cbn [app]. rw chr_ok.
    pose proof (till_line_ending_ok (32 :: t) (10 :: k) k (Hn : text (32 :: t)) (ends_lf k)) as T.
    cbn [app] in T. rw T.
    unfold ret. rewrite trim_sp_cons, Ht. reflexivity.
  - (* ":: " t *)
    apply alt_l. unfold pmap, preceded, bind. cbn [app].
    pose proof (literal_app [58; 58] (32 :: t ++ 10 :: k)) as L. cbn [app] in L. rw L.
    pose proof (till_line_ending_ok (32 :: t) (10 :: k) k (Hn : text (32 :: t)) (ends_lf k)) as T.
    cbn [app] in T. rw T.
    unfold ret. rewrite trim_sp_cons, Ht. reflexivity.
Qed.

Definition print_value (value : option s_meta_value) : str :=
  match value with Some v => print_meta_value v | None => [] end.

Lemma apply_tag_parse : forall key value k, wf_tag key = true -> opt_all wf_meta_value value = true ->
  apply_tag (kw_apply_tag ++ key ++ print_value value ++ 10 :: 10 :: k)
  = POk (SApplyTag key value) (10 :: k).
Proof.
  intros key value k Hk Hv. destruct (wf_tag_facts key Hk) as (Hne & Hall & Hsp).
  set (V := print_value value).
  change (kw_apply_tag ++ key ++ V ++ 10 :: 10 :: k)
    with (kw_apply ++ [32] ++ kw_tag ++ [32] ++ key ++ V ++ 10 :: 10 :: k).
  unfold apply_tag, preceded, delimited, bind.
  rw literal_app.
  rw (space1_ok [32] (kw_tag ++ [32] ++ key ++ V ++ 10 :: 10 :: k)
        ltac:(split; [discriminate | reflexivity]) ltac:(reflexivity)).
  rw literal_app.
  rw (space1_ok [32] (key ++ V ++ 10 :: 10 :: k) ltac:(split; [discriminate | reflexivity]) (Hsp _)).
  assert (Hstop : starts_not (fun c => negb (is_ascii_whitespace c || (c =? 58))) (V ++ 10 :: 10 :: k)).
  { unfold V. destruct value as [[t | t] |]; reflexivity. }
  unfold tag_key. rw (take_till1_ok _ key (V ++ 10 :: 10 :: k) Hne Hall Hstop).
  assert (Hnsp : starts_not is_sp (V ++ 10 :: 10 :: k)).
  { unfold V. destruct value as [[t | t] |]; reflexivity. }
  rw (space0_ok [] (V ++ 10 :: 10 :: k) (all_nil _) Hnsp : space0 (V ++ 10 :: 10 :: k) = _).
  assert (E : opt metadata_value (V ++ 10 :: 10 :: k) = POk value (10 :: 10 :: k)).
  { unfold V. destruct value as [v |].
    - apply meta_value_roundtrip. exact Hv.
    - reflexivity. }
  rw E. rw (line_ending_or_eof_ok (10 :: 10 :: k) (10 :: k) (ends_lf _)). reflexivity.
Qed.

Lemma apply_tag_roundtrip : forall fuel key value k,
  wf_tag key = true -> opt_all wf_meta_value value = true ->
  parse_ledger_entry fuel (kw_apply_tag ++ key ++ print_value value ++ 10 :: 10 :: k)
  = POk (SApplyTag key value, []) (10 :: k).
Proof.
  intros fuel key value k Hk Hv. pose proof (apply_tag_parse key value k Hk Hv) as E.
  set (I := kw_apply_tag ++ key ++ _) in *.
  assert (HI : I = 97 :: 112 :: 112 :: 108 :: 121 :: 32 :: 116 :: 97 :: 103 :: 32 :: key ++
                   print_value value ++ 10 :: 10 :: k)
    by reflexivity.
  rewrite (dispatch_a fuel (112 :: 112 :: 108 :: 121 :: 32 :: 116 :: 97 :: 103 :: 32 :: key ++
                   print_value value ++ 10 :: 10 :: k)
           : parse_ledger_entry fuel I = _).
  rewrite <- HI.
  assert (F : preceded (peek (literal ParseDirective.kw_account))
                (cut_err (pmap (fun e0 => (e0, @nil posting_spans)) (account_declaration fuel))) I =
              PErr false 0 I) by (rewrite HI; reflexivity).
  rewrite (alt_r _ _ _ _ _ _ F). unfold preceded. unfold bind at 1.
  assert (P : peek (literal kw_apply) I = POk kw_apply I) by (rewrite HI; reflexivity).
  rewrite P. apply cut_err_ok. apply (pmap_ok _ _ (fun e0 => (e0, @nil posting_spans))). exact E.
Qed.
