(* Model of /repo/golden/src/lib.rs (the golden-file helper).  Definitions only.

   The world is one path on the file system (the path given to Golden::new) and one
   environment variable (UPDATE_GOLDEN).  Texts are lists of bytes of valid UTF-8 (files are
   read with read_to_string; `got` is a &str).  "\r" = 13 and "\n" = 10 are single bytes that
   never occur inside a multi-byte sequence, so str::replace("\r\n", "\n") acts on the bytes
   exactly as it acts on the characters.  The environment value is the raw byte string of the
   variable (unix OsString). *)
From Coq Require Import List NArith Bool.
Import ListNotations.
Open Scope N_scope.

Definition text := list N.

Definition CR : N := 13.
Definition LF : N := 10.

Definition starts_lf (s : text) : bool :=
  match s with c :: _ => c =? LF | [] => false end.

(* str::replace("\r\n", "\n"): the matches of a two-byte pattern whose bytes differ cannot
   overlap, so the left-to-right non-overlapping search finds every occurrence. *)
Fixpoint normalise (s : text) : text :=
  match s with
  | [] => []
  | c :: r =>
      match r with
      | d :: r' => if (c =? CR) && (d =? LF) then LF :: normalise r' else c :: normalise r
      | [] => [c]
      end
  end.

Fixpoint text_eqb (a b : text) : bool :=
  match a, b with
  | [], [] => true
  | x :: a', y :: b' => (x =? y) && text_eqb a' b'
  | _, _ => false
  end.

(* file = None: nothing exists at the path.  env = None: the variable is unset. *)
Record world := { file : option text; env : option text }.

Inductive io_err := NotFound.

(* std::fs::read_to_string(filename).map(|s| s.replace("\r\n", "\n")) *)
Definition read_as_utf8 (w : world) : option text :=      (* None = Err(NotFound) *)
  match file w with Some c => Some (normalise c) | None => None end.

(* std::env::var_os("UPDATE_GOLDEN").is_some_and(|v| !v.is_empty())   (as repaired: C20-F16) *)
Definition is_update_golden (w : world) : bool :=
  match env w with
  | Some (_ :: _) => true
  | _ => false
  end.

Record golden := { g_content : text }.      (* the path is the world's one path *)

Inductive new_result := NewOk (g : golden) | NewErr (e : io_err).

(* Golden::new reads only; the world is returned to make that a statement about values *)
Definition golden_new (w : world) : world * new_result :=
  match read_as_utf8 w with
  | Some c => (w, NewOk {| g_content := c |})
  | None =>
      if is_update_golden w then (w, NewOk {| g_content := [] |})
      else (w, NewErr NotFound)
  end.

Inductive assert_result := Pass | AssertPanic.

Definition write_file (w : world) (s : text) : world := {| file := Some s; env := env w |}.

(* assert_str_eq!(want, got) *)
Definition str_eq (want got : text) : assert_result :=
  if text_eqb want got then Pass else AssertPanic.

(* Golden::assert.  std::fs::write is taken to succeed (the directory exists and is writable:
   the .expect("Update golden failed") panic is outside the model). *)
Definition golden_assert (w : world) (g : golden) (got : text) : world * assert_result :=
  if is_update_golden w then
    let w' := write_file w got in
    (w', str_eq got got)
  else
    (w, str_eq (g_content g) got).

(* a test's use of the helper: new, then (the environment possibly changed meanwhile) assert *)
Inductive session_result := SNewErr (e : io_err) | SAsserted (r : assert_result).

Definition set_env (w : world) (e : option text) : world := {| file := file w; env := e |}.

Definition session (w : world) (env_at_assert : option text) (got : text) : world * session_result :=
  match golden_new w with
  | (w1, NewErr e) => (w1, SNewErr e)
  | (w1, NewOk g) =>
      let (w2, r) := golden_assert (set_env w1 env_at_assert) g got in
      (w2, SAsserted r)
  end.

(* The directory of the golden file: the world's one path together with the other entries of
   the directory (name and bytes).  Golden::new performs one read_to_string(path) and
   Golden::assert at most one std::fs::write(path, got); no other path is ever named, so the
   operations on a directory are the operations on the one path and leave the rest as it is. *)
Record dirworld := { dw : world; others : list (text * text) }.

Definition dir_new (d : dirworld) : dirworld * new_result :=
  let (w, r) := golden_new (dw d) in ({| dw := w; others := others d |}, r).

Definition dir_assert (d : dirworld) (g : golden) (got : text) : dirworld * assert_result :=
  let (w, r) := golden_assert (dw d) g got in ({| dw := w; others := others d |}, r).

Definition dir_session (d : dirworld) (env_at_assert : option text) (got : text) : dirworld * session_result :=
  let (w, r) := session (dw d) env_at_assert got in ({| dw := w; others := others d |}, r).
