(* Model of core/src/parse/character.rs, primitive.rs and expr.rs (as repaired by the F7
   "fix:" commit: nesting depth of parenthesised expressions is bounded by MAX_EXPR_DEPTH).
   Definitions only. *)
From Coq Require Import List NArith ZArith Bool.
From Okv Require Import Model.Lit Model.Syntax Model.Comb.
Import ListNotations.
Open Scope N_scope.

(* ---- character.rs ---- *)
Definition line_ending : parser (list N) := alt (literal [10]) (literal [13; 10]).
Definition line_ending_or_semi : parser (list N) := alt line_ending (literal [59]).
Definition line_ending_or_eof : parser unit := alt (void line_ending) eof.

(* ascii::till_line_ending: everything up to the first \r or \n (or the end); a \r that is
   not followed by \n is an error reported AT that \r *)
Definition till_line_ending : parser (list N) :=
  fun i => let (a, b) := span_while (fun c => negb (is_nl c)) i in
           match b with
           | 13 :: 10 :: _ => POk a b
           | 13 :: _ => PErr false 0 b
           | _ => POk a b
           end.

Definition paren {A} (p : parser A) : parser A := delimited (chr 40) p (chr 41).
Definition paren_str : parser (list N) := paren (take_till0 (N.eqb 41)).

(* ---- primitive.rs ---- *)
Definition is_decimal_char (c : N) : bool := is_digit c || (c =? 44) || (c =? 46).

(* the number token: an optional leading minus, then the maximal run of [0-9,.]; not empty *)
Definition decimal_token : parser (list N) :=
  try_map (taken (opt (chr 45) ;;; take_while0 is_decimal_char))
          (fun s => match s with [] => None | _ => Some s end).

Definition pretty_decimal : parser pdec :=
  try_map decimal_token
          (fun s => match scan s with SOk d => Some d | SErr _ => None end).

(* b" \t\r\n0123456789.,;:?!-+*/^&|=<>[](){}@" *)
Definition non_commodity_chars : list N :=
  [32; 9; 13; 10; 48; 49; 50; 51; 52; 53; 54; 55; 56; 57; 46; 44; 59; 58; 63; 33; 45; 43; 42; 47;
   94; 38; 124; 61; 60; 62; 91; 93; 40; 41; 123; 125; 64].
Definition is_non_commodity (c : N) : bool := mem c non_commodity_chars.
Definition commodity : parser (list N) := take_till0 is_non_commodity.

(* digits (ASCII) to a number *)
Definition digits_val (s : list N) : N := fold_left (fun acc c => acc * 10 + (c - 48)) s 0.

Definition is_leap (y : N) : bool :=
  ((y mod 4 =? 0) && negb (y mod 100 =? 0)) || (y mod 400 =? 0).
Definition days_in_month (y m : N) : N :=
  match m with
  | 1 | 3 | 5 | 7 | 8 | 10 | 12 => 31
  | 4 | 6 | 9 | 11 => 30
  | 2 => if is_leap y then 29 else 28
  | _ => 0
  end.

(* NaiveDate::parse_from_str(s, "%Y/%m/%d" | "%F") on  digit+ sep digit+ sep digit+ :
   %Y without sign takes at most 4 digits, %m and %d at most 2, then the separator (resp. the
   end of the text) must follow; month 1..12, day valid in the proleptic Gregorian calendar *)
Definition chrono_date (y m d : list N) : option date :=
  if ((length y <=? 4) && (length m <=? 2) && (length d <=? 2))%nat then
    let yv := digits_val y in let mv := digits_val m in let dv := digits_val d in
    if (1 <=? mv) && (mv <=? 12) && (1 <=? dv) && (dv <=? days_in_month yv mv)
    then Some {| d_year := Z.of_N yv; d_month := mv; d_day := dv |}
    else None
  else None.

Definition date_with (sep : N) : parser (list N * list N * list N) :=
  y <- digit1 ;; chr sep ;;; m <- digit1 ;; chr sep ;;; d <- digit1 ;; ret (y, m, d).
Definition date : parser date :=
  try_map (alt (date_with 47) (date_with 45))
          (fun t => match t with (y, m, d) => chrono_date y m d end).

(* ---- expr.rs ---- *)
Definition amount : parser s_amount :=
  v <- terminated pretty_decimal space0 ;; c <- commodity ;;
  ret {| sa_value := v; sa_commodity := c |}.

Definition add_op : parser s_binop :=
  alt (chr 43 ;;; ret SAdd) (chr 45 ;;; ret SSub).
Definition mul_op : parser s_binop :=
  alt (chr 42 ;;; ret SMul) (chr 47 ;;; ret SDiv).

Definition infixl (fuel : nat) (op : parser s_binop) (operand : parser s_expr) : parser s_expr :=
  separated_foldl1 fuel operand (delimited space0 op space0) (fun l o r => SBinary o l r).

(* negate_expr / unary_expr over a given value_expr *)
Definition negate_expr (ve : parser s_vexpr) : parser s_expr :=
  pmap (fun v => SUnaryNeg (SValue v)) (preceded (chr 45) ve).
Definition unary_expr (ve : parser s_vexpr) : parser s_expr :=
  fun i => match i with
           | [] => PErr false 0 i
           | c :: _ => if c =? 45 then negate_expr ve i else pmap SValue ve i
           end.

(* MAX_EXPR_DEPTH of expr.rs *)
Definition max_expr_depth : nat := 100.

(* value_expr with d levels of parentheses still allowed *)
Fixpoint value_expr_d (fuel : nat) (d : nat) : parser s_vexpr :=
  fun i =>
    match i with
    | [] => PErr false 0 i
    | c :: _ =>
        if c =? 40 then
          match d with
          | O => PErr false 0 i
          | S d' =>
              let add := infixl fuel add_op (infixl fuel mul_op (unary_expr (value_expr_d fuel d'))) in
              pmap SParen (paren (delimited space0 add space0)) i
          end
        else pmap SAmount amount i
    end.

Definition value_expr (fuel : nat) : parser s_vexpr := value_expr_d fuel max_expr_depth.

(* nesting depth actually used by a parsed expression *)
Fixpoint vexpr_depth (v : s_vexpr) : nat :=
  match v with
  | SParen e => S (expr_depth e)
  | SAmount _ => O
  end
with expr_depth (e : s_expr) : nat :=
  match e with
  | SUnaryNeg e => expr_depth e
  | SBinary _ l r => Nat.max (expr_depth l) (expr_depth r)
  | SValue v => vexpr_depth v
  end.
