(* Lemmas for property C12: name resolution keeps the store invariant and only adds records;
   declarations establish their aliases; a ledger with declared aliases written at later uses
   is processed to the very same result (simulation over entries); conflicts are rejected. *)
From Coq Require Import List NArith ZArith Bool QArith Qcanon Lia.
From Okv Require Import Base.Maps Base.Dec Model.Amount Model.Book Model.Intern Model.Named Model.NamedSpec.
From Okv Require Import Proofs.EvalProofs Proofs.InternProofs.
Import ListNotations.
Open Scope N_scope.

(* ---------- resolution only adds records and keeps the invariant ---------- *)
Lemma res_ve_mono :
  (forall v s, store_le s (fst (res_v s v)) /\ (store_ok s -> store_ok (fst (res_v s v)))) /\
  (forall e s, store_le s (fst (res_e s e)) /\ (store_ok s -> store_ok (fst (res_e s e)))).
Proof.
  apply vexpr_expr_ind.
  - intros e IH s. cbn [res_v]. specialize (IH s). destruct (res_e s e) as [s' e']. exact IH.
  - intros q [c|] s; cbn [res_v].
    + pose proof (ensure_le s c) as L. pose proof (ensure_ok s c) as O.
      destruct (ensure s c) as [s' c']. cbn [fst] in *. split; assumption.
    + cbn [fst]. split; [apply store_le_refl | auto].
  - intros x IH s. cbn [res_e]. specialize (IH s). destruct (res_e s x) as [s' x']. exact IH.
  - intros op l IHl r IHr s. cbn [res_e]. specialize (IHl s). destruct (res_e s l) as [s1 l'].
    specialize (IHr s1). destruct (res_e s1 r) as [s2 r']. cbn [fst] in *.
    split; [eapply store_le_trans; [apply IHl | apply IHr] | intros O; apply IHr; apply IHl; exact O].
  - intros v IH s. cbn [res_e]. specialize (IH s). destruct (res_v s v) as [s' v']. exact IH.
Qed.

Lemma res_v_le : forall v s, store_le s (fst (res_v s v)).
Proof. intros. apply (proj1 res_ve_mono). Qed.
Lemma res_v_ok : forall v s, store_ok s -> store_ok (fst (res_v s v)).
Proof. intros v s. apply (proj1 res_ve_mono). Qed.

Lemma res_ov_mono : forall o s, store_le s (fst (res_ov s o)) /\ (store_ok s -> store_ok (fst (res_ov s o))).
Proof.
  intros [v|] s; cbn [res_ov].
  - pose proof (res_v_le v s). pose proof (res_v_ok v s). destruct (res_v s v). cbn [fst] in *. split; assumption.
  - cbn [fst]. split; [apply store_le_refl | auto].
Qed.
Lemma res_ox_mono : forall o s, store_le s (fst (res_ox s o)) /\ (store_ok s -> store_ok (fst (res_ox s o))).
Proof.
  intros [[v|v]|] s; cbn [res_ox].
  - pose proof (res_v_le v s). pose proof (res_v_ok v s). destruct (res_v s v). cbn [fst] in *. split; assumption.
  - pose proof (res_v_le v s). pose proof (res_v_ok v s). destruct (res_v s v). cbn [fst] in *. split; assumption.
  - cbn [fst]. split; [apply store_le_refl | auto].
Qed.

Lemma res_posting_mono : forall p sa sc sa' sc' p', res_posting sa sc p = (sa', sc', p') ->
  store_le sa sa' /\ store_le sc sc' /\ (store_ok sa -> store_ok sa') /\ (store_ok sc -> store_ok sc').
Proof.
  intros p sa sc sa' sc' p' H. unfold res_posting in H.
  pose proof (ensure_le sa (p_account p)) as La. pose proof (ensure_ok sa (p_account p)) as Oa.
  destruct (ensure sa (p_account p)) as [sa1 a].
  destruct (res_ov_mono (p_amount p) sc) as [L1 O1]. destruct (res_ov sc (p_amount p)) as [s1 amt].
  destruct (res_ox_mono (p_cost p) s1) as [L2 O2]. destruct (res_ox s1 (p_cost p)) as [s2 cost].
  destruct (res_ox_mono (p_lot p) s2) as [L3 O3]. destruct (res_ox s2 (p_lot p)) as [s3 lot].
  destruct (res_ov_mono (p_balance p) s3) as [L4 O4]. destruct (res_ov s3 (p_balance p)) as [s4 bal].
  cbn [fst] in *. inversion H; subst.
  split; [exact La|]. split; [eauto using store_le_trans|]. split; [exact Oa | auto].
Qed.

Lemma res_posts_mono : forall ps sa sc sa' sc' ps', res_posts sa sc ps = (sa', sc', ps') ->
  store_le sa sa' /\ store_le sc sc' /\ (store_ok sa -> store_ok sa') /\ (store_ok sc -> store_ok sc').
Proof.
  induction ps as [|p r IH]; intros sa sc sa' sc' ps' H; cbn [res_posts] in H.
  - inversion H; subst. split; [apply store_le_refl|]. split; [apply store_le_refl|]. split; auto.
  - destruct (res_posting sa sc p) as [[sa1 sc1] p1] eqn:P.
    destruct (res_posts sa1 sc1 r) as [[sa2 sc2] r1] eqn:R. inversion H; subst.
    destruct (res_posting_mono _ _ _ _ _ _ P) as [A1 [C1 [OA1 OC1]]].
    destruct (IH _ _ _ _ _ R) as [A2 [C2 [OA2 OC2]]].
    split; [eauto using store_le_trans|]. split; [eauto using store_le_trans|]. split; auto.
Qed.

Lemma res_txn_mono : forall t sa sc sa' sc' t', res_txn sa sc t = (sa', sc', t') ->
  store_le sa sa' /\ store_le sc sc' /\ (store_ok sa -> store_ok sa') /\ (store_ok sc -> store_ok sc').
Proof.
  intros t sa sc sa' sc' t' H. unfold res_txn in H.
  destruct (res_posts sa sc (t_posts t)) as [[sa1 sc1] ps] eqn:R. inversion H; subst.
  eapply res_posts_mono. exact R.
Qed.

(* ---------- declarations ---------- *)
Lemma insert_aliases_spec : forall als s c s', insert_aliases s als c = inl s' ->
  store_ok s -> get c s = Some RCanonical ->
  store_ok s' /\ store_le s s' /\ forall a, In a als -> get a s' = Some (RAlias c).
Proof.
  induction als as [|a r IH]; intros s c s' H OK C; cbn [insert_aliases] in H.
  - inversion H; subst. split; [exact OK|]. split; [apply store_le_refl | intros a []].
  - destruct (insert_alias s a c) as [s1|e] eqn:E; [|discriminate].
    destruct (insert_alias_spec _ _ _ _ E OK C) as [OK1 [L1 G1]].
    destruct (IH s1 c s' H OK1 (L1 _ _ C)) as [OK2 [L2 G2]].
    split; [exact OK2|]. split; [eauto using store_le_trans|].
    intros x [-> | I]; [apply L2; exact G1 | apply G2; exact I].
Qed.

Lemma declare_spec : forall s name als s' c, declare s name als = inl (s', c) -> store_ok s ->
  store_ok s' /\ store_le s s' /\ c = name /\ get name s' = Some RCanonical /\
  forall a, In a als -> get a s' = Some (RAlias name).
Proof.
  intros s name als s' c H OK. unfold declare in H.
  destruct (insert_canonical s name) as [[s1 c1]|e] eqn:E; [|discriminate].
  destruct (insert_canonical_spec _ _ _ _ E OK) as [OK1 [L1 [-> G1]]].
  destruct (insert_aliases s1 als name) as [s2|e] eqn:A; [|discriminate]. inversion H; subst.
  destruct (insert_aliases_spec _ _ _ _ A OK1 G1) as [OK2 [L2 G2]].
  split; [exact OK2|]. split; [eauto using store_le_trans|]. split; [reflexivity|]. split; [apply L2; exact G1 | exact G2].
Qed.

(* ---------- the invariant in every reachable state ---------- *)
Definition nstate_ok (st : nstate) : Prop := store_ok (n_acc st) /\ store_ok (n_com st).
Definition nstate_le (st st' : nstate) : Prop := store_le (n_acc st) (n_acc st') /\ store_le (n_com st) (n_com st').

Lemma process_named_entry_ok : forall st e st', process_named_entry st e = NOk st' ->
  nstate_ok st -> nstate_ok st' /\ nstate_le st st'.
Proof.
  intros st e st' H [OA OC]. destruct e as [name als | name als fmt | t |]; cbn [process_named_entry] in H.
  - destruct (declare (n_acc st) name als) as [[sa c]|er] eqn:D; [|discriminate]. inversion H; subst.
    destruct (declare_spec _ _ _ _ _ D OA) as [O [L _]]. unfold nstate_ok, nstate_le. cbn. auto using store_le_refl.
  - destruct (declare (n_com st) name als) as [[sc c]|er] eqn:D; [|discriminate].
    destruct (declare_spec _ _ _ _ _ D OC) as [O [L _]].
    destruct fmt as [dp|].
    + destruct (lift_book (process_entry (n_book st) (EFormat c dp))); try discriminate. inversion H; subst.
      unfold nstate_ok, nstate_le. cbn. auto using store_le_refl.
    + inversion H; subst. unfold nstate_ok, nstate_le. cbn. auto using store_le_refl.
  - destruct (res_txn (n_acc st) (n_com st) t) as [[sa sc] t'] eqn:R.
    destruct (res_txn_mono _ _ _ _ _ _ R) as [LA [LC [OA' OC']]].
    destruct (lift_book (process_entry (n_book st) (ETxn t'))); try discriminate. inversion H; subst.
    unfold nstate_ok, nstate_le. cbn. auto.
  - inversion H; subst. split; [split; assumption | split; apply store_le_refl].
Qed.

Inductive reachable : nstate -> Prop :=
| reach_init : reachable nstate0
| reach_step st e st' : reachable st -> process_named_entry st e = NOk st' -> reachable st'.

Theorem reachable_ok : forall st, reachable st -> nstate_ok st.
Proof.
  induction 1 as [|st e st' R IH H].
  - split; apply store_ok_empty.
  - apply (process_named_entry_ok _ _ _ H IH).
Qed.

Lemma process_named_from_reachable : forall es i st st' j,
  reachable st -> process_named_from i st es = (NOk st', j) -> reachable st'.
Proof.
  induction es as [|e r IH]; intros i st st' j R H; cbn [process_named_from] in H.
  - inversion H; subst. exact R.
  - destruct (process_named_entry st e) as [st1| |] eqn:E; try discriminate.
    eapply IH; [|exact H]. eapply reach_step; eassumption.
Qed.

(* every operation of the store preserves the invariant, stated at once *)
Theorem store_invariant_all :
  store_ok store0 /\
  (forall s n, store_ok s -> store_ok (fst (ensure s n))) /\
  (forall s n s' c, store_ok s -> insert_canonical s n = inl (s', c) -> store_ok s') /\
  (forall s a c s', store_ok s -> get c s = Some RCanonical -> insert_alias s a c = inl s' -> store_ok s') /\
  (forall st, reachable st -> store_ok (n_acc st) /\ store_ok (n_com st)) /\
  (forall es st i, process_named es = (NOk st, i) -> store_ok (n_acc st) /\ store_ok (n_com st)).
Proof.
  split; [apply store_ok_empty|]. split; [intros; apply ensure_ok; assumption|].
  split; [intros s n s' c OK H; apply (insert_canonical_spec _ _ _ _ H OK)|].
  split; [intros s a c s' OK C H; apply (insert_alias_spec _ _ _ _ H OK C)|].
  split; [exact reachable_ok|].
  intros es st i H. apply reachable_ok. eapply process_named_from_reachable; [apply reach_init | exact H].
Qed.

(* ---------- transparency ---------- *)
(* the declarations seen so far are in the store: alias |-> canonical name, itself canonical *)
Definition decls_in (d : decls) (s : store) : Prop :=
  forall a n, In (a, n) d -> get a s = Some (RAlias n) /\ get n s = Some RCanonical.

Lemma decls_in_le : forall d s s', decls_in d s -> store_le s s' -> decls_in d s'.
Proof. intros d s s' D L a n I. destruct (D a n I) as [G1 G2]. split; apply L; assumption. Qed.

Lemma decls_in_nil : forall s, decls_in [] s.
Proof. intros s a n []. Qed.

Lemma ensure_subst : forall d s n n', name_subst d n n' -> decls_in d s -> ensure s n' = ensure s n.
Proof.
  intros d s n n' [-> | I] D; [reflexivity|]. destruct (D _ _ I) as [G1 G2].
  rewrite (ensure_alias _ _ _ G1), (ensure_canonical _ _ G2). reflexivity.
Qed.

Scheme vexpr_subst_min := Minimality for vexpr_subst Sort Prop
  with expr_subst_min := Minimality for expr_subst Sort Prop.
Combined Scheme ve_subst_ind from vexpr_subst_min, expr_subst_min.

Lemma res_ve_subst : forall d,
  (forall v v', vexpr_subst d v v' -> forall s, decls_in d s -> res_v s v' = res_v s v) /\
  (forall e e', expr_subst d e e' -> forall s, decls_in d s -> res_e s e' = res_e s e).
Proof.
  intros d. apply ve_subst_ind.
  - intros e e' _ IH s D. cbn [res_v]. rewrite (IH s D). reflexivity.
  - intros q s D. reflexivity.
  - intros q c c' NS s D. cbn [res_v]. rewrite (ensure_subst d s c c' NS D). reflexivity.
  - intros x x' _ IH s D. cbn [res_e]. rewrite (IH s D). reflexivity.
  - intros op l l' r r' _ IHl _ IHr s D. cbn [res_e]. rewrite (IHl s D).
    pose proof (proj2 res_ve_mono l s) as [L _]. destruct (res_e s l) as [s1 l1]. cbn [fst] in L.
    rewrite (IHr s1 (decls_in_le _ _ _ D L)). reflexivity.
  - intros v v' _ IH s D. cbn [res_e]. rewrite (IH s D). reflexivity.
Qed.

Lemma res_ov_subst : forall d o o' s, ov_subst d o o' -> decls_in d s -> res_ov s o' = res_ov s o.
Proof.
  intros d o o' s H D. destruct H as [|v v' V]; [reflexivity|]. cbn [res_ov].
  rewrite (proj1 (res_ve_subst d) v v' V s D). reflexivity.
Qed.
Lemma res_ox_subst : forall d o o' s, ox_subst d o o' -> decls_in d s -> res_ox s o' = res_ox s o.
Proof.
  intros d o o' s H D. destruct H as [|v v' V|v v' V]; [reflexivity| |]; cbn [res_ox];
    rewrite (proj1 (res_ve_subst d) v v' V s D); reflexivity.
Qed.

Lemma res_posting_subst : forall da dc p p' sa sc,
  posting_subst da dc p p' -> decls_in da sa -> decls_in dc sc -> res_posting sa sc p' = res_posting sa sc p.
Proof.
  intros da dc p p' sa sc [Ha Hm Hc Hl Hb] Da Dc. unfold res_posting.
  rewrite (ensure_subst da sa _ _ Ha Da). destruct (ensure sa (p_account p)) as [sa1 a].
  rewrite (res_ov_subst dc _ _ sc Hm Dc).
  destruct (res_ov_mono (p_amount p) sc) as [L1 _]. destruct (res_ov sc (p_amount p)) as [s1 amt]. cbn [fst] in L1.
  assert (D1 : decls_in dc s1) by (eapply decls_in_le; eassumption).
  rewrite (res_ox_subst dc _ _ s1 Hc D1).
  destruct (res_ox_mono (p_cost p) s1) as [L2 _]. destruct (res_ox s1 (p_cost p)) as [s2 cost]. cbn [fst] in L2.
  assert (D2 : decls_in dc s2) by (eapply decls_in_le; eassumption).
  rewrite (res_ox_subst dc _ _ s2 Hl D2).
  destruct (res_ox_mono (p_lot p) s2) as [L3 _]. destruct (res_ox s2 (p_lot p)) as [s3 lot]. cbn [fst] in L3.
  assert (D3 : decls_in dc s3) by (eapply decls_in_le; eassumption).
  rewrite (res_ov_subst dc _ _ s3 Hb D3). reflexivity.
Qed.

Lemma res_posts_subst : forall da dc ps ps', Forall2 (posting_subst da dc) ps ps' ->
  forall sa sc, decls_in da sa -> decls_in dc sc -> res_posts sa sc ps' = res_posts sa sc ps.
Proof.
  intros da dc ps ps' F. induction F as [|p p' r r' P _ IH]; intros sa sc Da Dc; [reflexivity|].
  cbn [res_posts]. rewrite (res_posting_subst da dc p p' sa sc P Da Dc).
  destruct (res_posting sa sc p) as [[sa1 sc1] p1] eqn:R.
  destruct (res_posting_mono _ _ _ _ _ _ R) as [LA [LC _]].
  rewrite (IH sa1 sc1 (decls_in_le _ _ _ Da LA) (decls_in_le _ _ _ Dc LC)). reflexivity.
Qed.

Lemma res_txn_subst : forall da dc t t' sa sc, txn_subst da dc t t' ->
  decls_in da sa -> decls_in dc sc -> res_txn sa sc t' = res_txn sa sc t.
Proof.
  intros da dc t t' sa sc [Hd F] Da Dc. unfold res_txn. rewrite (res_posts_subst da dc _ _ F sa sc Da Dc), Hd. reflexivity.
Qed.

Lemma decls_of_in : forall name als a n, In (a, n) (decls_of name als) -> n = name /\ In a als.
Proof.
  intros name als a n I. unfold decls_of in I. apply in_map_iff in I. destruct I as [x [E I]]. inversion E; subst. auto.
Qed.

Lemma declare_decls_in : forall d s name als s' c, declare s name als = inl (s', c) -> store_ok s ->
  decls_in d s -> decls_in (decls_of name als ++ d) s'.
Proof.
  intros d s name als s' c H OK D a n I. destruct (declare_spec _ _ _ _ _ H OK) as [_ [L [_ [G A]]]].
  apply in_app_iff in I. destruct I as [I | I].
  - apply decls_of_in in I. destruct I as [-> I]. split; [apply A; exact I | exact G].
  - apply (decls_in_le _ _ _ D L). exact I.
Qed.

(* the simulation: related ledgers from the same state run to the same result *)
Theorem alias_subst_sim : forall da dc es es', alias_subst da dc es es' ->
  forall i st, nstate_ok st -> decls_in da (n_acc st) -> decls_in dc (n_com st) ->
  process_named_from i st es' = process_named_from i st es.
Proof.
  intros da dc es es' H. induction H as [da dc | da dc name als es es' _ IH | da dc name als fmt es es' _ IH
                                         | da dc t t' es es' T _ IH | da dc es es' _ IH];
    intros i st OK Da Dc; cbn [process_named_from].
  - reflexivity.
  - destruct (process_named_entry st (NAccount name als)) as [st1| |] eqn:E; try reflexivity.
    destruct (process_named_entry_ok _ _ _ E OK) as [OK1 _]. apply IH; [exact OK1 | |].
    + cbn [process_named_entry] in E. destruct (declare (n_acc st) name als) as [[sa c]|er] eqn:D; [|discriminate].
      inversion E; subst. cbn [n_acc]. eapply declare_decls_in; [exact D | apply OK | exact Da].
    + cbn [process_named_entry] in E. destruct (declare (n_acc st) name als) as [[sa c]|er]; [|discriminate].
      inversion E; subst. exact Dc.
  - destruct (process_named_entry st (NCommodity name als fmt)) as [st1| |] eqn:E; try reflexivity.
    destruct (process_named_entry_ok _ _ _ E OK) as [OK1 _]. apply IH; [exact OK1 | |].
    + cbn [process_named_entry] in E. destruct (declare (n_com st) name als) as [[sc c]|er]; [|discriminate].
      destruct fmt as [dp|]; [destruct (lift_book (process_entry (n_book st) (EFormat c dp))); try discriminate|];
        inversion E; subst; exact Da.
    + cbn [process_named_entry] in E. destruct (declare (n_com st) name als) as [[sc c]|er] eqn:D; [|discriminate].
      destruct fmt as [dp|]; [destruct (lift_book (process_entry (n_book st) (EFormat c dp))); try discriminate|];
        inversion E; subst; cbn [n_com]; (eapply declare_decls_in; [exact D | apply OK | exact Dc]).
  - assert (E' : process_named_entry st (NTxn t') = process_named_entry st (NTxn t)).
    { cbn [process_named_entry]. rewrite (res_txn_subst da dc t t' _ _ T Da Dc). reflexivity. }
    rewrite E'. destruct (process_named_entry st (NTxn t)) as [st1| |] eqn:E; try reflexivity.
    destruct (process_named_entry_ok _ _ _ E OK) as [OK1 [LA LC]].
    apply IH; [exact OK1 | eapply decls_in_le; eassumption | eapply decls_in_le; eassumption].
  - cbn [process_named_entry]. apply IH; assumption.
Qed.

Theorem alias_transparent : forall es es', alias_subst [] [] es es' -> process_named es' = process_named es.
Proof.
  intros es es' H. unfold process_named. apply (alias_subst_sim [] [] es es' H).
  - split; apply store_ok_empty.
  - apply decls_in_nil.
  - apply decls_in_nil.
Qed.

Corollary alias_transparent_shown : forall es es', alias_subst [] [] es es' ->
  shown (process_named es') = shown (process_named es).
Proof. intros es es' H. rewrite (alias_transparent es es' H). reflexivity. Qed.

(* ---------- conflicts ---------- *)
(* a name used in a transaction is known afterwards; if it was new it is canonical *)
Lemma res_posts_registers : forall ps sa sc sa' sc' ps', res_posts sa sc ps = (sa', sc', ps') ->
  forall p, In p ps -> get (p_account p) sa = None -> get (p_account p) sa' = Some RCanonical.
Proof.
  induction ps as [|p0 r IH]; intros sa sc sa' sc' ps' H p I G; [destruct I|].
  cbn [res_posts] in H. destruct (res_posting sa sc p0) as [[sa1 sc1] p1] eqn:P.
  destruct (res_posts sa1 sc1 r) as [[sa2 sc2] r1] eqn:R. inversion H; subst.
  destruct (res_posts_mono _ _ _ _ _ _ R) as [L2 _].
  assert (E1 : sa1 = fst (ensure sa (p_account p0))).
  { unfold res_posting in P. destruct (ensure sa (p_account p0)) as [x a].
    destruct (res_ov sc (p_amount p0)) as [s1 amt]. destruct (res_ox s1 (p_cost p0)) as [s2 cost].
    destruct (res_ox s2 (p_lot p0)) as [s3 lot]. destruct (res_ov s3 (p_balance p0)) as [s4 bal].
    inversion P; subst. reflexivity. }
  destruct (N.eq_dec (p_account p) (p_account p0)) as [Eq | Ne].
  - apply L2. rewrite E1, <- Eq. apply ensure_registers. exact G.
  - destruct I as [-> | I]; [contradiction Ne; reflexivity|].
    destruct (get (p_account p) sa1) as [rec|] eqn:G1.
    + (* registered by the first posting only if it is the same name *)
      exfalso. rewrite E1 in G1. unfold ensure, resolve in G1.
      destruct (get (p_account p0) sa) as [[|c0]|] eqn:G0; cbn [fst] in G1; try congruence.
      rewrite get_add_rec_other in G1 by exact Ne. congruence.
    + eapply IH; eassumption.
Qed.

Lemma use_makes_canonical : forall st t st' p,
  process_named_entry st (NTxn t) = NOk st' -> In p (t_posts t) -> get (p_account p) (n_acc st) = None ->
  get (p_account p) (n_acc st') = Some RCanonical.
Proof.
  intros st t st' p H I G. cbn [process_named_entry] in H.
  destruct (res_txn (n_acc st) (n_com st) t) as [[sa sc] t'] eqn:R.
  destruct (lift_book (process_entry (n_book st) (ETxn t'))); try discriminate. inversion H; subst. cbn [n_acc].
  unfold res_txn in R. destruct (res_posts (n_acc st) (n_com st) (t_posts t)) as [[sa1 sc1] ps] eqn:RP.
  inversion R; subst. eapply res_posts_registers; eassumption.
Qed.

(* once canonical, always canonical; once an alias of n, always an alias of n *)
Lemma reach_from_le : forall es i st st' j, nstate_ok st ->
  process_named_from i st es = (NOk st', j) -> nstate_le st st' /\ nstate_ok st'.
Proof.
  induction es as [|e r IH]; intros i st st' j OK H; cbn [process_named_from] in H.
  - inversion H; subst. split; [split; apply store_le_refl | exact OK].
  - destruct (process_named_entry st e) as [st1| |] eqn:E; try discriminate.
    destruct (process_named_entry_ok _ _ _ E OK) as [OK1 [LA LC]].
    destruct (IH _ _ _ _ OK1 H) as [[LA' LC'] OK']. split; [split; eauto using store_le_trans | exact OK'].
Qed.

Lemma insert_aliases_conflict : forall als s c a,
  In a als -> get a s = Some RCanonical -> exists e, insert_aliases s als c = inr e.
Proof.
  induction als as [|x r IH]; intros s c a I G; [destruct I|]. cbn [insert_aliases].
  destruct (insert_alias s x c) as [s1|e] eqn:E; [|eauto].
  destruct I as [-> | I].
  - rewrite (insert_alias_rejects_canonical _ _ _ G) in E. discriminate.
  - apply (IH s1 c a I). unfold insert_alias in E. destruct (get x s) as [[|c0]|] eqn:Gx; try discriminate.
    + destruct (c0 =? c); inversion E; subst. exact G.
    + inversion E; subst. apply add_rec_le; assumption.
Qed.

(* alias already canonical => rejected; with a single alias the kind is AlreadyCanonical *)
Lemma alias_already_canonical_rejected : forall s name als a,
  In a als -> get a s = Some RCanonical -> exists e, declare s name als = inr e.
Proof.
  intros s name als a I G. unfold declare. destruct (insert_canonical s name) as [[s1 c]|e] eqn:E; [|eauto].
  assert (G1 : get a s1 = Some RCanonical).
  { unfold insert_canonical in E. destruct (get name s) as [[|c0]|] eqn:Gn; inversion E; subst; [exact G|].
    apply add_rec_le; assumption. }
  destruct (insert_aliases_conflict als s1 c a I G1) as [e' E']. rewrite E'. eauto.
Qed.

Lemma alias_already_canonical_kind : forall s name a,
  get a s = Some RCanonical -> (forall c, get name s <> Some (RAlias c)) ->
  declare s name [a] = inr AlreadyCanonical.
Proof.
  intros s name a G NA. unfold declare, insert_canonical. destruct (get name s) as [[|c0]|] eqn:Gn.
  - cbn [insert_aliases]. rewrite (insert_alias_rejects_canonical _ _ _ G). reflexivity.
  - exfalso. apply (NA c0). reflexivity.
  - cbn [insert_aliases].
    assert (G1 : get a (add_rec s name RCanonical) = Some RCanonical) by (apply add_rec_le; assumption).
    rewrite (insert_alias_rejects_canonical _ _ _ G1). reflexivity.
Qed.

(* an alias of itself *)
Lemma alias_of_itself_rejected : forall s name als, In name als -> exists e, declare s name als = inr e.
Proof.
  intros s name als I. unfold declare. destruct (insert_canonical s name) as [[s1 c]|e] eqn:E; [|eauto].
  assert (G1 : get name s1 = Some RCanonical).
  { unfold insert_canonical in E. destruct (get name s) as [[|c0]|] eqn:Gn; inversion E; subst; [exact Gn|].
    apply get_add_rec_same. exact Gn. }
  destruct (insert_aliases_conflict als s1 c name I G1) as [e' E']. rewrite E'. eauto.
Qed.

(* canonical already an alias *)
Lemma canonical_already_alias_rejected : forall s name als c,
  get name s = Some (RAlias c) -> declare s name als = inr AlreadyAlias.
Proof. intros s name als c G. unfold declare. rewrite (insert_canonical_rejects_alias _ _ _ G). reflexivity. Qed.

(* an alias that already stands for another canonical *)
Lemma alias_of_another_rejected : forall s name a c,
  get a s = Some (RAlias c) -> c <> name -> (forall c', get name s <> Some (RAlias c')) ->
  declare s name [a] = inr ConflictingAlias.
Proof.
  intros s name a c G N NA. unfold declare, insert_canonical. destruct (get name s) as [[|c0]|] eqn:Gn.
  - cbn [insert_aliases]. rewrite (insert_alias_rejects_other _ _ _ _ G N). reflexivity.
  - exfalso. apply (NA c0). reflexivity.
  - cbn [insert_aliases].
    assert (G1 : get a (add_rec s name RCanonical) = Some (RAlias c)) by (apply add_rec_le; assumption).
    rewrite (insert_alias_rejects_other _ _ _ _ G1 N). reflexivity.
Qed.

(* the whole statement, at the level of entries and runs *)
Theorem conflicts_rejected :
  (* 1. a name that is canonical (declared so, or made so by a use: see 4) cannot be declared an alias *)
  (forall st name als a, In a als -> get a (n_acc st) = Some RCanonical ->
     exists e, process_named_entry st (NAccount name als) = NErr (NInvalidAccount e)) /\
  (forall st name als fmt a, In a als -> get a (n_com st) = Some RCanonical ->
     exists e, process_named_entry st (NCommodity name als fmt) = NErr (NInvalidCommodity e)) /\
  (* 2. ... and with that single alias the error is AlreadyCanonical *)
  (forall st name a, get a (n_acc st) = Some RCanonical -> (forall c, get name (n_acc st) <> Some (RAlias c)) ->
     process_named_entry st (NAccount name [a]) = NErr (NInvalidAccount AlreadyCanonical)) /\
  (forall st name fmt a, get a (n_com st) = Some RCanonical -> (forall c, get name (n_com st) <> Some (RAlias c)) ->
     process_named_entry st (NCommodity name [a] fmt) = NErr (NInvalidCommodity AlreadyCanonical)) /\
  (* 3. a name that is an alias cannot be declared canonical *)
  (forall st name als c, get name (n_acc st) = Some (RAlias c) ->
     process_named_entry st (NAccount name als) = NErr (NInvalidAccount AlreadyAlias)) /\
  (forall st name als fmt c, get name (n_com st) = Some (RAlias c) ->
     process_named_entry st (NCommodity name als fmt) = NErr (NInvalidCommodity AlreadyAlias)) /\
  (* 4. first use before declaration: the used account name is canonical from then on *)
  (forall st t st' p es st'' i j, nstate_ok st ->
     process_named_entry st (NTxn t) = NOk st' -> In p (t_posts t) -> get (p_account p) (n_acc st) = None ->
     process_named_from i st' es = (NOk st'', j) -> get (p_account p) (n_acc st'') = Some RCanonical) /\
  (* 5. declaration before use: the declared records stay what they are *)
  (forall st name als st' es st'' i j a, nstate_ok st ->
     process_named_entry st (NAccount name als) = NOk st' -> In a als ->
     process_named_from i st' es = (NOk st'', j) ->
     get a (n_acc st'') = Some (RAlias name) /\ get name (n_acc st'') = Some RCanonical) /\
  (* 6. one alias for two canonicals *)
  (forall st name a c, get a (n_acc st) = Some (RAlias c) -> c <> name -> (forall c', get name (n_acc st) <> Some (RAlias c')) ->
     process_named_entry st (NAccount name [a]) = NErr (NInvalidAccount ConflictingAlias)).
Proof.
  split; [|split; [|split; [|split; [|split; [|split; [|split; [|split]]]]]]].
  - intros st name als a I G. cbn [process_named_entry].
    destruct (alias_already_canonical_rejected _ name als a I G) as [e E]. rewrite E. eauto.
  - intros st name als fmt a I G. cbn [process_named_entry].
    destruct (alias_already_canonical_rejected _ name als a I G) as [e E]. rewrite E. eauto.
  - intros st name a G NA. cbn [process_named_entry]. rewrite (alias_already_canonical_kind _ _ _ G NA). reflexivity.
  - intros st name fmt a G NA. cbn [process_named_entry]. rewrite (alias_already_canonical_kind _ _ _ G NA). reflexivity.
  - intros st name als c G. cbn [process_named_entry]. rewrite (canonical_already_alias_rejected _ _ als _ G). reflexivity.
  - intros st name als fmt c G. cbn [process_named_entry]. rewrite (canonical_already_alias_rejected _ _ als _ G). reflexivity.
  - intros st t st' p es st'' i j OK H I G R.
    destruct (process_named_entry_ok _ _ _ H OK) as [OK' _].
    destruct (reach_from_le _ _ _ _ _ OK' R) as [[LA _] _]. apply LA. eapply use_makes_canonical; eassumption.
  - intros st name als st' es st'' i j a OK H I R. destruct (process_named_entry_ok _ _ _ H OK) as [OK' _].
    destruct (reach_from_le _ _ _ _ _ OK' R) as [[LA _] _].
    cbn [process_named_entry] in H. destruct (declare (n_acc st) name als) as [[sa c]|er] eqn:D; [|discriminate].
    inversion H; subst. cbn [n_acc] in LA. destruct (declare_spec _ _ _ _ _ D (proj1 OK)) as [_ [_ [_ [G A]]]].
    split; apply LA; [apply A; exact I | exact G].
  - intros st name a c G N NA. cbn [process_named_entry]. rewrite (alias_of_another_rejected _ _ _ _ G N NA). reflexivity.
Qed.

(* non-vacuity *)
Example ex_transparent :
  let decl := NAccount 1 [7] in
  let t n := NTxn {| t_date := 0%Z; t_posts := [ {| p_account := n; p_amount := Some (VAmt 1%Qc (Some 3)); p_cost := None; p_lot := None; p_balance := None |};
                                               {| p_account := 2; p_amount := None; p_cost := None; p_lot := None; p_balance := None |} ] |} in
  alias_subst [] [] [decl; t 1] [decl; t 7].
Proof.
  cbn. apply AS_account. apply AS_txn; [|apply AS_nil].
  split; [reflexivity|]. constructor; [|constructor; [|constructor]].
  - apply Build_posting_subst; cbn.
    + right. left. reflexivity.
    + apply OVS_some. apply VS_amt. left. reflexivity.
    + apply OXS_none.
    + apply OXS_none.
    + apply OVS_none.
  - apply Build_posting_subst; cbn; [left; reflexivity | apply OVS_none | apply OXS_none | apply OXS_none | apply OVS_none].
Qed.

(* both orders of declaration versus first use, on concrete runs *)
Definition ex_post (a : N) (amt : option vexpr) : posting :=
  {| p_account := a; p_amount := amt; p_cost := None; p_lot := None; p_balance := None |}.
Definition ex_txn (a : N) : nentry :=
  NTxn {| t_date := 0%Z; t_posts := [ex_post a (Some (VAmt 1%Qc (Some 3))); ex_post 2 None] |}.
Example ex_use_then_alias_rejected :
  shown (process_named [ex_txn 7; NAccount 1 [7]]) = ShownErr (NInvalidAccount AlreadyCanonical) 1.
Proof. reflexivity. Qed.
Example ex_alias_then_canonical_rejected :
  shown (process_named [NAccount 1 [7]; NAccount 7 []]) = ShownErr (NInvalidAccount AlreadyAlias) 1.
Proof. reflexivity. Qed.
Example ex_alias_of_two_rejected :
  shown (process_named [NAccount 1 [7]; NAccount 2 [7]]) = ShownErr (NInvalidAccount ConflictingAlias) 1.
Proof. reflexivity. Qed.
Example ex_alias_then_use_same :
  shown (process_named [NAccount 1 [7]; ex_txn 7]) = shown (process_named [NAccount 1 [7]; ex_txn 1]).
Proof. reflexivity. Qed.
