(* Correspondence classifier for C06: outcome classes of the parse / format / process / query
   steps on malformed input.  Verdicts: 0 Agree | 1 ModelMismatch | 2 PropertyFail | 9 harness. *)
From Coq Require Import List NArith ZArith Bool.
From Okv Require Import Model.Lit Model.Syntax Model.Comb Model.ParseLedger.
Import ListNotations.
Open Scope N_scope.

Inductive outcome := ROk | RErr | RPanic | RTimeout | RAbort | RSkip.

Record obs := { o_parse : outcome; o_format : outcome; o_process : outcome; o_query : outcome }.

Inductive case :=
| Single (text : list N) (o : obs)
| Prefixes (text : list N) (os : list obs)       (* os[k] observed on firstn k text, k = 0..length *)
| LoadCase (o : outcome).                        (* Loader::load / process on an include graph *)

Fixpoint rep (n : nat) (s : list N) : list N :=
  match n with O => [] | S k => s ++ rep k s end.

Definition crash (o : outcome) : bool :=
  match o with RPanic | RTimeout | RAbort => true | _ => false end.

(* the property, on what the implementation did: no step panicked, hung or aborted *)
Definition spec_holds (o : obs) : bool :=
  negb (crash (o_parse o) || crash (o_format o) || crash (o_process o) || crash (o_query o)).

Definition outcome_eqb (a b : outcome) : bool :=
  match a, b with
  | ROk, ROk | RErr, RErr | RPanic, RPanic | RTimeout, RTimeout | RAbort, RAbort | RSkip, RSkip => true
  | _, _ => false
  end.

Definition model_class (s : list N) : outcome :=
  match parse_ledger s with
  | LOk _ => ROk
  | LErr _ _ => RErr
  | LPanic _ => RPanic
  | LDiverge _ => RTimeout
  | LFuel => RSkip
  end.

(* format = parse + Display: it fails exactly when the parse does; process needs a parse *)
Definition classify1 (s : list N) (o : obs) : N :=
  if negb (spec_holds o) then 2
  else
    let m := model_class s in
    if outcome_eqb (o_parse o) m && outcome_eqb (o_format o) m &&
       (match m with RErr => negb (outcome_eqb (o_process o) ROk) | _ => true end)
    then 0 else 1.

Fixpoint classify_prefixes (k : nat) (text : list N) (os : list obs) : list N :=
  match os with
  | [] => []
  | o :: r => classify1 (firstn k text) o :: classify_prefixes (S k) text r
  end.

Definition classify (c : case) : list N :=
  match c with
  | Single t o => [classify1 t o]
  | Prefixes t os =>
      if Nat.eqb (length os) (S (length t)) then classify_prefixes 0 t os else [9]
  | LoadCase o => [if crash o then 2 else 0]
  end.

Definition verdicts (cs : list case) : list N := flat_map classify cs.
