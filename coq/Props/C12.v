(* C12 — aliases are transparent; alias conflicts are rejected.
   Model/Intern.v (intern store), Model/Named.v (written names -> identities -> Model/Book.v),
   Model/NamedSpec.v (alias_subst: the same ledger with declared aliases written at later uses). *)
From Coq Require Import List NArith ZArith Bool QArith Qcanon.
From Okv Require Import Base.Maps Base.Dec Model.Amount Model.Book Model.Intern Model.Named Model.NamedSpec.
From Okv Require Import Proofs.InternProofs Proofs.NamedProofs Proofs.NamedCanonical.
From Okv Require Import Model.Syntax Model.Lower Proofs.AliasLines.
Import ListNotations.
Open Scope N_scope.

(* every alias points to a canonical entry and no name has two records: true of the empty
   store, preserved by every operation, hence true in every reachable state and after any run *)
Theorem C12_store_invariant :
  store_ok store0 /\
  (forall s n, store_ok s -> store_ok (fst (ensure s n))) /\
  (forall s n s' c, store_ok s -> insert_canonical s n = inl (s', c) -> store_ok s') /\
  (forall s a c s', store_ok s -> get c s = Some RCanonical -> insert_alias s a c = inl s' -> store_ok s') /\
  (forall st, reachable st -> store_ok (n_acc st) /\ store_ok (n_com st)) /\
  (forall es st i, process_named es = (NOk st, i) -> store_ok (n_acc st) /\ store_ok (n_com st)).
Proof. exact store_invariant_all. Qed.
Print Assumptions C12_store_invariant.

(* an alias resolves to its canonical name and leaves the store as it is *)
Theorem C12_resolve_alias : forall s a n, get a s = Some (RAlias n) -> ensure s a = (s, n).
Proof. exact ensure_alias. Qed.
Print Assumptions C12_resolve_alias.

(* ... which is what the canonical name itself resolves to *)
Theorem C12_resolve_canonical : forall s n, get n s = Some RCanonical -> ensure s n = (s, n).
Proof. exact ensure_canonical. Qed.
Print Assumptions C12_resolve_canonical.

(* writing declared aliases at any subset of later uses changes nothing: same final state
   (balances, stored transactions, stores) or the same error at the same entry *)
Theorem C12_transparent : forall es es', alias_subst [] [] es es' -> process_named es' = process_named es.
Proof. exact alias_transparent. Qed.
Print Assumptions C12_transparent.

Theorem C12_transparent_shown : forall es es', alias_subst [] [] es es' ->
  shown (process_named es') = shown (process_named es).
Proof. exact alias_transparent_shown. Qed.
Print Assumptions C12_transparent_shown.

(* the simulation it is proved by, from any state whose stores contain the declarations so far *)
Theorem C12_transparent_from : forall da dc es es', alias_subst da dc es es' ->
  forall i st, nstate_ok st -> decls_in da (n_acc st) -> decls_in dc (n_com st) ->
  process_named_from i st es' = process_named_from i st es.
Proof. exact alias_subst_sim. Qed.
Print Assumptions C12_transparent_from.

(* every id in the balances and stored transactions is canonical in the final stores *)
Theorem C12_reports_canonical : forall es st i, process_named es = (NOk st, i) ->
  (forall a amt, In (a, amt) (s_bal (n_book st)) ->
     canon (n_acc st) a /\ forall c, In c (keys amt) -> canon (n_com st) c) /\
  (forall t p, In t (s_txns (n_book st)) -> In p (o_posts t) ->
     canon (n_acc st) (o_account p) /\
     (forall c, In c (keys (o_amount p)) -> canon (n_com st) c) /\
     (forall c v, o_converted p = Some (c, v) -> canon (n_com st) c)).
Proof. exact reports_canonical. Qed.
Print Assumptions C12_reports_canonical.

(* conflicts, in both orders of declaration versus first use *)
Theorem C12_conflicts_rejected :
  (forall st name als a, In a als -> get a (n_acc st) = Some RCanonical ->
     exists e, process_named_entry st (NAccount name als) = NErr (NInvalidAccount e)) /\
  (forall st name als fmt a, In a als -> get a (n_com st) = Some RCanonical ->
     exists e, process_named_entry st (NCommodity name als fmt) = NErr (NInvalidCommodity e)) /\
  (forall st name a, get a (n_acc st) = Some RCanonical -> (forall c, get name (n_acc st) <> Some (RAlias c)) ->
     process_named_entry st (NAccount name [a]) = NErr (NInvalidAccount AlreadyCanonical)) /\
  (forall st name fmt a, get a (n_com st) = Some RCanonical -> (forall c, get name (n_com st) <> Some (RAlias c)) ->
     process_named_entry st (NCommodity name [a] fmt) = NErr (NInvalidCommodity AlreadyCanonical)) /\
  (forall st name als c, get name (n_acc st) = Some (RAlias c) ->
     process_named_entry st (NAccount name als) = NErr (NInvalidAccount AlreadyAlias)) /\
  (forall st name als fmt c, get name (n_com st) = Some (RAlias c) ->
     process_named_entry st (NCommodity name als fmt) = NErr (NInvalidCommodity AlreadyAlias)) /\
  (forall st t st' p es st'' i j, nstate_ok st ->
     process_named_entry st (NTxn t) = NOk st' -> In p (t_posts t) -> get (p_account p) (n_acc st) = None ->
     process_named_from i st' es = (NOk st'', j) -> get (p_account p) (n_acc st'') = Some RCanonical) /\
  (forall st name als st' es st'' i j a, nstate_ok st ->
     process_named_entry st (NAccount name als) = NOk st' -> In a als ->
     process_named_from i st' es = (NOk st'', j) ->
     get a (n_acc st'') = Some (RAlias name) /\ get name (n_acc st'') = Some RCanonical) /\
  (forall st name a c, get a (n_acc st) = Some (RAlias c) -> c <> name -> (forall c', get name (n_acc st) <> Some (RAlias c')) ->
     process_named_entry st (NAccount name [a]) = NErr (NInvalidAccount ConflictingAlias)).
Proof. exact conflicts_rejected. Qed.
Print Assumptions C12_conflicts_rejected.

(* On the written block (Model/Syntax.v, lowered by Model/Lower.v low_entry): an `alias` line
   whose name is already canonical, or already an alias of another name, rejects the whole
   `commodity` / `account` declaration wherever it stands in the block - whatever notes,
   comments, format lines or further alias lines come before or after it (ds1, ds2 are
   arbitrary).  `names_record tbl s a` (Proofs/AliasLines.v) is the record the store `s` has for
   the written name `a` under the numbering `tbl` of written names. *)
Theorem C12_refused_alias_line_rejects_block :
  (forall ta tc name ds1 a ds2 ta' tc' e st,
     low_entry ta tc (SCommodity name (ds1 ++ CDAlias a :: ds2)) = (ta', tc', e) ->
     (names_record tc' (n_com st) a = Some RCanonical \/
      exists c0, names_record tc' (n_com st) a = Some (RAlias c0) /\ find_name tc' name 0 <> Some c0) ->
     exists err, process_named_entry st e = NErr (NInvalidCommodity err)) /\
  (forall ta tc name ds1 a ds2 ta' tc' e st,
     low_entry ta tc (SAccount name (ds1 ++ ADAlias a :: ds2)) = (ta', tc', e) ->
     (names_record ta' (n_acc st) a = Some RCanonical \/
      exists c0, names_record ta' (n_acc st) a = Some (RAlias c0) /\ find_name ta' name 0 <> Some c0) ->
     exists err, process_named_entry st e = NErr (NInvalidAccount err)).
Proof. exact refused_alias_line_rejects_block. Qed.
Print Assumptions C12_refused_alias_line_rejects_block.

(* lines of a block that are not alias lines do not change which aliases it declares, nor their
   order; every alias line is among them *)
Theorem C12_alias_lines :
  (forall ds1 a ds2, In a (account_aliases (ds1 ++ ADAlias a :: ds2))) /\
  (forall ds1 a ds2, In a (commodity_aliases (ds1 ++ CDAlias a :: ds2))) /\
  (forall ds1 d ds2, (forall a, d <> ADAlias a) ->
     account_aliases (ds1 ++ d :: ds2) = account_aliases (ds1 ++ ds2)) /\
  (forall ds1 d ds2, (forall a, d <> CDAlias a) ->
     commodity_aliases (ds1 ++ d :: ds2) = commodity_aliases (ds1 ++ ds2)).
Proof. exact alias_lines. Qed.
Print Assumptions C12_alias_lines.
