(* The dates the report layer works with are transaction dates.
   (1) Every price event a transaction adds to the state (rates stated by `@`, `@@`, `{}`,
       `{{}}` and the rate implied by a two-commodity transaction) is dated at the
       transaction's date, and the transaction is stored under that date.
   (2) The effective date of `DATE=EFFECTIVE` is not lowered: changing, adding or removing
       effective dates in a syntax tree leaves the booked ledger - hence every report - equal. *)
From Coq Require Import List NArith ZArith Bool QArith Qcanon.
From Okv Require Import Base.Maps Base.Dec Model.Syntax Model.Amount Model.Book Model.Named Model.Lower.
Import ListNotations.

(* ---- (1) ---- *)
Lemma posting_price_event_date : forall d c ev,
  posting_price_event d c = Ok (Some ev) -> e_date ev = d.
Proof.
  intros d c ev. unfold posting_price_event.
  destruct (option_or (c_cost c) (c_lot c)) as [x |]; [| discriminate].
  destruct (c_amount c); [discriminate |].
  destruct x; intros H; injection H as <-; reflexivity.
Qed.

Lemma bind_ok : forall {A B} (x : outcome A) (f : A -> outcome B) r,
  bind x f = Ok r -> exists a, x = Ok a /\ f a = Ok r.
Proof. intros A B [a | e |] f r H; cbn in H; try discriminate. exists a. auto. Qed.

Lemma process_posting_event_date : forall b d i p b' ep ev,
  process_posting b d i p = Ok (b', ep, Some ev) -> e_date ev = d.
Proof.
  intros b d i p b' ep ev. unfold process_posting.
  destruct (p_amount p) as [sa |]; destruct (p_balance p) as [bc |].
  - intros H.
    repeat (apply bind_ok in H; destruct H as [? [? H]]).
    injection H as _ _ ->. eapply posting_price_event_date; eassumption.
  - intros H.
    repeat (apply bind_ok in H; destruct H as [? [? H]]).
    injection H as _ _ ->. eapply posting_price_event_date; eassumption.
  - intros H.
    apply bind_ok in H; destruct H as [? [_ H]].
    apply bind_ok in H; destruct H as [[? ?] [_ H]].
    apply bind_ok in H; destruct H as [? [_ H]]. discriminate.
  - discriminate.
Qed.

Definition dated (d : Z) (evs : list price_event) : Prop := Forall (fun e => e_date e = d) evs.

Lemma loop_step_dated : forall d acc ip st',
  loop_step d acc ip = Ok st' ->
  exists st, acc = Ok st /\ (dated d (l_events st) -> dated d (l_events st')).
Proof.
  intros d acc [i p] st' H. unfold loop_step in H.
  apply bind_ok in H. destruct H as [st [-> H]]. exists st. split; [reflexivity |].
  apply bind_ok in H. destruct H as [[[b' ep] ev] [Hp H]].
  intros Hd.
  assert (Hev : dated d (match ev with Some e => e :: l_events st | None => l_events st end)).
  { destruct ev as [e |]; [| exact Hd]. constructor; [| exact Hd].
    eapply process_posting_event_date; eassumption. }
  destruct ep as [e |].
  - injection H as <-. exact Hev.
  - destruct (l_unfilled st); [discriminate |]. injection H as <-. exact Hev.
Qed.

Lemma loop_fold_dated : forall d ips acc st',
  fold_left (loop_step d) ips acc = Ok st' ->
  exists st, acc = Ok st /\ (dated d (l_events st) -> dated d (l_events st')).
Proof.
  intros d ips. induction ips as [| ip r IH]; intros acc st' H.
  - cbn in H. exists st'. auto.
  - cbn [fold_left] in H. apply IH in H. destruct H as [st1 [H1 K1]].
    apply loop_step_dated in H1. destruct H1 as [st [-> K]]. exists st. auto.
Qed.

Lemma check_balance_event_date : forall f d posts res posts' ev,
  check_balance f d posts res = Ok (posts', Some ev) -> e_date ev = d.
Proof.
  intros f d posts res posts' ev. unfold check_balance.
  destruct (a_is_zero (a_round f res)); [discriminate |].
  destruct (a_remove_zeros (a_round f res)) as [| [c1 v1] [| [c2 v2] [| ? ?]]]; try discriminate.
  destruct (negb (Bool.eqb (sign_positive v1) (sign_positive v2))); [| discriminate].
  destruct (qc_zero v1 || qc_zero v2); [discriminate |].
  intros H. injection H as _ <-. reflexivity.
Qed.

(* what a booked transaction adds: price events of its own date, and itself under that date *)
Theorem add_transaction_dates : forall s t s',
  add_transaction s t = Ok s' ->
  (exists evs, s_events s' = s_events s ++ evs /\ dated (t_date t) evs) /\
  (exists ps, s_txns s' = s_txns s ++ [{| o_date := t_date t; o_posts := ps |}]).
Proof.
  intros s t s' H. unfold add_transaction in H.
  apply bind_ok in H. destruct H as [st [Hl H]].
  apply loop_fold_dated in Hl. destruct Hl as [st0 [E0 K]]. injection E0 as <-.
  assert (Hd : dated (t_date t) (rev (l_events st))).
  { apply Forall_rev. apply K. constructor. }
  destruct (l_unfilled st) as [u |].
  - injection H as <-. cbn [s_events s_txns]. split; eauto.
  - apply bind_ok in H. destruct H as [[posts' ev] [Hc H]]. injection H as <-.
    cbn [s_events s_txns]. split; [| eauto].
    eexists. split; [reflexivity |]. apply Forall_app. split; [exact Hd |].
    destruct ev as [e |]; [| constructor]. constructor; [| constructor].
    eapply check_balance_event_date; eassumption.
Qed.

(* ---- (2) ---- *)
Definition with_edate (t : s_txn) (ed : option date) : s_txn :=
  {| st_date := st_date t; st_edate := ed; st_clear := st_clear t; st_code := st_code t;
     st_payee := st_payee t; st_posts := st_posts t; st_metadata := st_metadata t |}.

(* rewrite the effective date of every transaction by an arbitrary rule *)
Definition redate (f : s_txn -> option date) (e : s_entry) : s_entry :=
  match e with STxn t => STxn (with_edate t (f t)) | _ => e end.

Lemma low_entry_redate : forall f ta tc e, low_entry ta tc (redate f e) = low_entry ta tc e.
Proof. intros f ta tc e. destruct e; reflexivity. Qed.

Theorem low_entries_redate : forall f es ta tc,
  low_entries ta tc (map (redate f) es) = low_entries ta tc es.
Proof.
  intros f es. induction es as [| e r IH]; intros ta tc; [reflexivity |].
  cbn [map low_entries]. rewrite low_entry_redate.
  destruct (low_entry ta tc e) as [[ta1 tc1] e']. rewrite IH. reflexivity.
Qed.
