(* C18 — Camt053 import conserves the statement.  Theorems only.
   Definitions used in the statements (Proofs/CamtImport.v, Proofs/CamtBook_Txn.v):
     unit_txn cfg u         the transaction built from one record: entry_txn for an entry without
                            details, detail_txn for a detail of a batched entry;
     same_but_balance t' t  t' and t agree in every field except, possibly, x_balance;
     opening_of st          [opening_txn first ob] when the statement has an OPBD balance ob and a first
                            entry, [] otherwise;
     txn_ok ia acct c0 v t  t is in commodity c0 without rates, account amount + counter amount + charges
                            = 0, the counter account is not the account, and its assertion (if any) is v +
                            its amount;  run_ok chains txn_ok along the running total;  val t is the value
                            of x_amount t. *)
From Coq Require Import List NArith ZArith Bool QArith Qcanon.
From Okv Require Import Base.Maps Base.Dec Model.Amount Model.Book Model.Lit Model.SingleEntry2 Model.Camt
  Model.CamtBook Model.CamtSpec
  Proofs.CamtBasics Proofs.CamtImport Proofs.CamtBook_Maps Proofs.CamtBook_Txn Proofs.CamtBook_Conserves.
Import ListNotations.

(* credit is booked +, debit - (as rationals), in the statement's currency *)
Theorem C18_to_data_value : forall a cd,
  d_value (oa_value (to_data a cd)) = signed cd (d_value (xa_value a)) /\ oa_comm (to_data a cd) = xa_ccy a.
Proof. exact to_data_value. Qed.
Print Assumptions C18_to_data_value.

(* 1. shape: the opening transaction (iff an opening balance and an entry exist), then exactly one
   transaction per entry, or per detail of a batched entry, in output order; each is what
   entry_txn / detail_txn builds from that record, up to the closing assertion written afterwards *)
Theorem C18_shape : forall cfg st txns,
  import cfg [st] = inl txns ->
  exists op ts,
    txns = op ++ ts /\
    op = match find_balance (st_balances st) OPBD, st_entries st with
         | Some ob, first :: _ => [opening_txn first ob]
         | _, _ => []
         end /\
    Forall2 (fun u t => exists t', unit_txn cfg u = inl t' /\ same_but_balance t' t) (stmt_units cfg st) ts.
Proof. exact import_shape_explicit. Qed.
Print Assumptions C18_shape.

(* 2. sign and dates: the account posting is + for credit and - for debit with the record's
   magnitude and currency; the date is the value date (booking date when absent), the effective
   date is the booking date iff it differs; the same holds of the double-entry transaction *)
Theorem C18_sign_date : forall cfg st txns,
  import cfg [st] = inl txns ->
  exists ts,
    txns = opening_of st ++ ts /\
    Forall2 (fun u t =>
      x_amount t = to_data (unit_amount u) (unit_cd u) /\
      d_value (oa_value (x_amount t)) = signed (unit_cd u) (d_value (xa_value (unit_amount u))) /\
      oa_comm (x_amount t) = xa_ccy (unit_amount u) /\
      x_date t = expected_date (unit_entry u) /\
      x_edate t = expected_edate (unit_entry u) /\
      forall acct,
        tr_date (to_double_entry t acct) = expected_date (unit_entry u) /\
        tr_edate (to_double_entry t acct) = expected_edate (unit_entry u) /\
        In (src_posting t acct) (tr_posts (to_double_entry t acct)) /\
        sp_account (src_posting t acct) = acct /\
        sp_amount (src_posting t acct) = Some (to_posting_amount t (x_amount t)) /\
        pa_amount (to_posting_amount t (x_amount t)) = as_syntax_amount (to_data (unit_amount u) (unit_cd u)))
      (stmt_units cfg st) ts.
Proof. exact import_sign_date. Qed.
Print Assumptions C18_sign_date.

(* 3. assertions: opening balance on the first transaction, closing balance on the last, none elsewhere *)
Theorem C18_assertions : forall cfg st txns,
  import cfg [st] = inl txns ->
  (forall ob first rest,
     find_balance (st_balances st) OPBD = Some ob -> st_entries st = first :: rest ->
     exists t0 rest', txns = t0 :: rest' /\ rest' <> [] /\
       x_payee t0 = s_initial_balance /\ x_date t0 = expected_date first /\
       oa_value (x_amount t0) = d_zero /\ oa_comm (x_amount t0) = oa_comm ob /\
       x_dest t0 = Some s_equity_adjustments /\ x_balance t0 = Some ob) /\
  (forall cb d, find_balance (st_balances st) CLBD = Some cb -> txns <> [] ->
     x_balance (last txns d) = Some cb) /\
  (forall i t, nth_error txns i = Some t ->
     (i = 0%nat -> opening_of st = []) ->
     (S i = length txns -> find_balance (st_balances st) CLBD = None) ->
     x_balance t = None) /\
  (forall t acct, In t txns ->
     sp_balance (src_posting t acct) = option_map as_syntax_amount (x_balance t)).
Proof. exact import_assertions. Qed.
Print Assumptions C18_assertions.

(* 4a. the general statement: any list of balanced one-commodity transactions whose assertions agree
   with the running total is accepted by book-keeping after the funding transaction, and the
   account ends at opening + sum of its postings *)
Theorem C18_conserves_balanced : forall (ia : str -> aid) (ic : str -> cid) (acct c0 : str),
  c0 <> [] ->
  ia s_expenses_commissions <> ia acct ->
  ia s_income_unknown <> ia acct ->
  ia s_expenses_unknown <> ia acct ->
  forall (fa : aid) (opening : option oamount) (txns : list SingleEntry2.txn),
  fa <> ia acct ->
  match opening with Some o => oa_comm o = c0 | None => True end ->
  run_ok ia acct c0 (match opening with Some o => d_value (oa_value o) | None => 0%Qc end) txns ->
  exists L n,
    process (ledger_of ia ic fa acct opening txns) = (Ok L, n) /\
    bal_get (s_bal L) (ia acct) =
    a_remove_zeros [(ic c0, ((match opening with Some o => d_value (oa_value o) | None => 0 end)
                             + qsum (map val txns))%Qc)].
Proof. exact conserves_balanced. Qed.
Print Assumptions C18_conserves_balanced.

(* 4. a consistent single-currency statement is imported; given that the account held the opening
   balance beforehand (funding), book-keeping accepts the imported ledger and the account ends at
   the closing balance *)
Theorem C18_conserves : forall (ia : str -> aid) (ic : str -> cid) (fa : aid) cfg acct c0 st,
  consistent_b cfg c0 st = true ->
  fa <> ia acct ->
  (forall a, In a (counter_accounts cfg st) -> ia a <> ia acct) ->
  exists txns ob cb,
    import cfg [st] = inl txns /\
    balance_of st OPBD = Some ob /\ balance_of st CLBD = Some cb /\
    exists L n,
      process (ledger_of ia ic fa acct (find_balance (st_balances st) OPBD) txns) = (Ok L, n) /\
      bal_get (s_bal L) (ia acct) = a_remove_zeros [(ic c0, balance_value cb)].
Proof. exact conserves. Qed.
Print Assumptions C18_conserves.
