(* C10 — converted reports convert every amount or fail. *)
From Coq Require Import List NArith ZArith Bool QArith Qcanon.
From Okv Require Import Base.Maps Base.Dec Model.Amount Model.Book Model.Query Model.PriceDb Model.Convert Proofs.ConvertProofs.
Import ListNotations.

Theorem C10_convert_empty : forall fuel choose recs target date,
  convert_amount fuel choose recs a_zero target date = COk a_zero.
Proof. exact convert_amount_empty. Qed.
Print Assumptions C10_convert_empty.
