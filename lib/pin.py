#!/usr/bin/env python3
"""Pin the statements of the property theorems: lib/pins.json maps Cxx -> {theorem: sha256 of
the whitespace-normalised statement}.  `lib/pin.py` rewrites the pins (a deliberate act,
reviewed in git); `./check` refuses a Props file whose statements differ from the pins, so a
theorem cannot be weakened silently."""
import hashlib
import json
import os
import re
import sys

ROOT = os.path.dirname(os.path.dirname(os.path.abspath(__file__)))
sys.path.insert(0, os.path.join(ROOT, "lib"))


def statements(props_path):
    import okv
    src = okv.strip_comments(open(props_path).read())
    out = {}
    for m in re.finditer(r"\b(?:Theorem|Lemma|Corollary)\s+([\w']+)\s*(.*?)\.\s*Proof\b", src, re.S):
        text = " ".join(m.group(2).split())
        out[m.group(1)] = hashlib.sha256(text.encode()).hexdigest()[:16]
    return out


def main():
    pins = {}
    d = os.path.join(ROOT, "coq", "Props")
    for f in sorted(os.listdir(d)):
        if f.endswith(".v"):
            pins[f[:-2]] = statements(os.path.join(d, f))
    json.dump(pins, open(os.path.join(ROOT, "lib", "pins.json"), "w"), indent=1, sort_keys=True)
    print({k: len(v) for k, v in pins.items()})


if __name__ == "__main__":
    main()
