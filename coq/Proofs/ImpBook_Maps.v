(* Lemmas about Base/Maps.v association lists and Model/Amount.v amounts, as far as the
   accepted-statement theorem of C16 needs them (public behaviour of get / set / a_add1 /
   a_remove_zeros only). *)
From Coq Require Import List NArith ZArith Bool QArith Qcanon Lia.
From Okv Require Import Base.Maps Base.Dec Model.Amount.
Import ListNotations.
Open Scope Qc_scope.

(* ---- Qc tests ---- *)
Lemma qc_zero_true : forall x : Qc, qc_zero x = true <-> x = 0.
Proof.
  intros x. unfold qc_zero, Qc_eq_bool. destruct (Qc_eq_dec x 0); split; intros; congruence.
Qed.
Lemma qc_zero_false : forall x : Qc, qc_zero x = false <-> x <> 0.
Proof.
  intros x. unfold qc_zero, Qc_eq_bool. destruct (Qc_eq_dec x 0); split; intros; congruence.
Qed.
Lemma qc_zero_sub_self : forall x : Qc, qc_zero (x - x) = true.
Proof. intros. apply qc_zero_true. ring. Qed.

(* ---- get / set ---- *)
Section MapsLemmas.
  Context {V : Type}.
  Implicit Types m : amap V.

  Lemma get_set_same : forall m k (v : V), get k (set k v m) = Some v.
  Proof.
    induction m as [|[k' v'] r IH]; intros k v; cbn.
    - rewrite N.eqb_refl. reflexivity.
    - destruct (k' =? k)%N eqn:E; cbn; [rewrite N.eqb_refl; reflexivity|rewrite E; apply IH].
  Qed.

  Lemma get_set_other : forall m k k' (v : V), k' <> k -> get k' (set k v m) = get k' m.
  Proof.
    induction m as [|[k0 v0] r IH]; intros k k' v H; cbn.
    - destruct (k =? k')%N eqn:E; [apply N.eqb_eq in E; congruence|reflexivity].
    - destruct (k0 =? k)%N eqn:E; cbn.
      + apply N.eqb_eq in E. subst k0.
        destruct (k =? k')%N eqn:E2; [apply N.eqb_eq in E2; congruence|reflexivity].
      + destruct (k0 =? k')%N; [reflexivity|apply IH; exact H].
  Qed.

  Lemma get_none_notin : forall m k, get k m = None <-> ~ In k (keys m).
  Proof.
    induction m as [|[k' v'] r IH]; intros k; cbn.
    - split; auto.
    - destruct (k' =? k)%N eqn:E.
      + apply N.eqb_eq in E. split; [discriminate|]. intros H. elim H. left. exact E.
      + apply N.eqb_neq in E. rewrite IH. unfold keys. tauto.
  Qed.

  Lemma keys_set_in : forall m k (v : V), get k m <> None -> keys (set k v m) = keys m.
  Proof.
    induction m as [|[k' v'] r IH]; intros k v H; cbn in *; [congruence|].
    destruct (k' =? k)%N eqn:E; cbn.
    - apply N.eqb_eq in E. subst. reflexivity.
    - f_equal. apply IH. exact H.
  Qed.

  Lemma get_app_new : forall m k k' (v : V), get k m = None ->
    get k' (m ++ [(k, v)]) = if (k =? k')%N then match get k' m with Some x => Some x | None => Some v end
                             else get k' m.
  Proof.
    induction m as [|[k0 v0] r IH]; intros k k' v H; cbn in *.
    - destruct (k =? k')%N; reflexivity.
    - destruct (k0 =? k)%N eqn:E; [discriminate|].
      destruct (k0 =? k')%N eqn:E2; [destruct (k =? k')%N; reflexivity|]. apply IH. exact H.
  Qed.

  Lemma keys_app : forall m (k : N) (v : V), keys (m ++ [(k, v)]) = keys m ++ [k].
  Proof. intros. unfold keys. rewrite map_app. reflexivity. Qed.

  Lemma get_filter_notin : forall (f : N * V -> bool) m k, ~ In k (keys m) -> get k (filter f m) = None.
  Proof.
    induction m as [|[k' v'] r IH]; intros k H; cbn in *; [reflexivity|].
    assert (k' <> k /\ ~ In k (keys r)) as [H1 H2] by (unfold keys; tauto).
    destruct (f (k', v')); cbn; [|apply IH; exact H2].
    destruct (k' =? k)%N eqn:E; [apply N.eqb_eq in E; congruence|apply IH; exact H2].
  Qed.

  Lemma keys_filter_incl : forall (f : N * V -> bool) m k, In k (keys (filter f m)) -> In k (keys m).
  Proof.
    induction m as [|[k' v'] r IH]; intros k H; cbn in *; [exact H|].
    destruct (f (k', v')); cbn in *; [destruct H; auto|auto].
  Qed.

  Lemma nodup_filter : forall (f : N * V -> bool) m, NoDup (keys m) -> NoDup (keys (filter f m)).
  Proof.
    induction m as [|[k' v'] r IH]; intros H; cbn in *; [constructor|].
    inversion H; subst. destruct (f (k', v')); cbn; [|auto].
    constructor; [|auto]. intros Hin. apply keys_filter_incl in Hin. auto.
  Qed.
End MapsLemmas.

(* ---- amounts ---- *)
Lemma a_get_add1 : forall (a : amount) c v c',
  a_get (a_add1 a c v) c' = if (c =? c')%N then a_get a c' + v else a_get a c'.
Proof.
  intros a c v c'. unfold a_add1, a_get. destruct (get c a) as [x|] eqn:E.
  - destruct (c =? c')%N eqn:Ec.
    + apply N.eqb_eq in Ec. subst c'. rewrite get_set_same, E. reflexivity.
    + apply N.eqb_neq in Ec. rewrite get_set_other by congruence. reflexivity.
  - rewrite get_app_new by exact E. destruct (c =? c')%N eqn:Ec.
    + apply N.eqb_eq in Ec. subst c'. rewrite E. ring.
    + reflexivity.
Qed.

Lemma nodup_add1 : forall (a : amount) c v, NoDup (keys a) -> NoDup (keys (a_add1 a c v)).
Proof.
  intros a c v H. unfold a_add1. destruct (get c a) eqn:E.
  - rewrite keys_set_in by congruence. exact H.
  - rewrite keys_app. pose proof E as E0. apply get_none_notin in E.
    clear E0. induction (keys a) as [|x l IH]; cbn.
    + constructor; [intros []|constructor].
    + inversion H; subst. constructor.
      * intros Hin. apply in_app_or in Hin. destruct Hin as [Hin|[->|[]]]; [auto|]. apply E. left. reflexivity.
      * apply IH; [assumption|]. intros Hin. apply E. right. exact Hin.
Qed.

Lemma a_get_remove_zeros : forall (a : amount) c, NoDup (keys a) -> a_get (a_remove_zeros a) c = a_get a c.
Proof.
  unfold a_get, a_remove_zeros. induction a as [|[k v] r IH]; intros c H; cbn; [reflexivity|].
  inversion H; subst. destruct (qc_zero v) eqn:Ez; cbn.
  - destruct (k =? c)%N eqn:E.
    + apply N.eqb_eq in E. subst k. rewrite get_filter_notin by assumption.
      apply qc_zero_true in Ez. congruence.
    + apply IH. assumption.
  - destruct (k =? c)%N; [reflexivity|apply IH; assumption].
Qed.

Lemma nodup_remove_zeros : forall a : amount, NoDup (keys a) -> NoDup (keys (a_remove_zeros a)).
Proof. intros. apply nodup_filter. assumption. Qed.

Lemma a_round_nil : forall a : amount, a_round [] a = a.
Proof.
  intros a. unfold a_round. rewrite <- (map_id a) at 2. apply map_ext. intros [k v]. reflexivity.
Qed.

(* with distinct keys, "every entry is zero" is "every commodity reads zero" *)
Lemma a_is_zero_get : forall a : amount, NoDup (keys a) -> (a_is_zero a = true <-> forall c, a_get a c = 0).
Proof.
  unfold a_is_zero, a_get. induction a as [|[k v] r IH]; intros H; cbn.
  - split; auto.
  - inversion H; subst. rewrite andb_true_iff, IH by assumption. split.
    + intros [Hv Hr] c. destruct (k =? c)%N; [apply qc_zero_true; exact Hv|apply Hr].
    + intros Hc. split.
      * apply qc_zero_true. specialize (Hc k). rewrite N.eqb_refl in Hc. exact Hc.
      * intros c. specialize (Hc c). destruct (k =? c)%N eqn:E; [|exact Hc].
        apply N.eqb_eq in E. subst c. apply get_none_notin in H2. rewrite H2. reflexivity.
Qed.
