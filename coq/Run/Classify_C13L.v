(* C13, layered import configurations: a run of `okane import --config CFG SOURCE` repeated in N
   fresh processes.  A case is the number of different (status, stdout, stderr) seen and the
   command case of Run/Classify_C17.v (documents, SOURCE as given, records, what the first run
   printed, read back).  Case files of this kind import this module last, so `case`, `classify`
   and `verdicts` are the ones below.
   Verdicts: 2 = the runs differ (the property's predicate, same input same output, is false of
   what was observed) | 0 = one output, and it is the outcome of the C17 model: the matching
   documents merged by path length, equal lengths in file order (Model/ImpConfig.v select) |
   1 = one output, but not the model's | 9 harness trouble. *)
From Coq Require Import List NArith Bool.
From Okv Require Run.Classify_C17.
Import ListNotations.
Open Scope N_scope.

Record case := { l_distinct : N; l_case : Classify_C17.case }.
Definition CL (d : N) (k : Classify_C17.case) : case := {| l_distinct := d; l_case := k |}.

Definition classify (c : case) : N :=
  if negb (l_distinct c =? 1) then 2
  else match Classify_C17.classify (l_case c) with
       | 0 => 0
       | 9 => 9
       | _ => 1
       end.

Definition verdicts (cs : list case) : list N := map classify cs.
