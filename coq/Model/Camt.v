(* Model of cli/src/import/iso_camt053.rs `import`, over the DESERIALISED document
   (iso_camt053/xmlnode.rs; quick-xml + serde are an oracle: the model starts from the structs).
   Only the fields `import` reads are kept.  The rewrite-rule extractor (import/extract.rs) is
   outside this model: its result for (entry, None) and for (entry, Some(detail)) is part of the
   input (`en_frag`, `td_frag`); of a Fragment `import` reads payee, account, cleared and code (since
   /repo d2eb1b8 a code captured by a rule is booked, and wins over Refs/AcctSvcrRef).
   Written from the source, statement by statement.  Definitions only. *)
From Coq Require Import List NArith ZArith Bool.
From Okv Require Import Model.Lit Model.SingleEntry2.
Import ListNotations.
Open Scope N_scope.

Inductive cdind := Credit | Debit.                                   (* CdtDbtInd: CRDT | DBIT *)
Record xamount := { xa_value : pdec; xa_ccy : str }.                 (* <Amt Ccy="..">v</Amt> *)
Record charge_record := { cr_amount : xamount; cr_cd : cdind; cr_included : bool }.   (* Chrgs/Rcrd *)
Record cexchange := { cx_src : str; cx_tgt : str; cx_rate : pdec }.  (* CcyXchg *)
(* AmtDtls: only TxAmt is read *)
Record amount_details := { ad_amount : xamount; ad_exchange : option cexchange }.
Record fragment := { f_payee : option str; f_account : option str; f_cleared : bool;
                      f_code : option str }.
Record detail := {                                                   (* NtryDtls/TxDtls *)
  td_ref : option str;                                               (* Refs/AcctSvcrRef *)
  td_amount : xamount; td_cd : cdind;
  td_details : option amount_details;
  td_charges : list charge_record;                                   (* Option<Charges>: None = no record *)
  td_frag : fragment }.
Record entry := {                                                    (* Ntry *)
  en_amount : xamount; en_cd : cdind;
  en_booking : date; en_value : option date;
  en_charges : list charge_record;
  en_details : list detail;
  en_frag : fragment }.
Inductive bal_code := OPBD | CLBD.
Record balance := { b_code : bal_code; b_amount : xamount; b_cd : cdind }.
Record statement := { st_balances : list balance; st_entries : list entry }.
Definition document := list statement.                               (* BkToCstmrStmt/Stmt* *)

(* the parts of config::ConfigEntry that `import` reads *)
Record config := { cf_operator : option str; cf_new_to_old : bool }.

(* xmlnode::Amount::to_data *)
Definition to_data (a : xamount) (cd : cdind) : oamount :=
  {| oa_value := match cd with Credit => xa_value a | Debit => d_neg (xa_value a) end;
     oa_comm := xa_ccy a |}.

(* derived PartialEq of xmlnode::Amount: same currency text and numerically equal value *)
Definition xamount_eqb (a b : xamount) : bool :=
  str_eqb (xa_ccy a) (xa_ccy b) && d_eqb (xa_value a) (xa_value b).

Definition guess_value_date (e : entry) : date :=
  match en_value e with Some d => d | None => en_booking e end.

Definition bal_code_eqb (a b : bal_code) : bool :=
  match a, b with OPBD, OPBD => true | CLBD, CLBD => true | _, _ => false end.

Fixpoint find_balance (bs : list balance) (code : bal_code) : option oamount :=
  match bs with
  | [] => None
  | b :: r => if bal_code_eqb (b_code b) code then Some (to_data (b_amount b) (b_cd b))
              else find_balance r code
  end.

(* add_charges *)
Fixpoint add_charges (t : txn) (cfg : config) (rs : list charge_record) : txn + ierr :=
  match rs with
  | [] => inl t
  | cr :: rest =>
      if d_is_zero (xa_value (cr_amount cr)) then add_charges t cfg rest else
      match cf_operator cfg with
      | None => inr ENoOperator
      | Some payee =>
          (* "charge_amount must be negated, as charge is by default debit" *)
          let charge_amount := oa_neg (to_data (cr_amount cr) (cr_cd cr)) in
          if negb (cr_included cr) then
            match try_add_charge_not_included t payee charge_amount with
            | inl t' => add_charges t' cfg rest
            | inr e => inr e
            end
          else add_charges (add_charge t payee charge_amount) cfg rest
      end
  end.

(* "Initial Balance", "Equity:Adjustments", "unknown payee" *)
Definition s_initial_balance : str := [73;110;105;116;105;97;108;32;66;97;108;97;110;99;101].
Definition s_equity_adjustments : str :=
  [69;113;117;105;116;121;58;65;100;106;117;115;116;109;101;110;116;115].
Definition s_unknown_payee : str := [117;110;107;110;111;119;110;32;112;97;121;101;101].

Definition opening_txn (first : entry) (opening : oamount) : txn :=
  let t := txn_new (guess_value_date first) s_initial_balance
                   {| oa_value := d_zero; oa_comm := oa_comm opening |} in
  set_balance (set_dest t (Some s_equity_adjustments)) opening.

Definition payee_or_unknown (f : fragment) : str :=
  match f_payee f with Some p => p | None => s_unknown_payee end.

(* the common head of both arms: new, effective_date, [code_option,] dest_account_option, clear_state *)
Definition base_txn (e : entry) (f : fragment) (amount : oamount) (code : option (option str)) : txn :=
  let t := txn_new (guess_value_date e) (payee_or_unknown f) amount in
  let t := set_effective_date t (en_booking e) in
  let t := match code with Some c => set_code t c | None => t end in
  let t := set_dest t (f_account f) in
  if negb (f_cleared f) then set_clear t Pending else t.

(* the code of a record: `.code_option(fragment.code)` for an entry without TxDtls,
   `fragment.code.or(transaction.refs.account_servicer_reference)` for a TxDtls *)
Definition entry_code (e : entry) : option str := f_code (en_frag e).
Definition detail_code (d : detail) : option str :=
  match f_code (td_frag d) with Some c => Some c | None => td_ref d end.

(* `if entry.details.transactions.is_empty() { .. }` *)
Definition entry_txn (cfg : config) (e : entry) : txn + ierr :=
  let amount := to_data (en_amount e) (en_cd e) in
  add_charges (base_txn e (en_frag e) amount (Some (entry_code e))) cfg (en_charges e).

(* body of `for transaction in &entry.details.transactions` *)
Definition detail_txn (cfg : config) (e : entry) (d : detail) : txn + ierr :=
  let amount := to_data (td_amount d) (td_cd d) in
  let t := base_txn e (td_frag d) amount (Some (detail_code d)) in
  let r :=
    match td_details d with
    | Some ad =>
        if negb (xamount_eqb (td_amount d) (ad_amount ad)) then
          let r1 := match ad_exchange ad with
                    | Some x => add_rate t (cx_src x) (cx_tgt x) (cx_rate x)
                    | None => inl t
                    end in
          match r1 with
          | inl t1 => inl (set_transferred t1 (to_data (ad_amount ad) (td_cd d)))
          | inr err => inr err
          end
        else inl t
    | None => inl t
    end in
  match r with
  | inr err => inr err
  | inl t2 =>
      match add_charges t2 cfg (en_charges e) with
      | inr err => inr err
      | inl t3 => add_charges t3 cfg (td_charges d)
      end
  end.

Fixpoint details_txns (cfg : config) (e : entry) (ds : list detail) : list txn + ierr :=
  match ds with
  | [] => inl []
  | d :: r =>
      match detail_txn cfg e d with
      | inr err => inr err
      | inl t => match details_txns cfg e r with
                 | inl ts => inl (t :: ts)
                 | inr err => inr err
                 end
      end
  end.

(* one iteration of `for entry in entries` *)
Definition entry_txns (cfg : config) (e : entry) : list txn + ierr :=
  match en_details e with
  | [] => match entry_txn cfg e with inl t => inl [t] | inr err => inr err end
  | ds => details_txns cfg e ds
  end.

Fixpoint entries_txns (cfg : config) (es : list entry) : list txn + ierr :=
  match es with
  | [] => inl []
  | e :: r =>
      match entry_txns cfg e with
      | inr err => inr err
      | inl ts => match entries_txns cfg r with
                  | inl rest => inl (ts ++ rest)
                  | inr err => inr err
                  end
      end
  end.

(* `if let Some(last_txn) = res.last_mut() { if let Some(b) = closing_balance { last_txn.balance(b) } }` *)
Fixpoint set_last_balance (res : list txn) (b : oamount) : list txn :=
  match res with
  | [] => []
  | [t] => [set_balance t b]
  | t :: r => t :: set_last_balance r b
  end.

(* body of `for stmt in doc.bank_to_customer.statements`; res is the vector built so far *)
Definition import_stmt (cfg : config) (res : list txn) (st : statement) : list txn + ierr :=
  let opening :=
    match find_balance (st_balances st) OPBD, st_entries st with
    | Some ob, first :: _ => [opening_txn first ob]
    | _, _ => []
    end in
  let order := if cf_new_to_old cfg then rev (st_entries st) else st_entries st in
  match entries_txns cfg order with
  | inr err => inr err
  | inl ts =>
      let res' := res ++ opening ++ ts in
      inl (match find_balance (st_balances st) CLBD with
           | Some cb => set_last_balance res' cb
           | None => res'
           end)
  end.

Fixpoint import_from (cfg : config) (res : list txn) (doc : document) : list txn + ierr :=
  match doc with
  | [] => inl res
  | st :: r => match import_stmt cfg res st with
               | inl res' => import_from cfg res' r
               | inr err => inr err
               end
  end.

Definition import (cfg : config) (doc : document) : list txn + ierr := import_from cfg [] doc.
