//! C02 (assertions) and C03 (inference): the shared ledger generator with other biases.
use crate::cli;
use crate::coq::{self, Shards, Stats};
use crate::diag::{self, Diag};
use crate::ledger::*;
use crate::prng::Rng;
use crate::Opts;

fn lit(m: i64, scale: u32, c: usize) -> VE {
    VE::Amt(Lit { m, scale, comm: Some(c), grouped: false })
}
fn bare_zero() -> VE {
    VE::Amt(Lit { m: 0, scale: 0, comm: None, grouped: false })
}
fn post(a: usize, amt: Option<VE>, bal: Option<VE>) -> Posting {
    Posting { account: a, amount: amt, cost: None, lot: None, balance: bal }
}
fn txn(d: i32, posts: Vec<Posting>) -> Entry {
    Entry::Txn(Txn { effective: None, date: d, posts, head: Head::default() })
}

fn fixed_cases() -> Vec<Vec<Entry>> {
    let mut out = Vec::new();
    // F12: omitted posting on A, then an assertion / assignment on A in the same transaction
    out.push(vec![txn(1, vec![post(0, None, None), post(0, Some(lit(5, 0, 4)), Some(lit(5, 0, 4))), post(1, Some(lit(3, 0, 4)), None)])]);
    out.push(vec![txn(1, vec![post(0, None, None), post(0, None, Some(lit(5, 0, 4))), post(1, Some(lit(3, 0, 4)), None)])]);
    // several assertions on one account inside one transaction
    out.push(vec![txn(1, vec![
        post(0, Some(lit(200, 0, 3)), Some(lit(200, 0, 3))),
        post(1, Some(lit(0, 0, 3)), Some(lit(0, 0, 3))),
        post(1, Some(lit(-100, 0, 3)), Some(lit(-100, 0, 3))),
        post(1, Some(lit(-100, 0, 3)), Some(lit(-200, 0, 3))),
    ])]);
    // bare = 0 with one, two, zero commodities
    for k in 0..3 {
        let mut es = Vec::new();
        let mut ps = vec![];
        if k >= 1 {
            ps.push(post(0, Some(lit(10, 0, 4)), None));
        }
        if k >= 2 {
            ps.push(post(0, Some(lit(7, 0, 2)), None));
        }
        ps.push(post(2, None, None));
        es.push(txn(1, ps));
        es.push(txn(2, vec![post(0, None, Some(bare_zero())), post(2, None, None)]));
        out.push(es);
        let mut es2 = Vec::new();
        let mut ps = vec![post(2, None, None)];
        if k >= 1 {
            ps.push(post(0, Some(lit(10, 0, 4)), None));
        }
        if k >= 2 {
            ps.push(post(0, Some(lit(7, 0, 2)), None));
        }
        es2.push(txn(1, ps));
        es2.push(txn(2, vec![post(0, Some(lit(-10, 0, 4)), Some(bare_zero())), post(2, None, None)]));
        out.push(es2);
    }
    // `= 0 USD` on an account holding other commodities; negative balances
    out.push(vec![
        txn(1, vec![post(0, Some(lit(10, 0, 2)), None), post(0, Some(lit(-4, 0, 4)), Some(lit(-4, 0, 4))), post(2, None, None)]),
        txn(2, vec![post(0, Some(lit(4, 0, 4)), Some(lit(0, 0, 4))), post(2, None, None)]),
        txn(3, vec![post(0, Some(lit(0, 0, 4)), Some(bare_zero())), post(2, None, None)]),
    ]);
    // two unconstrained postings
    out.push(vec![txn(1, vec![post(0, None, None), post(1, Some(lit(1, 0, 4)), None), post(2, None, None)])]);
    out
}

/// bytes outside ASCII in the text of entry `entry` in front of posting `posting`
fn non_ascii_before(r: &Rendered, entry: usize, posting: usize) -> usize {
    let start = r.entry_line.get(entry).map(|l| r.text.split('\n').take(l - 1).map(|x| x.len() + 1).sum::<usize>()).unwrap_or(0);
    let end = r.posting_span.get(entry).and_then(|s| s.get(posting)).map(|s| s.line_off).unwrap_or(start);
    r.text.as_bytes()[start.min(end)..end].iter().filter(|b| **b >= 0x80).count()
}

// ---------- the commands a user runs, with every option that reaches report::process or the query ----------

#[derive(Clone, Debug, PartialEq)]
enum VRes {
    Ok,
    Assert { entry: usize, posting: usize, computed: AmountObs, diff: AmountObs },
    Other { title: u32, entry: usize },
    Query,
    Panic,
}

struct Variant {
    args: Vec<String>,
    /// a conversion was asked for: the command may fail in the query for want of a rate
    conv: bool,
    res: VRes,
    stderr: String,
}

fn iso(d: i32) -> String {
    day_to_date(d).format("%Y-%m-%d").to_string()
}

/// option sets for one ledger: date bounds before / on / between / after the transaction dates,
/// conversion targets, both strategies, report dates - alone and combined
fn option_sets(rv: &mut Rng, entries: &[Entry], st: &mut Stats) -> Vec<(Vec<String>, bool)> {
    let mut dates: Vec<i32> = entries.iter().filter_map(|e| if let Entry::Txn(t) = e { Some(t.date) } else { None }).collect();
    let in_order = dates.windows(2).all(|w| w[0] <= w[1]);
    st.count(if in_order { "cmd:ledger_in_date_order" } else { "cmd:ledger_not_in_date_order" });
    dates.sort();
    dates.dedup();
    let lo = *dates.first().unwrap_or(&0);
    let hi = *dates.last().unwrap_or(&0);
    let mid = dates.get(dates.len() / 2).copied().unwrap_or(lo);
    let comm = |rv: &mut Rng| COMMODITIES[rv.below(COMMODITIES.len() as u64) as usize].to_string();
    let o = |xs: &[&str]| xs.iter().map(|x| x.to_string()).collect::<Vec<String>>();
    let mut out: Vec<(Vec<String>, bool)> = vec![
        (vec![], false),
        (o(&["--end", &iso(lo - 3)]), false),
        (o(&["--end", &iso(lo)]), false),
        (o(&["--end", &iso(mid)]), false),
        (o(&["--end", &iso(hi)]), false),
        (o(&["--end", &iso(hi + 1)]), false),
        (o(&["--start", &iso(hi + 1)]), false),
        (o(&["--start", &iso(mid)]), false),
        (o(&["--start", &iso(mid), "--end", &iso(mid + 1)]), false),
        (o(&["--start", &iso(hi), "--end", &iso(lo)]), false),
        (o(&["--now", &iso(lo - 3)]), false),
        (o(&["--now", &iso(mid)]), false),
        (o(&["-X", &comm(rv)]), true),
        (o(&["-X", &comm(rv), "--historical"]), true),
        (o(&["-X", &comm(rv), "--now", &iso(mid)]), true),
        (o(&["--historical"]), false),
    ];
    for _ in 0..3 {
        let mut a = Vec::new();
        let mut conv = false;
        let any = |rv: &mut Rng| -> i32 {
            match rv.below(4) {
                0 => lo - 1 - rv.below(5) as i32,
                1 => hi + 1 + rv.below(5) as i32,
                2 => *rv.pick(&dates[..]),
                _ => lo + rv.below((hi - lo + 1) as u64) as i32,
            }
        };
        if dates.is_empty() {
            break;
        }
        if rv.chance(1, 2) {
            a.push("--start".to_string());
            a.push(iso(any(rv)));
        }
        if rv.chance(2, 3) {
            a.push("--end".to_string());
            a.push(iso(any(rv)));
        }
        if rv.chance(1, 2) {
            a.push("-X".to_string());
            a.push(comm(rv));
            conv = true;
        }
        if rv.chance(1, 3) {
            a.push("--historical".to_string());
        }
        if rv.chance(1, 3) {
            a.push("--now".to_string());
            a.push(iso(any(rv)));
        }
        out.push((a, conv));
    }
    out
}

fn run_variants(rv: &mut Rng, scratch: &cli::Scratch, entries: &[Entry], r: &Rendered, names: &Names, st: &mut Stats) -> Vec<Variant> {
    let path = scratch.write("c02.ledger", &r.text);
    let path = path.to_string_lossy().to_string();
    let mut out = Vec::new();
    for (opts, conv) in option_sets(rv, entries, st) {
        for cmd in ["balance", "register"] {
            let mut args: Vec<String> = vec![cmd.to_string(), path.clone()];
            args.extend(opts.iter().cloned());
            let a: Vec<&str> = args.iter().map(|x| x.as_str()).collect();
            let res = cli::run(&a);
            let v = if res.ok {
                VRes::Ok
            } else if res.panicked {
                VRes::Panic
            } else {
                match diag::read_cmd_error(&res.stderr, r, &names.commodities) {
                    diag::CmdErr::Assert { entry, posting, computed, diff } => VRes::Assert { entry, posting, computed, diff },
                    diag::CmdErr::Other { title, entry } => VRes::Other { title, entry },
                    diag::CmdErr::NoBookKeeping => VRes::Query,
                }
            };
            st.count("cmd:runs");
            st.count(&format!("cmd:{}", cmd));
            for k in ["--start", "--end", "-X", "--historical", "--now"] {
                if opts.iter().any(|x| x == k) {
                    st.count(&format!("cmd:with {}", k));
                }
            }
            st.count(match &v {
                VRes::Ok => "cmd:result:ok",
                VRes::Assert { .. } => "cmd:result:assertion_failure",
                VRes::Other { .. } => "cmd:result:other_book_keeping_error",
                VRes::Query => "cmd:result:query_failed",
                VRes::Panic => "cmd:result:panic",
            });
            args[1] = "<file>".into();
            out.push(Variant { args, conv, res: v, stderr: if res.ok { String::new() } else { diag::strip_ansi(&res.stderr) } });
        }
    }
    out
}

fn variant_term(v: &Variant) -> String {
    let r = match &v.res {
        VRes::Ok => "VOk".to_string(),
        VRes::Assert { entry, posting, computed, diff } => format!("(VAssert {} {} {} {})", entry, posting, amount_term(computed), amount_term(diff)),
        VRes::Other { title, entry } => format!("(VOther {} {})", title, entry),
        VRes::Query => "VQuery".to_string(),
        VRes::Panic => "VPanic".to_string(),
    };
    format!("({}, {})", if v.conv { "true" } else { "false" }, r)
}

/// C02: as `emit_ledger_case`, on a decorated rendering, and with the rendered diagnostic of
/// a failed assertion read back to postings: case `CD entries obs diag`
fn emit_c02(sh: &mut Shards, st: &mut Stats, cmd: &mut (Rng, &cli::Scratch), entries: &[Entry], deco: &Deco, nontrivial: &dyn Fn(&Shape, &Obs) -> bool, tag: &str) {
    let r = render_deco(entries, deco);
    let names = Names::default_names();
    let files = [("/main.ledger".to_string(), r.text.clone())];
    let o = run_process(&files, &names, Some(&r));
    let mut rendered: Option<String> = None;
    let d = match &o {
        Obs::Err { entry, err: ErrObs::Assertion { posting, .. }, .. } => {
            st.count("diag:assertion_failures_rendered");
            let na = non_ascii_before(&r, *entry, *posting);
            if na > 0 {
                st.count("diag:non_ascii_text_before_the_failing_posting");
            }
            if r.posting_span.get(*entry).and_then(|s| s.get(*posting)).map_or(false, |s| !r.text[s.line_off..s.account.end].is_ascii()) {
                st.count("diag:non_ascii_account_on_the_failing_line");
            }
            match diag::rendered_error(&files) {
                Err(m) => Diag::Panic(m),
                Ok(None) => Diag::Unreadable("no error on the second run".into()),
                Ok(Some(text)) => {
                    let d = diag::read_assertion_diag(&text, &r, *entry, &names.commodities);
                    rendered = Some(text);
                    d
                }
            }
        }
        _ => Diag::NotApplicable,
    };
    st.count(match &d {
        Diag::NotApplicable => "diag:not_applicable",
        Diag::Panic(_) => "diag:render_panic",
        Diag::Unreadable(_) => "diag:unreadable",
        Diag::Wide => "diag:excerpt_cut_not_read",
        Diag::Seen(_) => "diag:read_back",
    });
    let variants = run_variants(&mut cmd.0, cmd.1, entries, &r, &names, st);
    let s = shape(entries);
    st.eval(&r.text, nontrivial(&s, &o));
    st.count(&obs_kind(&o));
    st.count(&format!("gen:{}", tag));
    st.count(if deco.is_plain() { "text:plain" } else { "text:decorated" });
    if entries.iter().any(|e| matches!(e, Entry::Txn(t) if t.posts.iter().any(|p| p.account >= ACCOUNTS.len()))) {
        st.count("text:non_ascii_account_names");
    }
    st.add("shape:txns", s.txns as u64);
    st.add("shape:postings", s.postings as u64);
    st.add("shape:omitted", s.omitted as u64);
    st.add("shape:assigned", s.assigned as u64);
    st.add("shape:asserted", s.asserted as u64);
    st.add("shape:cost", s.cost as u64);
    st.add("shape:lot", s.lot as u64);
    st.add("shape:signed_total", s.neg_total as u64);
    st.add("shape:signed_rate", s.neg_rate as u64);
    st.add("shape:paren_expr", s.exprs as u64);
    st.add("shape:format_decl", s.formats as u64);
    shape_text_stats(st, &s);
    let mut rep = case_json("C02", entries, &r.text, &o);
    if !deco.is_plain() {
        rep["deco"] = serde_json::to_value(deco).unwrap();
    }
    if !matches!(d, Diag::NotApplicable) {
        rep["impl"]["rendered"] = serde_json::json!(rendered);
        rep["impl"]["rendered_read_as"] = diag::diag_json(&d);
    }
    if st.samples.len() < 3 || (st.samples.len() < 6 && matches!(o, Obs::Err { .. })) {
        st.sample(rep.clone(), 6);
    }
    rep["impl"]["commands"] = serde_json::json!(variants
        .iter()
        .map(|v| serde_json::json!({"args": v.args.join(" "), "result": format!("{:?}", v.res), "stderr": v.stderr}))
        .collect::<Vec<_>>());
    let term = format!(
        "CDV {} {} {} {}",
        coq::list(entries.iter().map(entry_term)),
        obs_term(&o),
        diag::diag_term(&d),
        coq::list(variants.iter().map(variant_term))
    );
    sh.push(term, vec![rep]);
}

pub fn run(o: &Opts, prop: &str) {
    let mut st = Stats::new();
    let classify = if prop == "C02" { "Classify_C02" } else { "Classify_C03" };
    let mut sh = Shards::new(&o.out, o.shards, &header(classify));
    let is02 = prop == "C02";
    st.rule = if is02 {
        "generated ledgers with raised assertion density (several per account per transaction, after assignments and omitted postings, multi-commodity accounts, `= 0` vs `= 0 X`, negative balances; 1 in 8 assertions false) + fixed boundary ledgers; three ledgers in four are written with text outside ASCII that the book-keeping never reads (payees, codes, comment lines under the header and under postings, trailing comments, comment entries: two-, three- and four-byte characters, double-width and combining ones) and/or with account names outside ASCII; for every failed assertion the rendered error (Display of ReportError) is read back - excerpt, `--> line:col`, the two labelled markers, the balances of title and label - and related to postings of the ledger text; every ledger is also written to a file and given to `okane balance` and `okane register` (cli::run, the code of the binary's main) under 19 option sets each - none; --end / --start three days before the first date, on the first, a middle and the last date, a day after the last; start>end; --now before and inside; -X C, -X C --historical, -X C --now; --historical alone; three random combinations of --start/--end/-X/--historical/--now - and every run must accept or reject as the plain run does: a rejected ledger with the same title, the `--> line:col` of the same posting's `= X`, the same computed balance and difference (a conversion may fail in the query of an accepted ledger only); one ledger in four has its dates dealt out again in another order (cmd:* counts); non-trivial = at least one assertion was evaluated (the ledger carries one and processing reached it); distinct by ledger text".to_string()
    } else {
        "generated ledgers biased to an omitted-amount or assignment posting at every position among 1-5 others with costs/lots/several commodities (one cost or lot price in four written with a minus sign: `@@ -1,000 USD`, `{{-5 EUR}}`, `@ -2 USD`), after a history giving the assigned account 0/1/2 commodities + fixed boundary ledgers; three ledgers in four written with text and account names outside ASCII as in C02; every rejected ledger's error is rendered as the user sees it and read back - title, location, excerpt lines, every labelled marker - and must name the entry and posting(s) the model says fail (diag:* counts); non-trivial = the ledger has an omitted or assigned posting and is not rejected before reaching it; distinct by ledger text".to_string()
    };
    st.rule = format!("{}; {}", st.rule, TEXT_SHAPES_RULE);
    st.assumptions.push("literal mantissas below 10^7 with scale <= 3: every intermediate Decimal is exact".into());
    st.assumptions.push("no total price on an expression-produced zero (sign bit of zero is not modelled)".into());
    {
        st.assumptions.push(format!("errors are rendered by annotate-snippets' plain renderer on a terminal of {} columns, so that no excerpt line is cut (a line beyond {} columns would be counted as diag:excerpt_cut_not_read); marker columns are related to bytes with unicode-width, the width table annotate-snippets itself uses", diag::TERM_WIDTH, diag::MAX_LINE_COLS));
    }
    let nontrivial = move |s: &Shape, o: &Obs| -> bool {
        let has = if is02 { s.asserted > 0 } else { s.omitted + s.assigned > 0 };
        has && !matches!(o, Obs::Err { err: ErrObs::Eval(_), .. } | Obs::Err { err: ErrObs::Other(_), .. })
    };
    let scratch = cli::Scratch::new(if is02 { "c02" } else { "c03" });
    // the options of the command runs: their own stream
    let mut cmd = (Rng::new(o.seed, 1202), &scratch);
    let (corpus, replay) = corpus_entries(&o.corpus, &o.extra);
    let decos = corpus_decos(&o.corpus, &o.extra);
    for (k, es) in corpus.iter().enumerate() {
        if is02 {
            emit_c02(&mut sh, &mut st, &mut cmd, es, decos.get(k).unwrap_or(&Deco::default()), &nontrivial, "corpus");
        } else {
            emit_ledger_case(&mut sh, &mut st, prop, es, decos.get(k).unwrap_or(&Deco::default()), &nontrivial, "corpus");
        }
    }
    if !replay {
        for (n, mut es) in fixed_cases().into_iter().enumerate() {
            // each fixed ledger in its own header / sample-number shape
            vary_shapes_nth(&mut es, n);
            if is02 {
                emit_c02(&mut sh, &mut st, &mut cmd, &es, &Deco::default(), &nontrivial, "fixed");
            } else {
                emit_ledger_case(&mut sh, &mut st, prop, &es, &Deco::default(), &nontrivial, "fixed");
            }
        }
        // the text the book-keeping never reads: its own stream, so that the ledgers stay those of the seed
        let mut rd = Rng::new(o.seed, 1102);
        let mut r = Rng::new(o.seed, if is02 { 102 } else { 103 });
        let n = if o.thorough { 40000 } else { 2500 };
        for _ in 0..n {
            let mut b = Bias::default_bias();
            if is02 {
                b.assert_pct = 60;
                b.wrong_assert_pct = 12;
                b.unbalanced_pct = 5;
                b.assign_pct = 15;
                b.max_txns = 6;
                b.neg_exch_pct = 15;
            } else {
                b.omit_pct = 50;
                b.assign_pct = 35;
                b.assert_pct = 10;
                b.wrong_assert_pct = 2;
                b.unbalanced_pct = 5;
                b.cost_pct = 30;
                b.lot_pct = 15;
                b.neg_exch_pct = 25;
            }
            let mut es = gen_ledger(&mut r, &b);
            if is02 && cmd.0.chance(1, 4) {
                // the dates of the transactions dealt out again in another order (the book-keeping
                // reads the file top to bottom whatever the dates say)
                let mut ds: Vec<i32> = es.iter().filter_map(|e| if let Entry::Txn(t) = e { Some(t.date) } else { None }).collect();
                cmd.0.shuffle(&mut ds);
                let mut it = ds.into_iter();
                for e in es.iter_mut() {
                    if let Entry::Txn(t) = e {
                        t.date = it.next().unwrap();
                    }
                }
                st.count("gen:dates_dealt_out_again");
            }
            let deco = decorate(&mut rd, &mut es);
            if is02 {
                emit_c02(&mut sh, &mut st, &mut cmd, &es, &deco, &nontrivial, "random");
            } else {
                emit_ledger_case(&mut sh, &mut st, prop, &es, &deco, &nontrivial, "random");
            }
        }
    }
    sh.finish(&st);
}
