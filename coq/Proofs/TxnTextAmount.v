(* C15 round trip, amounts: the printed number and commodity read back as an amount of the same
   value, padded as `rescale` pads.  `rb_amount` is the amount the reader returns. *)
From Coq Require Import List NArith ZArith Bool Lia ZifyBool ZifyN ZifyNat.
From Okv Require Import Model.Lit Model.SingleEntry2 Model.TxnText Model.TxnTextSpec.
From Okv Require Import Proofs.LitShowGen Proofs.TxnTextRescale Proofs.TxnTextLines.
Import ListNotations.
Open Scope N_scope.

Local Arguments N.add : simpl never.
Local Arguments N.mul : simpl never.
Local Arguments N.sub : simpl never.
Local Arguments N.leb : simpl never.
Local Arguments N.ltb : simpl never.
Local Arguments N.eqb : simpl never.
Local Arguments N.pow : simpl never.

Ltac step := cbv beta iota zeta delta [orb andb negb fst snd].

(* ---------------- what the reader returns for a printed Decimal ---------------- *)
Definition rb_dec (d : pdec) : pdec := match scan (show d) with SOk d' => d' | SErr _ => d end.
Definition rb_amount (p : precisions) (a : samount) : samount :=
  {| sa_value := rb_dec (display_rescale p a); sa_comm := sa_comm a |}.

Lemma max96_N_Z : Z.of_N max96N = max96.
Proof. reflexivity. Qed.

Lemma rb_dec_spec : forall d, mant d <= max96N -> (scale d <= 28)%nat ->
  scan (show d) = SOk (rb_dec d) /\ mant (rb_dec d) = mant d /\ scale (rb_dec d) = scale d /\
  neg (rb_dec d) = (neg d && negb (mant d =? 0)).
Proof.
  intros d Hm Hs.
  assert (Hz : (Z.of_N (mant d) <= max96)%Z) by (rewrite <- max96_N_Z; lia).
  destruct (show_scan_gen d Hz Hs) as (d' & H1 & H2 & H3 & H4).
  unfold rb_dec. rewrite H1. repeat split; assumption.
Qed.

(* ---------------- rescale keeps the 96-bit bound ---------------- *)
Lemma rescale_up_bound : forall k m sc, m <= max96N -> fst (rescale_up k m sc) <= max96N.
Proof.
  induction k as [|k IH]; intros m sc H; cbn [rescale_up].
  - exact H.
  - destruct (m * 10 <=? max96N) eqn:E; [|exact H]. apply IH. apply N.leb_le. exact E.
Qed.

Lemma rescale_bound : forall x target, mant x <= max96N -> mant (rescale x target) <= max96N.
Proof.
  intros x target H. unfold rescale.
  destruct (Nat.eqb (scale x) target); [exact H|].
  destruct (mant x =? 0); [cbn [mant]; unfold max96N; lia|].
  pose proof (rescale_up_bound (target - scale x) (mant x) (scale x) H) as Hb.
  destruct (rescale_up (target - scale x) (mant x) (scale x)) as [m s]. exact Hb.
Qed.

Lemma display_rescale_bounds : forall p a, clean_dec (sa_value a) = true ->
  mant (display_rescale p a) <= max96N /\ (scale (display_rescale p a) <= 28)%nat.
Proof.
  intros p a H. unfold clean_dec in H. apply andb_true_iff in H. destruct H as [Hm Hs].
  apply N.leb_le in Hm. apply Nat.leb_le in Hs. unfold display_rescale. split.
  - apply rescale_bound. exact Hm.
  - set (target := Nat.max (scale (sa_value a)) (Nat.min (prec_of p (sa_comm a)) 28)).
    destruct (rescale_scale (sa_value a) target) as [Hb _]; unfold target in *; lia.
Qed.

(* ---------------- the value read back is the value built ---------------- *)
Lemma same_value_transfer : forall x y z,
  same_value x y = true -> mant z = mant y -> scale z = scale y ->
  neg z = (neg y && negb (mant y =? 0)) -> same_value x z = true.
Proof.
  intros x y z H Hm Hs Hn. unfold same_value in *. rewrite Hm, Hs, Hn.
  apply andb_true_iff in H. destruct H as [H1 H2]. rewrite H1. cbn [andb].
  apply orb_true_iff in H2. destruct H2 as [H2|H2]; [rewrite H2; reflexivity|].
  destruct (mant y =? 0) eqn:E.
  - apply N.eqb_eq in E. apply N.eqb_eq in H1. rewrite H1, E. reflexivity.
  - cbn [negb]. rewrite andb_true_r, H2. apply orb_true_r.
Qed.

Lemma padded_transfer : forall p a y z, padded_scale_ok p a y = true -> mant z = mant y -> scale z = scale y ->
  padded_scale_ok p a z = true.
Proof. intros p a y z H Hm Hs. unfold padded_scale_ok in *. rewrite Hm, Hs. exact H. Qed.

Lemma str_eqb_refl : forall s, str_eqb s s = true.
Proof. induction s as [|c s IH]; [reflexivity|]. cbn [str_eqb]. rewrite N.eqb_refl, IH. reflexivity. Qed.

Lemma clean_amount_dec : forall a, clean_amount a = true -> clean_dec (sa_value a) = true.
Proof.
  intros a H. unfold clean_amount in H. apply andb_true_iff in H. destruct H as [H _].
  apply andb_true_iff in H. tauto.
Qed.

Lemma clean_amount_comm : forall a, clean_amount a = true -> clean_commodity (sa_comm a) = true.
Proof.
  intros a H. unfold clean_amount in H. apply andb_true_iff in H. destruct H as [H _].
  apply andb_true_iff in H. tauto.
Qed.

Theorem same_amount_rb : forall p a, clean_amount a = true -> same_amount p a (rb_amount p a) = true.
Proof.
  intros p a H. pose proof (clean_amount_dec a H) as Hd.
  destruct (display_rescale_bounds p a Hd) as [Bm Bs].
  destruct (rb_dec_spec _ Bm Bs) as (_ & Rm & Rs & Rn).
  assert (H28 : (scale (sa_value a) <= 28)%nat).
  { unfold clean_dec in Hd. apply andb_true_iff in Hd. destruct Hd as [_ Hd]. apply Nat.leb_le. exact Hd. }
  destruct (display_rescale_spec p a H28) as (Sv & _ & _ & Sp).
  unfold same_amount, rb_amount. cbn [sa_value sa_comm].
  rewrite str_eqb_refl, (same_value_transfer _ _ _ Sv Rm Rs Rn), (padded_transfer _ _ _ _ Sp Rm Rs).
  reflexivity.
Qed.

(* ---------------- the printed amount ---------------- *)
Definition comm_suffix (c : str) : str := match c with [] => [] | _ => 32 :: c end.
Definition amt_str (p : precisions) (a : samount) : str := fst (amount_text p a).

Lemma amt_str_eq : forall p a, amt_str p a = show (display_rescale p a) ++ comm_suffix (sa_comm a).
Proof.
  intros p a. unfold amt_str, amount_text, comm_suffix.
  destruct (sa_comm a); cbn [fst]; [rewrite app_nil_r|]; reflexivity.
Qed.

Lemma numc_is_num_char : forall c, numc c = is_num_char c.
Proof. reflexivity. Qed.

Lemma show_num_chars : forall d, forallb is_num_char (show d) = true.
Proof.
  intros d. pose proof (show_numc d) as H. induction H as [|c l Hc _ IH]; [reflexivity|].
  cbn [forallb]. rewrite <- numc_is_num_char, Hc, IH. reflexivity.
Qed.

(* starts with a character of a number *)
Definition numhead (x : str) : Prop := exists c r, x = c :: r /\ is_num_char c = true.

Lemma amt_str_numhead : forall p a X, numhead (amt_str p a ++ X).
Proof.
  intros p a X. rewrite amt_str_eq.
  pose proof (show_num_chars (display_rescale p a)) as H. pose proof (show_nonempty (display_rescale p a)) as Hne.
  destruct (show (display_rescale p a)) as [|c r]; [congruence|].
  exists c. eexists. split; [rewrite <- !app_assoc; reflexivity|]. apply (forallb_hd _ _ _ H).
Qed.

Lemma numhead_stops_sp : forall x, numhead x -> stops is_sp x.
Proof. intros x (c & r & -> & H). cbn [stops]. chr. Qed.

(* ---------------- read_amount ---------------- *)
Definition ra_tail (d : pdec) (r1 : str) : ares :=
  let '(cm, r3) := span (fun x => negb (non_commodity x)) (drop_sp r1) in
  ASome {| sa_value := d; sa_comm := cm |} r3.

Lemma read_amount_num : forall tok r1 d, tok <> [] -> forallb is_num_char tok = true ->
  stops is_num_char r1 -> scan tok = SOk d -> read_amount (tok ++ r1) = ra_tail d r1.
Proof.
  intros tok r1 d Hne Hf Hs Hscan. destruct tok as [|c0 tok]; [congruence|].
  unfold read_amount. cbn [app]. pose proof (forallb_hd _ _ _ Hf) as Hc0.
  assert (E : (c0 =? 40) = false) by chr. rewrite E.
  change (c0 :: tok ++ r1) with ((c0 :: tok) ++ r1).
  rewrite span_app by assumption. cbv beta iota zeta. rewrite Hscan. reflexivity.
Qed.

(* what may follow a printed amount: nothing, or a space and then `@` or `=` *)
Definition rest_ok (rest : str) : Prop :=
  rest = [] \/ exists c r, rest = 32 :: c :: r /\ non_commodity c = true /\ is_sp c = false.

Lemma rest_ok_at : forall r, rest_ok (32 :: 64 :: r).
Proof. intros r. right. exists 64, r. repeat split. Qed.
Lemma rest_ok_eq : forall r, rest_ok (32 :: 61 :: r).
Proof. intros r. right. exists 61, r. repeat split. Qed.

Theorem read_amount_text : forall p a rest, clean_amount a = true -> rest_ok rest ->
  exists r, read_amount (amt_str p a ++ rest) = ASome (rb_amount p a) r /\ drop_sp r = drop_sp rest.
Proof.
  intros p a rest H Hrest. pose proof (clean_amount_dec a H) as Hd. pose proof (clean_amount_comm a H) as Hc.
  destruct (display_rescale_bounds p a Hd) as [Bm Bs].
  destruct (rb_dec_spec _ Bm Bs) as (Hscan & _).
  rewrite amt_str_eq, <- app_assoc.
  assert (Hst : stops is_num_char (comm_suffix (sa_comm a) ++ rest)).
  { unfold comm_suffix. destruct (sa_comm a); [|reflexivity]. cbn [app].
    destruct Hrest as [->|(c & r & -> & _)]; [exact I|reflexivity]. }
  rewrite (read_amount_num _ _ _ (show_nonempty _) (show_num_chars _) Hst Hscan).
  unfold ra_tail, rb_amount, comm_suffix, clean_commodity in *.
  destruct (sa_comm a) as [|c1 cs] eqn:Ec.
  - cbn [app]. destruct Hrest as [->|(c & r & -> & Hnc & Hsp)].
    + exists []. split; reflexivity.
    + exists (c :: r). rewrite drop_sp_32.
      assert (Hs : stops is_sp (c :: r)) by exact Hsp.
      rewrite drop_sp_stop by exact Hs.
      rewrite span_stop by (cbn [stops]; rewrite Hnc; reflexivity).
      split; reflexivity.
  - exists rest. split; [|reflexivity].
    change ((32 :: c1 :: cs) ++ rest) with (32 :: (c1 :: cs) ++ rest). rewrite drop_sp_32.
    assert (Hs : stops is_sp ((c1 :: cs) ++ rest)).
    { cbn [app stops]. apply forallb_hd in Hc. chr. }
    rewrite drop_sp_stop by exact Hs.
    rewrite span_app; [reflexivity|exact Hc|].
    destruct Hrest as [->|(c & r & -> & _)]; [exact I|reflexivity].
Qed.

(* ---------------- number and commodity have no line break ---------------- *)
Lemma amt_str_nolf : forall p a, clean_amount a = true -> nolf (amt_str p a) = true.
Proof.
  intros p a H. rewrite amt_str_eq. apply nolf_app.
  - apply (forallb_imp is_num_char); [intros c Hc; chr|apply show_num_chars].
  - pose proof (clean_amount_comm a H) as Hc. unfold comm_suffix, clean_commodity in *.
    destruct (sa_comm a) as [|c1 cs]; [reflexivity|].
    change (32 :: c1 :: cs) with ([32] ++ c1 :: cs). apply nolf_app; [reflexivity|].
    revert Hc. apply forallb_imp. intros c Hc. chr.
Qed.
