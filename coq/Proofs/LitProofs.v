(* Proofs about the literal scanner model (Model/Lit.v) against the declarative spec
   (Model/LitSpec.v).  Part 1: the scanner accepts exactly the well-formed, representable
   literals and returns what the spec says (results used by Props/C07.v: T1-T4). *)
From Coq Require Import QArith.
From Coq Require Import List NArith ZArith Bool Lia ZifyBool ZifyN ZifyNat.
From Okv Require Import Model.Lit Model.LitSpec.
Import ListNotations.
Open Scope N_scope.

Local Arguments N.add : simpl never.
Local Arguments N.mul : simpl never.
Local Arguments N.sub : simpl never.
Local Arguments N.leb : simpl never.
Local Arguments N.ltb : simpl never.
Local Arguments N.eqb : simpl never.
Local Arguments Z.mul : simpl never.
Local Arguments Z.add : simpl never.
Local Arguments Z.ltb : simpl never.
Local Arguments Z.leb : simpl never.
Local Arguments Z.pow : simpl never.
Local Arguments N.of_nat : simpl never.

(* ------------------------------------------------------------------------- *)
(* 1. The scanner without the i128 overflow test                              *)
(* ------------------------------------------------------------------------- *)

Definition sgn_st (s : st) : st :=
  {| comma_pos := comma_pos s; format := format s; mantissa := mantissa s; sc := sc s;
     prefix_len := 1; sign := (-1)%Z; has_digit := has_digit s |}.

Definition comma_st (s : st) (i : N) : st :=
  {| comma_pos := Some (i + 4); format := Some Comma3Dot; mantissa := mantissa s;
     sc := sc s; prefix_len := prefix_len s; sign := sign s; has_digit := has_digit s |}.

Definition dot_st (s : st) : st :=
  {| comma_pos := None; format := format s; mantissa := mantissa s; sc := Some 0%nat;
     prefix_len := prefix_len s; sign := sign s; has_digit := has_digit s |}.

Definition dstep (s : st) (i c : N) : st :=
  {| comma_pos := comma_pos s;
     format := match sc s, format s with
               | None, None => if 3 + prefix_len s <=? i then Some Plain else None
               | _, f => f
               end;
     mantissa := (mantissa s * 10 + Z.of_N (c - 48))%Z;
     sc := option_map S (sc s); prefix_len := prefix_len s; sign := sign s;
     has_digit := true |}.

Definition step' (s : st) (i : N) (c : N) : step_res :=
  if (i =? 0) && (c =? 45) then Cont (sgn_st s)
  else if (c =? 44) && is_none (sc s) && aligned_comma (prefix_len s) (comma_pos s) i then
    Cont (comma_st s i)
  else if (c =? 46) && is_none (sc s) && (is_none (comma_pos s) || oeqb (comma_pos s) i) then
    Cont (dot_st s)
  else if oeqb (comma_pos s) i then Stop (SErr (CommaRequired i))
  else if is_digit c then Cont (dstep s i c)
  else Stop (SErr (UnexpectedChar i)).

Fixpoint run' (s : st) (i : N) (l : list N) : step_res :=
  match l with
  | [] => Cont s
  | c :: r => match step' s i c with
              | Cont s' => run' s' (i + 1) r
              | Stop x => Stop x
              end
  end.

Lemma step_step' : forall s i c,
  (mantissa s <= i128_max)%Z ->
  step s i c = match step' s i c with
               | Cont s' => if (i128_max <? mantissa s')%Z then Stop (SErr InvalidDecimal)
                            else Cont s'
               | Stop x => Stop x
               end.
Proof.
  intros s i c Hm.
  assert (Hlt : (i128_max <? mantissa s)%Z = false) by lia.
  unfold step, step'.
  destruct ((i =? 0) && (c =? 45)) eqn:E1.
  { cbn [sgn_st mantissa]. rewrite Hlt. reflexivity. }
  destruct ((c =? 44) && is_none (sc s) && aligned_comma (prefix_len s) (comma_pos s) i) eqn:E2.
  { cbn [comma_st mantissa]. rewrite Hlt. reflexivity. }
  destruct ((c =? 46) && is_none (sc s) && (is_none (comma_pos s) || oeqb (comma_pos s) i)) eqn:E3.
  { cbn [dot_st mantissa]. rewrite Hlt. reflexivity. }
  destruct (oeqb (comma_pos s) i) eqn:E4; [reflexivity|].
  destruct (is_digit c) eqn:E5; [|reflexivity].
  cbv zeta. cbn [dstep mantissa].
  destruct (i128_max <? mantissa s * 10 + Z.of_N (c - 48))%Z eqn:E6; reflexivity.
Qed.

Lemma step'_stop_err : forall s i c x, step' s i c = Stop x -> exists e, x = SErr e.
Proof.
  intros s i c x. unfold step'.
  destruct ((i =? 0) && (c =? 45)); [discriminate|].
  destruct ((c =? 44) && is_none (sc s) && aligned_comma (prefix_len s) (comma_pos s) i);
    [discriminate|].
  destruct ((c =? 46) && is_none (sc s) && (is_none (comma_pos s) || oeqb (comma_pos s) i));
    [discriminate|].
  destruct (oeqb (comma_pos s) i).
  { intros H; inversion H; eauto. }
  destruct (is_digit c); [discriminate|].
  intros H; inversion H; eauto.
Qed.

Lemma step'_mono : forall s i c s',
  (0 <= mantissa s)%Z -> step' s i c = Cont s' -> (mantissa s <= mantissa s')%Z.
Proof.
  intros s i c s' H0. unfold step'.
  destruct ((i =? 0) && (c =? 45)).
  { intros H; inversion H; cbn [sgn_st mantissa]; lia. }
  destruct ((c =? 44) && is_none (sc s) && aligned_comma (prefix_len s) (comma_pos s) i).
  { intros H; inversion H; cbn [comma_st mantissa]; lia. }
  destruct ((c =? 46) && is_none (sc s) && (is_none (comma_pos s) || oeqb (comma_pos s) i)).
  { intros H; inversion H; cbn [dot_st mantissa]; lia. }
  destruct (oeqb (comma_pos s) i); [discriminate|].
  destruct (is_digit c); [|discriminate].
  intros H; inversion H; cbn [dstep mantissa]; lia.
Qed.

Lemma run'_mono : forall l s i s',
  (0 <= mantissa s)%Z -> run' s i l = Cont s' -> (mantissa s <= mantissa s')%Z.
Proof.
  induction l as [|c r IH]; intros s i s' H0 H.
  - cbn in H. inversion H. lia.
  - cbn [run'] in H. destruct (step' s i c) as [s1|x] eqn:E; [|discriminate].
    pose proof (step'_mono _ _ _ _ H0 E) as H1.
    assert (H2 : (0 <= mantissa s1)%Z) by lia.
    pose proof (IH _ _ _ H2 H). lia.
Qed.

Lemma run'_stop_err : forall l s i x, run' s i l = Stop x -> exists e, x = SErr e.
Proof.
  induction l as [|c r IH]; intros s i x H.
  - discriminate.
  - cbn [run'] in H. destruct (step' s i c) as [s1|y] eqn:E.
    + eapply IH; eauto.
    + inversion H; subst. eapply step'_stop_err; eauto.
Qed.

Lemma run_run'_cont : forall l s i s',
  (0 <= mantissa s <= i128_max)%Z -> run' s i l = Cont s' ->
  run s i l = if (i128_max <? mantissa s')%Z then Stop (SErr InvalidDecimal) else Cont s'.
Proof.
  induction l as [|c r IH]; intros s i s' Hm H.
  - cbn in H. inversion H; subst. cbn [run].
    assert (Hlt : (i128_max <? mantissa s')%Z = false) by lia. rewrite Hlt. reflexivity.
  - cbn [run'] in H. cbn [run]. rewrite step_step' by lia.
    destruct (step' s i c) as [s1|x] eqn:E; [|discriminate].
    assert (H1 : (mantissa s <= mantissa s1)%Z) by (eapply step'_mono; eauto; lia).
    destruct (i128_max <? mantissa s1)%Z eqn:E1.
    + assert (H2 : (mantissa s1 <= mantissa s')%Z) by (eapply run'_mono; eauto; lia).
      assert (Hlt : (i128_max <? mantissa s')%Z = true) by lia. rewrite Hlt. reflexivity.
    + apply IH; [lia|assumption].
Qed.

Lemma run_run'_stop : forall l s i x,
  (0 <= mantissa s <= i128_max)%Z -> run' s i l = Stop x ->
  exists e, run s i l = Stop (SErr e).
Proof.
  induction l as [|c r IH]; intros s i x Hm H.
  - discriminate.
  - cbn [run'] in H. cbn [run]. rewrite step_step' by lia.
    destruct (step' s i c) as [s1|y] eqn:E.
    + assert (H1 : (mantissa s <= mantissa s1)%Z) by (eapply step'_mono; eauto; lia).
      destruct (i128_max <? mantissa s1)%Z eqn:E1; [eauto|].
      eapply IH; [|eassumption]. lia.
    + inversion H; subst. destruct (step'_stop_err _ _ _ _ E) as [e He]. subst. eauto.
Qed.

Lemma st0_mant : (0 <= mantissa st0 <= i128_max)%Z.
Proof. cbn. unfold i128_max. lia. Qed.

Lemma scan_cont : forall l s',
  run' st0 0 l = Cont s' ->
  scan l = if (i128_max <? mantissa s')%Z then SErr InvalidDecimal
           else finish (N.of_nat (length l)) s'.
Proof.
  intros l s' H. unfold scan. rewrite (run_run'_cont _ _ _ _ st0_mant H).
  destruct (i128_max <? mantissa s')%Z; reflexivity.
Qed.

Lemma scan_stop : forall l x, run' st0 0 l = Stop x -> exists e, scan l = SErr e.
Proof.
  intros l x H. unfold scan.
  destruct (run_run'_stop _ _ _ _ st0_mant H) as [e He]. rewrite He. eauto.
Qed.

(* ------------------------------------------------------------------------- *)
(* 2. Digit runs                                                              *)
(* ------------------------------------------------------------------------- *)

Definition dig (c : N) : Prop := is_digit c = true.

Fixpoint after (s : st) (i : N) (ds : list N) : st :=
  match ds with
  | [] => s
  | c :: r => after (dstep s i c) (i + 1) r
  end.

Lemma step'_digit : forall s i c,
  is_digit c = true -> oeqb (comma_pos s) i = false -> step' s i c = Cont (dstep s i c).
Proof.
  intros s i c Hd Ho. unfold step'. unfold is_digit in Hd.
  assert (E45 : (c =? 45) = false) by lia.
  assert (E44 : (c =? 44) = false) by lia.
  assert (E46 : (c =? 46) = false) by lia.
  rewrite E45, E44, E46, andb_false_r. cbn [andb]. rewrite Ho.
  unfold is_digit. rewrite Hd. reflexivity.
Qed.

Lemma run'_digits : forall ds s i r,
  Forall dig ds ->
  (forall q, comma_pos s = Some q -> i + N.of_nat (length ds) <= q) ->
  run' s i (ds ++ r) = run' (after s i ds) (i + N.of_nat (length ds)) r.
Proof.
  induction ds as [|c ds IH]; intros s i r Hd Hq.
  - cbn [app after length]. replace (i + N.of_nat 0) with i by lia. reflexivity.
  - inversion Hd as [|? ? Hc Hds]; subst.
    cbn [app run' after length].
    rewrite step'_digit; [|exact Hc|].
    + rewrite IH; [|exact Hds|].
      * replace (i + 1 + N.of_nat (length ds)) with (i + N.of_nat (S (length ds))) by lia.
        reflexivity.
      * intros q Hq'. cbn [dstep comma_pos] in Hq'. specialize (Hq q Hq').
        cbn [length] in Hq. lia.
    + destruct (comma_pos s) as [q|] eqn:E; [|reflexivity].
      specialize (Hq q eq_refl). cbn [length] in Hq. cbn [oeqb]. lia.
Qed.

Lemma after_comma_pos : forall ds s i, comma_pos (after s i ds) = comma_pos s.
Proof. induction ds as [|c ds IH]; intros s i; [reflexivity|]. cbn [after]. rewrite IH. reflexivity. Qed.

Lemma after_prefix_len : forall ds s i, prefix_len (after s i ds) = prefix_len s.
Proof. induction ds as [|c ds IH]; intros s i; [reflexivity|]. cbn [after]. rewrite IH. reflexivity. Qed.

Lemma after_sign : forall ds s i, sign (after s i ds) = sign s.
Proof. induction ds as [|c ds IH]; intros s i; [reflexivity|]. cbn [after]. rewrite IH. reflexivity. Qed.

Lemma after_has_digit : forall ds s i, has_digit (after s i ds) = has_digit s || nonempty ds.
Proof.
  induction ds as [|c ds IH]; intros s i.
  - cbn [after nonempty]. rewrite orb_false_r. reflexivity.
  - cbn [after nonempty]. rewrite IH. cbn [dstep has_digit orb]. rewrite orb_true_r. reflexivity.
Qed.

Lemma after_sc_none : forall ds s i, sc s = None -> sc (after s i ds) = None.
Proof.
  induction ds as [|c ds IH]; intros s i H; [exact H|].
  cbn [after]. apply IH. cbn [dstep sc]. rewrite H. reflexivity.
Qed.

Lemma after_sc_some : forall ds s i n,
  sc s = Some n -> sc (after s i ds) = Some (n + length ds)%nat.
Proof.
  induction ds as [|c ds IH]; intros s i n H.
  - cbn [after length]. rewrite H. f_equal. lia.
  - cbn [after length]. rewrite (IH _ _ (S n)).
    + f_equal. lia.
    + cbn [dstep sc]. rewrite H. reflexivity.
Qed.

Definition dv (a : N) (l : list N) : N := fold_left (fun a c => a * 10 + (c - 48)) l a.

Lemma after_mantissa_dv : forall ds s i a,
  mantissa s = Z.of_N a -> mantissa (after s i ds) = Z.of_N (dv a ds).
Proof.
  induction ds as [|c ds IH]; intros s i a H; [exact H|].
  cbn [after]. unfold dv. cbn [fold_left]. apply IH. cbn [dstep mantissa]. rewrite H. lia.
Qed.

Lemma after_mantissa : forall ds s i pre,
  mantissa s = Z.of_N (digits_val pre) ->
  mantissa (after s i ds) = Z.of_N (digits_val (pre ++ ds)).
Proof.
  intros ds s i pre H. rewrite (after_mantissa_dv _ _ _ _ H).
  unfold dv, digits_val. rewrite fold_left_app. reflexivity.
Qed.

Lemma after_format_keep : forall ds s i,
  (sc s <> None \/ format s <> None) -> format (after s i ds) = format s.
Proof.
  induction ds as [|c ds IH]; intros s i H; [reflexivity|].
  cbn [after]. rewrite IH.
  - cbn [dstep format]. destruct (sc s) as [n|]; [reflexivity|].
    destruct (format s) as [f|]; [reflexivity|]. destruct H as [H|H]; congruence.
  - cbn [dstep format sc]. destruct (sc s) as [n|]; [left; discriminate|].
    destruct (format s) as [f|]; [right; discriminate|]. destruct H as [H|H]; congruence.
Qed.

Lemma after_format_none : forall ds s i,
  sc s = None -> format s = None ->
  format (after s i ds) =
  if nonempty ds && (3 + prefix_len s + 1 <=? i + N.of_nat (length ds)) then Some Plain else None.
Proof.
  induction ds as [|c ds IH]; intros s i Hs Hf.
  - cbn [after nonempty andb]. exact Hf.
  - cbn [after nonempty andb length].
    destruct (3 + prefix_len s <=? i) eqn:E.
    + rewrite after_format_keep.
      * cbn [dstep format]. rewrite Hs, Hf, E.
        assert (E' : (3 + prefix_len s + 1 <=? i + N.of_nat (S (length ds))) = true) by lia.
        rewrite E'. reflexivity.
      * right. cbn [dstep format]. rewrite Hs, Hf, E. discriminate.
    + rewrite IH.
      * cbn [dstep prefix_len]. destruct ds as [|c' ds'].
        -- cbn [nonempty andb length].
           assert (E' : (3 + prefix_len s + 1 <=? i + N.of_nat 1) = false) by lia.
           rewrite E'. reflexivity.
        -- cbn [nonempty andb].
           replace (i + 1 + N.of_nat (length (c' :: ds'))) with
             (i + N.of_nat (S (length (c' :: ds')))) by lia.
           reflexivity.
      * cbn [dstep sc]. rewrite Hs. reflexivity.
      * cbn [dstep format]. rewrite Hs, Hf, E. reflexivity.
Qed.

Lemma span_digits_spec : forall l a b,
  span_digits l = (a, b) ->
  l = a ++ b /\ Forall dig a /\ (b = [] \/ exists c r, b = c :: r /\ is_digit c = false).
Proof.
  induction l as [|c r IH]; intros a b H.
  - cbn in H. inversion H; subst. repeat split; auto.
  - cbn [span_digits] in H. destruct (is_digit c) eqn:E.
    + destruct (span_digits r) as [a' b'] eqn:E'. inversion H; subst.
      destruct (IH _ _ eq_refl) as (H1 & H2 & H3).
      repeat split.
      * cbn [app]. f_equal. exact H1.
      * constructor; assumption.
      * exact H3.
    + inversion H; subst. repeat split; auto. right. eauto.
Qed.

(* ------------------------------------------------------------------------- *)
(* 3. The spec, with its literal byte patterns turned into boolean tests      *)
(* ------------------------------------------------------------------------- *)

Definition strip0 (l : list N) : bool * list N :=
  match l with 45 :: r => (true, r) | _ => (false, l) end.

Definition tail0 (ng : bool) (ip gs r2 : list N) : option lit :=
  match r2 with
  | [] => if nonempty ip
          then Some {| l_neg := ng; l_int := ip; l_frac := []; l_grouped := nonempty gs |}
          else None
  | 46 :: r3 =>
      let '(fp, r4) := span_digits r3 in
      match r4 with
      | [] => if nonempty (ip ++ fp)
              then Some {| l_neg := ng; l_int := ip; l_frac := fp; l_grouped := nonempty gs |}
              else None
      | _ => None
      end
  | _ => None
  end.

Lemma spec_scan_unfold : forall l,
  spec_scan l =
  let '(ng, body) := strip0 l in
  let '(g0, r1) := span_digits body in
  let '(gs, r2) := if (1 <=? length g0)%nat && (length g0 <=? 3)%nat then groups r1 else ([], r1) in
  tail0 ng (g0 ++ gs) gs r2.
Proof. reflexivity. Qed.

Definition strip (l : list N) : bool * list N :=
  match l with
  | x :: r => if x =? 45 then (true, r) else (false, l)
  | [] => (false, [])
  end.

Definition tail (ng : bool) (ip gs r2 : list N) : option lit :=
  match r2 with
  | [] => if nonempty ip
          then Some {| l_neg := ng; l_int := ip; l_frac := []; l_grouped := nonempty gs |}
          else None
  | x :: r3 =>
      if x =? 46 then
        let '(fp, r4) := span_digits r3 in
        match r4 with
        | [] => if nonempty (ip ++ fp)
                then Some {| l_neg := ng; l_int := ip; l_frac := fp; l_grouped := nonempty gs |}
                else None
        | _ => None
        end
      else None
  end.

Lemma strip0_eq : forall l, strip0 l = strip l.
Proof.
  intros [|x r]; [reflexivity|].
  destruct (N.eqb_spec x 45) as [->|Hne].
  - reflexivity.
  - unfold strip0, strip. apply N.eqb_neq in Hne. rewrite Hne. apply N.eqb_neq in Hne.
    destruct x as [|p]; [reflexivity|].
    do 6 (try (destruct p as [p|p|]; try reflexivity)).
    congruence.
Qed.

Lemma tail0_eq : forall ng ip gs r2, tail0 ng ip gs r2 = tail ng ip gs r2.
Proof.
  intros ng ip gs [|x r]; [reflexivity|].
  destruct (N.eqb_spec x 46) as [->|Hne].
  - reflexivity.
  - unfold tail0, tail. apply N.eqb_neq in Hne. rewrite Hne. apply N.eqb_neq in Hne.
    destruct x as [|p]; [reflexivity|].
    do 6 (try (destruct p as [p|p|]; try reflexivity)).
    congruence.
Qed.

Lemma spec_scan_eq : forall l,
  spec_scan l =
  let '(ng, body) := strip l in
  let '(g0, r1) := span_digits body in
  let '(gs, r2) := if (1 <=? length g0)%nat && (length g0 <=? 3)%nat then groups r1 else ([], r1) in
  tail ng (g0 ++ gs) gs r2.
Proof.
  intros l. rewrite spec_scan_unfold, strip0_eq.
  destruct (strip l) as [ng body]. destruct (span_digits body) as [g0 r1].
  destruct (if (1 <=? length g0)%nat && (length g0 <=? 3)%nat then groups r1 else ([], r1)) as [gs r2].
  apply tail0_eq.
Qed.

Lemma groups_eq : forall l,
  groups l = match l with
             | x :: a :: b :: c :: r =>
                 if (x =? 44) && (is_digit a && is_digit b && is_digit c)
                 then let '(ds, rest) := groups r in (a :: b :: c :: ds, rest)
                 else ([], l)
             | _ => ([], l)
             end.
Proof.
  intros [|x l]; [reflexivity|].
  destruct (N.eqb_spec x 44) as [->|Hne].
  - destruct l as [|a [|b [|c r]]]; reflexivity.
  - assert (H : groups (x :: l) = ([], x :: l)).
    { destruct x as [|p]; [reflexivity|].
      do 6 (try (destruct p as [p|p|]; try reflexivity)).
      congruence. }
    rewrite H. destruct l as [|a [|b [|c r]]]; reflexivity.
Qed.

Definition stops (l : list N) : Prop :=
  forall a b c r, l = 44 :: a :: b :: c :: r ->
                  is_digit a && is_digit b && is_digit c = false.

Inductive Groups : list N -> list N -> list N -> Prop :=
| G_nil : forall l, stops l -> Groups l [] l
| G_cons : forall a b c r gs rest,
    is_digit a = true -> is_digit b = true -> is_digit c = true ->
    Groups r gs rest -> Groups (44 :: a :: b :: c :: r) (a :: b :: c :: gs) rest.

Lemma groups_Groups_aux : forall n l gs r2,
  (length l <= n)%nat -> groups l = (gs, r2) -> Groups l gs r2.
Proof.
  induction n as [|n IH]; intros l gs r2 Hn H.
  - destruct l; [|cbn in Hn; lia]. cbn in H. inversion H; subst.
    apply G_nil. intros a b c r Hr. discriminate.
  - rewrite groups_eq in H.
    destruct l as [|x [|a [|b [|c r]]]];
      try (inversion H; subst; apply G_nil; intros a' b' c' r' Hr; discriminate).
    destruct ((x =? 44) && (is_digit a && is_digit b && is_digit c)) eqn:E.
    + destruct (groups r) as [ds rest] eqn:Eg. inversion H; subst.
      apply andb_prop in E. destruct E as [Ex E].
      apply andb_prop in E. destruct E as [E Ec].
      apply andb_prop in E. destruct E as [Ea Eb].
      apply N.eqb_eq in Ex. subst x.
      apply G_cons; try assumption.
      apply IH; [|exact Eg]. cbn [length] in Hn. lia.
    + inversion H; subst. apply G_nil. intros a' b' c' r' Hr. inversion Hr; subst.
      rewrite N.eqb_refl in E. cbn [andb] in E. exact E.
Qed.

Lemma groups_Groups : forall l gs r2, groups l = (gs, r2) -> Groups l gs r2.
Proof. intros l gs r2. apply (groups_Groups_aux (length l)). lia. Qed.

(* ------------------------------------------------------------------------- *)
(* 4. The integer part: sign, first digit run, comma groups                   *)
(* ------------------------------------------------------------------------- *)

Lemma step'_comma : forall s i,
  sc s = None -> aligned_comma (prefix_len s) (comma_pos s) i = true -> 0 < i ->
  step' s i 44 = Cont (comma_st s i).
Proof.
  intros s i Hs Ha Hi. unfold step'.
  assert (E : (i =? 0) = false) by lia. rewrite E. cbn [andb].
  rewrite Hs, Ha. reflexivity.
Qed.

Lemma run'_groups : forall l gs r2, Groups l gs r2 -> forall s i pre,
  sc s = None -> aligned_comma (prefix_len s) (comma_pos s) i = true -> 0 < i ->
  mantissa s = Z.of_N (digits_val pre) ->
  exists s' i',
    run' s i l = run' s' i' r2 /\
    i' + N.of_nat (length r2) = i + N.of_nat (length l) /\
    comma_pos s' = (if nonempty gs then Some i' else comma_pos s) /\
    format s' = (if nonempty gs then Some Comma3Dot else format s) /\
    mantissa s' = Z.of_N (digits_val (pre ++ gs)) /\
    sc s' = None /\ prefix_len s' = prefix_len s /\ sign s' = sign s /\
    has_digit s' = has_digit s || nonempty gs /\
    i <= i' /\ (gs = [] -> s' = s /\ i' = i).
Proof.
  intros l gs r2 HG.
  induction HG as [l Hstop | a b c r gs rest Ha Hb Hc HG IH]; intros s i pre Hs Hal Hi Hm.
  - exists s, i. cbn [nonempty]. rewrite app_nil_r, orb_false_r.
    repeat split; auto. lia.
  - change (run' s i (44 :: a :: b :: c :: r)) with
      (match step' s i 44 with
       | Cont s' => run' s' (i + 1) ([a; b; c] ++ r)
       | Stop x => Stop x
       end).
    rewrite (step'_comma _ _ Hs Hal Hi).
    assert (Hd : Forall dig [a; b; c]) by (repeat constructor; assumption).
    rewrite run'_digits; [|exact Hd|].
    2:{ intros q Hq. cbn [comma_st comma_pos] in Hq. inversion Hq; subst. cbn [length]. lia. }
    cbn [length]. replace (i + 1 + N.of_nat 3) with (i + 4) by lia.
    set (s1 := after (comma_st s i) (i + 1) [a; b; c]).
    assert (Hs1 : sc s1 = None) by (apply after_sc_none; exact Hs).
    assert (Hc1 : comma_pos s1 = Some (i + 4)) by (unfold s1; rewrite after_comma_pos; reflexivity).
    assert (Hp1 : prefix_len s1 = prefix_len s) by (unfold s1; rewrite after_prefix_len; reflexivity).
    assert (Hg1 : sign s1 = sign s) by (unfold s1; rewrite after_sign; reflexivity).
    assert (Hf1 : format s1 = Some Comma3Dot).
    { unfold s1. rewrite after_format_keep; [reflexivity|]. right. cbn. discriminate. }
    assert (Hm1 : mantissa s1 = Z.of_N (digits_val (pre ++ [a; b; c]))).
    { unfold s1. apply after_mantissa. exact Hm. }
    assert (Hh1 : has_digit s1 = true).
    { unfold s1. rewrite after_has_digit. cbn [nonempty]. apply orb_true_r. }
    assert (Hal1 : aligned_comma (prefix_len s1) (comma_pos s1) (i + 4) = true).
    { rewrite Hc1. cbn [aligned_comma]. lia. }
    assert (Hi1 : 0 < i + 4) by lia.
    destruct (IH s1 (i + 4) (pre ++ [a; b; c]) Hs1 Hal1 Hi1 Hm1)
      as (s' & i' & Hrun & Hlen & Hcp & Hfm & Hmt & Hsc & Hpl & Hsg & Hhd & Hle & Hnil).
    exists s', i'. cbn [nonempty].
    split; [exact Hrun|].
    split; [cbn [length] in *; lia|].
    split.
    { destruct gs as [|g gs'].
      - destruct (Hnil eq_refl) as [-> ->]. exact Hc1.
      - exact Hcp. }
    split.
    { destruct gs as [|g gs']; cbn [nonempty] in Hfm; rewrite Hfm; [exact Hf1|reflexivity]. }
    split.
    { rewrite Hmt. rewrite <- app_assoc. reflexivity. }
    split; [exact Hsc|].
    split; [congruence|].
    split; [congruence|].
    split.
    { rewrite Hhd, Hh1. rewrite orb_true_r. reflexivity. }
    split; [lia|].
    intros Hx. discriminate.
Qed.

Definition s_init (ng : bool) : st := if ng then sgn_st st0 else st0.
Definition p_of (ng : bool) : N := if ng then 1 else 0.

Lemma run'_strip : forall l ng body,
  strip l = (ng, body) ->
  run' st0 0 l = run' (s_init ng) (p_of ng) body /\
  N.of_nat (length l) = p_of ng + N.of_nat (length body) /\
  (ng = false -> forall r, body <> 45 :: r).
Proof.
  intros [|x r] ng body H.
  - cbn in H. inversion H; subst. repeat split. intros _ r Hr. discriminate.
  - cbn [strip] in H. destruct (x =? 45) eqn:E.
    + inversion H; subst. apply N.eqb_eq in E. subst x.
      split; [reflexivity|]. split; [cbn [length p_of]; lia|]. discriminate.
    + inversion H; subst. split; [reflexivity|]. split; [cbn [p_of]; lia|].
      intros _ r' Hr. inversion Hr; subst. discriminate.
Qed.

Definition grp_ok (g0 : list N) : bool := (1 <=? length g0)%nat && (length g0 <=? 3)%nat.

Lemma int_phase : forall l ng body g0 r1 gs r2,
  strip l = (ng, body) -> span_digits body = (g0, r1) ->
  (if grp_ok g0 then groups r1 else ([], r1)) = (gs, r2) ->
  exists s2 i2,
    run' st0 0 l = run' s2 i2 r2 /\
    i2 + N.of_nat (length r2) = N.of_nat (length l) /\
    comma_pos s2 = (if nonempty gs then Some i2 else None) /\
    format s2 = (if nonempty gs then Some Comma3Dot
                 else if (4 <=? length g0)%nat then Some Plain else None) /\
    mantissa s2 = Z.of_N (digits_val (g0 ++ gs)) /\
    sc s2 = None /\ prefix_len s2 = p_of ng /\
    sign s2 = (if ng then (-1)%Z else 1%Z) /\
    has_digit s2 = nonempty (g0 ++ gs) /\
    (gs = [] -> i2 = p_of ng + N.of_nat (length g0) /\ r2 = r1) /\
    (gs <> [] -> 0 < i2 /\ grp_ok g0 = true) /\
    (grp_ok g0 = true -> stops r2).
Proof.
  intros l ng body g0 r1 gs r2 Hstrip Hspan Hgrp.
  destruct (run'_strip _ _ _ Hstrip) as (Hrun0 & Hlen0 & _).
  destruct (span_digits_spec _ _ _ Hspan) as (Hbody & Hdig & _).
  set (s0 := s_init ng) in *. set (p := p_of ng) in *.
  assert (Hs0c : comma_pos s0 = None) by (unfold s0; destruct ng; reflexivity).
  assert (Hs0s : sc s0 = None) by (unfold s0; destruct ng; reflexivity).
  assert (Hs0f : format s0 = None) by (unfold s0; destruct ng; reflexivity).
  assert (Hs0m : mantissa s0 = Z.of_N (digits_val [])) by (unfold s0; destruct ng; reflexivity).
  assert (Hs0p : prefix_len s0 = p) by (unfold s0, p; destruct ng; reflexivity).
  assert (Hs0g : sign s0 = (if ng then (-1)%Z else 1%Z)) by (unfold s0; destruct ng; reflexivity).
  assert (Hs0h : has_digit s0 = false) by (unfold s0; destruct ng; reflexivity).
  assert (Hrun1 : run' st0 0 l = run' (after s0 p g0) (p + N.of_nat (length g0)) r1).
  { rewrite Hrun0, Hbody. apply run'_digits; [exact Hdig|]. intros q Hq. congruence. }
  set (s1 := after s0 p g0) in *. set (i1 := p + N.of_nat (length g0)) in *.
  assert (Hs1c : comma_pos s1 = None) by (unfold s1; rewrite after_comma_pos; exact Hs0c).
  assert (Hs1s : sc s1 = None) by (apply after_sc_none; exact Hs0s).
  assert (Hs1p : prefix_len s1 = p) by (unfold s1; rewrite after_prefix_len; exact Hs0p).
  assert (Hs1g : sign s1 = (if ng then (-1)%Z else 1%Z)) by (unfold s1; rewrite after_sign; exact Hs0g).
  assert (Hs1h : has_digit s1 = nonempty g0).
  { unfold s1. rewrite after_has_digit, Hs0h. reflexivity. }
  assert (Hs1m : mantissa s1 = Z.of_N (digits_val g0)).
  { unfold s1. rewrite (after_mantissa _ _ _ [] Hs0m). reflexivity. }
  assert (Hs1f : format s1 = if (4 <=? length g0)%nat then Some Plain else None).
  { unfold s1. rewrite (after_format_none _ _ _ Hs0s Hs0f), Hs0p.
    destruct g0 as [|c g0']; [reflexivity|]. cbn [nonempty andb].
    destruct (4 <=? length (c :: g0'))%nat eqn:E.
    - assert (E' : (3 + p + 1 <=? p + N.of_nat (length (c :: g0'))) = true) by lia.
      rewrite E'. reflexivity.
    - assert (E' : (3 + p + 1 <=? p + N.of_nat (length (c :: g0'))) = false) by lia.
      rewrite E'. reflexivity. }
  assert (Hlen1 : i1 + N.of_nat (length r1) = N.of_nat (length l)).
  { rewrite Hlen0, Hbody, app_length. unfold i1. lia. }
  destruct (grp_ok g0) eqn:Eg.
  - (* groups attempted *)
    apply groups_Groups in Hgrp.
    assert (Hal : aligned_comma (prefix_len s1) (comma_pos s1) i1 = true).
    { rewrite Hs1c, Hs1p. cbn [aligned_comma]. unfold grp_ok in Eg. unfold i1. lia. }
    assert (Hi1 : 0 < i1) by (unfold grp_ok in Eg; unfold i1; lia).
    destruct (run'_groups _ _ _ Hgrp s1 i1 g0 Hs1s Hal Hi1 Hs1m)
      as (s2 & i2 & Hrun & Hlen & Hcp & Hfm & Hmt & Hsc & Hpl & Hsg & Hhd & Hle & Hnil).
    exists s2, i2.
    split; [congruence|].
    split; [lia|].
    split; [rewrite Hcp, Hs1c; reflexivity|].
    split; [rewrite Hfm, Hs1f; reflexivity|].
    split; [exact Hmt|].
    split; [exact Hsc|].
    split; [congruence|].
    split; [congruence|].
    split.
    { rewrite Hhd, Hs1h. destruct g0; destruct gs; reflexivity. }
    split.
    { intros ->. destruct (Hnil eq_refl) as [_ ->]. split; [reflexivity|].
      inversion Hgrp; subst. reflexivity. }
    split.
    { intros _. split; [lia|reflexivity]. }
    intros _. clear - Hgrp. induction Hgrp; assumption.
  - inversion Hgrp; subst gs r2.
    exists s1, i1. cbn [nonempty]. rewrite app_nil_r.
    repeat split; try assumption; try congruence; try discriminate.
Qed.

(* ------------------------------------------------------------------------- *)
(* 5. Fraction, finish, and the acceptance theorem (T1)                       *)
(* ------------------------------------------------------------------------- *)

Lemma step'_dot : forall s i,
  sc s = None -> (comma_pos s = None \/ comma_pos s = Some i) ->
  step' s i 46 = Cont (dot_st s).
Proof.
  intros s i Hs Hc. unfold step'.
  change (46 =? 45) with false. change (46 =? 44) with false. change (46 =? 46) with true.
  rewrite andb_false_r. cbn [andb]. rewrite Hs. cbn [is_none andb].
  destruct Hc as [Hc|Hc]; rewrite Hc; cbn [is_none oeqb orb].
  - reflexivity.
  - rewrite N.eqb_refl. reflexivity.
Qed.

Lemma frac_phase : forall s2 i2 fp r4 pre,
  sc s2 = None -> (comma_pos s2 = None \/ comma_pos s2 = Some i2) -> Forall dig fp ->
  mantissa s2 = Z.of_N (digits_val pre) ->
  exists s3,
    run' s2 i2 (46 :: fp ++ r4) = run' s3 (i2 + 1 + N.of_nat (length fp)) r4 /\
    comma_pos s3 = None /\ sc s3 = Some (length fp) /\ format s3 = format s2 /\
    mantissa s3 = Z.of_N (digits_val (pre ++ fp)) /\
    prefix_len s3 = prefix_len s2 /\ sign s3 = sign s2 /\
    has_digit s3 = has_digit s2 || nonempty fp.
Proof.
  intros s2 i2 fp r4 pre Hs Hc Hd Hm.
  exists (after (dot_st s2) (i2 + 1) fp).
  split.
  { cbn [run']. rewrite (step'_dot _ _ Hs Hc). apply run'_digits; [exact Hd|].
    intros q Hq. discriminate. }
  split; [rewrite after_comma_pos; reflexivity|].
  split; [rewrite (after_sc_some _ _ _ 0%nat); reflexivity|].
  split; [rewrite after_format_keep; [reflexivity|left; discriminate]|].
  split; [apply after_mantissa; exact Hm|].
  split; [rewrite after_prefix_len; reflexivity|].
  split; [rewrite after_sign; reflexivity|].
  rewrite after_has_digit. reflexivity.
Qed.

Lemma finish_ok : forall len s (ng : bool) M k,
  group_incomplete len s = false -> has_digit s = true ->
  sign s = (if ng then (-1)%Z else 1%Z) -> mantissa s = Z.of_N M ->
  match sc s with Some n => n | None => 0%nat end = k ->
  (if (i128_max <? mantissa s)%Z then SErr InvalidDecimal else finish len s) =
  if (Z.of_N M <=? max96)%Z && (k <=? 28)%nat
  then SOk {| neg := ng && negb (M =? 0); mant := M; scale := k; pfmt := format s |}
  else SErr InvalidDecimal.
Proof.
  intros len s ng M k Hg Hh Hsg Hm Hk.
  unfold finish. rewrite Hg, Hh. cbn [negb]. cbv zeta. rewrite Hk, Hsg, Hm.
  assert (Habs : Z.abs ((if ng then (-1)%Z else 1%Z) * Z.of_N M) = Z.of_N M) by (destruct ng; lia).
  rewrite Habs.
  assert (Hmax : (max96 < i128_max)%Z) by (unfold max96, i128_max; lia).
  destruct ((Z.of_N M <=? max96)%Z && (k <=? 28)%nat) eqn:EF.
  - assert (E1 : (i128_max <? Z.of_N M)%Z = false) by lia.
    assert (E2 : (28 <? k)%nat = false) by lia.
    assert (E3 : (max96 <? Z.of_N M)%Z = false) by lia.
    rewrite E1, E2, E3. f_equal. f_equal.
    + destruct ng; lia.
    + destruct ng; lia.
  - destruct (i128_max <? Z.of_N M)%Z eqn:E1; [reflexivity|].
    destruct (28 <? k)%nat eqn:E2; [reflexivity|].
    destruct (max96 <? Z.of_N M)%Z eqn:E3; [reflexivity|]. lia.
Qed.

Theorem wf_accepted : forall l t,
  spec_scan l = Some t ->
  scan l = if fits t then SOk (pdec_of t) else SErr InvalidDecimal.
Proof.
  intros l t H. rewrite spec_scan_eq in H.
  destruct (strip l) as [ng body] eqn:Hstrip.
  destruct (span_digits body) as [g0 r1] eqn:Hspan.
  fold (grp_ok g0) in H.
  destruct (if grp_ok g0 then groups r1 else ([], r1)) as [gs r2] eqn:Hgrp.
  destruct (int_phase _ _ _ _ _ _ _ Hstrip Hspan Hgrp)
    as (s2 & i2 & Hrun & Hlen & Hcp & Hfm & Hmt & Hsc & Hpl & Hsg & Hhd & Hnil & Hcons & Hstop).
  assert (Hfmt : format s2 =
                 if nonempty gs then Some Comma3Dot
                 else if (4 <=? length (g0 ++ gs))%nat then Some Plain else None).
  { rewrite Hfm. destruct gs; [rewrite app_nil_r|]; reflexivity. }
  unfold tail in H. destruct r2 as [|x r3].
  - destruct (nonempty (g0 ++ gs)) eqn:Ene; [|discriminate]. inversion H; subst t. clear H.
    cbn [run'] in Hrun. rewrite (scan_cont _ _ Hrun).
    rewrite (finish_ok _ _ ng (digits_val (g0 ++ gs)) 0%nat).
    + unfold pdec_of, fits, lit_mant, lit_places.
      cbn [l_neg l_int l_frac l_grouped length]. rewrite app_nil_r, Hfmt. reflexivity.
    + unfold group_incomplete. rewrite Hcp. destruct (nonempty gs); [|reflexivity].
      cbn [length] in Hlen. lia.
    + congruence.
    + exact Hsg.
    + exact Hmt.
    + rewrite Hsc. reflexivity.
  - destruct (x =? 46) eqn:Ex; [|discriminate]. apply N.eqb_eq in Ex. subst x.
    destruct (span_digits r3) as [fp r4] eqn:Hsp2.
    destruct r4 as [|y r5]; [|discriminate].
    destruct (nonempty ((g0 ++ gs) ++ fp)) eqn:Ene; [|discriminate].
    inversion H; subst t. clear H.
    destruct (span_digits_spec _ _ _ Hsp2) as (Hr3 & Hdfp & _).
    assert (Hc : comma_pos s2 = None \/ comma_pos s2 = Some i2).
    { rewrite Hcp. destruct (nonempty gs); auto. }
    destruct (frac_phase s2 i2 fp [] (g0 ++ gs) Hsc Hc Hdfp Hmt)
      as (s3 & Hrun3 & Hcp3 & Hsc3 & Hfm3 & Hmt3 & Hpl3 & Hsg3 & Hhd3).
    rewrite Hr3 in Hrun. rewrite Hrun3 in Hrun. cbn [run'] in Hrun.
    rewrite (scan_cont _ _ Hrun).
    rewrite (finish_ok _ _ ng (digits_val ((g0 ++ gs) ++ fp)) (length fp)).
    + unfold pdec_of, fits, lit_mant, lit_places.
      cbn [l_neg l_int l_frac l_grouped]. rewrite Hfm3, Hfmt. reflexivity.
    + unfold group_incomplete. rewrite Hcp3. reflexivity.
    + rewrite Hhd3, Hhd. destruct (g0 ++ gs); [exact Ene|reflexivity].
    + congruence.
    + exact Hmt3.
    + rewrite Hsc3. reflexivity.
Qed.

(* ------------------------------------------------------------------------- *)
(* 6. Malformed input is rejected (B), hence T2-T4                            *)
(* ------------------------------------------------------------------------- *)

Definition badrun (s : st) (i : N) (r : list N) : Prop :=
  (exists x, run' s i r = Stop x) \/
  (exists s', run' s i r = Cont s' /\
              (group_incomplete (i + N.of_nat (length r)) s' = true \/ has_digit s' = false)).

Lemma badrun_scan : forall l s i r,
  run' st0 0 l = run' s i r -> i + N.of_nat (length r) = N.of_nat (length l) ->
  badrun s i r -> exists e, scan l = SErr e.
Proof.
  intros l s i r Hrun Hlen [[x Hx]|[s' [Hs' Hb]]].
  - apply (scan_stop l x). congruence.
  - rewrite (scan_cont l s') by congruence.
    destruct (i128_max <? mantissa s')%Z; [eauto|].
    unfold finish. rewrite <- Hlen.
    destruct (group_incomplete (i + N.of_nat (length r)) s') eqn:Eg; [eauto|].
    destruct Hb as [Hb|Hb]; [discriminate|]. rewrite Hb. cbn [negb]. eauto.
Qed.

Lemma badrun_step : forall s i c s1 r,
  step' s i c = Cont s1 -> badrun s1 (i + 1) r -> badrun s i (c :: r).
Proof.
  intros s i c s1 r Hst [[x Hx]|[s' [Hs' Hb]]].
  - left. exists x. cbn [run']. rewrite Hst. exact Hx.
  - right. exists s'. split; [cbn [run']; rewrite Hst; exact Hs'|].
    replace (i + N.of_nat (length (c :: r))) with (i + 1 + N.of_nat (length r))
      by (cbn [length]; lia).
    exact Hb.
Qed.

Lemma step'_stop_generic : forall s i c,
  (i =? 0) && (c =? 45) = false ->
  (c =? 44) && is_none (sc s) && aligned_comma (prefix_len s) (comma_pos s) i = false ->
  (c =? 46) && is_none (sc s) && (is_none (comma_pos s) || oeqb (comma_pos s) i) = false ->
  is_digit c = false ->
  exists x, step' s i c = Stop x.
Proof.
  intros s i c E1 E2 E3 Hd. unfold step'. rewrite E1, E2, E3.
  destruct (oeqb (comma_pos s) i); [eauto|]. rewrite Hd. eauto.
Qed.

Lemma ingroup_nondigit : forall s i c q,
  comma_pos s = Some q -> i < q -> 0 < i -> sc s = None -> is_digit c = false ->
  exists x, step' s i c = Stop x.
Proof.
  intros s i c q Hc Hlt Hi Hs Hd.
  assert (Eq : (q =? i) = false) by lia.
  apply step'_stop_generic; [| | |exact Hd].
  - assert (E : (i =? 0) = false) by lia. rewrite E. reflexivity.
  - rewrite Hc. cbn [aligned_comma]. rewrite Eq. apply andb_false_r.
  - rewrite Hc. cbn [is_none oeqb orb]. rewrite Eq. apply andb_false_r.
Qed.

Lemma ingroup : forall pre s j q post,
  Forall dig pre -> comma_pos s = Some q -> sc s = None -> 0 < j ->
  j + N.of_nat (length pre) < q ->
  (post = [] \/ exists c post', post = c :: post' /\ is_digit c = false) ->
  badrun s j (pre ++ post).
Proof.
  intros pre s j q post Hd Hc Hs Hj Hlt Hpost.
  unfold badrun. rewrite run'_digits; [|exact Hd|].
  2:{ intros q' Hq'. rewrite Hc in Hq'. inversion Hq'; subst. lia. }
  set (s1 := after s j pre).
  assert (Hc1 : comma_pos s1 = Some q) by (unfold s1; rewrite after_comma_pos; exact Hc).
  assert (Hs1 : sc s1 = None) by (apply after_sc_none; exact Hs).
  destruct Hpost as [->|(c & post' & -> & Hnd)].
  - right. exists s1. split; [reflexivity|]. left.
    unfold group_incomplete. rewrite Hc1. rewrite app_nil_r. lia.
  - left. cbn [run'].
    destruct (ingroup_nondigit s1 (j + N.of_nat (length pre)) c q Hc1 Hlt ltac:(lia) Hs1 Hnd)
      as [x Hx].
    rewrite Hx. eauto.
Qed.

Lemma refused : forall r s j,
  comma_pos s = Some (j + 3) -> sc s = None -> 0 < j ->
  (forall a b c r', r = a :: b :: c :: r' -> is_digit a && is_digit b && is_digit c = false) ->
  badrun s j r.
Proof.
  intros r s j Hc Hs Hj Hno.
  destruct (span_digits r) as [pre post] eqn:Hsp.
  destruct (span_digits_spec _ _ _ Hsp) as (-> & Hd & Hpost).
  apply (ingroup pre s j (j + 3) post Hd Hc Hs Hj); [|exact Hpost].
  destruct pre as [|a [|b [|c pre']]]; cbn [length]; try lia.
  exfalso.
  specialize (Hno a b c (pre' ++ post) eq_refl).
  inversion Hd as [|? ? Ha Hd1]; subst. inversion Hd1 as [|? ? Hb Hd2]; subst.
  inversion Hd2 as [|? ? Hc' Hd3]; subst. unfold dig in *.
  rewrite Ha, Hb, Hc' in Hno. discriminate.
Qed.

Lemma open_group : forall s i r',
  sc s = None -> aligned_comma (prefix_len s) (comma_pos s) i = true -> 0 < i ->
  stops (44 :: r') -> badrun s i (44 :: r').
Proof.
  intros s i r' Hs Hal Hi Hstop.
  apply (badrun_step _ _ _ _ _ (step'_comma _ _ Hs Hal Hi)).
  apply refused.
  - cbn [comma_st comma_pos]. f_equal. lia.
  - exact Hs.
  - lia.
  - intros a b c r'' ->. apply (Hstop a b c r'' eq_refl).
Qed.

Theorem malformed_rejected : forall l, spec_scan l = None -> exists e, scan l = SErr e.
Proof.
  intros l H. rewrite spec_scan_eq in H.
  destruct (strip l) as [ng body] eqn:Hstrip.
  destruct (span_digits body) as [g0 r1] eqn:Hspan.
  fold (grp_ok g0) in H.
  destruct (if grp_ok g0 then groups r1 else ([], r1)) as [gs r2] eqn:Hgrp.
  destruct (int_phase _ _ _ _ _ _ _ Hstrip Hspan Hgrp)
    as (s2 & i2 & Hrun & Hlen & Hcp & Hfm & Hmt & Hsc & Hpl & Hsg & Hhd & Hnil & Hcons & Hstop).
  destruct (run'_strip _ _ _ Hstrip) as (_ & _ & Hng).
  destruct (span_digits_spec _ _ _ Hspan) as (Hbody & Hdg0 & Hr1).
  apply (badrun_scan l s2 i2 r2 Hrun Hlen).
  unfold tail in H. destruct r2 as [|x r3].
  - (* end of input with no digit *)
    right. exists s2. split; [reflexivity|]. right. rewrite Hhd.
    destruct (nonempty (g0 ++ gs)); [discriminate|reflexivity].
  - destruct (x =? 46) eqn:Ex.
    + (* a fraction *)
      apply N.eqb_eq in Ex. subst x.
      destruct (span_digits r3) as [fp r4] eqn:Hsp2.
      destruct (span_digits_spec _ _ _ Hsp2) as (Hr3 & Hdfp & Hr4).
      assert (Hc : comma_pos s2 = None \/ comma_pos s2 = Some i2).
      { rewrite Hcp. destruct (nonempty gs); auto. }
      destruct (frac_phase s2 i2 fp r4 (g0 ++ gs) Hsc Hc Hdfp Hmt)
        as (s3 & Hrun3 & Hcp3 & Hsc3 & Hfm3 & Hmt3 & Hpl3 & Hsg3 & Hhd3).
      unfold badrun. rewrite Hr3, Hrun3.
      destruct Hr4 as [->|(y & r5 & -> & Hnd)].
      * right. exists s3. split; [reflexivity|]. right. rewrite Hhd3, Hhd.
        destruct (g0 ++ gs) as [|u v]; [|discriminate].
        cbn [app nonempty orb] in *. destruct (nonempty fp); [discriminate|reflexivity].
      * left. cbn [run'].
        destruct (step'_stop_generic s3 (i2 + 1 + N.of_nat (length fp)) y) as [z Hz].
        -- assert (E : (i2 + 1 + N.of_nat (length fp) =? 0) = false) by lia.
           rewrite E. reflexivity.
        -- rewrite Hsc3. cbn [is_none]. rewrite andb_false_r. reflexivity.
        -- rewrite Hsc3. cbn [is_none]. rewrite andb_false_r. reflexivity.
        -- exact Hnd.
        -- rewrite Hz. eauto.
    + (* something else after the integer part *)
      destruct gs as [|g gs'].
      * destruct (Hnil eq_refl) as [Hi2 Hr2]. cbn [nonempty] in Hcp.
        assert (Hnd : is_digit x = false).
        { destruct Hr1 as [Hr1|(c & r & Hr1 & Hnd)]; [congruence|].
          rewrite Hr1 in Hr2. inversion Hr2; subst. exact Hnd. }
        destruct ((x =? 44) && grp_ok g0) eqn:E44.
        -- apply andb_prop in E44. destruct E44 as [E44 Eg]. apply N.eqb_eq in E44. subst x.
           apply open_group.
           ++ exact Hsc.
           ++ rewrite Hcp, Hpl. cbn [aligned_comma]. unfold grp_ok in Eg. lia.
           ++ unfold grp_ok in Eg. lia.
           ++ exact (Hstop Eg).
        -- left. cbn [run'].
           destruct (step'_stop_generic s2 i2 x) as [z Hz].
           ++ destruct (i2 =? 0) eqn:Ei; [|reflexivity].
              destruct (x =? 45) eqn:E45; [|reflexivity]. exfalso.
              apply N.eqb_eq in E45. subst x.
              destruct ng; cbn [p_of] in Hi2; [lia|].
              destruct g0 as [|u v]; [|cbn [length] in Hi2; lia].
              apply (Hng eq_refl r3). rewrite Hbody. cbn [app]. congruence.
           ++ rewrite Hsc, Hcp, Hpl. cbn [is_none aligned_comma].
              unfold grp_ok in E44. lia.
           ++ rewrite Ex. reflexivity.
           ++ exact Hnd.
           ++ rewrite Hz. eauto.
      * destruct (Hcons ltac:(discriminate)) as [Hi2 Eg]. cbn [nonempty] in Hcp.
        destruct (x =? 44) eqn:E44.
        -- apply N.eqb_eq in E44. subst x. apply open_group.
           ++ exact Hsc.
           ++ rewrite Hcp. cbn [aligned_comma]. apply N.eqb_refl.
           ++ exact Hi2.
           ++ exact (Hstop Eg).
        -- left. cbn [run']. unfold step'.
           assert (E0 : (i2 =? 0) = false) by lia.
           rewrite E0, E44, Ex, Hcp. cbn [andb oeqb]. rewrite N.eqb_refl. eauto.
Qed.

Theorem accept_only_wf : forall l d,
  scan l = SOk d -> exists t, spec_scan l = Some t /\ fits t = true /\ d = pdec_of t.
Proof.
  intros l d H. destruct (spec_scan l) as [t|] eqn:E.
  - pose proof (wf_accepted _ _ E) as H1. rewrite H in H1.
    destruct (fits t) eqn:Ef; [|discriminate]. inversion H1. eauto.
  - destruct (malformed_rejected _ E) as [e He]. congruence.
Qed.

Theorem too_big_rejected : forall l t,
  spec_scan l = Some t -> fits t = false -> scan l = SErr InvalidDecimal.
Proof. intros l t H Hf. rewrite (wf_accepted _ _ H), Hf. reflexivity. Qed.

Lemma pdec_of_value : forall t, (pdec_value (pdec_of t) == lit_value t)%Q.
Proof.
  intros t. unfold pdec_value, lit_value, pdec_of. cbn [neg mant scale].
  destruct (l_neg t); cbn [andb]; [|reflexivity].
  destruct (lit_mant t =? 0) eqn:E; cbn [negb]; [|reflexivity].
  apply N.eqb_eq in E. rewrite E. unfold Qeq. cbn [Qmult Qnum Qden Z.of_N]. lia.
Qed.

Theorem value_exact : forall l d,
  scan l = SOk d ->
  exists t, spec_scan l = Some t /\ (pdec_value d == lit_value t)%Q /\ scale d = lit_places t.
Proof.
  intros l d H. destruct (accept_only_wf _ _ H) as (t & Ht & Hf & ->).
  exists t. split; [exact Ht|]. split; [apply pdec_of_value|reflexivity].
Qed.
