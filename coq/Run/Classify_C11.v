(* Correspondence classifier for C11 (includes expand in place).  One verdict per case:
   0 Agree | 1 ModelMismatch | 2 PropertyFail | 101 known finding C11-K1 |
   9 harness error (pattern outside the model: `**`).
   A case is a tree of ledger files (abstracted: every file is its sequence of `Inc written` and
   `Ent id` entries), the root path, the uncut ledger (entry ids in order), and what
   Loader::load delivered on the in-memory file system and on a real directory.
   An id below 1000 stands for a transaction (recognisable in the reports by the amount it
   books), 1000.. for an account directive, 2000.. commodity directive, 3000.. apply tag,
   4000.. end apply tag, 5000.. top-level comment: the loader model treats all alike. *)
From Coq Require Import List NArith Bool.
From Okv Require Import Model.Glob Model.Load Model.LoadSpec Proofs.GlobProofs.
Import ListNotations.
Open Scope N_scope.

(* delivered (file index in c_fs, entry id) pairs; index 999 = a path that is not in the tree.
   st: 0 Ok | 1 IO NotFound | 2 IO other | 3 Parse | 4 other LoadError | 5 panic |
   6 the process running the loader aborted (stack overflow) or hung |
   7 LoadError::InvalidIncludeGlob *)
Inductive lobs := LObs (trace : list (N * N)) (st : N).

Record case := {
  c_kind : N;          (* 0 a cut of c_ledger: must load and deliver it
                          1 a cut with one include made to match nothing: must fail with NotFound
                          2 free-form tree
                          3 a cut with one include given an unclosed `[`: must fail with InvalidIncludeGlob
                          4 an acyclic tree whose files are included repeatedly (from different files and
                            from the same one, through canonical and non-canonical spellings): must load
                            and deliver c_ledger, the expansion the generator computed from its
                            construction — a second include of a file is not a cycle *)
  c_fs : fsys;
  c_root : path;
  c_ledger : list N;   (* the uncut ledger *)
  c_fake : lobs;       (* Loader<FakeFileSystem> *)
  c_real : lobs;       (* new_loader (ProdFileSystem) on a scratch directory *)
  c_bal : N;           (* every report (dates, register with running totals, register of one account,
                          balance, account list through the library; okane balance / register /
                          accounts / primitive flatten on disk), cut tree (both file systems) vs the
                          uncut ledger: 0 not compared | 1 all equal | 2 some report differs *)
  c_reg : list (list N) (* the transactions as Ledger::transactions() holds them after
                          report::process - the order `register` prints -, each named by its id:
                          [uncut ledger; tree in memory; tree on disk] *)
}.
Definition Case k fs root l f r b g :=
  {| c_kind := k; c_fs := fs; c_root := root; c_ledger := l; c_fake := f; c_real := r; c_bal := b;
     c_reg := g |}.

Definition pair_eqb (a b : N * N) : bool := (fst a =? fst b) && (snd a =? snd b).

Fixpoint list_eqb {A} (eqb : A -> A -> bool) (a b : list A) : bool :=
  match a, b with
  | [], [] => true
  | x :: a', y :: b' => eqb x y && list_eqb eqb a' b'
  | _, _ => false
  end.

Definition is_txn (id : N) : bool := id <? 1000.

(* the tree's transaction sequence (both file systems) is the uncut ledger's *)
Definition reg_same (c : case) : bool :=
  match c_reg c with
  | [u; f; r] => list_eqb N.eqb f u && list_eqb N.eqb r u
  | _ => false
  end.

(* what the composed model (Model/Pipeline.v run_files: entries are booked as delivered) says the
   register order is: the transactions of the delivery, in delivery order *)
Definition reg_model (c : case) : bool :=
  match c_reg c with
  | [u; f; r] => list_eqb N.eqb f (filter is_txn (c_ledger c))
  | _ => false
  end.

Definition lobs_eqb (a b : lobs) : bool :=
  match a, b with LObs t1 s1, LObs t2 s2 => list_eqb pair_eqb t1 t2 && (s1 =? s2) end.

Fixpoint prefix_eqb (a b : list N) : bool :=   (* a is a prefix of b *)
  match a, b with
  | [], _ => true
  | x :: a', y :: b' => (x =? y) && prefix_eqb a' b'
  | _, [] => false
  end.

Definition has_ent (id : N) (content : list entry) : bool :=
  existsb (fun e => match e with Ent j => j =? id | Inc _ => false end) content.

(* every delivered entry is a non-include entry of the file it is attributed to *)
Definition attributed (fs : fsys) (t : list (N * N)) : bool :=
  forallb (fun p => match nth_error fs (N.to_nat (fst p)) with
                    | Some (_, content) => has_ent (snd p) content
                    | None => false
                    end) t.

(* The property, evaluated on what the implementation did. *)
Definition spec_holds (c : case) : bool :=
  match c_fake c with
  | LObs t st =>
      lobs_eqb (c_fake c) (c_real c) &&          (* the real and the in-memory file system agree *)
      attributed (c_fs c) t &&
      negb ((st =? 5) || (st =? 6)) &&           (* the trees are acyclic: no crash, no hang *)
      match c_kind c with
      | 0 | 4 => (st =? 0) && list_eqb N.eqb (map snd t) (c_ledger c) && (c_bal c =? 1)
                 && reg_same c
      | 1 => (st =? 1) && prefix_eqb (map snd t) (c_ledger c)
      | 3 => (st =? 7) && prefix_eqb (map snd t) (c_ledger c)
      | _ => true
      end
  end.

Fixpoint index_of (p : path) (fs : fsys) (i : N) : N :=
  match fs with
  | [] => 999
  | (k, _) :: r => if path_eqb k p then i else index_of p r (i + 1)
  end.

Definition status_code (s : status) : N :=
  match s with
  | Done => 0
  | Failed IONotFound => 1
  | Failed RootLoadingPath => 4
  | Failed IncludeCycle => 4
  | Failed InvalidIncludeGlob => 7
  | Failed Unsupported => 90
  | OutOfFuel => 91
  end.

Definition model_obs (c : case) : lobs :=
  let r := loadc (S (S (length (c_fs c)))) (c_fs c) [] (c_root c) in
  LObs (map (fun d => (index_of (fst d) (c_fs c) 0, snd d)) (fst r)) (status_code (snd r)).

(* known finding C11-K1 (known_findings.json, code 1): a pattern with a star between a separator
   and a literal dot (star_dot_free = false, the hypothesis Props/C11.v C11_glob_dotfiles_component
   needs) matches, in the whole-path matcher of the in-memory file system, a key one of whose
   components begins with a dot; the real file system does not match it. *)
Definition has_dot_component (k : path) : bool :=
  existsb (fun c => match c with d :: _ => d =? DOT | [] => false end) k.

Definition known_class_star_dot (c : case) : bool :=
  existsb (fun f =>
    existsb (fun e =>
      match e with
      | Ent _ => false
      | Inc w =>
          match target_tokens (fst f) w with
          | None => false
          | Some ts =>
              negb (star_dot_free ts) &&
              existsb (fun k => has_dot_component k && matches_with ts (path_string k)) (map fst (c_fs c))
          end
      end) (snd f)) (c_fs c).

Definition classify (c : case) : N :=
  match model_obs c with
  | LObs _ st =>
      if 90 <=? st then 9
      else if negb (spec_holds c) then (if known_class_star_dot c then 101 else 2)
      else if lobs_eqb (c_fake c) (model_obs c)
              && (match c_kind c with 0 | 4 => reg_model c | _ => true end) then 0 else 1
  end.

Definition verdicts (cs : list case) : list N := map classify cs.
