(* Declarative side of property C12: what "the same ledger with aliases written for some
   canonical names" means, purely on the written syntax (no store). *)
From Coq Require Import List NArith ZArith Bool QArith Qcanon.
From Okv Require Import Base.Maps Base.Dec Model.Amount Model.Book Model.Intern Model.Named.
Import ListNotations.

(* declarations seen so far: (alias, canonical name it was declared for) *)
Definition decls := list (N * N).
Definition decls_of (name : N) (aliases : list N) : decls := map (fun a => (a, name)) aliases.

(* n' may be written where n was: the same name, or an alias declared for n *)
Definition name_subst (d : decls) (n n' : N) : Prop := n' = n \/ In (n', n) d.

Inductive vexpr_subst (d : decls) : vexpr -> vexpr -> Prop :=
| VS_paren e e' : expr_subst d e e' -> vexpr_subst d (VParen e) (VParen e')
| VS_num q : vexpr_subst d (VAmt q None) (VAmt q None)
| VS_amt q c c' : name_subst d c c' -> vexpr_subst d (VAmt q (Some c)) (VAmt q (Some c'))
with expr_subst (d : decls) : expr -> expr -> Prop :=
| ES_neg x x' : expr_subst d x x' -> expr_subst d (EUnaryNeg x) (EUnaryNeg x')
| ES_bin op l l' r r' : expr_subst d l l' -> expr_subst d r r' -> expr_subst d (EBin op l r) (EBin op l' r')
| ES_val v v' : vexpr_subst d v v' -> expr_subst d (EVal v) (EVal v').

Inductive ov_subst (d : decls) : option vexpr -> option vexpr -> Prop :=
| OVS_none : ov_subst d None None
| OVS_some v v' : vexpr_subst d v v' -> ov_subst d (Some v) (Some v').
Inductive ox_subst (d : decls) : option exchange -> option exchange -> Prop :=
| OXS_none : ox_subst d None None
| OXS_total v v' : vexpr_subst d v v' -> ox_subst d (Some (XTotal v)) (Some (XTotal v'))
| OXS_rate v v' : vexpr_subst d v v' -> ox_subst d (Some (XRate v)) (Some (XRate v')).

(* da: account declarations so far, dc: commodity declarations so far *)
Record posting_subst (da dc : decls) (p p' : posting) : Prop := {
  ps_account : name_subst da (p_account p) (p_account p');
  ps_amount : ov_subst dc (p_amount p) (p_amount p');
  ps_cost : ox_subst dc (p_cost p) (p_cost p');
  ps_lot : ox_subst dc (p_lot p) (p_lot p');
  ps_balance : ov_subst dc (p_balance p) (p_balance p') }.

Definition txn_subst (da dc : decls) (t t' : txn) : Prop :=
  t_date t' = t_date t /\ Forall2 (posting_subst da dc) (t_posts t) (t_posts t').

(* es' is es with declared aliases written at any subset of the uses that come AFTER the
   declaration; declarations themselves are untouched *)
Inductive alias_subst : decls -> decls -> list nentry -> list nentry -> Prop :=
| AS_nil da dc : alias_subst da dc [] []
| AS_account da dc name aliases es es' :
    alias_subst (decls_of name aliases ++ da) dc es es' ->
    alias_subst da dc (NAccount name aliases :: es) (NAccount name aliases :: es')
| AS_commodity da dc name aliases fmt es es' :
    alias_subst da (decls_of name aliases ++ dc) es es' ->
    alias_subst da dc (NCommodity name aliases fmt :: es) (NCommodity name aliases fmt :: es')
| AS_txn da dc t t' es es' :
    txn_subst da dc t t' ->
    alias_subst da dc es es' ->
    alias_subst da dc (NTxn t :: es) (NTxn t' :: es')
| AS_nop da dc es es' :
    alias_subst da dc es es' -> alias_subst da dc (NNop :: es) (NNop :: es').
