//! C06: every input yields output or a diagnostic: no crash, no hang.
//! The malformed stream, run through parse_ledger, FormatOptions::format, report::process +
//! balance/postings queries (FakeFileSystem) and Loader::load on include cycles, each case in
//! a child process with a 5 s watchdog.
use crate::c05::last_panic;
use crate::child::{self, ChildObs};
use crate::coq::{self, Shards, Stats};
use crate::parseobs;
use crate::pgen;
use crate::prng::Rng;
use crate::Opts;
use okane_core::{load, report};
use serde_json::{json, Value};
use std::collections::HashMap;
use std::path::PathBuf;

fn step<T>(f: impl FnOnce() -> Result<T, String> + std::panic::UnwindSafe) -> (String, Option<T>) {
    match std::panic::catch_unwind(f) {
        Ok(Ok(v)) => ("ok".to_string(), Some(v)),
        Ok(Err(e)) => (format!("err:{}", e.chars().take(80).collect::<String>()), None),
        Err(_) => (format!("panic:{}", last_panic()), None),
    }
}

fn process_and_query(files: &[(String, String)]) -> (String, String) {
    let files: Vec<(String, String)> = files.to_vec();
    let r = std::panic::catch_unwind(move || {
        let arena = bumpalo::Bump::new();
        let mut ctx = report::ReportContext::new(&arena);
        let mut map: HashMap<PathBuf, Vec<u8>> = HashMap::new();
        for (p, c) in &files {
            map.insert(PathBuf::from(p), c.as_bytes().to_vec());
        }
        let loader = load::Loader::new(PathBuf::from("/main.ledger"), load::FakeFileSystem::from(map))
            .with_error_renderer(annotate_snippets::Renderer::plain());
        let processed = report::process(&mut ctx, loader, &report::ProcessOptions::default());
        let out = match processed {
            Err(e) => (format!("err:{}", format!("{:?}", e).chars().take(60).collect::<String>()), "skip".to_string()),
            Ok(mut ledger) => {
                let q = std::panic::catch_unwind(std::panic::AssertUnwindSafe(|| {
                    let mut n = 0usize;
                    if let Ok(b) = ledger.balance(&ctx, &report::query::BalanceQuery::default()) {
                        n += b.into_owned().into_vec().len();
                    }
                    let dr = report::query::DateRange {
                        start: chrono::NaiveDate::from_ymd_opt(1, 1, 1),
                        end: chrono::NaiveDate::from_ymd_opt(9999, 12, 31),
                    };
                    let bq = report::query::BalanceQuery { conversion: None, date_range: dr };
                    let ok2 = ledger.balance(&ctx, &bq).map(|b| b.into_owned().into_vec().len());
                    let ps = ledger.postings(&ctx, &report::query::PostingQuery { account: None });
                    let mut s = String::new();
                    for p in ps {
                        s.push_str(&format!("{}", p.amount.as_inline_display()));
                    }
                    n + ok2.unwrap_or(0) + s.len()
                }));
                match q {
                    Ok(_) => ("ok".to_string(), "ok".to_string()),
                    Err(_) => ("ok".to_string(), format!("panic:{}", last_panic())),
                }
            }
        };
        out
    });
    match r {
        Ok(x) => x,
        Err(_) => (format!("panic:{}", last_panic()), "skip".to_string()),
    }
}

/// child side, mode "c06": input = JSON {"text":..., "process": bool}
pub fn child_observe(input: &[u8]) -> String {
    let v: Value = match serde_json::from_slice(input) {
        Ok(v) => v,
        Err(_) => return json!({"harness_error": "bad input"}).to_string(),
    };
    let text = v["text"].as_str().unwrap_or("").to_string();
    let t1 = text.clone();
    let (p, n) = step(move || {
        let o = parseobs::observe_parse(&t1);
        match &o.err {
            None => Ok(o.entries.len()),
            Some(e) => Err(e.rendered.lines().next().unwrap_or("").to_string()),
        }
    });
    let t2 = text.clone();
    let (f, _) = step(move || parseobs::format(&t2).map(|s| s.len()));
    let (pr, q) = if v["process"].as_bool().unwrap_or(true) {
        process_and_query(&[("/main.ledger".to_string(), text)])
    } else {
        ("skip".to_string(), "skip".to_string())
    };
    json!({"parse": p, "entries": n, "format": f, "process": pr, "query": q}).to_string()
}

/// child side, mode "c06load": input = JSON {"files": [[path, content], ...]}; root /main.ledger
pub fn child_load(input: &[u8]) -> String {
    let v: Value = match serde_json::from_slice(input) {
        Ok(v) => v,
        Err(_) => return json!({"harness_error": "bad input"}).to_string(),
    };
    let files: Vec<(String, String)> = v["files"]
        .as_array()
        .map(|a| a.iter().map(|f| (f[0].as_str().unwrap_or("").to_string(), f[1].as_str().unwrap_or("").to_string())).collect())
        .unwrap_or_default();
    let fs = files.clone();
    let (l, _) = step(move || {
        let mut map: HashMap<PathBuf, Vec<u8>> = HashMap::new();
        for (p, c) in &fs {
            map.insert(PathBuf::from(p), c.as_bytes().to_vec());
        }
        let loader = load::Loader::new(PathBuf::from("/main.ledger"), load::FakeFileSystem::from(map));
        let mut n = 0usize;
        let r: Result<(), load::LoadError> =
            loader.load(|_p, _c, _e: &okane_core::syntax::plain::LedgerEntry| {
                n += 1;
                Ok(())
            });
        r.map(|_| n).map_err(|e| format!("{}", e))
    });
    let (pr, q) = process_and_query(&files);
    json!({"load": l, "process": pr, "query": q}).to_string()
}

fn outcome(s: &str) -> &'static str {
    if s == "ok" {
        "ROk"
    } else if s.starts_with("err") {
        "RErr"
    } else if s.starts_with("panic") {
        "RPanic"
    } else {
        "RSkip"
    }
}

fn obs_term(co: &ChildObs) -> (String, Value, bool) {
    match co {
        ChildObs::Timeout => ("{| o_parse := RTimeout; o_format := RSkip; o_process := RSkip; o_query := RSkip |}".into(), json!("timeout"), true),
        ChildObs::Abort(s) => ("{| o_parse := RAbort; o_format := RSkip; o_process := RSkip; o_query := RSkip |}".into(), json!({ "abort": s }), true),
        ChildObs::Line(l) => {
            let v: Value = serde_json::from_str(l).unwrap_or(json!({}));
            let g = |k: &str| v[k].as_str().unwrap_or("harness").to_string();
            let t = format!(
                "{{| o_parse := {}; o_format := {}; o_process := {}; o_query := {} |}}",
                outcome(&g("parse")),
                outcome(&g("format")),
                outcome(&g("process")),
                outcome(&g("query"))
            );
            let bad = [g("parse"), g("format"), g("process"), g("query")].iter().any(|s| s.starts_with("panic"));
            (t, v, bad)
        }
    }
}

fn count_obs(st: &mut Stats, co: &ChildObs, v: &Value) {
    match co {
        ChildObs::Timeout => st.count("impl:timeout"),
        ChildObs::Abort(_) => st.count("impl:abort"),
        ChildObs::Line(_) => {
            for k in ["parse", "format", "process", "query", "load"] {
                if let Some(s) = v[k].as_str() {
                    let c = s.split(':').next().unwrap_or("");
                    st.count(&format!("{}:{}", k, c));
                }
            }
        }
    }
}

fn input_json(text: &str, process: bool) -> Vec<u8> {
    json!({"text": text, "process": process}).to_string().into_bytes()
}

struct Single {
    text: String,
    stream: &'static str,
    process: bool,
    /// Coq expression building the text, when it is not written out (deep nesting)
    built: Option<String>,
}

fn nested(pre: &str, open: &str, n: usize, mid: &str, close: &str, post: &str) -> Single {
    let text = format!("{}{}{}{}{}", pre, open.repeat(n), mid, close.repeat(n), post);
    let built = format!(
        "({} ++ rep {} {} ++ {} ++ rep {} {} ++ {})",
        parseobs::text(pre),
        n,
        parseobs::text(open),
        parseobs::text(mid),
        n,
        parseobs::text(close),
        parseobs::text(post)
    );
    Single { text, stream: "deep-nesting", process: n <= 200, built: Some(built) }
}

fn singles(o: &Opts, r: &mut Rng) -> Vec<Single> {
    let mut v = Vec::new();
    let corpus = [
        "2024/01/01 x",
        "2024/01/01 x\n  A  1 USD\n  B",
        "2024/01/01 x\n  A  0 USD\n  B  5 EUR\n",
        "2024/01/01 x\n  A  0 USD @@ 5 EUR\n  B\n",
        "2024/01/01 x\n  A  1 AAA @ (1 USD + 2 EUR)\n  B\n",
        "2024/01/01 x\n  A  0,000.05 USD\n  B\n",
        "2024/01/01 x\n  A  (1 USD / 0)\n  B\n",
        "2024/01/01 x\n  A  (1 USD / 0 USD)\n  B\n",
        "2024/01/01 x\n  A  1 USD @ 0 EUR\n  B\n",
        "2024/01/01 x\n  A  1 USD {0 EUR}\n  B\n",
        "2024/01/01 x\n  A  = 0\n",
        "include nothing-here.ledger\n",
        "include /main.ledger\n",
        "account",
        "account ",
        "apply tag",
        "end apply",
        "commodity USD\n  format",
        "2024/01/01 x\n  A  1 USD\n  B  -1 USD = (",
        "\u{feff}2024/01/01 x\n",
        "2024/01/01 x\r",
        "2024/01/01 x\n  A \n",
        "2024/01/01 x\n  A  1 USD {\n",
        "2024/01/01 x\n  A  1 USD {{1 EUR}\n",
        "2024/01/01 x\n  A  1 USD [2024/13/01]\n",
        "2024/01/01 x\n  A  1 USD (\n",
        "2024/01/01 (\n",
        "0000/01/01\n",
        "9999/12/31 x\n  A  1\n  B  -1\n",
    ];
    for t in corpus {
        v.push(Single { text: t.to_string(), stream: "corpus", process: true, built: None });
    }
    if let Ok(rd) = std::fs::read_dir(&o.corpus) {
        let mut files: Vec<_> = rd.filter_map(|e| e.ok()).map(|e| e.path()).collect();
        files.sort();
        for p in files {
            if let Ok(text) = std::fs::read_to_string(&p) {
                if let Ok(j) = serde_json::from_str::<Value>(&text) {
                    if let Some(t) = j.get("text").and_then(|x| x.as_str()) {
                        v.push(Single { text: t.to_string(), stream: "corpus-file", process: true, built: None });
                    }
                }
            }
        }
    }
    // deep nesting: parentheses, minus signs, braces
    let depths: &[usize] = if o.thorough { &[99, 100, 101, 1000, 5000, 20000, 100000] } else { &[100, 101, 1000, 100000] };
    for &n in depths {
        v.push(nested("2024/01/01 x\n  A  ", "(", n, "1 USD", ")", "\n  B\n"));
        v.push(nested("2024/01/01 x\n  A  ", "(", n, "", "", "\n"));
        v.push(nested("2024/01/01 x\n  A  ", "(-", n, "1", ")", "\n  B\n"));
        v.push(nested("2024/01/01 x\n  A  (", "-", n, "1", "", ")\n  B\n"));
        v.push(nested("2024/01/01 x\n  A  1 USD = ", "( ", n, "1", " )", "\n"));
        v.push(nested("2024/01/01 x\n  A  1 USD @ ", "(", n, "1 EUR", ")", "\n  B\n"));
        v.push(nested("2024/01/01 x\n  A  1 USD {", "(", n, "1 EUR", ")", "}\n  B\n"));
        v.push(nested("2024/01/01 x\n  A  1 USD ", "(", n, "n", ")", "\n"));
        v.push(nested("2024/01/01 ", "(", n, "c", ")", " p\n"));
        v.push(nested("", ";", n, "", "\n", ""));
        v.push(nested("2024/01/01 x\n", "  A  1 USD\n", n.min(300), "", "", "  B\n"));
    }
    // huge and tiny literals
    for n in [27usize, 28, 29, 30, 38, 39, 40, 100, 1000, 100000] {
        let d = "9".repeat(n);
        for t in [
            format!("2024/01/01 x\n  A  {} USD\n  B\n", d),
            format!("2024/01/01 x\n  A  0.{} USD\n  B\n", d),
            format!("2024/01/01 x\n  A  -{}.{} USD\n  B\n", d, d),
            format!("2024/01/01 x\n  A  1 USD @ {} EUR\n  B\n", d),
            format!("commodity USD\n  format {}.00 USD\n", d),
        ] {
            v.push(Single { text: t, stream: "huge-literal", process: n <= 12, built: None });
        }
    }
    // zero rates / amounts in every position
    for a in ["0", "0.00", "-0", "1"] {
        for c in ["@ 0 EUR", "@@ 0 EUR", "{0 EUR}", "{{0 EUR}}", "@ 0", "{0}", "@ (1 EUR - 1 EUR)", "= 0", "= 0 USD"] {
            v.push(Single {
                text: format!("2024/01/01 x\n  A  {} USD {}\n  B\n2024/01/02 y\n  A  1 USD\n  B  -1 USD\n", a, c),
                stream: "zero-positions",
                process: true,
                built: None,
            });
        }
    }
    // random strings
    let n = if o.thorough { 6000 } else { 600 };
    for k in 0..n {
        v.push(Single { text: pgen::random_text(r, k % 2 == 0), stream: "random", process: true, built: None });
    }
    // interleavings of valid and invalid lines
    let n = if o.thorough { 3000 } else { 300 };
    for k in 0..n {
        let mut rr = Rng::new(o.seed.wrapping_mul(7919).wrapping_add(k as u64), 606);
        let mut g = pgen::Gen::new(&mut rr, 200);
        let text = g.ledger(4);
        let mut lines: Vec<String> = text.split_inclusive('\n').map(|s| s.to_string()).collect();
        let edits = 1 + r.below(3);
        for _ in 0..edits {
            if lines.is_empty() {
                break;
            }
            let i = r.below(lines.len() as u64) as usize;
            match r.below(4) {
                0 => {
                    lines.remove(i);
                }
                1 => {
                    let mut junk = pgen::random_text(r, true);
                    junk.push('\n');
                    lines.insert(i, junk);
                }
                2 => {
                    let j = r.below(lines.len() as u64) as usize;
                    lines.swap(i, j);
                }
                _ => {
                    lines[i] = pgen::mutate(r, &lines[i]);
                }
            }
        }
        v.push(Single { text: lines.concat(), stream: "interleaved", process: true, built: None });
    }
    v
}

fn load_cases(o: &Opts, r: &mut Rng) -> Vec<Vec<(String, String)>> {
    let mut v: Vec<Vec<(String, String)>> = Vec::new();
    let f = |p: &str, c: &str| (p.to_string(), c.to_string());
    v.push(vec![f("/main.ledger", "include main.ledger\n")]);
    v.push(vec![f("/main.ledger", "include /main.ledger\n")]);
    v.push(vec![f("/main.ledger", "include ./main.ledger")]);
    v.push(vec![f("/main.ledger", "include *.ledger\n")]);
    v.push(vec![f("/main.ledger", "include a.ledger\n"), f("/a.ledger", "include main.ledger\n")]);
    v.push(vec![f("/main.ledger", "include d/a.ledger\n"), f("/d/a.ledger", "include ../main.ledger\n")]);
    v.push(vec![f("/main.ledger", "include a.ledger\n"), f("/a.ledger", "include b.ledger\n"), f("/b.ledger", "include a.ledger\n")]);
    v.push(vec![f("/main.ledger", "include a.ledger\ninclude a.ledger\n"), f("/a.ledger", "2024/01/01 x\n")]);
    v.push(vec![f("/main.ledger", "include missing.ledger\n")]);
    v.push(vec![f("/main.ledger", "include [.ledger\n")]);
    let n = if o.thorough { 300 } else { 40 };
    for _ in 0..n {
        // random include graph over k files
        let k = 1 + r.below(5) as usize;
        let names: Vec<String> = (0..k).map(|i| if i == 0 { "/main.ledger".to_string() } else { format!("/f{}.ledger", i) }).collect();
        let mut files = Vec::new();
        for i in 0..k {
            let mut c = String::new();
            let m = r.below(3);
            for _ in 0..m {
                if r.chance(1, 2) {
                    c.push_str("2024/01/01 x\n  A  1 USD\n  B\n");
                }
                let j = r.below(k as u64 + 1) as usize;
                if j < k {
                    c.push_str(&format!("include {}\n", &names[j][1..]));
                } else if r.chance(1, 2) {
                    c.push_str("include *.ledger\n");
                } else {
                    c.push_str("include nowhere.ledger\n");
                }
            }
            files.push((names[i].clone(), c));
        }
        v.push(files);
    }
    v
}

pub fn run(o: &Opts) {
    let mut st = Stats::new();
    let mut sh = Shards::new(&o.out, o.shards, &crate::c05::header("Classify_C06"));
    st.rule = "cases: every prefix (cut at every character) of generated valid ledgers; random strings over the ledger alphabet and arbitrary Unicode; generated ledgers with deleted/inserted/swapped/mutated lines; 100..100000 nested parentheses, minus signs and repeated lines; literals of 27..100000 digits; zero rates and amounts in every position; include graphs with self-includes and cycles (Loader::load on a FakeFileSystem). Each runs in a child process (5 s watchdog): parse_ledger, FormatOptions::format, report::process, balance and postings queries. non-trivial = the text is not accepted as a fully valid ledger (an error path ran); distinct by text".to_string();
    st.assumptions.push("report::process and the queries are skipped for literals beyond 12 digits and nesting beyond 200 (the property exempts numbers outside the representable decimal range)".to_string());
    let mut r = Rng::new(o.seed, 6);
    // replay of one recorded text
    let replay: Option<String> = o
        .extra
        .iter()
        .position(|a| a == "--replay")
        .and_then(|k| o.extra.get(k + 1))
        .and_then(|p| std::fs::read_to_string(p).ok())
        .and_then(|t| serde_json::from_str::<Value>(&t).ok())
        .and_then(|v| v.get("text").and_then(|x| x.as_str()).map(|s| s.to_string()));
    if let Some(text) = replay {
        let obs = child::run_batch("c06", &[input_json(&text, true)], 5000);
        let (t, v, _) = obs_term(&obs[0]);
        count_obs(&mut st, &obs[0], &v);
        st.eval(&text, true);
        let rep = json!({"property": "C06", "text": text, "stream": "replay", "impl": v});
        sh.push(format!("Single {} {}", parseobs::text(&text), t), vec![rep]);
        sh.finish(&st);
        return;
    }
    // 1. single texts
    let items = singles(o, &mut r);
    for chunk in items.chunks(100) {
        let inputs: Vec<Vec<u8>> = chunk.iter().map(|i| input_json(&i.text, i.process)).collect();
        let obs = child::run_batch("c06", &inputs, 5000);
        for (it, co) in chunk.iter().zip(obs.iter()) {
            let (t, v, bad) = obs_term(co);
            count_obs(&mut st, co, &v);
            st.count(&format!("stream:{}", it.stream));
            let accepted = v["parse"].as_str() == Some("ok");
            st.eval(&it.text, !accepted);
            let shown: String = if it.text.len() > 400 { format!("{}… ({} bytes)", it.text.chars().take(200).collect::<String>(), it.text.len()) } else { it.text.clone() };
            let rep = json!({"property": "C06", "text": if it.text.len() <= 20000 { json!(it.text) } else { json!(null) }, "shown": shown,
                             "stream": it.stream, "impl": v, "reproduce": "parse_ledger / FormatOptions::format / report::process on a FakeFileSystem"});
            if !accepted && !bad {
                st.sample(rep.clone(), 4);
            }
            let text_term = match &it.built {
                Some(b) => b.clone(),
                None => parseobs::text(&it.text),
            };
            sh.push(format!("Single {} {}", text_term, t), vec![rep]);
        }
    }
    // 2. every prefix of generated valid ledgers
    let n = if o.thorough { 60 } else { 6 };
    for k in 0..n {
        let mut rr = Rng::new(o.seed.wrapping_mul(104729).wrapping_add(k as u64), 607);
        let mut g = pgen::Gen::new(&mut rr, if k % 2 == 0 { 0 } else { 300 });
        let mut text = g.ledger(3);
        if text.chars().count() > 700 {
            text = text.chars().take(700).collect();
        }
        let chars: Vec<char> = text.chars().collect();
        let prefixes: Vec<String> = (0..=chars.len()).map(|k| chars[..k].iter().collect()).collect();
        let inputs: Vec<Vec<u8>> = prefixes.iter().map(|p| input_json(p, true)).collect();
        let obs = child::run_batch("c06", &inputs, 5000);
        let mut terms = Vec::new();
        let mut reps = Vec::new();
        for (p, co) in prefixes.iter().zip(obs.iter()) {
            let (t, v, _bad) = obs_term(co);
            count_obs(&mut st, co, &v);
            st.count("stream:prefix");
            let accepted = v["parse"].as_str() == Some("ok");
            st.eval(p, !accepted);
            terms.push(t);
            reps.push(json!({"property": "C06", "text": p, "stream": "prefix", "impl": v,
                             "reproduce": "parse_ledger / FormatOptions::format / report::process on a FakeFileSystem"}));
        }
        sh.push(format!("Prefixes {} {}", parseobs::text(&text), coq::list(terms)), reps);
    }
    // 3. include graphs
    let graphs = load_cases(o, &mut r);
    let inputs: Vec<Vec<u8>> = graphs
        .iter()
        .map(|files| json!({"files": files.iter().map(|(p, c)| json!([p, c])).collect::<Vec<_>>()}).to_string().into_bytes())
        .collect();
    let obs = child::run_batch("c06load", &inputs, 5000);
    for (files, co) in graphs.iter().zip(obs.iter()) {
        let (t, v) = match co {
            ChildObs::Timeout => ("RTimeout".to_string(), json!("timeout")),
            ChildObs::Abort(s) => ("RAbort".to_string(), json!({ "abort": s })),
            ChildObs::Line(l) => {
                let v: Value = serde_json::from_str(l).unwrap_or(json!({}));
                let worst = ["load", "process", "query"].iter().map(|k| outcome(v[*k].as_str().unwrap_or("harness"))).fold("ROk", |a, b| {
                    if a == "RPanic" || b == "RPanic" {
                        "RPanic"
                    } else if a == "RErr" || b == "RErr" {
                        "RErr"
                    } else {
                        a
                    }
                });
                (worst.to_string(), v)
            }
        };
        count_obs(&mut st, co, &v);
        st.count("stream:include-graph");
        st.eval(files, t != "ROk");
        let rep = json!({"property": "C06", "files": files, "stream": "include-graph", "impl": v,
                         "reproduce": "Loader::new(\"/main.ledger\", FakeFileSystem).load / report::process"});
        sh.push(format!("LoadCase {}", t), vec![rep]);
    }
    sh.finish(&st);
}
