(* Decoder for text packed by the harness (coq::packed): 7 bytes per Uint63 literal,
   little endian.  Evaluation glue only: Uint63 must not appear in models or theorems. *)
From Coq Require Import List NArith ZArith Uint63.
Import ListNotations.

Definition byte_of (w : int) (k : nat) : N :=
  Z.to_N (Uint63.to_Z (Uint63.land (Uint63.lsr w (Uint63.of_Z (8 * Z.of_nat k))) 255%uint63)).

Fixpoint take_bytes (n : nat) (k : nat) (w : int) : list N :=
  match n with
  | O => []
  | S n' => byte_of w k :: take_bytes n' (S k) w
  end.

Fixpoint unpack_words (len : nat) (ws : list int) : list N :=
  match ws with
  | [] => []
  | w :: r => let n := Nat.min len 7 in take_bytes n 0 w ++ unpack_words (len - n) r
  end.

(* bytes *)
Definition mk_packed (len : nat) (ws : list int) : list N := unpack_words len ws.

(* UTF-8 bytes -> Unicode scalar values; malformed sequences yield U+FFFD and resynchronise *)
Fixpoint utf8_decode_fuel (fuel : nat) (l : list N) : list N :=
  match fuel with
  | O => []
  | S f =>
      match l with
      | [] => []
      | b0 :: r =>
          if (b0 <? 128)%N then b0 :: utf8_decode_fuel f r
          else if (b0 <? 192)%N then 65533%N :: utf8_decode_fuel f r
          else if (b0 <? 224)%N then
            match r with
            | b1 :: r' => ((b0 - 192) * 64 + (b1 - 128))%N :: utf8_decode_fuel f r'
            | _ => [65533%N]
            end
          else if (b0 <? 240)%N then
            match r with
            | b1 :: b2 :: r' => ((b0 - 224) * 4096 + (b1 - 128) * 64 + (b2 - 128))%N :: utf8_decode_fuel f r'
            | _ => [65533%N]
            end
          else
            match r with
            | b1 :: b2 :: b3 :: r' =>
                ((b0 - 240) * 262144 + (b1 - 128) * 4096 + (b2 - 128) * 64 + (b3 - 128))%N :: utf8_decode_fuel f r'
            | _ => [65533%N]
            end
      end
  end.
Definition utf8_decode (l : list N) : list N := utf8_decode_fuel (length l) l.

(* text as code points *)
Definition mk_text (len : nat) (ws : list int) : list N := utf8_decode (mk_packed len ws).

(* names used by the printer slice *)
Definition unpack_text (bytes : list N) : list N := utf8_decode bytes.
Definition packed_ok (len : nat) (ws : list int) : bool :=
  (Nat.leb len (7 * length ws)) && (Nat.ltb (7 * (length ws - 1)) len || Nat.eqb (length ws) 0).
