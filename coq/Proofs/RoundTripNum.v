(* C05 round trip, leaves: the numeric literal in context, dates, amounts. *)
From Coq Require Import QArith.
From Coq Require Import List NArith ZArith Bool Lia Arith ZifyBool ZifyN ZifyNat.
From Okv Require Import Model.Lit Model.LitSpec Model.Syntax Model.Comb Model.ParseExpr Model.Display
  Model.DocGrammar Model.RoundTripSpec
  Proofs.LitProofs Proofs.LitShow Proofs.LitShowGen Proofs.CombSpec Proofs.DocAccept Proofs.RoundTripBase.
Import ListNotations.
Open Scope N_scope.

Local Arguments N.add : simpl never.
Local Arguments N.mul : simpl never.
Local Arguments N.sub : simpl never.
Local Arguments N.leb : simpl never.
Local Arguments N.ltb : simpl never.
Local Arguments N.eqb : simpl never.
Local Arguments N.div : simpl never.
Local Arguments N.modulo : simpl never.
Local Arguments Z.mul : simpl never.
Local Arguments Z.add : simpl never.
Local Arguments N.of_nat : simpl never.

(* ---- the number ---- *)
Lemma big4_big : forall d, big4 d = LitShow.big d.
Proof. reflexivity. Qed.

Lemma wf_num_pdec : forall d, wf_num d = true -> wf_pdec d.
Proof.
  intros d H. unfold wf_num in H. rewrite !andb_true_iff in H. destruct H as [[[H1 H2] H3] H4].
  unfold wf_pdec. split; [lia |]. split; [apply Nat.leb_le; exact H2 |]. split.
  - intros Hn. rewrite Hn in H3. simpl in H3. lia.
  - intros Hp. rewrite Hp in H4. rewrite big4_big in H4. now apply negb_true_iff in H4.
Qed.

Lemma pdec_wf_num : forall d, wf_pdec d -> wf_num d = true.
Proof.
  intros d (H1 & H2 & H3 & H4). unfold wf_num. rewrite !andb_true_iff. repeat split.
  - lia.
  - now apply Nat.leb_le.
  - destruct (neg d); [| reflexivity]. simpl. specialize (H3 eq_refl). lia.
  - destruct (pfmt d); [reflexivity |]. rewrite big4_big, H4; reflexivity.
Qed.

Lemma dig_dec : forall l, Forall dig l -> all is_decimal_char l.
Proof.
  intros l H. unfold all. rewrite forallb_forall. rewrite Forall_forall in H. intros c Hc.
  specialize (H c Hc). unfold dig in H. unfold is_decimal_char.
  change (Comb.is_digit c) with (Lit.is_digit c). rewrite H. reflexivity.
Qed.

Lemma enc_dec : forall T, Forall dig (flat T) -> all is_decimal_char (enc T).
Proof.
  induction T as [| [[a b] c] T IH]; intros H; [reflexivity |].
  cbn [flat] in H. inversion H as [| ? ? Ha H1]; subst. inversion H1 as [| ? ? Hb H2]; subst.
  inversion H2 as [| ? ? Hc H3]; subst. cbn [enc].
  apply all_cons. split; [reflexivity |].
  change (a :: b :: c :: enc T) with ([a; b; c] ++ enc T). apply all_app. split; [| auto].
  apply dig_dec. repeat constructor; assumption.
Qed.

(* the printed number: an optional minus, then a non-empty run of [0-9,.] that starts with a digit *)
Lemma show_shape : forall d, exists c body,
  show d = (if neg d then [45] else []) ++ c :: body /\
  Lit.is_digit c = true /\ all is_decimal_char (c :: body).
Proof.
  intros d.
  destruct (show_decomp d) as (g0 & T & Hshow & _ & Hdg0 & Hg0ne & HdT & _ & Hdf & _).
  destruct g0 as [| c g0']; [congruence |].
  exists c, (g0' ++ enc T ++ tailpart (fp_of d)). split; [exact Hshow |].
  inversion Hdg0 as [| ? ? Hc Hr]; subst. split; [exact Hc |].
  change (c :: g0' ++ enc T ++ tailpart (fp_of d)) with ((c :: g0') ++ enc T ++ tailpart (fp_of d)).
  apply all_app. split; [apply dig_dec; exact Hdg0 |].
  apply all_app. split; [apply enc_dec; exact HdT |].
  unfold tailpart. destruct (fp_of d) as [| f fp] eqn:E; [reflexivity |].
  apply all_cons. split; [reflexivity |]. apply dig_dec. exact Hdf.
Qed.

Lemma digit_not_minus : forall c, Lit.is_digit c = true -> (45 =? c) = false.
Proof. intros c H. unfold Lit.is_digit in H. lia. Qed.

Lemma decimal_token_show : forall d k, starts_not is_decimal_char k ->
  decimal_token (show d ++ k) = POk (show d) k.
Proof.
  intros d k Hk. destruct (show_shape d) as (c & body & Hs & Hc & Hb).
  unfold decimal_token, try_map.
  assert (E : (opt (chr 45) ;;; take_while0 is_decimal_char) (show d ++ k) = POk (c :: body) k).
  { rewrite Hs. unfold bind. destruct (neg d); cbn [app].
    - rw (opt_ok _ (chr 45) _ _ _ (chr_ok 45 (c :: body ++ k))).
      apply (take_while0_ok is_decimal_char (c :: body) k); assumption.
    - assert (F : chr 45 (c :: body ++ k) = PErr false 0 (c :: body ++ k)).
      { apply chr_fail. simpl. apply digit_not_minus. exact Hc. }
      rw (opt_none _ _ _ _ _ F).
      apply (take_while0_ok is_decimal_char (c :: body) k); assumption. }
  rewrite (taken_ok _ _ _ _ _ E).
  destruct (show d) eqn:Es; [| reflexivity].
  exfalso. rewrite Hs in Es. destruct (neg d); discriminate.
Qed.

Theorem pretty_decimal_show : forall d k, wf_num d = true -> starts_not is_decimal_char k ->
  exists d', pretty_decimal (show d ++ k) = POk d' k /\ same_num d d'.
Proof.
  intros d k Hwf Hk. destruct (show_scan d (wf_num_pdec d Hwf)) as (d' & Hscan & Hm & Hs & Hn & Hf).
  exists d'. split.
  - unfold pretty_decimal, try_map. rewrite (decimal_token_show d k Hk). rewrite Hscan. reflexivity.
  - unfold same_num. rewrite big4_big. auto.
Qed.

(* what the scanner returns is a well-formed number *)
Lemma scan_wf_num : forall l d, scan l = SOk d -> wf_num d = true.
Proof. intros l d H. apply pdec_wf_num. eapply scan_wf; eauto. Qed.

(* ---- same numbers print the same ---- *)
Lemma group3_short : forall ip, (length ip <= 3)%nat -> group3 ip = ip.
Proof.
  intros ip H. unfold group3.
  assert (E : group3_rev (rev ip) = rev ip).
  { assert (L : (length (rev ip) <= 3)%nat) by (rewrite rev_length; exact H).
    destruct (rev ip) as [| a [| b [| c [| e r]]]]; try reflexivity. simpl in L. lia. }
  rewrite E. apply rev_involutive.
Qed.

Lemma small_ip : forall d, LitShow.big d = false -> (length (ip_of d) <= 3)%nat.
Proof.
  intros d H. unfold LitShow.big in H.
  destruct (ds_of_facts d) as (Hdig & Hlen & _ & _).
  assert (Hl : (length (digits_of (mant d)) <= 3 + scale d)%nat).
  { destruct (Nat.le_gt_cases (length (digits_of (mant d))) (3 + scale d)) as [L | L]; [exact L |].
    exfalso.
    (* a number with more than 3 + scale digits and no leading zero is big *)
    assert (B : pow10_N (3 + scale d) <= mant d).
    { clear H.
      assert (G : forall f n acc k,
                    (S k + length acc < length (digits_fuel f n acc))%nat -> pow10_N (S k) <= n).
      { induction f as [| f IH]; intros n acc k Hk; cbn [digits_fuel] in *; [lia |].
        destruct (n <? 10) eqn:E.
        - cbn [length] in Hk. lia.
        - destruct k as [| k]; [cbn [pow10_N]; lia |].
          assert (Hk' : (S k + length ((48 + n mod 10)%N :: acc)
                         < length (digits_fuel f (n / 10)%N ((48 + n mod 10)%N :: acc)))%nat)
            by (cbn [length]; lia).
          specialize (IH (n / 10)%N _ k Hk'). cbn [pow10_N] in *.
          pose proof (N.mul_div_le n 10 ltac:(lia)). lia. }
      unfold digits_of in L.
      change (3 + scale d)%nat with (S (2 + scale d)).
      apply (G (S (N.size_nat (mant d))) (mant d) [] (2 + scale d)%nat). cbn [length]. lia. }
    lia. }
  unfold ip_of, ds_of, pad_zeros in *. rewrite firstn_length, app_length, repeat_length. lia.
Qed.

Theorem same_num_show : forall d d', same_num d d' -> show d' = show d.
Proof.
  intros d d' (Hm & Hs & Hn & Hf). rewrite big4_big in Hf.
  assert (Eds : ds_of d' = ds_of d) by (unfold ds_of; rewrite Hm, Hs; reflexivity).
  assert (Eip : ip_of d' = ip_of d) by (unfold ip_of; rewrite Eds, Hs; reflexivity).
  assert (Efp : fp_of d' = fp_of d) by (unfold fp_of; rewrite Eds, Hs; reflexivity).
  rewrite !show_eq, Hn, Eip, Efp. f_equal. f_equal.
  destruct (LitShow.big d) eqn:B.
  - rewrite (Hf eq_refl). reflexivity.
  - pose proof (group3_short _ (small_ip d B)) as G. rewrite G.
    destruct (pfmt d) as [[|]|], (pfmt d') as [[|]|]; reflexivity.
Qed.

Lemma same_num_refl : forall d, same_num d d.
Proof. intros d. unfold same_num. auto. Qed.
Lemma same_num_sym : forall d d', same_num d d' -> same_num d' d.
Proof.
  intros d d' (Hm & Hs & Hn & Hf). unfold same_num, big4 in *. rewrite Hm, Hs in *.
  repeat split; auto. intros B. symmetry. auto.
Qed.
Lemma same_num_trans : forall a b c, same_num a b -> same_num b c -> same_num a c.
Proof.
  intros a b c (Hm & Hs & Hn & Hf) (Hm' & Hs' & Hn' & Hf'). unfold same_num, big4 in *.
  rewrite Hm, Hs in *. repeat split; try congruence. intros B. rewrite (Hf' B). auto.
Qed.
Lemma same_num_wf : forall d d', same_num d d' -> wf_num d' = true -> pfmt d' = None -> big4 d = false.
Proof.
  intros d d' (Hm & Hs & Hn & Hf) W P. unfold wf_num in W. rewrite P in W.
  rewrite !andb_true_iff in W. destruct W as [_ W]. apply negb_true_iff in W.
  unfold big4 in *. rewrite Hm, Hs in W. exact W.
Qed.

(* ---- dates ---- *)
Lemma digits_fuel_len : forall f n acc k, (1 <= k)%nat -> n < pow10_N k ->
  (length (digits_fuel f n acc) <= k + length acc)%nat.
Proof.
  induction f as [| f IH]; intros n acc k Hk Hn; cbn [digits_fuel]; [lia |].
  destruct (n <? 10) eqn:E; [cbn [length]; lia |].
  destruct k as [| [| k]]; [lia | cbn [pow10_N] in Hn; lia |].
  assert (Hn' : n / 10 < pow10_N (S k)).
  { cbn [pow10_N] in *. apply N.div_lt_upper_bound; lia. }
  specialize (IH (n / 10) ((48 + n mod 10) :: acc) (S k) ltac:(lia) Hn'). cbn [length] in IH. lia.
Qed.

Lemma digits_of_len : forall n k, (1 <= k)%nat -> n < pow10_N k -> (length (digits_of n) <= k)%nat.
Proof.
  intros n k Hk Hn. pose proof (digits_fuel_len (S (N.size_nat n)) n [] k Hk Hn) as H.
  cbn [length] in H. unfold digits_of. lia.
Qed.

Lemma pad_digits_val : forall w n, ParseExpr.digits_val (pad_zeros w (digits_of n)) = n.
Proof.
  intros. change (ParseExpr.digits_val (pad_zeros w (digits_of n)))
    with (LitSpec.digits_val (pad_zeros w (digits_of n))).
  unfold pad_zeros. rewrite digits_val_dv, dv_app, dv_zeros, <- digits_val_dv. apply digits_of_val.
Qed.

Lemma pad_digits_len : forall w n, (1 <= w)%nat -> n < pow10_N w -> length (pad_zeros w (digits_of n)) = w.
Proof.
  intros w n Hw Hn. pose proof (digits_of_len n w Hw Hn). unfold pad_zeros.
  rewrite app_length, repeat_length. lia.
Qed.

Lemma pad_digits_all : forall w n, all Comb.is_digit (pad_zeros w (digits_of n)).
Proof.
  intros. unfold all, pad_zeros. rewrite forallb_app. apply andb_true_iff. split.
  - apply all_repeat. reflexivity.
  - apply forallb_forall. intros c Hc. pose proof (digits_of_dig n) as D. rewrite Forall_forall in D.
    exact (D c Hc).
Qed.

Lemma digits_fuel_ne : forall f n acc, digits_fuel (S f) n acc <> [].
Proof.
  induction f as [| f IH]; intros n acc; cbn [digits_fuel]; destruct (n <? 10); try discriminate.
  apply IH.
Qed.

Lemma pad_digits_ne : forall w n, pad_zeros w (digits_of n) <> [].
Proof.
  intros w n E. unfold pad_zeros in E. apply app_eq_nil in E. destruct E as [_ E].
  exact (digits_fuel_ne _ _ _ E).
Qed.

Lemma digit1_pad : forall w n k, (1 <= w)%nat -> starts_not Comb.is_digit k ->
  digit1 (pad_zeros w (digits_of n) ++ k) = POk (pad_zeros w (digits_of n)) k.
Proof.
  intros. unfold digit1. apply take_while1_ok; auto using pad_digits_ne, pad_digits_all.
Qed.

Lemma fmt_date_wf : forall d, wf_date d = true ->
  fmt_date d = pad_zeros 4 (digits_of (Z.to_N (d_year d))) ++ [47] ++
               pad_zeros 2 (digits_of (d_month d)) ++ [47] ++ pad_zeros 2 (digits_of (d_day d)).
Proof.
  intros d H. unfold wf_date in H. rewrite !andb_true_iff in H.
  unfold fmt_date, fmt_year, fmt_two.
  assert (E : ((0 <=? d_year d) && (d_year d <? 10000))%Z = true) by lia.
  rewrite E. reflexivity.
Qed.

Lemma days_in_month_le : forall y m, m <= 12 -> days_in_month y m <= 31.
Proof.
  intros y m H.
  assert (C : m = 0 \/ m = 1 \/ m = 2 \/ m = 3 \/ m = 4 \/ m = 5 \/ m = 6 \/ m = 7 \/ m = 8 \/
              m = 9 \/ m = 10 \/ m = 11 \/ m = 12) by lia.
  unfold days_in_month.
  repeat (destruct C as [-> | C]; [try (destruct (is_leap y)); lia |]). subst.
  lia.
Qed.

Theorem date_fmt : forall d k, wf_date d = true -> starts_not Comb.is_digit k ->
  ParseExpr.date (fmt_date d ++ k) = POk d k.
Proof.
  intros d k H Hk. rewrite (fmt_date_wf d H). unfold wf_date in H. rewrite !andb_true_iff in H.
  destruct H as [[[[[Hy0 Hy1] Hm0] Hm1] Hd0] Hd1].
  set (Y := pad_zeros 4 (digits_of (Z.to_N (d_year d)))).
  set (M := pad_zeros 2 (digits_of (d_month d))).
  set (D := pad_zeros 2 (digits_of (d_day d))).
  assert (E : date_with 47 ((Y ++ [47] ++ M ++ [47] ++ D) ++ k) = POk (Y, M, D) k).
  { unfold date_with, bind. rewrite <- !app_assoc. cbn [app]. unfold Y, M, D.
    rw (digit1_pad 4 (Z.to_N (d_year d))
          (47 :: pad_zeros 2 (digits_of (d_month d)) ++ 47 :: pad_zeros 2 (digits_of (d_day d)) ++ k)
          ltac:(lia) ltac:(reflexivity)).
    rw (chr_ok 47 (pad_zeros 2 (digits_of (d_month d)) ++ 47 :: pad_zeros 2 (digits_of (d_day d)) ++ k)).
    rw (digit1_pad 2 (d_month d) (47 :: pad_zeros 2 (digits_of (d_day d)) ++ k) ltac:(lia) ltac:(reflexivity)).
    rw (chr_ok 47 (pad_zeros 2 (digits_of (d_day d)) ++ k)).
    rw (digit1_pad 2 (d_day d) k ltac:(lia) Hk). reflexivity. }
  unfold ParseExpr.date, try_map. rewrite (alt_l _ _ _ _ _ _ E).
  unfold chrono_date.
  assert (LY : length Y = 4%nat).
  { apply pad_digits_len; [lia |]. cbn [pow10_N]. lia. }
  pose proof (days_in_month_le (Z.to_N (d_year d)) (d_month d) ltac:(lia)) as DM.
  assert (LM : length M = 2%nat).
  { apply pad_digits_len; [lia |]. cbn [pow10_N]. lia. }
  assert (LD : length D = 2%nat).
  { apply pad_digits_len; [lia |]. cbn [pow10_N]. lia. }
  rewrite LY, LM, LD. cbn [Nat.leb andb].
  unfold Y, M, D. rewrite !pad_digits_val.
  assert (G : (1 <=? d_month d) && (d_month d <=? 12) && (1 <=? d_day d) &&
              (d_day d <=? days_in_month (Z.to_N (d_year d)) (d_month d)) = true) by lia.
  rewrite G. rewrite Z2N.id by lia. destruct d; reflexivity.
Qed.

(* ---- amounts ---- *)
Lemma wf_commodity_all : forall c, wf_commodity c = true -> all (fun x => negb (is_non_commodity x)) c.
Proof. intros c H. exact H. Qed.

Definition follow_amount (a : s_amount) (k : str) : Prop :=
  match sa_commodity a with
  | [] => starts_not is_decimal_char k /\ starts_not (fun c => negb (is_non_commodity c)) (skip_sp k)
  | _ :: _ => starts_not (fun c => negb (is_non_commodity c)) k
  end.

Theorem amount_fmt : forall a k, wf_amount a = true -> follow_amount a k ->
  exists a', amount (fst (fmt_amount a) ++ k) = POk a' (rest_amount a k) /\ same_amount a a'.
Proof.
  intros [v c] k H F. unfold wf_amount in H. cbn [sa_value sa_commodity] in H.
  apply andb_true_iff in H. destruct H as [Hv Hc].
  unfold follow_amount, rest_amount in *. cbn [sa_commodity] in *.
  unfold fmt_amount, rescale. cbn [sa_value sa_commodity].
  destruct c as [| c0 c]; cbn [fst].
  - destruct F as [F1 F2].
    destruct (pretty_decimal_show v k Hv F1) as (v' & E & S).
    exists {| sa_value := v'; sa_commodity := [] |}. split; [| split; [exact S | reflexivity]].
    unfold amount, terminated, bind. rw E.
    destruct (space0_skip k) as [s Es]. rw Es. unfold ret at 1. cbv beta iota.
    unfold commodity. change (skip_sp k) with ([] ++ skip_sp k) at 1.
    rw (take_till0_ok is_non_commodity [] (skip_sp k) (all_nil _) F2). reflexivity.
  - rewrite <- !app_assoc.
    destruct (pretty_decimal_show v ([32] ++ (c0 :: c) ++ k) Hv ltac:(reflexivity)) as (v' & E & S).
    exists {| sa_value := v'; sa_commodity := c0 :: c |}. split; [| split; [exact S | reflexivity]].
    unfold amount, terminated, bind. rw E.
    assert (NS : starts_not is_sp ((c0 :: c) ++ k)).
    { simpl. simpl in Hc. apply andb_true_iff in Hc. destruct Hc as [Hc _].
      unfold is_non_commodity, mem, non_commodity_chars in Hc. cbn [existsb] in Hc.
      unfold is_sp. destruct (c0 =? 32); [discriminate |]. destruct (c0 =? 9); [discriminate | reflexivity]. }
    rw (space0_ok [32] ((c0 :: c) ++ k) ltac:(reflexivity) NS). unfold ret at 1. cbv beta iota.
    unfold commodity. rw (take_till0_ok is_non_commodity (c0 :: c) k Hc F). reflexivity.
Qed.
