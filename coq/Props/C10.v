(* C10 — converted reports convert every amount or fail.
   Model: convert_amount (Model/PriceDb.v), Ledger::balance with a conversion (Model/Convert.v,
   the code after the rounding fix C10-F1).  Spec: Model/ConvertSpec.v.  `t` is the rate table
   of (target, date): `price_table fuel choose recs target date = PTDone t` (C09 says what it
   contains; C09_terminates and C10_uniform_fuel say such a fuel exists). *)
From Coq Require Import List NArith ZArith Bool QArith Qcanon.
From Okv Require Import Base.Maps Base.Dec Model.Amount Model.Book Model.Query Model.PriceDb Model.Convert
     Model.ConvertSpec Proofs.PriceProofs Proofs.PriceTable Proofs.ConvertProofs
     Model.Syntax Model.Lower Proofs.EventDates Proofs.ConversionOf.
From Okv Require Model.Intern.
Import ListNotations.
Open Scope Qc_scope.

(* Ok iff every commodity of the amount other than the target has a rate *)
Theorem C10_convert_amount : forall fuel choose recs target date t,
  price_table fuel choose recs target date = PTDone t -> forall a,
  ((exists r, convert_amount fuel choose recs a target date = COk r) <-> convertible t target a).
Proof. exact convert_amount_iff. Qed.
Print Assumptions C10_convert_amount.

(* the result is only in the target commodity and is worth the sum of value x rate (amounts
   already in the target at rate 1) *)
Theorem C10_convert_amount_value : forall fuel choose recs target date t,
  price_table fuel choose recs target date = PTDone t -> forall a r,
  convert_amount fuel choose recs a target date = COk r ->
  r = conv_result t target a /\
  (forall c v, In (c, v) r -> c = target) /\
  a_get r target = conv_value t target a.
Proof. exact convert_amount_result. Qed.
Print Assumptions C10_convert_amount_value.

(* if any needed rate is missing the conversion fails, naming an entry of the amount whose
   commodity has no chain (the first such in iteration order) *)
Theorem C10_fails_if_any_missing : forall fuel choose recs target date t,
  price_table fuel choose recs target date = PTDone t -> forall a,
  (exists c v, In (c, v) a /\ rate_of t target c = None) ->
  exists c v, convert_amount fuel choose recs a target date = CErr (RateNotFound c v target date) /\
              In (c, v) a /\ c <> target /\ get c t = None.
Proof. exact convert_amount_fails. Qed.
Print Assumptions C10_fails_if_any_missing.

(* linear: convert (a + b) = convert a + convert b, convert (k a) = k convert a *)
Theorem C10_linear : forall fuel choose recs target date t,
  price_table fuel choose recs target date = PTDone t -> forall a b ra rb,
  convert_amount fuel choose recs a target date = COk ra ->
  convert_amount fuel choose recs b target date = COk rb ->
  exists rab, convert_amount fuel choose recs (a_add a b) target date = COk rab /\
              a_get rab target = a_get ra target + a_get rb target /\
              (forall c v, In (c, v) rab -> c = target).
Proof. exact convert_linear_add. Qed.
Print Assumptions C10_linear.

Theorem C10_linear_scale : forall fuel choose recs target date t,
  price_table fuel choose recs target date = PTDone t -> forall a k ra,
  convert_amount fuel choose recs a target date = COk ra ->
  exists r, convert_amount fuel choose recs (a_scale a k) target date = COk r /\
            a_get r target = k * a_get ra target.
Proof. exact convert_linear_scale. Qed.
Print Assumptions C10_linear_scale.

(* amounts already in the target are left untouched: summed as they are, and no rate table is
   computed at all (any fuel) *)
Theorem C10_target_untouched : forall fuel choose recs target date a acc,
  st target acc -> (forall c v, In (c, v) a -> c = target) ->
  convert_amount_from fuel choose recs acc a target date =
  COk (match a with
       | [] => acc
       | _ => [(target, a_get acc target + fold_right (fun cv s => snd cv + s) 0 a)]
       end).
Proof. exact convert_from_all_target. Qed.
Print Assumptions C10_target_untouched.

(* historical report: per account, round_T of the sum over the postings in range of each
   posting's amount converted at its transaction date; zero totals are not shown *)
Theorem C10_historical_report : forall fuel choose recs target (tbl : Z -> table) (s : bstate) start end_ b,
  (forall t, In t (s_txns s) -> range_contains start end_ (o_date t) = true ->
             price_table fuel choose recs target (o_date t) = PTDone (tbl (o_date t))) ->
  balance_query fuel choose recs s (Some {| cv_strategy := Historical; cv_target := target |}) start end_ = COk b ->
  forall acct, bal_get b acct =
               a_round (s_fmt s) (norm_amt target (hist_sum tbl target (s_txns s) start end_ acct)).
Proof. exact historical_report. Qed.
Print Assumptions C10_historical_report.

(* ... and it exists exactly when every entry of every posting in range has a rate *)
Theorem C10_historical_ok_iff : forall fuel choose recs target (tbl : Z -> table) (s : bstate) start end_,
  (forall t, In t (s_txns s) -> range_contains start end_ (o_date t) = true ->
             price_table fuel choose recs target (o_date t) = PTDone (tbl (o_date t))) ->
  ((exists b, balance_query fuel choose recs s (Some {| cv_strategy := Historical; cv_target := target |}) start end_ = COk b)
   <-> (forall t p, In t (s_txns s) -> range_contains start end_ (o_date t) = true -> In p (o_posts t) ->
                    convertible (tbl (o_date t)) target (o_amount p))).
Proof. exact historical_ok_iff. Qed.
Print Assumptions C10_historical_ok_iff.

(* every (posting, commodity entry) pair of the transactions in range contributes exactly once *)
Theorem C10_no_drop_no_double : forall target tbl ts start end_ acct,
  hist_sum tbl target ts start end_ acct = entries_sum tbl target (posting_entries ts start end_) acct.
Proof. exact hist_sum_entries. Qed.
Print Assumptions C10_no_drop_no_double.

(* up-to-date report: per account, round_T of the holdings (running balance, or the re-fold
   over the range — not rounded in the source commodities) converted at `now` *)
Theorem C10_up_to_date_report : forall fuel choose recs target t (s : bstate) now start end_ b,
  price_table fuel choose recs target now = PTDone t ->
  balance_query fuel choose recs s (Some {| cv_strategy := UpToDate now; cv_target := target |}) start end_ = COk b ->
  forall acct, bal_get b acct =
               a_round (s_fmt s) (norm_amt target (utd_sum t target (utd_source s start end_) acct)).
Proof. exact up_to_date_report. Qed.
Print Assumptions C10_up_to_date_report.

(* ... it exists exactly when every holding has a rate, and otherwise the command fails *)
Theorem C10_up_to_date_ok_iff : forall fuel choose recs target t (s : bstate) now start end_,
  price_table fuel choose recs target now = PTDone t ->
  ((exists b, balance_query fuel choose recs s (Some {| cv_strategy := UpToDate now; cv_target := target |}) start end_ = COk b)
   <-> forall a amt, In (a, amt) (utd_source s start end_) -> convertible t target amt).
Proof. exact up_to_date_ok_iff. Qed.
Print Assumptions C10_up_to_date_ok_iff.

Theorem C10_up_to_date_fails_otherwise : forall fuel choose recs target t (s : bstate) now start end_,
  price_table fuel choose recs target now = PTDone t ->
  balance_query fuel choose recs s (Some {| cv_strategy := UpToDate now; cv_target := target |}) start end_ <> COutOfFuel.
Proof. exact up_to_date_never_out_of_fuel. Qed.
Print Assumptions C10_up_to_date_fails_otherwise.

(* one fuel serves all the dates a report needs *)
Theorem C10_uniform_fuel : forall choose recs target (dates : list Z),
  exists fuel, forall d, In d dates -> exists t, price_table fuel choose recs target d = PTDone t.
Proof. exact uniform_fuel. Qed.
Print Assumptions C10_uniform_fuel.

(* "each posting at its own transaction date": a transaction written `DATE=EFFECTIVE` is booked,
   and states its rates, at DATE.  Every price event a booked transaction adds (the rates of
   `@`, `@@`, `{}`, `{{}}` and the rate implied by a two-commodity transaction) carries the
   transaction's date, and the transaction is stored under that date - the date the historical
   conversion converts its postings at (C10_historical_report) *)
Theorem C10_rates_dated_at_transaction_date : forall s t s',
  add_transaction s t = Ok s' ->
  (exists evs, s_events s' = s_events s ++ evs /\ Forall (fun e => e_date e = t_date t) evs) /\
  (exists ps, s_txns s' = s_txns s ++ [{| o_date := t_date t; o_posts := ps |}]).
Proof. exact add_transaction_dates. Qed.
Print Assumptions C10_rates_dated_at_transaction_date.

(* the effective date never reaches the book-keeping: rewriting the effective date of every
   transaction of a parsed file by any rule `f` (adding, removing, moving them) gives the same
   booked entries, hence the same state, price repository and reports (everything after
   `low_entries` in Model/Lower.v `pipeline` and Model/Pipeline.v `run_files`; `redate` is
   defined in Proofs/EventDates.v) *)
Theorem C10_effective_date_not_booked : forall f es ta tc,
  low_entries ta tc (map (redate f) es) = low_entries ta tc es.
Proof. exact low_entries_redate. Qed.
Print Assumptions C10_effective_date_not_booked.

(* `-X T` at the command line (EvalOptions::to_conversion, modelled as Model/Lower.v
   conversion_of): "no conversion" is the answer only when -X was not given ... *)
Theorem C10_no_conversion_only_without_X : forall o tc sc,
  conversion_of o tc sc = inl None <-> ro_exchange o = None.
Proof. exact conversion_none_iff. Qed.
Print Assumptions C10_no_conversion_only_without_X.

(* ... a target nobody mentioned - a name that is not in the table of names read from ledger
   and price DB, or one that is there but is neither a commodity nor an alias - is refused
   (QueryError::CommodityNotFound): the report is not printed with its amounts unconverted ... *)
Theorem C10_unknown_target_refused : forall o tc sc x,
  ro_exchange o = Some x ->
  (find_name tc x 0%N = None \/ exists i, find_name tc x 0%N = Some i /\ Okv.Model.Intern.resolve sc i = None) ->
  conversion_of o tc sc = inr tt.
Proof. exact conversion_unknown_refused. Qed.
Print Assumptions C10_unknown_target_refused.

(* ... and a known name, canonical or alias, converts into the commodity it resolves to with
   the strategy the options ask for *)
Theorem C10_known_target_converted : forall o tc sc x i c,
  ro_exchange o = Some x -> find_name tc x 0%N = Some i -> Okv.Model.Intern.resolve sc i = Some c ->
  conversion_of o tc sc =
  inl (Some {| cv_strategy := if ro_historical o then Historical else UpToDate (ro_now o); cv_target := c |}).
Proof. exact conversion_known_target. Qed.
Print Assumptions C10_known_target_converted.
