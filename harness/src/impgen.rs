//! Importer cases (C16, C17): configuration documents, rewrite rules, column layouts and CSV
//! statements as trees; their YAML / CSV text; their Coq form (Run/ImpCase.v constructors);
//! and what `ConfigSet::select`, `import::import` and `Txn::to_double_entry` did with them.
use crate::coq;
use crate::prng::Rng;
use okane::import::{self, config};
use okane_core::syntax;
use rust_decimal::Decimal;
use serde::{Deserialize, Serialize};
use std::collections::HashMap;
use std::fmt::Write as _;

pub fn s_term(s: &str) -> String {
    coq::bytes_list(s.as_bytes())
}
pub fn os_term(s: &Option<String>) -> String {
    coq::opt(s.as_ref().map(|x| s_term(x)))
}

// ---------------------------------------------------------------- patterns

#[derive(Clone, Debug, PartialEq, Serialize, Deserialize)]
pub enum Atom {
    Lit(String),
    Digits,
    /// `[0-9]*`, written `\d*` (the texts have no non-ASCII digits): may match the empty string
    Digits0,
    Rest,
}
#[derive(Clone, Debug, PartialEq, Serialize, Deserialize)]
pub enum Item {
    Plain(Atom),
    Payee(Atom),
    Code(Atom),
}
#[derive(Clone, Debug, PartialEq, Serialize, Deserialize)]
pub struct Pat {
    pub start: bool,
    pub items: Vec<Item>,
    pub end: bool,
    /// false: the source is not a valid regex
    pub valid: bool,
}

fn atom_regex(a: &Atom) -> String {
    match a {
        Atom::Lit(l) => regex::escape(l),
        Atom::Digits => "[0-9]+".into(),
        Atom::Digits0 => "\\d*".into(),
        Atom::Rest => ".*".into(),
    }
}
fn atom_term(a: &Atom) -> String {
    match a {
        Atom::Lit(l) => format!("ALit {}", s_term(l)),
        Atom::Digits => "ADigits".into(),
        Atom::Digits0 => "ADigits0".into(),
        Atom::Rest => "ARest".into(),
    }
}

impl Pat {
    pub fn lit(l: &str) -> Pat {
        Pat { start: false, items: vec![Item::Plain(Atom::Lit(l.into()))], end: false, valid: true }
    }
    pub fn regex(&self) -> String {
        if !self.valid {
            return "(".into();
        }
        let mut s = String::new();
        if self.start {
            s.push('^');
        }
        for it in &self.items {
            match it {
                Item::Plain(a) => s.push_str(&atom_regex(a)),
                Item::Payee(a) => write!(s, "(?P<payee>{})", atom_regex(a)).unwrap(),
                Item::Code(a) => write!(s, "(?P<code>{})", atom_regex(a)).unwrap(),
            }
        }
        if self.end {
            s.push('$');
        }
        s
    }
    pub fn term(&self) -> String {
        let items = coq::list(self.items.iter().map(|it| match it {
            Item::Plain(a) => format!("IAtom ({})", atom_term(a)),
            Item::Payee(a) => format!("IPayee ({})", atom_term(a)),
            Item::Code(a) => format!("ICode ({})", atom_term(a)),
        }));
        format!("PT {} {} {} {} {}", s_term(&self.regex()), coq::bool_(self.start), items, coq::bool_(self.end), coq::bool_(self.valid))
    }
}

// ---------------------------------------------------------------- rules, documents

pub const RFIELDS: [&str; 15] = [
    "domain_code",
    "domain_family",
    "domain_sub_family",
    "creditor_name",
    "creditor_account_id",
    "ultimate_creditor_name",
    "debtor_name",
    "debtor_account_id",
    "ultimate_debtor_name",
    "remittance_unstructured_info",
    "additional_entry_info",
    "additional_transaction_info",
    "secondary_commodity",
    "category",
    "payee",
];
pub const RF_SECONDARY_COMMODITY: usize = 12;
pub const RF_CATEGORY: usize = 13;
pub const RF_PAYEE: usize = 14;

fn rfield_code(f: config::RewriteField) -> usize {
    let name = f.to_string();
    RFIELDS.iter().position(|x| *x == name).unwrap_or(99)
}

#[derive(Clone, Debug, PartialEq, Serialize, Deserialize)]
pub struct Conv {
    pub compute: bool,
    pub commodity: Option<String>,
    pub price_of_primary: bool,
    pub disabled: bool,
}
impl Conv {
    pub fn default_conv() -> Conv {
        Conv { compute: false, commodity: None, price_of_primary: false, disabled: false }
    }
    pub fn term(&self) -> String {
        format!(
            "(CV {} {} {} {})",
            if self.compute { 1 } else { 0 },
            os_term(&self.commodity),
            if self.price_of_primary { 1 } else { 0 },
            coq::bool_(self.disabled)
        )
    }
    fn yaml(&self, ind: &str, out: &mut String) {
        writeln!(out, "{}amount: {}", ind, if self.compute { "compute" } else { "extract" }).unwrap();
        if let Some(c) = &self.commodity {
            writeln!(out, "{}commodity: {}", ind, yq(c)).unwrap();
        }
        writeln!(out, "{}rate: {}", ind, if self.price_of_primary { "price_of_primary" } else { "price_of_secondary" }).unwrap();
        writeln!(out, "{}disabled: {}", ind, self.disabled).unwrap();
    }
}

#[derive(Clone, Debug, PartialEq, Serialize, Deserialize)]
pub struct Rule {
    /// OR-list of AND-lists of (field code, pattern); AND-lists are kept sorted by field code
    pub matcher: Vec<Vec<(usize, Pat)>>,
    /// written as a YAML sequence (RewriteMatcher::Or) rather than a single map
    pub as_list: bool,
    pub pending: bool,
    pub payee: Option<String>,
    pub account: Option<String>,
    pub conversion: Option<Conv>,
}
impl Rule {
    pub fn term(&self) -> String {
        let m = coq::list(self.matcher.iter().map(|a| coq::list(a.iter().map(|(f, p)| format!("({}, {})", f, p.term())))));
        format!(
            "RL {} {} {} {} {}",
            m,
            coq::bool_(self.pending),
            os_term(&self.payee),
            os_term(&self.account),
            coq::opt(self.conversion.as_ref().map(|c| c.term()))
        )
    }
}

#[derive(Clone, Debug, PartialEq, Serialize, Deserialize)]
pub enum Seg {
    Lit(String),
    Named(usize),   // field key code
    Indexed(usize), // zero-based
}
#[derive(Clone, Debug, PartialEq, Serialize, Deserialize)]
pub enum Pos {
    Index(usize), // zero-based
    Label(String),
    Template(Vec<Seg>),
}
pub const FKEYS: [&str; 13] = [
    "date",
    "payee",
    "category",
    "note",
    "amount",
    "credit",
    "debit",
    "balance",
    "commodity",
    "rate",
    "secondary_amount",
    "secondary_commodity",
    "charge",
];
pub const K_DATE: usize = 0;
pub const K_PAYEE: usize = 1;
pub const K_CATEGORY: usize = 2;
pub const K_NOTE: usize = 3;
pub const K_AMOUNT: usize = 4;
pub const K_CREDIT: usize = 5;
pub const K_DEBIT: usize = 6;
pub const K_BALANCE: usize = 7;
pub const K_COMMODITY: usize = 8;
pub const K_RATE: usize = 9;
pub const K_SECONDARY_AMOUNT: usize = 10;
pub const K_SECONDARY_COMMODITY: usize = 11;
pub const K_CHARGE: usize = 12;

fn fkey_code(k: config::FieldKey) -> usize {
    use config::FieldKey::*;
    match k {
        Date => 0,
        Payee => 1,
        Category => 2,
        Note => 3,
        Amount => 4,
        Credit => 5,
        Debit => 6,
        Balance => 7,
        Commodity => 8,
        Rate => 9,
        SecondaryAmount => 10,
        SecondaryCommodity => 11,
        Charge => 12,
    }
}
pub fn fkey_of(code: usize) -> config::FieldKey {
    use config::FieldKey::*;
    [Date, Payee, Category, Note, Amount, Credit, Debit, Balance, Commodity, Rate, SecondaryAmount, SecondaryCommodity, Charge][code]
}

/// template text: only the keys template.rs knows by name can be written by name
pub fn template_text(segs: &[Seg]) -> String {
    let mut s = String::new();
    for g in segs {
        match g {
            Seg::Lit(l) => s.push_str(l),
            Seg::Named(k) => write!(s, "{{{}}}", FKEYS[*k]).unwrap(),
            Seg::Indexed(i) => write!(s, "{{{}}}", i + 1).unwrap(),
        }
    }
    s
}
fn segs_term(segs: &[Seg]) -> String {
    coq::list(segs.iter().map(|g| match g {
        Seg::Lit(l) => format!("SLit {}", s_term(l)),
        Seg::Named(k) => format!("SRef (TNamed (FK {}))", k),
        Seg::Indexed(i) => format!("SRef (TIndexed {}%nat)", i),
    }))
}
/// the parse template.rs makes of a template text (used only to print an observed FormatSpec)
fn parse_template(t: &str) -> Vec<Seg> {
    let mut out = Vec::new();
    let mut rest = t;
    while !rest.is_empty() {
        if let Some(r) = rest.strip_prefix('{') {
            if let Some(end) = r.find('}') {
                let key = &r[..end];
                if !key.is_empty() && key.chars().all(|c| c.is_ascii_digit()) {
                    out.push(Seg::Indexed(key.parse::<usize>().unwrap_or(1).saturating_sub(1)));
                } else if let Some(k) = FKEYS.iter().position(|x| *x == key) {
                    out.push(Seg::Named(k));
                } else {
                    out.push(Seg::Lit(format!("{{{}}}", key)));
                }
                rest = &r[end + 1..];
                continue;
            }
        }
        let n = rest.find(|c| c == '{' || c == '}').filter(|n| *n > 0).unwrap_or(rest.len());
        out.push(Seg::Lit(rest[..n].to_string()));
        rest = &rest[n..];
    }
    out
}

impl Pos {
    pub fn term(&self) -> String {
        match self {
            Pos::Index(i) => format!("PIndex {}%nat", i),
            Pos::Label(l) => format!("PLabel {}", s_term(l)),
            Pos::Template(segs) => format!("PTemplate {}", segs_term(segs)),
        }
    }
}

#[derive(Clone, Debug, PartialEq, Serialize, Deserialize)]
pub struct Format {
    pub date: String,
    pub precisions: Vec<(String, u8)>,
    pub fields: Vec<(usize, Pos)>, // sorted by key code
    pub delimiter: String,
    pub skip: i32,
    pub new_to_old: bool,
}
impl Format {
    pub fn term(&self) -> String {
        format!(
            "(FS {} {} {} {} {} {})",
            s_term(&self.date),
            coq::list(self.precisions.iter().map(|(c, p)| format!("({}, {})", s_term(c), p))),
            coq::list(self.fields.iter().map(|(k, p)| format!("({}, {})", k, p.term()))),
            s_term(&self.delimiter),
            coq::z(self.skip as i128),
            coq::bool_(self.new_to_old)
        )
    }
    pub fn to_spec(&self) -> config::FormatSpec {
        let mut f = config::FormatSpec::default();
        f.date = self.date.clone();
        f.delimiter = self.delimiter.clone();
        f.skip = config::SkipSpec { head: self.skip };
        f.row_order = if self.new_to_old { config::RowOrder::NewToOld } else { config::RowOrder::OldToNew };
        for (c, p) in &self.precisions {
            f.commodity.insert(c.clone(), config::CommodityFormatSpec { precision: *p });
        }
        for (k, p) in &self.fields {
            let pos = match p {
                Pos::Index(i) => config::FieldPos::Index(okane::one_based::OneBasedIndex::from_one_based(i + 1).unwrap()),
                Pos::Label(l) => config::FieldPos::Label(l.clone()),
                Pos::Template(segs) => config::FieldPos::Template(config::TemplateField { template: template_text(segs) }),
            };
            f.fields.insert(fkey_of(*k), pos);
        }
        f
    }
    fn yaml(&self, out: &mut String) {
        writeln!(out, "format:").unwrap();
        writeln!(out, "  date: {}", yq(&self.date)).unwrap();
        writeln!(out, "  delimiter: {}", yq(&self.delimiter)).unwrap();
        writeln!(out, "  skip:\n    head: {}", self.skip).unwrap();
        writeln!(out, "  row_order: {}", if self.new_to_old { "new_to_old" } else { "old_to_new" }).unwrap();
        if !self.precisions.is_empty() {
            writeln!(out, "  commodity:").unwrap();
            for (c, p) in &self.precisions {
                writeln!(out, "    {}:\n      precision: {}", yq(c), p).unwrap();
            }
        }
        if self.fields.is_empty() {
            writeln!(out, "  fields: {{}}").unwrap();
        } else {
            writeln!(out, "  fields:").unwrap();
            for (k, p) in &self.fields {
                match p {
                    Pos::Index(i) => writeln!(out, "    {}: {}", FKEYS[*k], i + 1).unwrap(),
                    Pos::Label(l) => writeln!(out, "    {}: {}", FKEYS[*k], yq(l)).unwrap(),
                    Pos::Template(segs) => writeln!(out, "    {}:\n      template: {}", FKEYS[*k], yq(&template_text(segs))).unwrap(),
                }
            }
        }
    }
}

#[derive(Clone, Debug, PartialEq, Serialize, Deserialize)]
pub enum Commodity {
    Primary(String),
    Spec(String, Conv),
}

pub const ENCODINGS: [&str; 3] = ["UTF-8", "Shift_JIS", "windows-1252"];

#[derive(Clone, Debug, PartialEq, Serialize, Deserialize)]
pub struct Doc {
    pub path: String,
    pub encoding: Option<usize>,
    pub account: Option<String>,
    pub liability: Option<bool>,
    pub operator: Option<String>,
    pub commodity: Option<Commodity>,
    pub format: Option<Format>,
    pub rewrite: Vec<Rule>,
}

/// a YAML double-quoted scalar
pub fn yq(s: &str) -> String {
    let mut o = String::from("\"");
    for c in s.chars() {
        match c {
            '\\' => o.push_str("\\\\"),
            '"' => o.push_str("\\\""),
            '\t' => o.push_str("\\t"),
            '\n' => o.push_str("\\n"),
            c => o.push(c),
        }
    }
    o.push('"');
    o
}

impl Doc {
    pub fn term(&self) -> String {
        format!(
            "DOC {} {} {} {} {} {} {} {}",
            s_term(&self.path),
            coq::opt(self.encoding.map(|e| e.to_string())),
            os_term(&self.account),
            coq::opt(self.liability.map(coq::bool_)),
            os_term(&self.operator),
            coq::opt(self.commodity.as_ref().map(|c| match c {
                Commodity::Primary(p) => format!("(CPrimary {})", s_term(p)),
                Commodity::Spec(p, cv) => format!("(CSpec {} {})", s_term(p), cv.term()),
            })),
            coq::opt(self.format.as_ref().map(|f| f.term())),
            coq::list(self.rewrite.iter().map(|r| r.term()))
        )
    }
    pub fn yaml(&self) -> String {
        let mut o = String::new();
        writeln!(o, "path: {}", yq(&self.path)).unwrap();
        if let Some(e) = self.encoding {
            writeln!(o, "encoding: {}", yq(ENCODINGS[e])).unwrap();
        }
        if let Some(a) = &self.account {
            writeln!(o, "account: {}", yq(a)).unwrap();
        }
        if let Some(l) = self.liability {
            writeln!(o, "account_type: {}", if l { "liability" } else { "asset" }).unwrap();
        }
        if let Some(op) = &self.operator {
            writeln!(o, "operator: {}", yq(op)).unwrap();
        }
        match &self.commodity {
            None => {}
            Some(Commodity::Primary(p)) => writeln!(o, "commodity: {}", yq(p)).unwrap(),
            Some(Commodity::Spec(p, cv)) => {
                writeln!(o, "commodity:\n  primary: {}\n  conversion:", yq(p)).unwrap();
                cv.yaml("    ", &mut o);
            }
        }
        if let Some(f) = &self.format {
            f.yaml(&mut o);
        }
        if !self.rewrite.is_empty() {
            writeln!(o, "rewrite:").unwrap();
            for r in &self.rewrite {
                if r.as_list {
                    if r.matcher.is_empty() {
                        writeln!(o, "  - matcher: []").unwrap();
                    } else {
                        writeln!(o, "  - matcher:").unwrap();
                        for a in &r.matcher {
                            if a.is_empty() {
                                writeln!(o, "      - {{}}").unwrap();
                            }
                            for (i, (f, p)) in a.iter().enumerate() {
                                writeln!(o, "      {} {}: {}", if i == 0 { "-" } else { " " }, RFIELDS[*f], yq(&p.regex())).unwrap();
                            }
                        }
                    }
                } else {
                    let a = &r.matcher[0];
                    if a.is_empty() {
                        writeln!(o, "  - matcher: {{}}").unwrap();
                    } else {
                        writeln!(o, "  - matcher:").unwrap();
                        for (f, p) in a {
                            writeln!(o, "      {}: {}", RFIELDS[*f], yq(&p.regex())).unwrap();
                        }
                    }
                }
                if r.pending {
                    writeln!(o, "    pending: true").unwrap();
                }
                if let Some(p) = &r.payee {
                    writeln!(o, "    payee: {}", yq(p)).unwrap();
                }
                if let Some(a) = &r.account {
                    writeln!(o, "    account: {}", yq(a)).unwrap();
                }
                if let Some(cv) = &r.conversion {
                    writeln!(o, "    conversion:").unwrap();
                    cv.yaml("      ", &mut o);
                }
            }
        }
        o
    }
}

pub fn docs_yaml(docs: &[Doc]) -> String {
    docs.iter().map(|d| d.yaml()).collect::<Vec<_>>().join("---\n")
}

// ---------------------------------------------------------------- observing select

pub enum SelObs {
    None,
    Err(u8, String),
    Ok(config::ConfigEntry),
    Panic(String),
    /// the YAML did not load: a harness problem, not an observation
    Load(String),
}

fn panic_text(p: Box<dyn std::any::Any + Send>) -> String {
    p.downcast_ref::<String>().cloned().or_else(|| p.downcast_ref::<&str>().map(|s| s.to_string())).unwrap_or_default()
}

pub fn run_select(yaml: &str, path: &str) -> SelObs {
    let r = std::panic::catch_unwind(|| {
        let set = match config::load_from_yaml(yaml.as_bytes()) {
            Ok(s) => s,
            Err(e) => return SelObs::Load(format!("{:?}", e)),
        };
        match set.select(std::path::Path::new(path)) {
            Ok(None) => SelObs::None,
            Ok(Some(e)) => SelObs::Ok(e),
            Err(e) => {
                let t = format!("{}", e);
                let k = if t.contains("no encoding") {
                    1
                } else if t.contains("no account specified") {
                    2
                } else if t.contains("no account_type") {
                    3
                } else if t.contains("no commodity") {
                    4
                } else {
                    99
                };
                SelObs::Err(k, t)
            }
        }
    });
    r.unwrap_or_else(|p| SelObs::Panic(panic_text(p)))
}

fn conv_of(c: &config::CommodityConversionSpec) -> Conv {
    Conv {
        compute: c.amount == config::ConversionAmountMode::Compute,
        commodity: c.commodity.clone(),
        price_of_primary: c.rate == config::ConversionRateMode::PriceOfPrimary,
        disabled: c.disabled,
    }
}

pub fn format_of(f: &config::FormatSpec) -> Format {
    let mut precisions: Vec<(String, u8)> = f.commodity.iter().map(|(k, v)| (k.clone(), v.precision)).collect();
    precisions.sort();
    let mut fields: Vec<(usize, Pos)> = f
        .fields
        .iter()
        .map(|(k, v)| {
            (
                fkey_code(*k),
                match v {
                    config::FieldPos::Index(i) => Pos::Index(i.as_zero_based()),
                    config::FieldPos::Label(l) => Pos::Label(l.clone()),
                    config::FieldPos::Template(t) => Pos::Template(parse_template(&t.template)),
                },
            )
        })
        .collect();
    fields.sort_by_key(|x| x.0);
    Format {
        date: f.date.clone(),
        precisions,
        fields,
        delimiter: f.delimiter.clone(),
        skip: f.skip.head,
        new_to_old: f.row_order == config::RowOrder::NewToOld,
    }
}

/// the observed rule, patterns looked up among the ones the case generated (by regex source)
fn rule_of(r: &config::RewriteRule, pats: &HashMap<String, Pat>) -> Rule {
    let and_of = |fm: &config::FieldMatcher| -> Vec<(usize, Pat)> {
        let mut v: Vec<(usize, Pat)> = fm
            .fields
            .iter()
            .map(|(f, src)| {
                let p = pats.get(src).cloned().unwrap_or(Pat { start: false, items: vec![Item::Plain(Atom::Lit(format!("?unknown?{}", src)))], end: false, valid: true });
                (rfield_code(*f), p)
            })
            .collect();
        v.sort_by_key(|x| x.0);
        v
    };
    let (matcher, as_list) = match &r.matcher {
        config::RewriteMatcher::Or(v) => (v.iter().map(and_of).collect(), true),
        config::RewriteMatcher::Field(f) => (vec![and_of(f)], false),
    };
    Rule { matcher, as_list, pending: r.pending, payee: r.payee.clone(), account: r.account.clone(), conversion: r.conversion.as_ref().map(conv_of) }
}

pub fn entry_term(e: &config::ConfigEntry, pats: &HashMap<String, Pat>) -> String {
    let enc = ENCODINGS.iter().position(|x| *x == e.encoding.as_encoding().name()).unwrap_or(99);
    format!(
        "ENT {} {} {} {} {} {} {} {} {}",
        s_term(&e.path),
        enc,
        s_term(&e.account),
        coq::bool_(e.account_type == config::AccountType::Liability),
        os_term(&e.operator),
        s_term(&e.commodity.primary),
        conv_of(&e.commodity.conversion).term(),
        format_of(&e.format).term(),
        coq::list(e.rewrite.iter().map(|r| rule_of(r, pats).term()))
    )
}

pub fn sel_term(o: &SelObs, pats: &HashMap<String, Pat>) -> String {
    match o {
        SelObs::None => "SelNone".into(),
        SelObs::Err(k, _) => format!("(SelErr {})", k),
        SelObs::Ok(e) => format!("(SelOk ({}))", entry_term(e, pats)),
        SelObs::Panic(_) | SelObs::Load(_) => "SelPanic".into(),
    }
}

pub fn collect_pats(docs: &[Doc]) -> HashMap<String, Pat> {
    let mut m = HashMap::new();
    for d in docs {
        for r in &d.rewrite {
            for a in &r.matcher {
                for (_, p) in a {
                    m.entry(p.regex()).or_insert_with(|| p.clone());
                }
            }
        }
    }
    m
}

// ---------------------------------------------------------------- observing import

pub fn day_number(d: chrono::NaiveDate) -> i64 {
    (d - chrono::NaiveDate::from_ymd_opt(2020, 1, 1).unwrap()).num_days()
}

pub fn dec_term(d: &Decimal) -> String {
    format!("(DV {} {} {}%nat)", coq::bool_(d.is_sign_negative()), coq::z(d.mantissa().abs()), d.scale())
}

fn amount_term(a: &syntax::expr::ValueExpr) -> String {
    match a {
        syntax::expr::ValueExpr::Amount(a) => format!("(OA {} {})", dec_term(&a.value.value), s_term(&a.commodity)),
        syntax::expr::ValueExpr::Paren(_) => "(OA (DV false 0%Z 0%nat) [63])".into(),
    }
}

fn clear_code(c: syntax::ClearState) -> u8 {
    match c {
        syntax::ClearState::Uncleared => 0,
        syntax::ClearState::Cleared => 1,
        syntax::ClearState::Pending => 2,
    }
}

pub fn stxn_term(t: &syntax::plain::Transaction) -> String {
    let posts = coq::list(t.posts.iter().map(|p| {
        let (amt, cost) = match &p.amount {
            Some(pa) => (
                amount_term(&pa.amount),
                match &pa.cost {
                    Some(syntax::Exchange::Rate(r)) => format!("(Some {})", amount_term(r)),
                    Some(syntax::Exchange::Total(_)) => "(Some (OA (DV false 0%Z 0%nat) [63;116]))".into(),
                    None => "None".into(),
                },
            ),
            None => ("(OA (DV false 0%Z 0%nat) [63;110])".into(), "None".into()),
        };
        let payee = p.metadata.iter().find_map(|m| match m {
            syntax::Metadata::KeyValueTag { key, value: syntax::MetadataValue::Text(v) } if key == "Payee" => Some(v.to_string()),
            _ => None,
        });
        format!(
            "SP {} {} {} {} {} {}",
            s_term(&p.account),
            clear_code(p.clear_state),
            amt,
            cost,
            coq::opt(p.balance.as_ref().map(amount_term)),
            os_term(&payee)
        )
    }));
    let comments = coq::list(t.metadata.iter().filter_map(|m| match m {
        syntax::Metadata::Comment(c) => Some(s_term(c)),
        _ => None,
    }));
    format!(
        "ST {} {} {} {} {} {} {}",
        coq::z(day_number(t.date) as i128),
        coq::opt(t.effective_date.map(|d| coq::z(day_number(d) as i128))),
        clear_code(t.clear_state),
        coq::opt(t.code.as_ref().map(|c| s_term(c))),
        s_term(&t.payee),
        comments,
        posts
    )
}

pub enum ImpObs {
    NotRun,
    Err(u8, String),
    Panic(String),
    /// Coq terms of the transactions, and the text ImportCmd would print
    Ok(Vec<String>, String),
}

pub fn import_err_code(e: &import::ImportError) -> u8 {
    let t = format!("{}", e);
    use import::ImportError as E;
    match e {
        E::Other(_) if t.contains("specified labels not found") => 1,
        E::InvalidConfig(m) if m.contains("no Date field") => 2,
        E::InvalidConfig(m) if m.contains("no Payee field") => 3,
        E::InvalidConfig(m) if m.contains("either amount or credit/debit") => 4,
        E::InvalidConfig(m) if m.contains("CSV only supports") || m.contains("empty field matcher") => 5,
        E::InvalidRegex(_) => 5,
        E::Other(_) if t.contains("csv record length too short") => 6,
        E::Other(_) if t.contains("must be present") || t.contains("must exist") => 7,
        E::TemplateRenderFailed(_) => 8,
        E::InvalidDatetime(_) => 9,
        E::Other(_) if t.contains("failed to parse comma decimal") => 10,
        E::Other(_) if t.contains("either credit or debit must be non-empty") => 11,
        E::InvalidConfig(m) if m.contains("operator") => 12,
        E::Other(_) if t.contains("no rate specified") => 13,
        E::Other(_) if t.contains("secondary_commodity field must be set") => 14,
        E::Other(_) if t.contains("secondary_amount should be specified") => 15,
        E::Other(_) if t.contains("cannot handle rate with the same commodity") => 16,
        E::Other(_) if t.contains("cannot divide the amount by the rate") => 17,
        _ => 99,
    }
}

/// import::import(Csv) + to_double_entry + the printing of ImportCmd::run
pub fn run_import(csv: &str, entry: &config::ConfigEntry) -> ImpObs {
    run_import_fmt(csv, import::Format::Csv, entry)
}

/// import::import(format) + to_double_entry + the printing of ImportCmd::run
pub fn run_import_fmt(input: &str, format: import::Format, entry: &config::ConfigEntry) -> ImpObs {
    let r = std::panic::catch_unwind(|| {
        let txns = match import::import(input.as_bytes(), format, entry) {
            Ok(t) => t,
            Err(e) => return ImpObs::Err(import_err_code(&e), format!("{}", e)),
        };
        let ctx = syntax::display::DisplayContext {
            precisions: entry.format.commodity.iter().map(|(k, v)| (k.clone(), v.precision)).collect(),
        };
        let mut terms = Vec::new();
        let mut text = String::new();
        for t in &txns {
            match t.to_double_entry(&entry.account) {
                Ok(x) => {
                    terms.push(stxn_term(&x));
                    writeln!(text, "{}", ctx.as_display(&x)).unwrap();
                }
                Err(e) => return ImpObs::Err(98, format!("{}", e)),
            }
        }
        ImpObs::Ok(terms, text)
    });
    r.unwrap_or_else(|p| ImpObs::Panic(panic_text(p)))
}

pub fn imp_term(o: &ImpObs) -> String {
    match o {
        ImpObs::NotRun => "ImpNotRun".into(),
        ImpObs::Err(k, _) => format!("(ImpErr {})", k),
        ImpObs::Panic(_) => "ImpPanic".into(),
        ImpObs::Ok(ts, _) => format!("(ImpOk {})", coq::list(ts.iter().cloned())),
    }
}

pub fn imp_json(o: &ImpObs) -> serde_json::Value {
    match o {
        ImpObs::NotRun => serde_json::json!("not run"),
        ImpObs::Err(k, t) => serde_json::json!({"error": t, "code": k}),
        ImpObs::Panic(t) => serde_json::json!({"panic": t}),
        ImpObs::Ok(_, text) => serde_json::json!({"printed": text}),
    }
}

// ---------------------------------------------------------------- CSV text

#[derive(Clone, Debug, PartialEq, Serialize, Deserialize)]
pub struct Row {
    pub fields: Vec<String>,
    /// the text of the date field as the layout resolves it (what chrono is given)
    pub date_text: String,
}

fn csv_field(f: &str, delim: char, force_quote: bool) -> String {
    if force_quote || f.contains(delim) || f.contains('"') || f.contains('\n') || f.starts_with(' ') || f.ends_with(' ') {
        format!("\"{}\"", f.replace('"', "\"\""))
    } else {
        f.to_string()
    }
}

pub fn csv_text(head_lines: &[String], header: &[String], rows: &[Row], delim: char, quote_all: bool) -> String {
    let mut o = String::new();
    for l in head_lines {
        o.push_str(l);
        o.push('\n');
    }
    let line = |fs: &[String]| fs.iter().map(|f| csv_field(f, delim, quote_all)).collect::<Vec<_>>().join(&delim.to_string());
    o.push_str(&line(header));
    o.push('\n');
    for r in rows {
        o.push_str(&line(&r.fields));
        o.push('\n');
    }
    o
}

pub fn row_term(r: &Row, date_fmt: &str) -> String {
    let d = if r.date_text.is_empty() { None } else { chrono::NaiveDate::parse_from_str(&r.date_text, date_fmt).ok() };
    format!(
        "RW {} {}",
        coq::list(r.fields.iter().map(|f| s_term(f))),
        coq::opt(d.map(|d| coq::z(day_number(d) as i128)))
    )
}

// ---------------------------------------------------------------- generators

pub const WORDS: [&str; 10] = ["Migros", "Coop", "Card", "ATM", "Shop", "Cafe", "Rent", "Salary", "山田", "Visa"];
pub const CATEGORIES: [&str; 5] = ["Food", "Travel", "Fees", "Buy", "Reinvest Shares"];
pub const ACCOUNTS: [&str; 7] = ["Expenses:Food", "Expenses:Rent", "Income:Salary", "Assets:Cash", "Assets:Wire", "Expenses:Misc Stuff", "Income:Misc"];
pub const SRC_ACCOUNTS: [&str; 3] = ["Assets:Okane Bank", "Liabilities:Okane Card", "Assets:Brokers:Schrank"];
pub const COMMODITIES: [&str; 5] = ["CHF", "EUR", "JPY", "USD", "VYM"];

pub fn recase(r: &mut Rng, w: &str) -> String {
    match r.below(4) {
        0 => w.to_uppercase(),
        1 => w.to_lowercase(),
        _ => w.to_string(),
    }
}

pub fn gen_payee_text(r: &mut Rng) -> String {
    let n = 1 + r.below(3);
    let mut parts = Vec::new();
    for _ in 0..n {
        if r.chance(1, 5) {
            parts.push(format!("{}", r.below(100000)));
        } else {
            let w = if r.chance(3, 4) { *r.pick(&WORDS[..5]) } else { *r.pick(&WORDS) };
            parts.push(recase(r, w));
        }
    }
    parts.join(" ")
}

pub fn gen_pat(r: &mut Rng, field: usize) -> Pat {
    if r.chance(1, 250) {
        return Pat { start: false, items: vec![], end: false, valid: false };
    }
    let vocab: &[&str] = if field == RF_PAYEE {
        &WORDS
    } else if field == RF_CATEGORY {
        &CATEGORIES
    } else {
        &COMMODITIES
    };
    let word = |r: &mut Rng| -> String {
        let w = if field == RF_PAYEE && r.chance(3, 4) { *r.pick(&vocab[..5]) } else { *r.pick(vocab) };
        let w = recase(r, w);
        // sometimes only a fragment of the word
        if r.chance(1, 4) && w.is_ascii() && w.len() > 2 {
            w[..2 + r.below(w.len() as u64 - 2) as usize].to_string()
        } else {
            w
        }
    };
    let mut p = Pat { start: r.chance(1, 6), items: vec![], end: r.chance(1, 8), valid: true };
    if field != RF_PAYEE && r.chance(2, 5) {
        // named groups inside a category / secondary_commodity pattern: the CSV adapter matches
        // the field and drops the captures (only the payee matcher's groups set payee / code)
        match r.below(6) {
            0 => p.items.push(Item::Payee(Atom::Lit(word(r)))),
            1 => p.items.push(Item::Code(Atom::Lit(word(r)))),
            2 => {
                // "^(?P<payee>.*)": any value of the field, the empty one too
                p.start = true;
                p.items.push(Item::Payee(Atom::Rest));
            }
            3 => {
                p.items.push(Item::Code(Atom::Lit(word(r))));
                p.items.push(Item::Payee(Atom::Rest));
            }
            4 => {
                p.items.push(Item::Payee(Atom::Rest));
                p.items.push(Item::Plain(Atom::Lit(word(r))));
                p.items.push(Item::Code(Atom::Digits0));
            }
            _ => {
                p.items.push(Item::Plain(Atom::Lit(word(r))));
                p.items.push(Item::Code(Atom::Rest));
            }
        }
        return p;
    }
    match r.below(if field == RF_PAYEE { 10 } else { 3 }) {
        0 | 1 | 2 => p.items.push(Item::Plain(Atom::Lit(word(r)))),
        3 => p.items.push(Item::Payee(Atom::Lit(word(r)))),
        4 => {
            // "Card (?P<code>[0-9]+) (?P<payee>.*)"
            p.items.push(Item::Plain(Atom::Lit(format!("{} ", word(r)))));
            p.items.push(Item::Code(Atom::Digits));
            if r.chance(2, 3) {
                p.items.push(Item::Plain(Atom::Lit(" ".into())));
                p.items.push(Item::Payee(Atom::Rest));
            }
        }
        5 => {
            p.items.push(Item::Plain(Atom::Rest));
            p.items.push(Item::Plain(Atom::Lit(" ".into())));
            p.items.push(Item::Payee(Atom::Rest));
            p.end = true;
        }
        6 => {
            p.items.push(Item::Code(Atom::Digits));
        }
        8 => {
            // "Migros(?P<payee>.*)": the group is empty when the literal reaches the end of the field
            p.items.push(Item::Plain(Atom::Lit(word(r))));
            p.items.push(Item::Payee(Atom::Rest));
            p.end = p.end || r.chance(1, 2);
        }
        9 => {
            // "(?P<code>\\d*)Card" / "Card(?P<code>\\d*)": empty unless digits are adjacent
            if r.chance(1, 2) {
                p.items.push(Item::Code(Atom::Digits0));
                p.items.push(Item::Plain(Atom::Lit(word(r))));
            } else {
                p.items.push(Item::Plain(Atom::Lit(word(r))));
                p.items.push(Item::Code(Atom::Digits0));
            }
        }
        _ => {
            p.items.push(Item::Payee(Atom::Rest));
            p.items.push(Item::Plain(Atom::Lit(format!(" {}", word(r)))));
        }
    }
    p
}

pub fn gen_and(r: &mut Rng) -> Vec<(usize, Pat)> {
    let mut fields = Vec::new();
    if r.chance(4, 5) {
        fields.push(RF_PAYEE);
    }
    if r.chance(1, 4) {
        fields.push(RF_CATEGORY);
    }
    if r.chance(1, 8) {
        fields.push(RF_SECONDARY_COMMODITY);
    }
    if fields.is_empty() {
        fields.push(if r.chance(1, 2) { RF_PAYEE } else { RF_CATEGORY });
    }
    if r.chance(1, 300) {
        fields.push(3); // creditor_name: not supported for CSV
    }
    fields.sort();
    fields.dedup();
    fields.into_iter().map(|f| (f, gen_pat(r, f))).collect()
}

pub fn gen_conv(r: &mut Rng) -> Conv {
    Conv {
        compute: r.chance(1, 2),
        commodity: if r.chance(1, 2) { Some(r.pick(&COMMODITIES).to_string()) } else { None },
        price_of_primary: r.chance(1, 2),
        disabled: r.chance(1, 4),
    }
}

pub fn gen_rule(r: &mut Rng, conv_pct: u64) -> Rule {
    let as_list = r.chance(2, 5);
    let matcher = if as_list {
        let n = if r.chance(1, 60) { 0 } else { 1 + r.below(3) };
        (0..n).map(|_| gen_and(r)).collect()
    } else if r.chance(1, 300) {
        vec![vec![]]
    } else {
        vec![gen_and(r)]
    };
    let account = if r.chance(3, 5) { Some(r.pick(&ACCOUNTS).to_string()) } else { None };
    Rule {
        matcher,
        as_list,
        pending: r.chance(1, 3),
        payee: if r.chance(1, 3) { Some(gen_payee_text(r)) } else { None },
        account,
        conversion: if r.below(100) < conv_pct { Some(gen_conv(r)) } else { None },
    }
}

/// A rule whose named group matches the EMPTY string on the payee text `payee` (the capture then
/// sets payee / code to ""), and a follow-up rule that tells the rewritten payee from the original
/// one: it matches `payee` but not "", or the other way round (`^$`).
pub fn gen_empty_group_rules(r: &mut Rng, payee: &str) -> Vec<Rule> {
    let lit = |s: &str| Item::Plain(Atom::Lit(s.to_string()));
    let words: Vec<&str> = payee.split(' ').filter(|w| !w.is_empty()).collect();
    let last = words.last().copied().unwrap_or(payee);
    let first = words.first().copied().unwrap_or(payee);
    let (start, items, end, sets_payee) = match r.below(7) {
        // whole field consumed by the literal, `.*` left with nothing
        0 => (r.chance(1, 2), vec![lit(payee), Item::Payee(Atom::Rest)], r.chance(1, 2), true),
        1 => (false, vec![lit(last), Item::Payee(Atom::Rest)], true, true),
        // greedy `.*` backtracks down to the empty string
        2 => (true, vec![Item::Payee(Atom::Rest), lit(payee)], r.chance(1, 2), true),
        // `\d*` next to a non-digit
        3 => (false, vec![lit(payee), Item::Code(Atom::Digits0)], r.chance(1, 2), false),
        4 => (r.chance(1, 2), vec![Item::Code(Atom::Digits0), lit(first)], false, false),
        5 => (r.chance(1, 2), vec![Item::Payee(Atom::Digits0)], false, true),
        _ => (true, vec![Item::Code(Atom::Digits0), lit(first), Item::Plain(Atom::Rest), Item::Payee(Atom::Digits0)], true, true),
    };
    let a = Rule {
        matcher: vec![vec![(RF_PAYEE, Pat { start, items, end, valid: true })]],
        as_list: r.chance(1, 3),
        pending: r.chance(1, 3),
        payee: None,
        account: if r.chance(1, 2) { Some(r.pick(&ACCOUNTS).to_string()) } else { None },
        conversion: None,
    };
    let follow = if sets_payee && r.chance(1, 4) {
        Pat { start: true, items: vec![], end: true, valid: true } // ^$
    } else {
        let w = if r.chance(1, 2) { first } else { last };
        Pat { start: r.chance(1, 4), items: vec![lit(w)], end: false, valid: true }
    };
    let b = Rule {
        matcher: vec![vec![(RF_PAYEE, follow)]],
        as_list: false,
        pending: r.chance(1, 4),
        payee: if r.chance(1, 5) { Some(gen_payee_text(r)) } else { None },
        account: Some(r.pick(&ACCOUNTS).to_string()),
        conversion: None,
    };
    vec![a, b]
}

// ---------------------------------------------------------------- numbers okane cannot read

/// digits of (m, scale) as integer part and fraction part
fn int_frac(m: u64, scale: u32) -> (String, String) {
    let digits = m.to_string();
    let digits = if digits.len() <= scale as usize { format!("{}{}", "0".repeat(scale as usize + 1 - digits.len()), digits) } else { digits };
    let (ip, fp) = digits.split_at(digits.len() - scale as usize);
    (ip.to_string(), fp.to_string())
}

fn group_with(ip: &str, sep: &str) -> String {
    let b = ip.as_bytes();
    let mut o = String::new();
    for (i, ch) in b.iter().enumerate() {
        if i > 0 && (b.len() - i) % 3 == 0 {
            o.push_str(sep);
        }
        o.push(*ch as char);
    }
    o
}

/// The figure (neg, m, scale) as statements of other banks and locales write it: notations
/// okane's number grammar does not know (apostrophe / space / no-break-space grouping, decimal
/// comma, a trailing minus, accounting parentheses, a leading plus, Indian grouping, an exponent)
/// or a number followed by junk (`12.50*`, `5 USD EUR`, `12..5`).  Returns the cell text, a tag for
/// the statistics, and whether a reader of the statement would still take the cell to say exactly
/// (neg, m, scale) (false for `--5` and `12..5`, which say nothing definite).  The importer must
/// either refuse the statement or book exactly that figure (`12.5x` is a number with the
/// commodity `x`) - never a different one.
pub fn foreign_number(r: &mut Rng, neg: bool, m: u64, scale: u32) -> (String, &'static str, bool) {
    let (ip, fp) = int_frac(m, scale);
    let minus = if neg { "-" } else { "" };
    let plain = if scale > 0 { format!("{}.{}", ip, fp) } else { ip.clone() };
    for _ in 0..40 {
        match r.below(16) {
            0 | 1 if ip.len() > 3 => return (format!("{}{}{}", minus, group_with(&ip, "'"), if scale > 0 { format!(".{}", fp) } else { String::new() }), "junk:apostrophe grouping 6'540.35", true),
            2 if ip.len() > 3 => return (format!("{}{}{}", minus, group_with(&ip, " "), if scale > 0 { format!(".{}", fp) } else { String::new() }), "junk:space grouping 1 234.56", true),
            3 if ip.len() > 3 => return (format!("{}{}{}", minus, group_with(&ip, "\u{a0}"), if scale > 0 { format!(".{}", fp) } else { String::new() }), "junk:no-break space grouping", true),
            4 | 5 if neg => return (format!("{}-", plain), "junk:trailing minus 12.50-", true),
            6 if neg => return (format!("({})", plain), "junk:accounting parentheses (12.50)", true),
            7 if !neg => return (format!("+{}", plain), "junk:leading plus +12.50", true),
            8 if scale > 0 && ip.len() > 3 => return (format!("{}{},{}", minus, group_with(&ip, "."), fp), "junk:continental 1.234,56", true),
            9 if scale > 0 && scale != 3 && ip.len() <= 3 => return (format!("{}{},{}", minus, ip, fp), "junk:decimal comma 12,50", true),
            10 => {
                let k = r.below(plain.len() as u64) as usize;
                let t = if scale > 0 { plain.replacen('.', "..", 1) } else { format!("{}..{}", &plain[..k.max(1)], &plain[k.max(1)..]) };
                return (format!("{}{}", minus, t), "junk:two dots 12..5", false);
            }
            11 => return (format!("{}{}{}", minus, plain, r.pick(&["*", " *", " EUR*", " (pending)", "?", " CHF 1", "/1"])), "junk:trailing annotation 12.50*", true),
            12 => return (format!("{}{} {} {}", minus, plain, r.pick(&["USD", "CHF"]), r.pick(&["EUR", "JPY"])), "junk:two commodities 5 USD EUR", true),
            13 => return (format!("{}{}{}", minus, plain, r.pick(&["x", "CHF", " Fr"])), "junk:letters after the digits 12.5x (a commodity)", true),
            14 if neg => return (format!("--{}", plain), "junk:two minus signs --5", false),
            15 if ip.len() > 5 => {
                // Indian grouping: the last three digits, then groups of two
                let (head, tail) = ip.split_at(ip.len() - 3);
                let hb = head.as_bytes();
                let mut h = String::new();
                for (i, ch) in hb.iter().enumerate() {
                    if i > 0 && (hb.len() - i) % 2 == 0 {
                        h.push(',');
                    }
                    h.push(*ch as char);
                }
                return (format!("{}{},{}{}", minus, h, tail, if scale > 0 { format!(".{}", fp) } else { String::new() }), "junk:Indian grouping 1,23,456.78", true);
            }
            _ => {}
        }
    }
    (format!("{}{}e0", minus, plain), "junk:exponent 1.5e0", true)
}
