(* C17 — rewrite rules and layered configuration resolve as documented.  Theorems only. *)
From Coq Require Import List NArith Bool.
From Okv Require Import Model.ImpConfig Model.ImpConfigSpec Model.ImpExtract Model.ImpExtractSpec.
Import ListNotations.

(* placeholder until Proofs/ImpConfigProofs.v lands *)
Theorem C17_merge_rules_concat2 : forall P (a b : doc P), d_rewrite (merge a b) = d_rewrite a ++ d_rewrite b.
Proof. reflexivity. Qed.
Print Assumptions C17_merge_rules_concat2.
