(* Model of report::query::Ledger::{balance, postings} without conversion (conversion is
   Model/PriceDb.v + Model/Convert.v) and of the running total of `okane register`. *)
From Coq Require Import List NArith ZArith Bool QArith Qcanon.
From Okv Require Import Base.Maps Base.Dec Model.Amount Model.Book.
Import ListNotations.

(* DateRange::contains: [start, end) with None = unbounded *)
Definition range_contains (start end_ : option Z) (d : Z) : bool :=
  match start with Some s => negb (d <? s)%Z | None => true end &&
  match end_ with Some e => negb (e <=? d)%Z | None => true end.

Definition range_bypass (start end_ : option Z) : bool :=
  match start, end_ with None, None => true | _, _ => false end.

Definition bal_round (f : formats) (b : balance) : balance :=
  map (fun p => (fst p, a_round f (snd p))) b.

(* the re-fold of Ledger::balance over transactions dated in the range *)
Definition refold (txns : list otxn) (start end_ : option Z) : balance :=
  fold_left (fun b t =>
               if range_contains start end_ (o_date t)
               then fold_left (fun b p => bal_add_amount b (o_account p) (o_amount p)) (o_posts t) b
               else b)
            txns [].

(* Ledger::balance with conversion: None *)
Definition balance_report (s : bstate) (start end_ : option Z) : balance :=
  if range_bypass start end_ then s_bal s
  else bal_round (s_fmt s) (refold (s_txns s) start end_).

(* Ledger::eval with `exchange: None` (also what `okane primitive eval` prints): the text is
   parsed to a value expression (Model/ExprParse.v), evaluated, and required to be an amount.
   Neither the balances nor the declared display precisions (s_fmt) of the processed ledger
   are consulted: the value is handed back as computed, never rounded. *)
Definition ledger_eval (s : bstate) (e : vexpr) : amount + eval_err :=
  match eval_v e with inl v => ev_to_amount v | inr er => inr er end.

(* Ledger::postings with account filter None / Some a, flattened in file order *)
Definition all_postings (s : bstate) : list oposting := flat_map o_posts (s_txns s).
Definition postings_of (s : bstate) (flt : option aid) : list oposting :=
  match flt with
  | None => all_postings s
  | Some a => filter (fun p => (o_account p =? a)%N) (all_postings s)
  end.

(* RegisterCmd: running total with Amount += (zero entries kept) *)
Fixpoint register_lines (acc : amount) (ps : list oposting) : list (aid * amount * amount) :=
  match ps with
  | [] => []
  | p :: r => let acc' := a_add acc (o_amount p) in (o_account p, o_amount p, acc') :: register_lines acc' r
  end.
