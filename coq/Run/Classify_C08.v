(* C08 classifier: 0 Agree | 1 ModelMismatch | 2 PropertyFail.
   A case is one expression tree generated along the grammar, its text lexed to tokens, the
   tree the real parser made of the text, and what the real evaluator answered in seven
   positions.  The expected answers are computed from the tree by the denotation `den_v`
   (Model/EvalSpec.v), not by the evaluator model; the evaluator model and the token-level
   parser model are compared as well (their equality with den / the grammar is Props/C08.v). *)
From Coq Require Import List NArith ZArith Bool QArith Qcanon.
From Okv Require Import Base.Maps Base.Dec Model.Amount Model.Book Model.Query Model.EvalSpec Model.ExprParse Run.LedgerCase.
Import ListNotations.

(* result of Ledger::eval / `okane primitive eval`: an amount or an error kind
   (1..8 = eval_code; 50 = the text did not parse; 0 = anything else) *)
Inductive robs := RAmt (a : amount) | RErr (k : N) | RPanic.

(* the same seven observations on ledgers that first declare display precisions
   (`commodity X` / `format 1,000.00 X` for every (X, decimals) of f_fmts) *)
Record fobs := {
  f_fmts : list (cid * nat);
  f_eval : robs; f_cli : robs;
  f_posting : lobs; f_cost : lobs; f_lot : lobs; f_assert : lobs; f_assign : lobs
}.

Record case := {
  c_tree : vexpr;              (* generated tree = how the text must parse *)
  c_tokens : list token;       (* the text, lexed by the harness *)
  c_parsed : option vexpr;     (* what syntax::expr::ValueExpr::try_from made of the text *)
  c_eval : robs;               (* Ledger::eval *)
  c_cli : robs;                (* okane primitive eval *)
  c_posting : lobs;            (* A  EXPR / B            *)
  c_cost : lobs;               (* A  1 AAPL @ EXPR / B   *)
  c_lot : lobs;                (* A  1 AAPL {EXPR} / B   *)
  c_assert : lobs;             (* A  0 = EXPR / B        *)
  c_assign : lobs;             (* A  = EXPR / B          *)
  c_declared : option fobs;    (* ... all seven again under declared precisions *)
  c_typed : list robs          (* okane primitive eval with the expression typed in other ways:
                                  no outer group, wrapped once / twice, `(a) op (b)`, one argv
                                  word per token, blanks around - the command joins the words and
                                  evaluates them as one group, so each is the same expression *)
}.
Definition C (t : vexpr) (ts : list token) (p : option vexpr) (e c : robs) (o1 o2 o3 o4 o5 : lobs) : case :=
  {| c_tree := t; c_tokens := ts; c_parsed := p; c_eval := e; c_cli := c;
     c_posting := o1; c_cost := o2; c_lot := o3; c_assert := o4; c_assign := o5; c_declared := None; c_typed := [] |}.
Definition CF (t : vexpr) (ts : list token) (p : option vexpr) (e c : robs) (o1 o2 o3 o4 o5 : lobs)
           (fm : list (cid * nat)) (fe fc : robs) (f1 f2 f3 f4 f5 : lobs) : case :=
  {| c_tree := t; c_tokens := ts; c_parsed := p; c_eval := e; c_cli := c;
     c_posting := o1; c_cost := o2; c_lot := o3; c_assert := o4; c_assign := o5;
     c_declared := Some {| f_fmts := fm; f_eval := fe; f_cli := fc; f_posting := f1; f_cost := f2;
                           f_lot := f3; f_assert := f4; f_assign := f5 |}; c_typed := [] |}.
Definition CFS (t : vexpr) (ts : list token) (p : option vexpr) (e c : robs) (o1 o2 o3 o4 o5 : lobs)
           (fm : list (cid * nat)) (fe fc : robs) (f1 f2 f3 f4 f5 : lobs) (typed : list robs) : case :=
  {| c_tree := t; c_tokens := ts; c_parsed := p; c_eval := e; c_cli := c;
     c_posting := o1; c_cost := o2; c_lot := o3; c_assert := o4; c_assign := o5;
     c_declared := Some {| f_fmts := fm; f_eval := fe; f_cli := fc; f_posting := f1; f_cost := f2;
                           f_lot := f3; f_assert := f4; f_assign := f5 |}; c_typed := typed |}.

(* ---- equality of trees ---- *)
Definition ocid_eqb (a b : option cid) : bool :=
  match a, b with Some x, Some y => (x =? y)%N | None, None => true | _, _ => false end.
Definition binop_eqb (a b : binop) : bool :=
  match a, b with OAdd, OAdd | OSub, OSub | OMul, OMul | ODiv, ODiv => true | _, _ => false end.
Fixpoint vexpr_eqb (a b : vexpr) : bool :=
  match a, b with
  | VParen x, VParen y => expr_eqb x y
  | VAmt q c, VAmt q' c' => qc_eqb q q' && ocid_eqb c c'
  | _, _ => false
  end
with expr_eqb (a b : expr) : bool :=
  match a, b with
  | EUnaryNeg x, EUnaryNeg y => expr_eqb x y
  | EBin o l r, EBin o' l' r' => binop_eqb o o' && expr_eqb l l' && expr_eqb r r'
  | EVal x, EVal y => vexpr_eqb x y
  | _, _ => false
  end.

Fixpoint v_has_div (v : vexpr) : bool :=
  match v with VParen e => e_has_div e | VAmt _ _ => false end
with e_has_div (e : expr) : bool :=
  match e with
  | EUnaryNeg x => e_has_div x
  | EBin ODiv _ _ => true
  | EBin _ l r => e_has_div l || e_has_div r
  | EVal v => v_has_div v
  end.

(* ---- comparison of values: exact, or up to Decimal's 28-digit division when the tree divides ---- *)
Section Cmp.
  Variable ap : bool.
  Definition q_cmp (a b : Qc) : bool := qc_eqb a b || (ap && qc_close a b).
  Fixpoint amount_cmp_sorted (a b : amount) : bool :=
    match a, b with
    | [], [] => true
    | (c1, v1) :: r1, (c2, v2) :: r2 => (c1 =? c2)%N && q_cmp v1 v2 && amount_cmp_sorted r1 r2
    | _, _ => false
    end.
  Definition amount_cmp (a b : amount) : bool := amount_cmp_sorted (sort_keys a) (sort_keys b).
  Definition conv_cmp (a b : option (cid * Qc)) : bool :=
    match a, b with
    | None, None => true
    | Some (c1, v1), Some (c2, v2) => (c1 =? c2)%N && q_cmp v1 v2
    | _, _ => false
    end.
  Definition oposting_cmp (a b : oposting) : bool :=
    (o_account a =? o_account b)%N && amount_cmp (o_amount a) (o_amount b)
    && conv_cmp (o_converted a) (o_converted b).
  Definition otxn_cmp (a : Z * list oposting) (b : otxn) : bool :=
    (fst a =? o_date b)%Z && list_eqb oposting_cmp (snd a) (o_posts b).
  Definition bal_cmp (a : list (N * amount)) (b : balance) : bool :=
    list_eqb (fun x y => (fst x =? fst y)%N && amount_cmp (snd x) (snd y)) a (sort_keys b).
  Definition err_cmp (x : xerr) (e : bk_err) : bool :=
    match x, e with
    | XEval k, EvalFailure ev => (k =? eval_code ev)%N
    | XBalanceFailure, BalanceFailure => true
    | XUndeducible i j, UndeduciblePostingAmount i' j' => Nat.eqb i i' && Nat.eqb j j'
    | XUnbalanced r, UnbalancedPostings r' => amount_cmp r r'
    | XAssertion p c d, BalanceAssertionFailure p' c' d' => Nat.eqb p p' && amount_cmp c c' && amount_cmp d d'
    | XZeroAmountWithExchange, ZeroAmountWithExchange => true
    | XZeroExchangeRate, ZeroExchangeRate => true
    | XExchangeWithAmountCommodity, ExchangeWithAmountCommodity => true
    | _, _ => false
    end.
  Definition lobs_cmp (o : lobs) (m : outcome bstate * nat) : bool :=
    match o, m with
    | LOk ts b, (Ok s, _) => list_eqb otxn_cmp ts (s_txns s) && bal_cmp b (s_bal s)
    | LErr k x, (Err e, k') => Nat.eqb k k' && err_cmp x e
    | LPanic, (Panic, _) => true
    | _, _ => false
    end.
  Definition robs_cmp (o : robs) (m : amount + eval_err) : bool :=
    match o, m with
    | RAmt a, inl b => amount_cmp a b
    | RErr k, inr e => (k =? eval_code e)%N
    | _, _ => false
    end.
End Cmp.

(* ---- the five ledgers ---- *)
Definition acc_a : aid := 0%N.
Definition acc_b : aid := 1%N.
Definition c_stock : cid := 0%N.   (* AAPL: never used inside the generated expressions *)
Definition two (p : posting) : list entry := [ETxn (T 0 [p; P acc_b None None None None])].
Definition pos_posting (t : vexpr) := two (P acc_a (Some t) None None None).
Definition pos_cost (t : vexpr) := two (P acc_a (Some (VAmt 1%Qc (Some c_stock))) (Some (XRate t)) None None).
Definition pos_lot (t : vexpr) := two (P acc_a (Some (VAmt 1%Qc (Some c_stock))) None (Some (XRate t)) None).
Definition pos_assert (t : vexpr) := two (P acc_a (Some (VAmt 0%Qc None)) None None (Some t)).
Definition pos_assign (t : vexpr) := two (P acc_a None None None (Some t)).

(* ---- what the denotation says must be observed ---- *)
Definition bind_d {A} (d : dval + eval_err) (f : dval -> A + eval_err) : A + eval_err :=
  match d with inl x => f x | inr e => inr e end.

Section Spec.
  Variable ap : bool.
  (* index of the transaction among the entries: 0, or the number of declarations before it *)
  Variable ei : nat.
  Definition two_postings (o : lobs) (chk : oposting -> oposting -> bool) : bool :=
    match o with LOk [(_, [p0; p1])] _ => chk p0 p1 | _ => false end.
  Definition is_eval_err (o : lobs) (e : eval_err) : bool :=
    match o with LErr k (XEval c) => Nat.eqb k ei && (c =? eval_code e)%N | _ => false end.
  Definition is_err_at (o : lobs) (f : xerr -> bool) : bool :=
    match o with LErr k x => Nat.eqb k ei && f x | _ => false end.

  Definition spec_value (t : vexpr) (o : robs) : bool :=
    match bind_d (den_v t) d_to_amount with
    | inr e => match o with RErr k => (k =? eval_code e)%N | _ => false end
    | inl (ks, f) => match o with RAmt a => amount_cmp ap a (map (fun c => (c, f c)) ks) | _ => false end
    end.
  Definition stored (p0 p1 : oposting) (a : amount) (conv : option (cid * Qc)) (other : amount) : bool :=
    amount_cmp ap (o_amount p0) a && conv_cmp ap (o_converted p0) conv && amount_cmp ap (o_amount p1) other.
  Definition spec_posting (t : vexpr) (o : lobs) : bool :=
    match bind_d (den_v t) d_to_pa with
    | inr e => is_eval_err o e
    | inl None => two_postings o (fun p0 p1 => stored p0 p1 [] None [])
    | inl (Some (c, x)) => two_postings o (fun p0 p1 => stored p0 p1 [(c, x)] None [(c, - x)%Qc])
    end.
  Definition spec_rate (t : vexpr) (o : lobs) : bool :=
    match bind_d (den_v t) d_to_single with
    | inr e => is_eval_err o e
    | inl (c, x) =>
        if qc_zero x then is_err_at o (fun e => match e with XZeroExchangeRate => true | _ => false end)
        else if (c =? c_stock)%N then is_err_at o (fun e => match e with XExchangeWithAmountCommodity => true | _ => false end)
        else two_postings o (fun p0 p1 => stored p0 p1 [(c_stock, 1%Qc)] (Some (c, x)) [(c, - x)%Qc])
    end.
  Definition spec_assert (t : vexpr) (o : lobs) : bool :=
    match bind_d (den_v t) d_to_pa with
    | inr e => is_eval_err o e
    | inl None => two_postings o (fun p0 p1 => stored p0 p1 [] None [])
    | inl (Some (c, x)) =>
        if qc_zero x then two_postings o (fun p0 p1 => stored p0 p1 [] None [])
        else is_err_at o (fun e => match e with
                                   | XAssertion 0 computed diff => amount_cmp ap computed [] && amount_cmp ap diff [(c, x)]
                                   | _ => false
                                   end)
    end.
  Definition spec_assign (t : vexpr) (o : lobs) : bool := spec_posting t o.
End Spec.

Definition presult_is (r : presult (vexpr * list token)) (t : vexpr) : bool :=
  match r with POk (t', []) => vexpr_eqb t' t | _ => false end.

(* Ledger::eval on a processed ledger that declares the precisions fm *)
Definition fmt_state (fm : formats) : bstate := {| s_bal := []; s_fmt := fm; s_events := []; s_txns := [] |}.
Definition model_value_on (fm : formats) (t : vexpr) : amount + eval_err := ledger_eval (fmt_state fm) t.
Definition model_value (t : vexpr) : amount + eval_err := model_value_on [] t.
Definition declare (fm : list (cid * nat)) : list entry := map (fun p => EFormat (fst p) (snd p)) fm.

(* Does the exact value have a finite decimal expansion?  Then Decimal's 28-digit division is
   exact (the generator keeps inexact quotients at the root only) and values are compared
   exactly; the 1e-18 tolerance applies only to results that cannot be written exactly. *)
Fixpoint strip_factor (fuel : nat) (d p : N) : N :=
  match fuel with
  | O => d
  | S f => if (d mod p =? 0)%N then strip_factor f (d / p)%N p else d
  end.
Definition terminating (q : Qc) : bool :=
  let d := Npos (Qden (this q)) in
  let f := S (N.to_nat (N.size d)) in
  (* and short enough for Decimal's 28 places / 96-bit mantissa: at most ~18 decimal places *)
  (strip_factor f (strip_factor f d 2%N) 5%N =? 1)%N && (d <? 1000000000000000000)%N.
Definition ev_terminating (r : evaluated + eval_err) : bool :=
  match r with
  | inl (ENum q) => terminating q
  | inl (ECom a) => forallb (fun p => terminating (snd p)) a
  | inr _ => true
  end.
(* every quotient computed anywhere in the tree has a finite decimal expansion *)
Fixpoint v_divs_terminating (v : vexpr) : bool :=
  match v with
  | VParen e => e_divs_terminating e
  | VAmt _ _ => true
  end
with e_divs_terminating (e : expr) : bool :=
  match e with
  | EUnaryNeg x => e_divs_terminating x
  | EBin op l r =>
      e_divs_terminating l && e_divs_terminating r &&
      match op with ODiv => ev_terminating (eval_e (EBin ODiv l r)) | _ => true end
  | EVal v => v_divs_terminating v
  end.
Definition result_terminating (t : vexpr) : bool := v_divs_terminating t.

Definition classify (c : case) : N :=
  let t := c_tree c in
  let ap := v_has_div t && negb (result_terminating t) in
  let shape := match c_parsed c with Some p => vexpr_eqb p t | None => false end in
  let spec :=
    shape && spec_value ap t (c_eval c) && spec_value ap t (c_cli c)
    && forallb (spec_value ap t) (c_typed c)
    && spec_posting ap 0 t (c_posting c) && spec_rate ap 0 t (c_cost c) && spec_rate ap 0 t (c_lot c)
    && spec_assert ap 0 t (c_assert c) && spec_assign ap 0 t (c_assign c)
    && match c_declared c with
       | None => true
       | Some f =>
           (* declared display precisions change none of the answers: exact values everywhere *)
           let n := length (f_fmts f) in
           spec_value ap t (f_eval f) && spec_value ap t (f_cli f)
           && spec_posting ap n t (f_posting f) && spec_rate ap n t (f_cost f) && spec_rate ap n t (f_lot f)
           && spec_assert ap n t (f_assert f) && spec_assign ap n t (f_assign f)
       end in
  let model :=
    presult_is (parse_value_expr (c_tokens c)) t
    && robs_cmp ap (c_eval c) (model_value t) && robs_cmp ap (c_cli c) (model_value t)
    && forallb (fun r => robs_cmp ap r (model_value t)) (c_typed c)
    && lobs_cmp ap (c_posting c) (process (pos_posting t))
    && lobs_cmp ap (c_cost c) (process (pos_cost t))
    && lobs_cmp ap (c_lot c) (process (pos_lot t))
    && lobs_cmp ap (c_assert c) (process (pos_assert t))
    && lobs_cmp ap (c_assign c) (process (pos_assign t))
    && match c_declared c with
       | None => true
       | Some f =>
           let d := declare (f_fmts f) in
           robs_cmp ap (f_eval f) (model_value_on (f_fmts f) t) && robs_cmp ap (f_cli f) (model_value_on (f_fmts f) t)
           && lobs_cmp ap (f_posting f) (process (d ++ pos_posting t))
           && lobs_cmp ap (f_cost f) (process (d ++ pos_cost t))
           && lobs_cmp ap (f_lot f) (process (d ++ pos_lot t))
           && lobs_cmp ap (f_assert f) (process (d ++ pos_assert t))
           && lobs_cmp ap (f_assign f) (process (d ++ pos_assign t))
       end in
  if spec && model then 0%N else if spec then 1%N else 2%N.

Definition verdicts (cs : list case) : list N := map classify cs.
