(* C06, printer: the one panicking operation of display.rs on user-controlled data is the usize
   subtraction `width_cjk(balance_str) - alignment` (Model/Display.v balance_underflow).  The
   printed balance is HEAD ++ REST where HEAD is the text up to the alignment point (digits and
   , . - + * / ( ) space only; its length is `alignment`) and REST is empty or starts with the
   space that separates a number from its commodity.  The subtraction underflows exactly when
   the width oracle gives the whole string less than length HEAD. *)
From Coq Require Import List NArith ZArith Bool Arith Lia.
From Okv Require Import Model.Lit Model.Syntax Model.Display Model.DisplaySpec Model.ParseLedger
     Proofs.DisplayExpr.
Import ListNotations.
Open Scope N_scope.

(* what follows the alignment point *)
Definition tail_ok (rest : str) : Prop := rest = [] \/ exists r, rest = 32 :: r.

Lemma align_prefix_split : forall ts,
  exists rest, toks_text ts = align_prefix ts ++ rest /\ tail_ok rest.
Proof.
  induction ts as [|t r IH].
  - exists []. split; [reflexivity|left; reflexivity].
  - destruct IH as [rest [E T]]. unfold toks_text in *. cbn [flat_map].
    destruct t as [| | |op|a]; cbn [align_prefix];
      try (exists rest; split; [rewrite E, <- app_assoc; reflexivity|exact T]).
    destruct (has_commodity a) eqn:C.
    + exists (32 :: sa_commodity a ++ flat_map tok_text r). split; [|right; eexists; reflexivity].
      cbn [tok_text]. unfold lit_text. rewrite C. rewrite <- app_assoc. reflexivity.
    + exists rest. split; [|exact T]. cbn [tok_text]. rewrite (lit_text_nocomm a C), E, <- app_assoc. reflexivity.
Qed.

Lemma show_vexpr_split_tail : forall v,
  exists rest, show_vexpr v = vexpr_align_prefix v ++ rest /\ tail_ok rest.
Proof. intro v. rewrite show_vexpr_toks. apply align_prefix_split. Qed.

(* the condition on the width oracle: a head of digits and expression punctuation, followed by
   nothing or by a space and anything, is at least as wide as it is long *)
Definition head_width_ok (w : str -> nat) : Prop :=
  forall a rest, forallb expr_punct a = true -> tail_ok rest -> (length a <= w (a ++ rest))%nat.

(* the subtraction underflows exactly when the oracle breaks that on the printed balance *)
Theorem balance_underflow_iff : forall w b,
  balance_underflow w b = true <-> (w (show_vexpr b) < length (vexpr_align_prefix b))%nat.
Proof.
  intros w b. unfold balance_underflow. rewrite align_vexpr_prefix. apply Nat.ltb_lt.
Qed.

Theorem balance_no_underflow : forall w b, head_width_ok w -> balance_underflow w b = false.
Proof.
  intros w b H. destruct (balance_underflow w b) eqn:E; [|reflexivity]. exfalso.
  apply balance_underflow_iff in E. destruct (show_vexpr_split_tail b) as [rest [S T]].
  rewrite S in E. pose proof (H (vexpr_align_prefix b) rest (align_prefix_punct _) T). lia.
Qed.

Theorem entry_no_hazard : forall w e, head_width_ok w -> entry_hazard w e = false.
Proof.
  intros w e H. destruct e as [t| | | | | |]; try reflexivity. cbn [entry_hazard].
  destruct (existsb (posting_hazard w) (st_posts t)) eqn:E; [|reflexivity]. exfalso.
  apply existsb_exists in E. destruct E as [p [_ Hp]]. unfold posting_hazard in Hp.
  destruct (sp_balance p) as [b|]; [|discriminate]. rewrite (balance_no_underflow w b H) in Hp. discriminate.
Qed.

(* format = parse, then print every entry: on whatever the parser returns the printer's hazard
   is unreachable *)
Theorem format_total : forall w, head_width_ok w -> forall s es,
  parse_ledger s = LOk es -> existsb (entry_hazard w) (map e_entry es) = false.
Proof.
  intros w H s es _. induction es as [|e es IH]; [reflexivity|].
  cbn [map existsb]. rewrite (entry_no_hazard w (e_entry e) H). exact IH.
Qed.

(* ---- oracles that satisfy the condition ---- *)

(* an additive oracle that gives printable ASCII its length *)
Lemma additive_head_ok : forall w, ascii_width_ok w ->
  (forall a b, w (a ++ b) = (w a + w b)%nat) -> head_width_ok w.
Proof.
  intros w A Add a rest P _. rewrite Add, (A a (punct_printable a P)). lia.
Qed.

(* weaker, and what unicode-width 0.2 does (it scans right to left with a state that a space
   resets, and gives every character of the head one column): a space cuts the string *)
Definition space_cut (w : str -> nat) : Prop :=
  forall a r, forallb expr_punct a = true -> w (a ++ 32 :: r) = (length a + w (32%N :: r))%nat.

Lemma space_cut_head_ok : forall w, ascii_width_ok w -> space_cut w -> head_width_ok w.
Proof.
  intros w A C a rest P [->|[r ->]].
  - rewrite app_nil_r, (A a (punct_printable a P)). lia.
  - rewrite (C a r P). lia.
Qed.

(* the hypothesis is satisfiable: the number of scalar values is such an oracle *)
Example length_head_ok : head_width_ok (@length N).
Proof.
  apply additive_head_ok; [intros s _; reflexivity|intros a b; apply app_length].
Qed.

(* ... and it is needed: an oracle that gives "1 $" less than one column reaches the hazard *)
Example hazard_needs_oracle :
  let b := SAmount {| sa_value := {| neg := false; mant := 1; scale := 0; pfmt := None |}; sa_commodity := [36] |} in
  balance_underflow (fun _ => 0%nat) b = true.
Proof. vm_compute. reflexivity. Qed.

Theorem format_balance_shape : forall b,
  exists rest, show_vexpr b = vexpr_align_prefix b ++ rest /\
               forallb expr_punct (vexpr_align_prefix b) = true /\ tail_ok rest.
Proof.
  intro b. destruct (show_vexpr_split_tail b) as [rest [E T]]. exists rest.
  split; [exact E|]. split; [apply align_prefix_punct|exact T].
Qed.

Theorem format_oracles : forall w, ascii_width_ok w ->
  ((forall a b, w (a ++ b) = (w a + w b)%nat) -> head_width_ok w) /\ (space_cut w -> head_width_ok w).
Proof.
  intros w A. split; [exact (additive_head_ok w A)|exact (space_cut_head_ok w A)].
Qed.
