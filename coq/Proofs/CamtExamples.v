(* The hypotheses of the C18 theorems are satisfiable: a concrete consistent statement with a
   credit entry, a batched debit entry (two details, one with TxAmt and an included charge),
   newest-first row order. *)
From Coq Require Import List NArith ZArith Bool QArith Qcanon Lia.
From Okv Require Import Base.Maps Base.Dec Model.Amount Model.Book Model.Lit Model.SingleEntry2
  Model.Camt Model.CamtBook Model.CamtSpec Proofs.CamtBasics Proofs.CamtImport Proofs.CamtBook_Maps
  Proofs.CamtBook_Txn Proofs.CamtBook_Conserves.
Import ListNotations.
Open Scope N_scope.

Definition ex_chf : str := [67; 72; 70].                       (* CHF *)
Definition ex_acct : str := [65; 115; 115; 101; 116; 115].     (* Assets *)
Definition ex_bank : str := [66; 97; 110; 107].                (* Bank *)
Definition ex_food : str := [70; 111; 111; 100].               (* Food *)

Definition xa (m : N) (s : nat) : xamount := {| xa_value := mkd false m s; xa_ccy := ex_chf |}.
Definition fr (a : option str) : fragment := {| f_payee := None; f_account := a; f_cleared := true; f_code := None |}.
Definition dt (d : N) : date := {| d_y := 2024; d_m := 1; d_d := d |}.

(* credit 50.00, value date one day before booking *)
Definition ex_e1 : entry :=
  {| en_amount := xa 5000 2; en_cd := Credit; en_booking := dt 15; en_value := Some (dt 14);
     en_charges := []; en_details := []; en_frag := fr None |}.
(* debit 10.00 of which 0.50 is an included charge: TxAmt 9.50 *)
Definition ex_d1 : detail :=
  {| td_ref := Some [49]; td_amount := xa 1000 2; td_cd := Debit;
     td_details := Some {| ad_amount := xa 950 2; ad_exchange := None |};
     td_charges := [ {| cr_amount := xa 50 2; cr_cd := Debit; cr_included := true |};
                     {| cr_amount := xa 0 2; cr_cd := Debit; cr_included := false |} ];
     td_frag := fr (Some ex_food) |}.
Definition ex_d2 : detail :=
  {| td_ref := None; td_amount := xa 2050 2; td_cd := Debit; td_details := None; td_charges := [];
     td_frag := fr None |}.
(* batched debit 30.50 = 10.00 + 20.50 *)
Definition ex_e2 : entry :=
  {| en_amount := xa 305 1; en_cd := Debit; en_booking := dt 16; en_value := None;
     en_charges := []; en_details := [ex_d1; ex_d2]; en_frag := fr None |}.

(* 100.00 + 50.00 - 30.50 = 119.50 *)
Definition ex_st : statement :=
  {| st_balances := [ {| b_code := CLBD; b_amount := xa 11950 2; b_cd := Credit |};
                      {| b_code := OPBD; b_amount := xa 100 0; b_cd := Credit |} ];
     st_entries := [ex_e2; ex_e1] |}.
Definition ex_cfg : config := {| cf_operator := Some ex_bank; cf_new_to_old := true |}.

Example ex_consistent : consistent_b ex_cfg ex_chf ex_st = true.
Proof. vm_compute. reflexivity. Qed.

Example ex_import_length :
  exists txns, import ex_cfg [ex_st] = inl txns /\ length txns = 4%nat.
Proof. eexists. split; [vm_compute; reflexivity|reflexivity]. Qed.

Definition ex_ia (s : str) : aid := if str_eqb s ex_acct then 0 else 1.
Definition ex_ic (s : str) : cid := 7.

Example ex_counter_accounts :
  forall a, In a (counter_accounts ex_cfg ex_st) -> ex_ia a <> ex_ia ex_acct.
Proof.
  intros a H. vm_compute in H.
  repeat (destruct H as [H|H]; [subst a; vm_compute; discriminate|]). contradiction.
Qed.

(* the conclusion of the conservation theorem on this statement *)
Example ex_conserves :
  exists txns ob cb,
    import ex_cfg [ex_st] = inl txns /\
    balance_of ex_st OPBD = Some ob /\ balance_of ex_st CLBD = Some cb /\
    exists L n,
      process (ledger_of ex_ia ex_ic 2 ex_acct (find_balance (st_balances ex_st) OPBD) txns) = (Ok L, n) /\
      bal_get (s_bal L) (ex_ia ex_acct) = a_remove_zeros [(ex_ic ex_chf, balance_value cb)].
Proof.
  apply conserves.
  - exact ex_consistent.
  - vm_compute. discriminate.
  - exact ex_counter_accounts.
Qed.

(* and directly: the ledger is accepted and the account holds 119.50 CHF *)
Example ex_direct :
  match import ex_cfg [ex_st] with
  | inl txns =>
      match process (ledger_of ex_ia ex_ic 2 ex_acct (find_balance (st_balances ex_st) OPBD) txns) with
      | (Ok L, n) => match bal_get (s_bal L) 0 with
                     | [(c, v)] => (c =? 7) && Qc_eq_bool v (of_dec 11950 2) && Nat.eqb n 5
                     | _ => false
                     end
      | _ => false
      end
  | inr _ => false
  end = true.
Proof. vm_compute. reflexivity. Qed.
