(* C09 classifier.  0 Agree | 1 ModelMismatch | 2 PropertyFail | 9 harness.
   Spec predicate: the rate the implementation used for (from -> to) as of the query date is
   the rate of an optimal chain of the brute-force spec (Model/PriceSpec.v `best_rates` over
   the edges read off the events), or RateNotFound exactly when no chain exists.  It is
   computed from the events only: insert_price/build/partition_point/compute_price_table of
   the model play no part in it.  Agreement: the model (max-heap pop order) gives the same
   answer; where several optimal chains with different rates exist (a genuine tie) the
   implementation's pick depends on HashMap order and any optimal rate agrees. *)
From Coq Require Import List NArith ZArith Bool QArith Qcanon.
From Okv Require Import Base.Maps Base.Dec Model.Amount Model.Book Model.PriceDb Model.PriceSpec
     Run.LedgerCase Run.PriceCase.
Import ListNotations.

Record query := { q_from : N; q_to : N; q_date : Z; q_api : robs; q_cli : option robs }.
Definition Q (f t : N) (d : Z) (api : robs) (cli : option robs) : query :=
  {| q_from := f; q_to := t; q_date := d; q_api := api; q_cli := cli |}.

Record case := { c_entries : list entry; c_db : list pline; c_exact : bool; c_loaded : bool;
                 c_queries : list query;
                 (* `okane primitive eval -X T ...` with T unknown to ledger and price DB *)
                 c_unknown : list uobs }.
Definition C (es : list entry) (db : list pline) (exact loaded : bool) (qs : list query) : case :=
  {| c_entries := es; c_db := db; c_exact := exact; c_loaded := loaded; c_queries := qs; c_unknown := [] |}.
Definition CU (es : list entry) (db : list pline) (exact loaded : bool) (qs : list query) (us : list uobs) : case :=
  {| c_entries := es; c_db := db; c_exact := exact; c_loaded := loaded; c_queries := qs; c_unknown := us |}.

(* does the observed answer to "1 from in to" satisfy the property? *)
Definition spec_ok (exact : bool) (rates : list Qc) (from to : N) (o : robs) : bool :=
  if (from =? to)%N then
    match o with ROk [(c, v)] => (c =? from)%N && qc_eqb v 1 | _ => false end
  else
    match o, rates with
    | RNotFound c, [] => (c =? from)%N
    | ROk [(c, v)], _ :: _ => (c =? to)%N && existsb (rate_eqb exact v) rates
    | _, _ => false
    end.

Definition model_agrees (exact : bool) (m : conv_outcome amount) (o : robs) : bool :=
  match m, o with
  | COk a, ROk b => amount_close exact a b
  | CErr (RateNotFound c _ _ _), RNotFound c' => (c =? c')%N
  | _, _ => false
  end.

Definition classify_obs (exact : bool) (rates : list Qc) (m : conv_outcome amount) (from to : N) (o : robs) : N :=
  if negb (spec_ok exact rates from to o) then 2%N
  else if model_agrees exact m o || is_tie exact rates then 0%N else 1%N.

Definition classify_query (exact : bool) (evs : list price_event) (db : list pline) (recs : records) (q : query) : N :=
  let rates := spec_rates evs db (q_date q) (q_to q) (q_from q) in
  let m := convert_amount run_fuel choose_max recs (a_single (q_from q) 1) (q_to q) (q_date q) in
  worst (classify_obs exact rates m (q_from q) (q_to q) (q_api q))
        (match q_cli q with
         | Some o => classify_obs exact rates m (q_from q) (q_to q) o
         | None => 0%N
         end).

Definition classify (c : case) : N :=
  match process (c_entries c) with
  | (Ok s, _) =>
      if negb (c_loaded c) then 1%N else
      let evs := s_events s in
      let recs := repository evs (c_db c) in
      worst (classify_unknowns (c_unknown c))
            (fold_left (fun acc q => worst acc (classify_query (c_exact c) evs (c_db c) recs q)) (c_queries c) 0%N)
  | _ => if c_loaded c then 1%N else 0%N
  end.

Definition verdicts (cs : list case) : list N := map classify cs.

(* per-query verdicts of one case (for replays) *)
Definition detail (c : case) : list N :=
  match process (c_entries c) with
  | (Ok s, _) => let evs := s_events s in
                 let recs := repository evs (c_db c) in
                 map (classify_query (c_exact c) evs (c_db c) recs) (c_queries c)
  | _ => []
  end.
