(* What reaches stdout/stderr from maps: the sequences printed by InlinePrintAmount (sorted by
   commodity), Balance::into_vec (sorted by account), RegisterCmd, and the residual shown by
   UnbalancedPostings.  Names are order-preserving ids, so sorting by id is sorting by name. *)
From Coq Require Import List NArith ZArith QArith Qcanon.
From Okv Require Import Base.Maps Base.Dec Model.Amount Model.Book Model.Query.
Import ListNotations.

(* InlinePrintAmount: the (commodity, value) sequence in printing order *)
Definition render_amount (a : amount) : list (cid * Qc) := sort_keys a.

(* BalanceCmd: one line per account, in into_vec order *)
Definition render_balance (b : balance) : list (aid * list (cid * Qc)) :=
  sort_keys (map (fun p => (fst p, render_amount (snd p))) b).

(* RegisterCmd: account, amount, running total per posting *)
Definition render_register (ps : list oposting) : list (aid * list (cid * Qc) * list (cid * Qc)) :=
  map (fun l => (fst (fst l), render_amount (snd (fst l)), render_amount (snd l))) (register_lines [] ps).

(* the text of BookKeepError::UnbalancedPostings *)
Definition render_unbalanced (e : bk_err) : option (list (cid * Qc)) :=
  match e with UnbalancedPostings r => Some (render_amount r) | _ => None end.
