(* C04 — reported balances equal the sum of the register, over any date range.  Theorems only.
   Model: Model/Query.v (Ledger::balance, Ledger::postings, RegisterCmd) over the reachable
   states of Model/Book.v; vocabulary: Model/BookSpecB.v; proofs: Proofs/BookB_Inv.v,
   Proofs/BookB_Query.v; non-vacuity: Proofs/BookB_Examples.v.
   Reading (DESIGN.md C04): a zero total is an exactly zero total; the ranged report is
   bal_round of the re-fold (rounding after zero entries were removed); the whole-history
   report is the incrementally kept balance, never rounded. *)
From Coq Require Import List NArith ZArith Bool QArith Qcanon.
From Okv Require Import Base.Maps Base.Dec Model.Amount Model.Book Model.Query Model.BookSpecB
     Proofs.BookB_Maps Proofs.BookB_Inv Proofs.BookB_Query Proofs.BookB_Examples.
Import ListNotations.
Open Scope Qc_scope.

(* 1. Whole history: the report (incrementally kept balance) gives, for every account and
   commodity, the sum of the amounts the register lists for that account. *)
Theorem C04_raw_is_sum : forall s,
  reachable s ->
  forall a c, a_get (bal_get (balance_report s None None) a) c
              = reg_sum (register_lines [] (all_postings s)) a c.
Proof. intros s R. apply raw_is_sum. now apply reachable_inv. Qed.
Print Assumptions C04_raw_is_sum.

(* 2. Date range: the re-fold is the sum over the transactions dated in [start, end). *)
Theorem C04_range_is_sum : forall s st en,
  reachable s ->
  forall a c, a_get (bal_get (refold (s_txns s) st en) a) c
              = sum_posts (flat_map o_posts (filter (fun t => range_contains st en (o_date t)) (s_txns s))) a c.
Proof.
  intros s st en R a c. rewrite <- range_sum_filter. apply range_is_sum_gen.
  apply Inv_txns_wf. now apply reachable_inv.
Qed.
Print Assumptions C04_range_is_sum.

(* adjacent ranges add up (unrounded), with either outer bound possibly open *)
Theorem C04_adjacent_add_open : forall s st en b,
  reachable s -> ole_l st b -> ole_r b en ->
  forall a c, a_get (bal_get (refold (s_txns s) st (Some b)) a) c
              + a_get (bal_get (refold (s_txns s) (Some b) en) a) c
              = a_get (bal_get (refold (s_txns s) st en) a) c.
Proof.
  intros s st en b R. apply adjacent_add_refold. apply Inv_txns_wf. now apply reachable_inv.
Qed.
Print Assumptions C04_adjacent_add_open.

Theorem C04_adjacent_add : forall s (a b c : Z),
  reachable s -> (a <= b)%Z -> (b <= c)%Z ->
  forall acct cm, a_get (bal_get (refold (s_txns s) (Some a) (Some b)) acct) cm
                  + a_get (bal_get (refold (s_txns s) (Some b) (Some c)) acct) cm
                  = a_get (bal_get (refold (s_txns s) (Some a) (Some c)) acct) cm.
Proof. intros s a b c R H1 H2. now apply C04_adjacent_add_open. Qed.
Print Assumptions C04_adjacent_add.

(* empty (start = end) and inverted (start > end) ranges give the empty report *)
Theorem C04_empty_range : forall s (a b : Z),
  (b <= a)%Z -> balance_report s (Some a) (Some b) = [].
Proof. intros s a b H. unfold balance_report. cbn [range_bypass]. now rewrite refold_empty. Qed.
Print Assumptions C04_empty_range.

(* the two code paths agree before rounding *)
Theorem C04_whole_vs_range : forall s,
  reachable s ->
  forall a c, a_get (bal_get (refold (s_txns s) None None) a) c = a_get (bal_get (s_bal s) a) c.
Proof. intros s R. apply whole_vs_range. now apply reachable_inv. Qed.
Print Assumptions C04_whole_vs_range.

(* 3. No zero-valued entry: in the kept balance of a reachable state, and in any re-fold. *)
Theorem C04_no_zero_commodity : forall s,
  reachable s ->
  (forall a x c v, In (a, x) (s_bal s) -> In (c, v) x -> v <> 0)
  /\ (forall st en a x c v, In (a, x) (refold (s_txns s) st en) -> In (c, v) x -> v <> 0).
Proof.
  intros s R. split.
  - intros a x c v Hx Hv. destruct (inv_bal _ (reachable_inv _ R)) as [_ H].
    destruct (H a x Hx) as [_ Hnz]. eauto.
  - intros st en a x c v. apply no_zero_commodity_refold.
Qed.
Print Assumptions C04_no_zero_commodity.

(* a commodity is shown on an account iff its exact total there is not zero *)
Theorem C04_shown_iff_nonzero : forall s st en a c,
  reachable s ->
  (In c (keys (bal_get (balance_report s st en) a)) <->
   sum_posts (flat_map o_posts (filter (fun t => range_contains st en (o_date t)) (s_txns s))) a c <> 0).
Proof.
  intros s st en a c R. pose proof (reachable_inv _ R) as I.
  destruct (range_bypass st en) eqn:E.
  - destruct st; [discriminate|]. destruct en; [discriminate|].
    rewrite (shown_iff_nonzero_raw _ _ _ I), <- range_sum_filter, range_sum_whole. reflexivity.
  - rewrite (shown_iff_nonzero _ _ _ _ _ I E), range_sum_filter. reflexivity.
Qed.
Print Assumptions C04_shown_iff_nonzero.

(* 4. The last running total of the register is the balance report added up over accounts. *)
Theorem C04_register_total : forall s,
  reachable s ->
  forall c, a_get (last_total (register_lines [] (all_postings s))) c
            = bal_total (balance_report s None None) c.
Proof. intros s R. apply register_total. now apply reachable_inv. Qed.
Print Assumptions C04_register_total.
