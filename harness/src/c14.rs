//! C14: diagnostics name the right file and line.
//! Files with exactly one invalid entry placed after random valid content (blank lines, CRLF,
//! multi-byte text, comments, declarations), in the root file or in an included file at depth
//! <= 3.  Observed: the rendered Display chain of report::process's error on a FakeFileSystem
//! (child process) and `okane balance` stderr through cli::run on real scratch files.
use crate::child::{self, ChildObs};
use crate::cli;
use crate::coq::{self, Shards, Stats};
use crate::parseobs;
use crate::prng::Rng;
use crate::Opts;
use okane_core::{load, report};
use serde_json::{json, Value};
use std::collections::HashMap;
use std::path::PathBuf;

const ACCOUNTS: [&str; 8] = ["Assets:Bank", "Expenses:食費", "Liabilities:クレカ", "Equity", "Dépenses:Épicerie", "Активы", "A", "Income:Salary"];
const COMMS: [&str; 5] = ["USD", "JPY", "€", "円", "CHF"];
const WORDS: [&str; 8] = ["メモ", "note", "été", "x", "支払い", "taxes 2024", "ok", "😀"];

struct G<'a> {
    r: &'a mut Rng,
    crlf: u8, // 0 LF, 1 CRLF, 2 mixed
}

impl<'a> G<'a> {
    fn nl(&mut self) -> &'static str {
        match self.crlf {
            0 => "\n",
            1 => "\r\n",
            _ => {
                if self.r.chance(1, 2) {
                    "\n"
                } else {
                    "\r\n"
                }
            }
        }
    }
    fn word(&mut self) -> &'static str {
        WORDS[self.r.below(WORDS.len() as u64) as usize]
    }
    fn blank_lines(&mut self, min: u64) -> String {
        let n = min + self.r.below(3);
        let mut s = String::new();
        for _ in 0..n {
            if self.r.chance(1, 5) {
                s.push_str(if self.r.chance(1, 2) { "  " } else { "\t" });
            }
            s.push_str(self.nl());
        }
        s
    }
    /// a syntactically and semantically valid entry (lines joined with this file's line ends)
    fn valid_entry(&mut self) -> String {
        let mut s = String::new();
        match self.r.below(10) {
            0..=4 => {
                // balanced transaction: amounts in one commodity, last posting omitted
                let c = COMMS[self.r.below(COMMS.len() as u64) as usize];
                s.push_str(&format!("20{:02}/{:02}/{:02}", 10 + self.r.below(15), 1 + self.r.below(12), 1 + self.r.below(28)));
                if self.r.chance(1, 3) {
                    s.push_str(if self.r.chance(1, 2) { " *" } else { " !" });
                }
                s.push_str(&format!(" {} {}", self.word(), self.word()));
                if self.r.chance(1, 3) {
                    s.push_str(&format!(" ; {}", self.word()));
                }
                s.push_str(self.nl());
                if self.r.chance(1, 4) {
                    s.push_str(&format!("  ; :{}:tag:", "取引"));
                    s.push_str(self.nl());
                }
                let n = 1 + self.r.below(3);
                for _ in 0..n {
                    let a = ACCOUNTS[self.r.below(ACCOUNTS.len() as u64) as usize];
                    let v = self.r.range(-99999, 99999);
                    s.push_str(&format!("  {}  {}.{:02} {}", a, v / 100, (v % 100).abs(), c));
                    if self.r.chance(1, 4) {
                        s.push_str(&format!(" ; {}: {}", "Payee", self.word()));
                    }
                    s.push_str(self.nl());
                    if self.r.chance(1, 5) {
                        s.push_str(&format!("    ; {}", self.word()));
                        s.push_str(self.nl());
                    }
                }
                s.push_str("  Equity:Opening");
                s.push_str(self.nl());
            }
            5..=6 => {
                let n = 1 + self.r.below(3);
                for _ in 0..n {
                    let p = *self.r.pick(&[';', '#', '%', '|', '*']);
                    s.push_str(&format!("{} {} {}", p, self.word(), self.word()));
                    s.push_str(self.nl());
                }
            }
            7 => {
                s.push_str(&format!("account Extra:{}", self.word().replace(' ', "_")));
                s.push_str(self.nl());
                if self.r.chance(1, 2) {
                    s.push_str(&format!("  note {}", self.word()));
                    s.push_str(self.nl());
                }
            }
            8 => {
                s.push_str(&format!("commodity {}", *self.r.pick(&["XAU", "株", "BTC"])));
                s.push_str(self.nl());
                if self.r.chance(1, 2) {
                    s.push_str("  ; 説明");
                    s.push_str(self.nl());
                }
            }
            _ => {
                s.push_str(&format!("apply tag {}", "k"));
                s.push_str(self.nl());
                s.push_str(self.nl());
                s.push_str("end apply tag");
                s.push_str(self.nl());
            }
        }
        s
    }
    fn valid_block(&mut self, max: u64) -> String {
        let mut s = self.blank_lines(0);
        let n = self.r.below(max + 1);
        for _ in 0..n {
            s.push_str(&self.valid_entry());
            s.push_str(&self.blank_lines(1));
        }
        s
    }
}

struct Bad {
    name: &'static str,
    /// 1 syntax, 2 book-keeping
    kind: u8,
    lines: Vec<&'static str>,
    /// number of leading lines that form a valid entry of their own (the invalid entry starts after them)
    valid_head: usize,
}

fn bad_entries() -> Vec<Bad> {
    let b = |name, kind, lines: &[&'static str]| Bad { name, kind, lines: lines.to_vec(), valid_head: if name == "syntax:commodity-format" { 1 } else { 0 } };
    vec![
        b("syntax:bad-date", 1, &["2024/13/45 買い物", "  A  1 USD", "  B"]),
        b("syntax:no-matching", 1, &["foo bar baz"]),
        b("syntax:indented-top-level", 1, &["  A  1 USD"]),
        b("syntax:account-without-space", 1, &["accountX"]),
        b("syntax:apply-without-tag", 1, &["apply tags k"]),
        b("syntax:bad-amount", 1, &["2024/01/05 スーパー", "  Expenses:食費  1 USD USD", "  Assets:現金"]),
        b("syntax:tags-then-text", 1, &["2024/01/05 スーパー ; :a:b: rest", "  A  1 USD", "  B"]),
        b("syntax:unclosed-paren", 1, &["2024/01/05 x", "  A  1 USD", "  B  (1 USD + ", "  C"]),
        b("syntax:duplicate-lot", 1, &["2024/01/05 x", "  ; メモ", "  A  1 USD {1 EUR} {2 EUR}", "  B"]),
        b("syntax:missing-account", 1, &["2024/01/05 x", "  A  1 USD", "  ; c", "  * ", "  B"]),
        b("syntax:bad-lot-date", 1, &["2024/01/05 x", "  A  1 USD [2024/02/30]", "  B"]),
        b("syntax:end-apply", 1, &["end apply tags"]),
        b("syntax:include-no-path", 1, &["include"]),
        b("syntax:commodity-format", 1, &["commodity USD", "  format abc"]),
        b("syntax:posting-bad-metadata", 1, &["2024/01/05 x", "  A  1 USD ; :t: x", "  B"]),
        b("syntax:too-deep", 1, &["2024/01/05 x", "  A  ((((((((((((((((((((((((((((((((((((((((((((((((((((((((((((((((((((((((((((((((((((((((((((((((((((((1)))))))))))))))))))))))))))))))))))))))))))))))))))))))))))))))))))))))))))))))))))))))))))))))))))))", "  B"]),
        b("book:unbalanced", 2, &["2024/01/05 スーパー", "  Expenses:食費  100 JPY", "  Assets:現金  -90 JPY"]),
        b("book:unbalanced-long", 2, &["2024/01/05 x ; c", "  ; メモ", "  A  1 USD", "  ; c", "  B  2 USD", "  C  3 USD"]),
        b("book:assertion", 2, &["2024/01/05 x", "  Assets:Fresh14  1 USD = 5 USD", "  B  -1 USD"]),
        b("book:assertion-later", 2, &["2024/01/05 x", "  A  1 USD", "  ; note", "  Assets:Fresh14  2 USD = 7 USD", "  B  -3 USD"]),
        b("book:undeducible", 2, &["2024/01/05 x", "  A  1 USD", "  B", "  C"]),
        b("book:zero-rate", 2, &["2024/01/05 x", "  A  1 USD @ 0 EUR", "  B"]),
        b("book:zero-lot", 2, &["2024/01/05 x", "  ; c", "  A  1 USD {0 EUR}", "  B"]),
        b("book:zero-amount-exchange", 2, &["2024/01/05 x", "  A  0 @ 1 EUR", "  B"]),
        b("book:same-commodity-cost", 2, &["2024/01/05 x", "  A  1 USD", "  B  -1 USD @ 2 USD", "  C"]),
        b("book:eval", 2, &["2024/01/05 x", "  A  (1 USD * 2 EUR)", "  B"]),
    ]
}

/// syntax errors whose stop position is (for most of them) exactly the end of a line: a
/// keyword whose argument is missing, a posting line that ends after its clear mark, ...
/// A few neighbours that stop in the middle of the line are kept for contrast; where the real
/// parser stopped is measured per case (`eol:stop-at-line-end`).
fn eol_bad_entries() -> Vec<Bad> {
    let b = |name, lines: &[&'static str]| Bad { name, kind: 1, lines: lines.to_vec(), valid_head: 0 };
    vec![
        b("eol:account", &["account"]),
        b("eol:include", &["include"]),
        b("eol:commodity", &["commodity"]),
        b("eol:apply", &["apply"]),
        b("eol:apply-tag", &["apply tag"]),
        b("eol:apply-tag-blank", &["apply tag "]),
        b("eol:apply-two-blanks-tag", &["apply  tag"]),
        b("eol:end", &["end"]),
        b("eol:end-apply", &["end apply"]),
        b("eol:end-apply-blanks", &["end apply  "]),
        b("eol:date-equals", &["2024/01/05="]),
        b("eol:posting-pending-only", &["2024/01/05 x", "  !"]),
        b("eol:posting-pending-blank", &["2024/01/05 スーパー", "  ; メモ", "  ! "]),
        b("eol:posting-pending-tab", &["2024/01/05 x", "  A  1 USD", "  !\t"]),
        b("eol:posting-cleared-blank", &["2024/01/05 x", "  A  1 USD", "  ; c", "  * "]),
        b("eol:posting-cleared-only", &["2024/01/05 x ; 円", "  Expenses:食費  100 円", "  *"]),
        // contrast: the parser stops inside the last line, not at its end
        b("eol:mid-end-apply-tag-extra", &["end apply tag x"]),
        b("eol:mid-short-date", &["2024/01"]),
        b("eol:mid-assertion-without-value", &["2024/01/05 x", "  A  1 USD ="]),
    ]
}

const FOLLOWERS: [&str; 9] = [
    "eof-no-newline", "eof-after-newline", "blank-line", "line-of-blanks", "transaction", "comment", "directive", "indented-line", "multibyte-text",
];

struct Case {
    files: Vec<(String, String)>, // path relative to the root dir ("main.ledger", "sub/a.ledger", ...)
    bad_file: usize,
    first_line: usize,
    last_line: usize,
    /// index of the bad entry among the entries of its file (parse order, includes counted)
    entry_index: usize,
    bad: usize,
    depth: usize,
    /// the line after the invalid entry's last line is not blank
    direct: bool,
}

fn count_lines(s: &str) -> usize {
    s.bytes().filter(|b| *b == b'\n').count()
}

fn count_entries(text: &str) -> usize {
    // a helper of the generator: a panic of the implementation here (rendering the error) is not an
    // observation of this helper - the legs that observe diagnostics report it
    std::panic::catch_unwind(|| parseobs::observe_parse(text).entries.len()).unwrap_or(0)
}

/// where the files of a tree live: the root, the chain of included files below it (paths
/// relative to the tree), and how each file names the next one in its `include`
struct Layout {
    names: [&'static str; 4],
    includes: [&'static str; 3],
}

const PLAIN: Layout = Layout { names: ["main.ledger", "sub/a.ledger", "sub/deep/b.ledger", "sub/deep/c d.ledger"], includes: ["sub/a.ledger", "deep/b.ledger", "c d.ledger"] };

fn gen_case(r: &mut Rng, bads: &[Bad], k: usize) -> Case {
    gen_case_in(r, bads, k, &PLAIN)
}

fn dir_of(p: &str) -> &str {
    match p.rfind('/') {
        Some(i) => &p[..i + 1],
        None => "",
    }
}

fn gen_case_in(r: &mut Rng, bads: &[Bad], k: usize, layout: &Layout) -> Case {
    let bad = k % bads.len();
    let depth = (k / bads.len()) % 4;
    let crlf = match r.below(10) {
        0..=4 => 0,
        5..=7 => 1,
        _ => 2,
    };
    let mut g = G { r, crlf };
    let names = layout.names;
    let includes = layout.includes;
    let mut files = Vec::new();
    for d in 0..depth {
        let mut t = g.valid_block(3);
        t.push_str(&format!("include {}", includes[d]));
        t.push_str(g.nl());
        // content after the include is never reached
        t.push_str(&g.valid_block(1));
        files.push((names[d].to_string(), t));
    }
    let mut pre = g.valid_block(if k % 7 == 0 { 0 } else { 4 });
    if k % 5 == 1 {
        // multi-byte text and a CRLF right before the entry
        pre.push_str("; 直前のコメント\r\n\r\n");
    }
    let mut side_file: Option<(String, String)> = None;
    // sometimes the bad entry comes after the loader has returned from a side include
    // (a valid file, or a blank one) in the same file
    if k % 3 != 0 {
        let dir = dir_of(names[depth]);
        let blank = k % 2 == 0;
        let side = format!("{}side{}.ledger", dir, k % 4);
        let content = if blank { if k % 4 == 0 { String::new() } else { "\n  \n".to_string() } } else { g.valid_block(2) };
        side_file = Some((side.clone(), content));
        pre.push_str(&format!("include side{}.ledger", k % 4));
        pre.push_str(g.nl());
        pre.push_str(g.nl());
    }
    let first_line = 1 + count_lines(&pre) + bads[bad].valid_head;
    let entry_index = count_entries(&pre) + if bads[bad].valid_head > 0 { 1 } else { 0 };
    let mut t = pre;
    let b = &bads[bad];
    for (i, l) in b.lines.iter().enumerate() {
        t.push_str(l);
        if i + 1 < b.lines.len() || g.r.chance(4, 5) {
            t.push_str(g.nl());
        }
    }
    let last_line = first_line + b.lines.len() - 1 - b.valid_head;
    let mut direct = false;
    if t.ends_with('\n') && g.r.chance(1, 2) {
        if g.r.chance(1, 3) {
            // the next entry starts directly on the following line: no blank line in between
            direct = true;
            let e = g.valid_entry();
            t.push_str(&e);
            t.push_str(&g.valid_block(1));
        } else {
            t.push_str(g.nl());
            t.push_str(&g.valid_block(2));
        }
    }
    files.push((names[depth].to_string(), t));
    let bad_file = files.len() - 1;
    if let Some(sf) = side_file {
        files.push(sf);
    }
    Case { files, bad_file, first_line, last_line, entry_index, bad, depth, direct }
}

/// The stream `relative-root`: the root file is named on the command line by a RELATIVE path
/// (`main.ledger`, `./main.ledger`, `books/main.ledger`, `../main.ledger`, ...) from a current
/// directory the harness chooses, and the included files repeat the last components of that
/// path (one `main.ledger` per year directory).  `ABS` stands for the absolute path.
struct RelLayout {
    name: &'static str,
    layout: Layout,
    /// (current directory relative to the tree, root path as typed)
    spellings: &'static [(&'static str, &'static str)],
}

const ABS: &str = "<absolute>";

const REL_LAYOUTS: [RelLayout; 4] = [
    RelLayout {
        name: "root main.ledger, included */main.ledger",
        layout: Layout { names: ["main.ledger", "2023/main.ledger", "2023/q1/main.ledger", "2023/q1/old/main.ledger"], includes: ["2023/main.ledger", "q1/main.ledger", "old/main.ledger"] },
        spellings: &[(".", "main.ledger"), (".", "./main.ledger"), ("2023", "../main.ledger"), (".", ABS)],
    },
    RelLayout {
        name: "root books/main.ledger, included */books/main.ledger",
        layout: Layout {
            names: ["books/main.ledger", "books/2023/main.ledger", "books/2023/books/main.ledger", "books/2023/books/q1/books/main.ledger"],
            includes: ["2023/main.ledger", "books/main.ledger", "q1/books/main.ledger"],
        },
        spellings: &[(".", "books/main.ledger"), (".", "./books/main.ledger"), ("books", "main.ledger"), ("books", "./main.ledger"), ("books/2023", "../main.ledger"), ("books", "../books/main.ledger")],
    },
    RelLayout {
        name: "root main.ledger, included files named differently",
        layout: Layout { names: ["main.ledger", "sub/a.ledger", "sub/deep/b.ledger", "sub/deep/c d.ledger"], includes: ["sub/a.ledger", "deep/b.ledger", "c d.ledger"] },
        spellings: &[(".", "main.ledger"), (".", "./main.ledger"), ("sub", "../main.ledger")],
    },
    RelLayout {
        name: "root 帳簿/2024.ledger, included */帳簿/2024.ledger",
        layout: Layout {
            names: ["帳簿/2024.ledger", "帳簿/old/2024.ledger", "帳簿/old/帳簿/2024.ledger", "帳簿/old/帳簿/x y/帳簿/2024.ledger"],
            includes: ["old/2024.ledger", "帳簿/2024.ledger", "x y/帳簿/2024.ledger"],
        },
        spellings: &[(".", "帳簿/2024.ledger"), ("帳簿", "2024.ledger"), ("帳簿", "./2024.ledger"), (".", "./帳簿/2024.ledger")],
    },
];

/// does the included file that holds the entry end in the components of the root path as typed?
fn repeats_typed(bad_rel: &str, typed: &str) -> bool {
    let t: Vec<&str> = typed.split('/').filter(|c| !c.is_empty() && *c != "." && *c != "..").collect();
    let b: Vec<&str> = bad_rel.split('/').collect();
    !t.is_empty() && b.len() > t.len() && b[b.len() - t.len()..] == t[..]
}

/// one run of the built binary: `okane balance TYPED` with the current directory `cwd`
fn cmd_observe(bin: &str, cwd: &std::path::Path, typed: &str, bad_canon: &std::path::Path) -> (String, Value) {
    let args = vec!["balance".to_string(), typed.to_string()];
    match crate::c17x::run_in(bin, cwd, &args, 10_000) {
        Err(e) => ("FAbort".to_string(), json!({ "harness_error": e })),
        Ok(o) => {
            let stderr = strip_ansi(&o.stderr);
            let diag = read_diag(&o.stderr);
            let js = json!({"cwd": cwd.to_string_lossy(), "typed": typed, "exit": o.code, "signal": o.signal, "stderr": stderr, "diag": diag});
            let term = if o.timeout {
                "FTimeout".to_string()
            } else if o.signal.is_some() {
                "FAbort".to_string()
            } else if o.code == Some(0) {
                "FAccepted".to_string()
            } else if o.code == Some(101) || stderr.contains("panicked at") {
                "FPanic".to_string()
            } else {
                let is_parse = stderr.contains("failed to parse file");
                let is_book = diag["header"].is_array();
                // the named path, however it is spelled (relative to the current directory of the
                // run, with `.` / `..`), must be THE file that holds the entry
                let paths: Vec<String> = diag["paths"].as_array().map(|a| a.iter().filter_map(|x| x.as_str().map(|s| s.to_string())).collect()).unwrap_or_default();
                let same_file = |p: &String| {
                    let pb = PathBuf::from(p);
                    let full = if pb.is_absolute() { pb } else { cwd.join(pb) };
                    std::fs::canonicalize(full).map(|c| c == bad_canon).unwrap_or(false)
                };
                let named_ok = !paths.is_empty() && paths.iter().all(same_file);
                format!(
                    "(FDiag {} {{| d_named := {}; d_path_ok := {}; d_header := {}; d_gutter := {} |}})",
                    if is_parse { 1 } else if is_book { 2 } else { 0 },
                    coq::bool_(!paths.is_empty()),
                    coq::bool_(named_ok),
                    match diag["header"].as_array() {
                        Some(h) => format!("(Some ({},{}))", h[0], h[1]),
                        None => "None".to_string(),
                    },
                    nlist(&diag["gutter"])
                )
            };
            (term, js)
        }
    }
}

/// an end-of-line syntax error with a chosen follower: what stands directly after the line
/// where parsing stops (nothing, a line end only, a blank line, and - without any blank line in
/// between - a transaction, a comment, a directive, an indented line, multi-byte text)
fn gen_eol_case(r: &mut Rng, bads: &[Bad], first_eol: usize, k: usize) -> (Case, usize) {
    let n_eol = bads.len() - first_eol;
    let bad = first_eol + k % n_eol;
    let follower = (k / n_eol) % FOLLOWERS.len();
    let cross = k / (n_eol * FOLLOWERS.len());
    // the first cross is half LF, then CRLF and mixed; later crosses are random
    let crlf = if cross == 0 { [0u8, 1, 0, 2][(k + follower) % 4] } else { [0u8, 0, 1, 2][r.below(4) as usize] };
    let depth = if (k + cross) % 3 == 0 { 1 } else { 0 };
    let mut g = G { r, crlf };
    let mut files = Vec::new();
    if depth == 1 {
        let mut t = g.valid_block(2);
        t.push_str("include sub/a.ledger");
        t.push_str(g.nl());
        files.push(("main.ledger".to_string(), t));
    }
    let mut pre = g.valid_block(if k % 4 == 0 { 0 } else { 2 });
    // now and then the invalid entry itself follows the previous entry without a blank line
    if !pre.is_empty() && g.r.chance(1, 3) {
        let e = g.valid_entry();
        pre.push_str(&e);
    }
    let first_line = 1 + count_lines(&pre);
    let entry_index = count_entries(&pre);
    let b = &bads[bad];
    let mut t = pre;
    for (i, l) in b.lines.iter().enumerate() {
        if i > 0 {
            t.push_str(g.nl());
        }
        t.push_str(l);
    }
    let last_line = first_line + b.lines.len() - 1;
    match follower {
        0 => {}
        1 => t.push_str(g.nl()),
        2 => {
            t.push_str(g.nl());
            t.push_str(g.nl());
            t.push_str(&g.valid_block(2));
        }
        3 => {
            t.push_str(g.nl());
            t.push_str(if g.r.chance(1, 2) { "  " } else { "\t" });
            t.push_str(g.nl());
            t.push_str(&g.valid_block(2));
        }
        _ => {
            t.push_str(g.nl());
            let line: String = match follower {
                4 => {
                    let nl = g.nl();
                    format!("2024/02/0{} {}{}  A  {} USD{}  B{}", 1 + g.r.below(9), g.word(), nl, 1 + g.r.below(500), nl, nl)
                }
                5 => {
                    let p = *g.r.pick(&[';', '#', '%', '|', '*']);
                    format!("{} {}{}", p, g.word(), g.nl())
                }
                6 => {
                    let d = *g.r.pick(&["account Assets:Next", "commodity XAU", "account X"]);
                    format!("{}{}", d, g.nl())
                }
                7 => {
                    let d = *g.r.pick(&["  ; note", "  B  1 USD", "  note x", "\tC", " x"]);
                    format!("{}{}", d, g.nl())
                }
                _ => {
                    let d = *g.r.pick(&["; 直後のコメント", "account 資産:現金", "commodity 円", "; 😀"]);
                    format!("{}{}", d, g.nl())
                }
            };
            t.push_str(&line);
            if g.r.chance(1, 2) {
                t.push_str(&g.valid_block(1));
            }
        }
    }
    let name = if depth == 1 { "sub/a.ledger" } else { "main.ledger" };
    files.push((name.to_string(), t));
    let bad_file = files.len() - 1;
    (Case { files, bad_file, first_line, last_line, entry_index, bad, depth, direct: follower >= 4 }, follower)
}

/// does the real parser stop exactly at a line end (or at the end of the text)?
fn stops_at_line_end(text: &str) -> Option<bool> {
    let o = std::panic::catch_unwind(|| parseobs::observe_parse(text)).ok()?;
    let e = o.err.as_ref()?;
    let pos = e.text_start + e.span.0;
    Some(match text.as_bytes().get(pos) {
        None => true,
        Some(c) => *c == b'\n' || *c == b'\r',
    })
}

fn strip_ansi(s: &str) -> String {
    let mut out = String::new();
    let mut it = s.chars().peekable();
    while let Some(c) = it.next() {
        if c == '\u{1b}' {
            if it.peek() == Some(&'[') {
                it.next();
                for d in it.by_ref() {
                    if d.is_ascii_alphabetic() {
                        break;
                    }
                }
            }
        } else {
            out.push(c);
        }
    }
    out
}

/// what a rendered diagnostic shows: named path(s), header line, gutter line numbers
fn read_diag(text: &str) -> Value {
    let text = strip_ansi(text);
    let mut paths: Vec<String> = Vec::new();
    let mut header: Option<(usize, usize)> = None;
    let mut gutter: Vec<usize> = Vec::new();
    for l in text.lines() {
        let t = l.trim_start();
        if let Some(rest) = t.strip_prefix("--> ") {
            // path:line:col (the path may contain ':')
            let parts: Vec<&str> = rest.rsplitn(3, ':').collect();
            if parts.len() == 3 {
                if let (Ok(c), Ok(li)) = (parts[0].trim().parse::<usize>(), parts[1].parse::<usize>()) {
                    header = Some((li, c));
                    paths.push(parts[2].to_string());
                }
            }
        } else if let Some(p) = l.find("failed to parse file ") {
            paths.push(l[p + "failed to parse file ".len()..].trim().to_string());
        } else if let Some(bar) = l.find(" |") {
            let num = l[..bar].trim();
            if !num.is_empty() && num.chars().all(|c| c.is_ascii_digit()) {
                gutter.push(num.parse().unwrap());
            }
        }
    }
    json!({"paths": paths, "header": header.map(|h| vec![h.0, h.1]), "gutter": gutter})
}

fn chain<E: std::error::Error>(e: &E) -> String {
    let mut s = format!("{}\n", e);
    let mut cur: &dyn std::error::Error = e;
    while let Some(src) = cur.source() {
        s.push_str(&format!("Caused by {}\n", src));
        cur = src;
    }
    s
}

/// child side, mode "c14": report::process on a FakeFileSystem rooted at /r
pub fn child_observe(input: &[u8]) -> String {
    let v: Value = match serde_json::from_slice(input) {
        Ok(v) => v,
        Err(_) => return json!({"harness_error": "bad input"}).to_string(),
    };
    let files: Vec<(String, String)> = v["files"]
        .as_array()
        .map(|a| a.iter().map(|f| (f[0].as_str().unwrap_or("").to_string(), f[1].as_str().unwrap_or("").to_string())).collect())
        .unwrap_or_default();
    let r = std::panic::catch_unwind(move || {
        let arena = bumpalo::Bump::new();
        let mut ctx = report::ReportContext::new(&arena);
        let mut map: HashMap<PathBuf, Vec<u8>> = HashMap::new();
        for (p, c) in &files {
            map.insert(PathBuf::from(format!("/r/{}", p)), c.as_bytes().to_vec());
        }
        // the root is the first file of the tree
        let root = files.first().map(|f| f.0.clone()).unwrap_or_else(|| "main.ledger".to_string());
        let loader = load::Loader::new(PathBuf::from(format!("/r/{}", root)), load::FakeFileSystem::from(map))
            .with_error_renderer(annotate_snippets::Renderer::plain());
        let res = report::process(&mut ctx, loader, &report::ProcessOptions::default());
        let out = match res {
            Ok(_) => json!({"accepted": true}),
            Err(e) => {
                let text = chain(&e);
                let variant: String = format!("{:?}", e).chars().take_while(|c| c.is_alphanumeric()).collect();
                let inner = match &e {
                    report::ReportError::BookKeep(b, _) => format!("{:?}", b).chars().take_while(|c| c.is_alphanumeric()).collect::<String>(),
                    report::ReportError::Load(l) => format!("{:?}", l).chars().take_while(|c| c.is_alphanumeric()).collect::<String>(),
                    _ => String::new(),
                };
                json!({"accepted": false, "variant": variant, "inner": inner, "diag": read_diag(&text), "text": text})
            }
        };
        out
    });
    match r {
        Ok(v) => v.to_string(),
        Err(_) => json!({"panic": crate::c05::last_panic()}).to_string(),
    }
}

fn nlist(v: &Value) -> String {
    coq::n_list(v.as_array().map(|a| a.iter().filter_map(|x| x.as_u64()).collect::<Vec<_>>()).unwrap_or_default())
}

fn diag_term(d: &Value, expect_path: &str) -> String {
    let paths: Vec<String> = d["paths"].as_array().map(|a| a.iter().filter_map(|x| x.as_str().map(|s| s.to_string())).collect()).unwrap_or_default();
    let named_ok = !paths.is_empty() && paths.iter().all(|p| p == expect_path);
    format!(
        "{{| d_named := {}; d_path_ok := {}; d_header := {}; d_gutter := {} |}}",
        coq::bool_(!paths.is_empty()),
        coq::bool_(named_ok),
        match d["header"].as_array() {
            Some(h) => format!("(Some ({},{}))", h[0], h[1]),
            None => "None".to_string(),
        },
        nlist(&d["gutter"])
    )
}

pub fn run(o: &Opts) {
    let mut st = Stats::new();
    let mut sh = Shards::new(&o.out, o.shards, &crate::c05::header("Classify_C14"));
    st.rule = "a case is a file tree with exactly one invalid entry (16 syntax error kinds, 10 book-keeping error kinds) after random valid content (transactions, comments, declarations, blank lines with and without blanks, LF/CRLF/mixed, multi-byte text), in the root or in an included file at depth 1..3, followed by the end of the file, a blank line or - one case in six - directly by the next entry; plus the stream `end-of-line-error`: 19 syntax errors most of which stop exactly at a line end, counted as eol:stop-at-line-end (a keyword without its argument, a posting line that ends after its clear mark, ...) crossed with 9 followers of that line (end of file with and without a line end, blank line, line of blanks, and directly on the next line a transaction, a comment, a directive, an indented line, multi-byte text), LF/CRLF/mixed, root or included file; observed: the plain-rendered Display chain of report::process's error on a FakeFileSystem (child process) and `okane balance` stderr through cli::run on real scratch files: named path, `-->` header line, gutter line numbers; non-trivial = the bad entry is not the first entry of the root file; distinct by file tree".to_string();
    st.assumptions.push("the renderer (annotate-snippets) numbers a shown line as line_start + newlines before it".to_string());
    let mut bads = bad_entries();
    let n_general = bads.len();
    bads.extend(eol_bad_entries());
    let n_eol = bads.len() - n_general;
    let n = if o.thorough { n_general * 4 * 12 } else { n_general * 4 * 2 };
    let mut r = Rng::new(o.seed, 14);
    let mut cases: Vec<Case> = (0..n).map(|k| gen_case(&mut r, &bads[..n_general], k)).collect();
    let mut followers: Vec<Option<usize>> = vec![None; cases.len()];
    // end-of-line syntax errors x what follows the line: one full cross per round
    let n_eol_cases = n_eol * FOLLOWERS.len() * if o.thorough { 6 } else { 1 };
    let mut r2 = Rng::new(o.seed, 1414);
    for k in 0..n_eol_cases {
        let (c, f) = gen_eol_case(&mut r2, &bads, n_general, k);
        cases.push(c);
        followers.push(Some(f));
    }
    // the root named by a relative path from a chosen current directory (command leg below)
    let bin = std::env::var("OKV_OKANE_BIN").ok().filter(|b| std::path::Path::new(b).exists());
    let mut rel: Vec<Option<usize>> = vec![None; cases.len()];
    if bin.is_some() {
        let round = n_general * 4;
        let n_rel = round * if o.thorough { 8 } else { 2 };
        let mut r3 = Rng::new(o.seed, 141414);
        for k in 0..n_rel {
            let li = (k + k / round) % REL_LAYOUTS.len();
            cases.push(gen_case_in(&mut r3, &bads[..n_general], k, &REL_LAYOUTS[li].layout));
            followers.push(None);
            rel.push(Some(li));
        }
    } else {
        st.assumptions.push("OKV_OKANE_BIN not set: the relative-root command leg did not run".to_string());
    }
    // leg 1: FakeFileSystem in child processes
    let inputs: Vec<Vec<u8>> = cases
        .iter()
        .map(|c| json!({"files": c.files.iter().map(|(p, t)| json!([p, t])).collect::<Vec<_>>()}).to_string().into_bytes())
        .collect();
    let obs = child::run_batch("c14", &inputs, 5000);
    // leg 2: the CLI on real files
    let scratch = cli::Scratch::new("c14");
    for (k, (c, co)) in cases.iter().zip(obs.iter()).enumerate() {
        let b = &bads[c.bad];
        let dir = format!("t{}", k);
        let mut root = PathBuf::new();
        let mut bad_path = PathBuf::new();
        for (i, (p, t)) in c.files.iter().enumerate() {
            let fp = scratch.write(&format!("{}/{}", dir, p), t);
            if i == 0 {
                root = fp.clone();
            }
            if i == c.bad_file {
                bad_path = std::fs::canonicalize(&fp).unwrap_or(fp);
            }
        }
        let cr = cli::run(&["balance", root.to_str().unwrap()]);
        let cli_diag = read_diag(&cr.stderr);
        // leg 3: the built binary, started in a chosen directory with the root as typed there
        let mut cmd_terms: Vec<String> = Vec::new();
        let mut cmd_json: Vec<Value> = Vec::new();
        if let (Some(li), Some(bin)) = (rel[k], bin.as_ref()) {
            let tree = scratch.dir.join(&dir);
            let rl = &REL_LAYOUTS[li];
            st.count("stream:relative-root");
            st.count(&format!("relative-root:layout:{}", rl.name));
            for (cwd_rel, typed) in rl.spellings {
                let cwd = tree.join(cwd_rel);
                let _ = std::fs::create_dir_all(&cwd);
                let typed: String = if *typed == ABS { root.to_string_lossy().into_owned() } else { typed.to_string() };
                let (t, mut j) = cmd_observe(bin, &cwd, &typed, &bad_path);
                j["cwd"] = json!(cwd_rel);
                let shape = if typed.starts_with('/') {
                    "absolute"
                } else if typed.starts_with("../") {
                    "../NAME"
                } else if typed.starts_with("./") {
                    "./PATH"
                } else if typed.contains('/') {
                    "DIR/NAME"
                } else {
                    "NAME"
                };
                st.count(&format!("relative-root:typed:{}", shape));
                if c.depth > 0 && !typed.starts_with('/') {
                    st.count(if repeats_typed(&c.files[c.bad_file].0, &typed) {
                        "relative-root:runs where the included file holding the entry ends in the typed root path"
                    } else {
                        "relative-root:runs where the included file holding the entry is named differently"
                    });
                }
                cmd_terms.push(t);
                cmd_json.push(j);
            }
        }
        let _ = std::fs::remove_dir_all(scratch.dir.join(&dir));
        let fake_expect = format!("/r/{}", c.files[c.bad_file].0);
        let (fake_term, fake_json, accepted) = match co {
            ChildObs::Timeout => ("FTimeout".to_string(), json!("timeout"), false),
            ChildObs::Abort(s) => ("FAbort".to_string(), json!({ "abort": s }), false),
            ChildObs::Line(l) => {
                let v: Value = serde_json::from_str(l).unwrap_or(json!({}));
                if v.get("panic").is_some() {
                    ("FPanic".to_string(), v, false)
                } else if v["accepted"].as_bool() == Some(true) {
                    ("FAccepted".to_string(), v, true)
                } else {
                    let is_parse = v["inner"].as_str() == Some("Parse");
                    let is_book = v["variant"].as_str() == Some("BookKeep");
                    (
                        format!("(FDiag {} {})", if is_parse { 1 } else if is_book { 2 } else { 0 }, diag_term(&v["diag"], &fake_expect)),
                        v,
                        false,
                    )
                }
            }
        };
        let cli_term = if cr.panicked {
            "FPanic".to_string()
        } else if cr.ok {
            "FAccepted".to_string()
        } else {
            let is_parse = cr.stderr.contains("failed to parse file");
            let is_book = cli_diag["header"].is_array();
            format!("(FDiag {} {})", if is_parse { 1 } else if is_book { 2 } else { 0 }, diag_term(&cli_diag, bad_path.to_str().unwrap_or("")))
        };
        let nontrivial = !(c.depth == 0 && c.entry_index == 0);
        st.eval(&c.files, nontrivial);
        st.count(&format!("bad:{}", b.name));
        st.count(&format!("depth:{}", c.depth));
        if c.direct {
            st.count("next-line-not-blank");
        }
        if let Some(f) = followers[k] {
            st.count("stream:end-of-line-error");
            st.count(&format!("follower:{}", FOLLOWERS[f]));
            match stops_at_line_end(&c.files[c.bad_file].1) {
                Some(true) => st.count("eol:stop-at-line-end"),
                Some(false) => st.count("eol:stop-inside-line"),
                None => st.count("eol:no-syntax-error"),
            }
        }
        st.count(if accepted { "impl:accepted" } else { "impl:rejected" });
        if let Some(inner) = fake_json["inner"].as_str() {
            st.count(&format!("error:{}", inner));
        }
        let rep = json!({"property": "C14", "files": c.files, "bad_entry": b.name, "bad_file": c.files[c.bad_file].0,
                         "first_line": c.first_line, "last_line": c.last_line, "depth": c.depth,
                         "follower": followers[k].map(|f| FOLLOWERS[f]),
                         "impl": {"process_on_fake_fs": fake_json, "cli_balance_stderr": strip_ansi(&cr.stderr), "cli_diag": cli_diag, "command_runs": cmd_json},
                         "reproduce": "report::process(Loader::new(\"/r/main.ledger\", FakeFileSystem)) ; okane balance <root> ; command_runs: write `files` below an empty directory, cd to `cwd` there and run `okane balance <typed>`"});
        if nontrivial && c.depth > 0 {
            st.sample(rep.clone(), 4);
        }
        let term = format!(
            "{{| c_text := {}; c_kind := {}; c_first := {}; c_last := {}; c_index := {}%nat; c_whole := {}; c_fake := {}; c_cli := {}; c_cmd := {} |}}",
            parseobs::text(&c.files[c.bad_file].1),
            b.kind,
            c.first_line,
            c.last_line,
            c.entry_index,
            coq::bool_(!matches!(
                fake_json["inner"].as_str().unwrap_or(""),
                "UndeduciblePostingAmount" | "BalanceAssertionFailure" | "ZeroAmountWithExchange" | "ZeroExchangeRate" | "ExchangeWithAmountCommodity"
            )),
            fake_term,
            cli_term,
            coq::list(cmd_terms.iter().cloned())
        );
        sh.push(term, vec![rep]);
    }
    sh.finish(&st);
}
