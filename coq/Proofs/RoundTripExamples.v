(* Non-vacuity and sharpness of the C05 round trip: the hypotheses of the theorems are
   satisfiable (a ledger using every construct is well formed and is read back), and each
   condition of wf_entry is needed (a tree violating it whose printed form reads back as a
   different tree, or is rejected), all by evaluation of the two models. *)
From Coq Require Import List NArith ZArith Bool Arith Lia.
From Okv Require Import Model.Lit Model.Syntax Model.Comb Model.ParseLedger Model.Display Model.RoundTripSpec
  Proofs.RoundTripLedger.
Import ListNotations.
Open Scope N_scope.

Definition len_width (s : str) : nat := length s.

(* parse (print es): the entries read back, or None *)
Definition reread (es : list s_entry) : option (list s_entry) :=
  match parse_ledger (format_entries len_width es) with
  | LOk es' => Some (map e_entry es')
  | _ => None
  end.

Definition num (m : N) (sc : nat) : pdec := {| neg := false; mant := m; scale := sc; pfmt := None |}.
Definition amt (m : N) (sc : nat) (c : str) : s_amount := {| sa_value := num m sc; sa_commodity := c |}.
Definition lit (m : N) (sc : nat) (c : str) : s_expr := SValue (SAmount (amt m sc c)).
Definition s_USD : str := [85; 83; 68].
Definition s_JPY : str := [74; 80; 89].
Definition s_A : str := [65; 115; 115; 101; 116; 115; 58; 66; 97; 110; 107].          (* Assets:Bank *)
Definition s_E : str := [69; 120; 112; 101; 110; 115; 101; 115; 32; 70; 111; 111; 100]. (* Expenses Food *)
Definition s_txt : str := [104; 101; 108; 108; 111; 32; 119; 111; 114; 108; 100].      (* hello world *)
Definition s_key : str := [107; 101; 121].
Definition d1 : date := {| d_year := 2024; d_month := 2; d_day := 29 |}.
Definition d2 : date := {| d_year := 2024; d_month := 3; d_day := 1 |}.
Definition no_lot : s_lot := {| lot_price := None; lot_date := None; lot_note := None |}.

(* (1,234.50 USD + 2 * -3 - (4 / 5)) with a grouped number *)
Definition big_num : pdec := {| neg := false; mant := 123450; scale := 2; pfmt := Some Comma3Dot |}.
Definition ex_expr : s_vexpr :=
  SParen (SBinary SSub
            (SBinary SAdd (SValue (SAmount {| sa_value := big_num; sa_commodity := s_USD |}))
                          (SBinary SMul (lit 2 0 []) (SUnaryNeg (SValue (SAmount (amt 3 0 []))))))
            (SValue (SParen (SBinary SDiv (lit 4 0 []) (lit 5 0 []))))).

Definition ex_posting1 : s_posting :=
  {| sp_account := s_E; sp_clear := Cleared;
     sp_amount := Some {| pa_amount := ex_expr;
                          pa_cost := Some (STotal (SAmount (amt 100 0 s_JPY)));
                          pa_lot := {| lot_price := Some (SRate (SAmount (amt 11 1 s_USD)));
                                       lot_date := Some d1; lot_note := Some s_txt |} |};
     sp_balance := Some (SAmount {| sa_value := {| neg := true; mant := 5; scale := 1; pfmt := None |};
                                    sa_commodity := s_USD |});
     sp_metadata := [MComment s_txt; MWordTags [s_key; s_key]; MKeyValue s_key (MText s_txt);
                     MKeyValue s_key (MExpr s_txt)] |}.
Definition ex_posting2 : s_posting :=
  {| sp_account := s_A; sp_clear := Uncleared; sp_amount := None; sp_balance := None; sp_metadata := [] |}.
Definition ex_posting3 : s_posting :=
  {| sp_account := s_A; sp_clear := Pending; sp_amount := None;
     sp_balance := Some (SAmount (amt 0 0 [])); sp_metadata := [] |}.

Definition ex_txn : s_txn :=
  {| st_date := d1; st_edate := Some d2; st_clear := Pending; st_code := Some s_key; st_payee := s_txt;
     st_posts := [ex_posting1; ex_posting2; ex_posting3]; st_metadata := [MComment s_txt] |}.
Definition ex_txn_bare : s_txn :=
  {| st_date := d2; st_edate := None; st_clear := Uncleared; st_code := None; st_payee := [];
     st_posts := []; st_metadata := [] |}.

Definition ex_ledger : list s_entry :=
  [ SComment (s_txt ++ [10] ++ s_txt ++ [10]);
    SAccount s_A [ADComment (s_txt ++ [10]); ADNote (s_txt ++ [10] ++ s_txt ++ [10]); ADAlias s_key;
                  ADComment (s_txt ++ [10])];
    SCommodity s_USD [CDNote (s_txt ++ [10]); CDAlias s_key;
                      CDFormat {| sa_value := big_num; sa_commodity := s_USD |}];
    SApplyTag s_key (Some (MText s_txt));
    STxn ex_txn;
    SEndApplyTag;
    SApplyTag s_key None;
    SInclude s_txt;
    STxn ex_txn_bare ].

Example ex_ledger_wf : wf_ledger ex_ledger = true.
Proof. vm_compute. reflexivity. Qed.

(* the round trip theorem applies, and evaluation agrees: the very same entries come back *)
Example ex_ledger_roundtrip :
  exists es', parse_ledger (format_entries len_width ex_ledger) = LOk es' /\
              same_meaning ex_ledger (map e_entry es').
Proof. apply format_roundtrip. exact ex_ledger_wf. Qed.

Example ex_ledger_reread : reread ex_ledger = Some ex_ledger.
Proof. vm_compute. reflexivity. Qed.

(* formatting formatted text returns it unchanged *)
Example ex_ledger_idempotent :
  format_text len_width (format_entries len_width ex_ledger) = Some (format_entries len_width ex_ledger).
Proof. vm_compute. reflexivity. Qed.

(* same_meaning is not equality: 0,012.50 is read with the grouped flag, printed 12.50, and read
   back without it *)
Definition small_grouped : pdec := {| neg := false; mant := 1250; scale := 2; pfmt := Some Comma3Dot |}.
Definition ex_small : list s_entry := [SCommodity s_USD [CDFormat {| sa_value := small_grouped; sa_commodity := s_USD |}]].
Example ex_small_wf : forallb wf_entry ex_small = true.
Proof. vm_compute. reflexivity. Qed.
Example ex_small_reread :
  reread ex_small = Some [SCommodity s_USD [CDFormat {| sa_value := num 1250 2; sa_commodity := s_USD |}]].
Proof. vm_compute. reflexivity. Qed.

(* ---- every exclusion of wf is needed ---- *)
Definition txn_with (v : s_vexpr) : list s_entry :=
  [STxn {| st_date := d1; st_edate := None; st_clear := Uncleared; st_code := None; st_payee := s_txt;
           st_metadata := [];
           st_posts := [{| sp_account := s_A; sp_clear := Uncleared;
                           sp_amount := Some {| pa_amount := v; pa_cost := None; pa_lot := no_lot |};
                           sp_balance := None; sp_metadata := [] |}] |}].
Definition neg_lit (m : N) : s_expr :=
  SValue (SAmount {| sa_value := {| neg := true; mant := m; scale := 0; pfmt := None |}; sa_commodity := [] |}).

(* negative zero: printed -0, read as 0 *)
Definition bad_negzero : s_vexpr :=
  SAmount {| sa_value := {| neg := true; mant := 0; scale := 0; pfmt := None |}; sa_commodity := [] |}.
Example bad_negzero_not_wf : forallb wf_entry (txn_with bad_negzero) = false.
Proof. vm_compute. reflexivity. Qed.
Example bad_negzero_reread : reread (txn_with bad_negzero) = Some (txn_with (SAmount (amt 0 0 []))).
Proof. vm_compute. reflexivity. Qed.

(* a negative literal directly inside parentheses: (-5) is read as a negation *)
Example bad_negparen_not_wf : forallb wf_entry (txn_with (SParen (neg_lit 5))) = false.
Proof. vm_compute. reflexivity. Qed.
Example bad_negparen_reread :
  reread (txn_with (SParen (neg_lit 5))) = Some (txn_with (SParen (SUnaryNeg (lit 5 0 [])))).
Proof. vm_compute. reflexivity. Qed.

(* nested unary: (--5) is read as the negation of the literal -5 *)
Example bad_nested_not_wf :
  forallb wf_entry (txn_with (SParen (SUnaryNeg (SUnaryNeg (lit 5 0 []))))) = false.
Proof. vm_compute. reflexivity. Qed.
Example bad_nested_reread :
  reread (txn_with (SParen (SUnaryNeg (SUnaryNeg (lit 5 0 []))))) =
  Some (txn_with (SParen (SUnaryNeg (neg_lit 5)))).
Proof. vm_compute. reflexivity. Qed.

(* a product of a sum: (1 + 2 * 3) is read with the usual precedence *)
Definition bad_prec : s_vexpr := SParen (SBinary SMul (SBinary SAdd (lit 1 0 []) (lit 2 0 [])) (lit 3 0 [])).
Example bad_prec_not_wf : forallb wf_entry (txn_with bad_prec) = false.
Proof. vm_compute. reflexivity. Qed.
Example bad_prec_reread :
  reread (txn_with bad_prec) =
  Some (txn_with (SParen (SBinary SAdd (lit 1 0 []) (SBinary SMul (lit 2 0 []) (lit 3 0 []))))).
Proof. vm_compute. reflexivity. Qed.

(* a right-nested chain: (1 - (2 - 3)) without the inner parentheses *)
Definition bad_right : s_vexpr := SParen (SBinary SSub (lit 1 0 []) (SBinary SSub (lit 2 0 []) (lit 3 0 []))).
Example bad_right_not_wf : forallb wf_entry (txn_with bad_right) = false.
Proof. vm_compute. reflexivity. Qed.
Example bad_right_reread :
  reread (txn_with bad_right) =
  Some (txn_with (SParen (SBinary SSub (SBinary SSub (lit 1 0 []) (lit 2 0 [])) (lit 3 0 [])))).
Proof. vm_compute. reflexivity. Qed.

(* a year outside 0..9999 is printed with a sign and rejected *)
Definition bad_year : list s_entry :=
  [STxn {| st_date := {| d_year := 10000; d_month := 1; d_day := 1 |}; st_edate := None;
           st_clear := Uncleared; st_code := None; st_payee := s_txt; st_posts := []; st_metadata := [] |}].
Example bad_year_not_wf : forallb wf_entry bad_year = false.
Proof. vm_compute. reflexivity. Qed.
Example bad_year_reread : reread bad_year = None.
Proof. vm_compute. reflexivity. Qed.

(* text fields containing the character that ends them *)
Definition with_payee (p : str) : list s_entry :=
  [STxn {| st_date := d1; st_edate := None; st_clear := Uncleared; st_code := None; st_payee := p;
           st_posts := []; st_metadata := [] |}].
Example bad_payee_semicolon_not_wf : forallb wf_entry (with_payee [97; 59; 98]) = false.
Proof. vm_compute. reflexivity. Qed.
Example bad_payee_semicolon_reread :
  reread (with_payee [97; 59; 98]) =
  Some [STxn {| st_date := d1; st_edate := None; st_clear := Uncleared; st_code := None; st_payee := [97];
                st_posts := []; st_metadata := [MComment [98]] |}].
Proof. vm_compute. reflexivity. Qed.
(* a payee that starts with a clear mark *)
Example bad_payee_mark_not_wf : forallb wf_entry (with_payee [42; 98]) = false.
Proof. vm_compute. reflexivity. Qed.
Example bad_payee_mark_reread :
  reread (with_payee [42; 98]) =
  Some [STxn {| st_date := d1; st_edate := None; st_clear := Cleared; st_code := None; st_payee := [98];
                st_posts := []; st_metadata := [] |}].
Proof. vm_compute. reflexivity. Qed.

Definition with_account (a : str) : list s_entry :=
  [STxn {| st_date := d1; st_edate := None; st_clear := Uncleared; st_code := None; st_payee := s_txt;
           st_metadata := [];
           st_posts := [{| sp_account := a; sp_clear := Uncleared; sp_amount := None; sp_balance := None;
                           sp_metadata := [] |}] |}].
(* two blanks inside an account: the rest is read as the amount: rejected *)
Example bad_account_not_wf : forallb wf_entry (with_account [65; 32; 32; 66]) = false.
Proof. vm_compute. reflexivity. Qed.
Example bad_account_reread : reread (with_account [65; 32; 32; 66]) = None.
Proof. vm_compute. reflexivity. Qed.
(* an account that starts with a clear mark (what F22 produced before the repair) *)
Example bad_account_mark_not_wf : forallb wf_entry (with_account [42; 65]) = false.
Proof. vm_compute. reflexivity. Qed.
Example bad_account_mark_reread :
  reread (with_account [42; 65]) =
  Some [STxn {| st_date := d1; st_edate := None; st_clear := Uncleared; st_code := None; st_payee := s_txt;
                st_metadata := [];
                st_posts := [{| sp_account := [65]; sp_clear := Cleared; sp_amount := None;
                                sp_balance := None; sp_metadata := [] |}] |}].
Proof. vm_compute. reflexivity. Qed.

(* a comment that looks like word tags *)
Definition with_meta (m : s_metadata) : list s_entry :=
  [STxn {| st_date := d1; st_edate := None; st_clear := Uncleared; st_code := None; st_payee := s_txt;
           st_posts := []; st_metadata := [m] |}].
Example bad_comment_not_wf : forallb wf_entry (with_meta (MComment [58; 97; 58])) = false.
Proof. vm_compute. reflexivity. Qed.
Example bad_comment_reread : reread (with_meta (MComment [58; 97; 58])) = Some (with_meta (MWordTags [[97]])).
Proof. vm_compute. reflexivity. Qed.

(* consecutive comment sub-directives are read as one *)
Definition bad_adjacent : list s_entry := [SAccount s_A [ADComment [97; 10]; ADComment [98; 10]]].
Example bad_adjacent_not_wf : forallb wf_entry bad_adjacent = false.
Proof. vm_compute. reflexivity. Qed.
Example bad_adjacent_reread : reread bad_adjacent = Some [SAccount s_A [ADComment [97; 10; 98; 10]]].
Proof. vm_compute. reflexivity. Qed.

(* an irregular multi-line string (no final line end) *)
Example bad_multiline_not_wf : forallb wf_entry [SComment [97]] = false.
Proof. vm_compute. reflexivity. Qed.
Example bad_multiline_reread : reread [SComment [97]] = Some [SComment [97; 10]].
Proof. vm_compute. reflexivity. Qed.

(* ---- the open-parenthesis corner: a payee that starts with ( without a code ---- *)
(* "2024/02/29 (foo\n" *)
Definition open_paren_text : str := [50; 48; 50; 52; 47; 48; 50; 47; 50; 57; 32; 40; 102; 111; 111; 10].
Example open_paren_parsed :
  match parse_ledger open_paren_text with
  | LOk es => map e_entry es = with_payee [40; 102; 111; 111]
  | _ => False
  end.
Proof. vm_compute. reflexivity. Qed.
Example open_paren_wf : wf_ledger (with_payee [40; 102; 111; 111]) = true.
Proof. vm_compute. reflexivity. Qed.
Example open_paren_reread : reread (with_payee [40; 102; 111; 111]) = Some (with_payee [40; 102; 111; 111]).
Proof. vm_compute. reflexivity. Qed.
(* ... but a later `)` in the text turns the payee into a code: the condition of wf_ledger is
   needed and is not local to the entry *)
Example open_paren_later_close_not_wf :
  wf_ledger (with_payee [40; 102; 111; 111] ++ with_payee [98; 41]) = false.
Proof. vm_compute. reflexivity. Qed.
Example open_paren_later_close_each_wf :
  forallb wf_entry (with_payee [40; 102; 111; 111] ++ with_payee [98; 41]) = true.
Proof. vm_compute. reflexivity. Qed.
Example open_paren_not_local :
  reread (with_payee [40; 102; 111; 111] ++ with_payee [98; 41]) <>
  Some (with_payee [40; 102; 111; 111] ++ with_payee [98; 41]).
Proof. vm_compute. discriminate. Qed.
