(* Lemma library about Base/Maps.v association lists: get / set / remove / keys.
   Nothing here assumes NoDup unless stated. *)
From Coq Require Import List NArith Bool Lia Permutation.
From Okv Require Import Base.Maps.
Import ListNotations.
Open Scope N_scope.

Section MapsLemmas.
  Context {V : Type}.
  Implicit Types (m : amap V) (k : N) (v : V).

  Lemma get_nil k : get k ([] : amap V) = None.
  Proof. reflexivity. Qed.

  Lemma get_cons k k' v m :
    get k ((k', v) :: m) = if k' =? k then Some v else get k m.
  Proof. reflexivity. Qed.

  Lemma get_set_same k v m : get k (set k v m) = Some v.
  Proof.
    induction m as [|[k' v'] r IH]; cbn [set get].
    - rewrite N.eqb_refl. reflexivity.
    - destruct (N.eqb_spec k' k) as [E|E]; cbn [get].
      + rewrite N.eqb_refl. reflexivity.
      + destruct (N.eqb_spec k' k); [contradiction|]. exact IH.
  Qed.

  Lemma get_set_other k k' v m : k' <> k -> get k' (set k v m) = get k' m.
  Proof.
    intros Hne. induction m as [|[k2 v2] r IH]; cbn [set get].
    - destruct (N.eqb_spec k k'); [congruence|reflexivity].
    - destruct (N.eqb_spec k2 k) as [E|E]; cbn [get].
      + subst k2. destruct (N.eqb_spec k k'); [congruence|reflexivity].
      + destruct (N.eqb_spec k2 k'); [reflexivity|exact IH].
  Qed.

  Lemma get_set k k' v m :
    get k' (set k v m) = if k =? k' then Some v else get k' m.
  Proof.
    destruct (N.eqb_spec k k') as [E|E].
    - subst. apply get_set_same.
    - apply get_set_other. congruence.
  Qed.

  Lemma get_none_iff k m : get k m = None <-> ~ In k (keys m).
  Proof.
    induction m as [|[k' v'] r IH]; cbn [get keys map fst In].
    - tauto.
    - destruct (N.eqb_spec k' k) as [E|E].
      + split; [discriminate|]. intros H. exfalso. apply H. left. exact E.
      + rewrite IH. unfold keys. tauto.
  Qed.

  Lemma get_some_in k v m : get k m = Some v -> In (k, v) m.
  Proof.
    induction m as [|[k' v'] r IH]; cbn [get In]; [discriminate|].
    destruct (N.eqb_spec k' k) as [E|E].
    - intros H. injection H as ->. subst. left. reflexivity.
    - intros H. right. apply IH. exact H.
  Qed.

  Lemma get_some_in_keys k v m : get k m = Some v -> In k (keys m).
  Proof.
    intros H. apply get_some_in in H. unfold keys.
    change k with (fst (k, v)). apply in_map. exact H.
  Qed.

  Lemma in_keys_get k m : In k (keys m) -> exists v, get k m = Some v.
  Proof.
    intros H. destruct (get k m) eqn:E; [eauto|].
    apply get_none_iff in E. contradiction.
  Qed.

  Lemma NoDup_get_in k v m : NoDup (keys m) -> In (k, v) m -> get k m = Some v.
  Proof.
    induction m as [|[k' v'] r IH]; cbn [keys map fst get In]; [tauto|].
    intros Hnd [H|H].
    - injection H as -> ->. rewrite N.eqb_refl. reflexivity.
    - inversion Hnd as [|? ? Hni Hnd']; subst.
      destruct (N.eqb_spec k' k) as [E|E].
      + subst k'. exfalso. apply Hni. change k with (fst (k, v)). apply in_map. exact H.
      + apply IH; assumption.
  Qed.

  Lemma get_app k m m' :
    get k (m ++ m') = match get k m with Some v => Some v | None => get k m' end.
  Proof.
    induction m as [|[k' v'] r IH]; cbn [app get]; [reflexivity|].
    destruct (k' =? k); [reflexivity|exact IH].
  Qed.

  Lemma set_absent k v m : get k m = None -> set k v m = m ++ [(k, v)].
  Proof.
    induction m as [|[k' v'] r IH]; cbn [get set app]; [reflexivity|].
    destruct (k' =? k); [discriminate|]. intros H. rewrite IH by exact H. reflexivity.
  Qed.

  Lemma keys_set_present k v m : In k (keys m) -> keys (set k v m) = keys m.
  Proof.
    induction m as [|[k' v'] r IH]; cbn [keys map fst set In]; [tauto|].
    intros H. destruct (N.eqb_spec k' k) as [E|E]; cbn [map fst].
    - subst. reflexivity.
    - f_equal. apply IH. destruct H; [contradiction|assumption].
  Qed.

  Lemma keys_app m m' : keys (m ++ m') = keys m ++ keys m'.
  Proof. unfold keys. apply map_app. Qed.

  Lemma NoDup_keys_set k v m : NoDup (keys m) -> NoDup (keys (set k v m)).
  Proof.
    intros H. destruct (get k m) eqn:E.
    - rewrite keys_set_present; [exact H|]. eapply get_some_in_keys; eauto.
    - rewrite set_absent by exact E. rewrite keys_app. cbn [keys map fst].
      apply get_none_iff in E.
      apply NoDup_rev in H. rewrite <- (rev_involutive (keys m ++ [k])).
      apply NoDup_rev. rewrite rev_app_distr. cbn [rev app].
      constructor; [|exact H]. rewrite <- in_rev. exact E.
  Qed.

  Lemma keys_remove_incl k m : incl (keys (remove k m)) (keys m).
  Proof.
    induction m as [|[k' v'] r IH]; cbn [remove keys map fst]; [apply incl_refl|].
    destruct (k' =? k); cbn [map fst].
    - apply incl_tl, incl_refl.
    - apply incl_cons; [left; reflexivity|]. apply incl_tl. exact IH.
  Qed.

  Lemma NoDup_keys_remove k m : NoDup (keys m) -> NoDup (keys (remove k m)).
  Proof.
    induction m as [|[k' v'] r IH]; cbn [remove keys map fst]; [auto|].
    intros H. inversion H as [|? ? Hni Hnd]; subst.
    destruct (k' =? k); [exact Hnd|]. cbn [map fst]. constructor.
    - intros Hin. apply Hni. apply (keys_remove_incl k r). exact Hin.
    - apply IH. exact Hnd.
  Qed.

  Lemma get_remove_other k k' m : k' <> k -> get k' (remove k m) = get k' m.
  Proof.
    intros Hne. induction m as [|[k2 v2] r IH]; cbn [remove get]; [reflexivity|].
    destruct (N.eqb_spec k2 k) as [E|E].
    - subst. destruct (N.eqb_spec k k'); [congruence|reflexivity].
    - cbn [get]. destruct (k2 =? k'); [reflexivity|exact IH].
  Qed.

  Lemma get_remove_same k m : NoDup (keys m) -> get k (remove k m) = None.
  Proof.
    induction m as [|[k' v'] r IH]; cbn [remove get keys map fst]; [reflexivity|].
    intros H. inversion H as [|? ? Hni Hnd]; subst.
    destruct (N.eqb_spec k' k) as [E|E].
    - subst. apply get_none_iff. exact Hni.
    - cbn [get]. destruct (N.eqb_spec k' k); [contradiction|]. apply IH. exact Hnd.
  Qed.

  Lemma keys_map_snd {W} (f : N * V -> W) m :
    keys (map (fun p => (fst p, f p)) m) = keys m.
  Proof.
    unfold keys. rewrite map_map. apply map_ext. reflexivity.
  Qed.

  Lemma get_map_snd {W} (f : N * V -> W) (g : N -> V -> W) k m :
    (forall p, f p = g (fst p) (snd p)) ->
    get k (map (fun p => (fst p, f p)) m) = option_map (g k) (get k m).
  Proof.
    intros Hf. induction m as [|[k' v'] r IH]; cbn [map get fst snd option_map]; [reflexivity|].
    destruct (N.eqb_spec k' k) as [E|E]; [|exact IH].
    subst. rewrite Hf. reflexivity.
  Qed.

  Lemma NoDup_keys_filter (f : N * V -> bool) m : NoDup (keys m) -> NoDup (keys (filter f m)).
  Proof.
    induction m as [|[k' v'] r IH]; cbn [filter keys map fst]; [auto|].
    intros H. inversion H as [|? ? Hni Hnd]; subst.
    destruct (f (k', v')); [|apply IH; exact Hnd].
    cbn [keys map fst]. constructor; [|apply IH; exact Hnd].
    intros Hin. apply Hni. unfold keys in *. apply in_map_iff in Hin.
    destruct Hin as [x [Hx Hin]]. apply filter_In in Hin. destruct Hin as [Hin _].
    rewrite <- Hx. apply in_map. exact Hin.
  Qed.

  (* filtering a NoDup map: get sees the entry iff it passes the filter *)
  Lemma get_filter (f : N * V -> bool) k m : NoDup (keys m) ->
    get k (filter f m) = match get k m with
                         | Some v => if f (k, v) then Some v else None
                         | None => None
                         end.
  Proof.
    induction m as [|[k' v'] r IH]; cbn [filter get keys map fst]; [reflexivity|].
    intros H. inversion H as [|? ? Hni Hnd]; subst.
    destruct (N.eqb_spec k' k) as [E|E].
    - subst k'. destruct (f (k, v')) eqn:Ef; cbn [get].
      + rewrite N.eqb_refl. reflexivity.
      + rewrite IH by exact Hnd. apply get_none_iff in Hni. rewrite Hni. reflexivity.
    - destruct (f (k', v')); cbn [get].
      + destruct (N.eqb_spec k' k); [contradiction|]. apply IH. exact Hnd.
      + apply IH. exact Hnd.
  Qed.
End MapsLemmas.
