(* Lemmas about the printed form of numbers and expressions (Model/Display.v):
   - the characters of `show d` (digits , . -), so: printable ASCII, one line, never empty;
   - fmt_vexpr writes the token text of the expression, and its alignment is the length of the
     text up to the end of the number of the first commodity-bearing literal (align_prefix). *)
From Coq Require Import List NArith ZArith Bool Arith Lia.
From Okv Require Import Model.Lit Model.LitSpec Proofs.LitProofs Proofs.LitShow.
From Okv Require Import Model.Syntax Model.Display Model.DisplaySpec.
Import ListNotations.
Open Scope N_scope.

Local Arguments N.add : simpl never.
Local Arguments N.mul : simpl never.
Local Arguments N.sub : simpl never.
Local Arguments N.leb : simpl never.
Local Arguments N.ltb : simpl never.
Local Arguments N.eqb : simpl never.

(* ------------------------------------------------------------------------- *)
(* 1. Characters of a printed number                                          *)
(* ------------------------------------------------------------------------- *)

Definition num_char (c : N) : bool := is_digit c || (c =? 44) || (c =? 45) || (c =? 46).

Lemma dig_num_char : forall c, dig c -> num_char c = true.
Proof. intros c H. unfold num_char. unfold dig in H. rewrite H. reflexivity. Qed.

Lemma Forall_dig_num : forall l, Forall dig l -> Forall (fun c => num_char c = true) l.
Proof. intros l H. eapply Forall_impl; [|exact H]. apply dig_num_char. Qed.

Lemma enc_num : forall T, Forall (fun c => num_char c = true) (flat T) ->
  Forall (fun c => num_char c = true) (enc T).
Proof.
  induction T as [|[[a b] c] T IH]; intros H; [constructor|].
  cbn [flat] in H. cbn [enc].
  inversion H as [|? ? Ha H1]; subst. inversion H1 as [|? ? Hb H2]; subst.
  inversion H2 as [|? ? Hc H3]; subst.
  repeat constructor; auto.
Qed.

Lemma group3_num : forall ip, Forall (fun c => num_char c = true) ip ->
  Forall (fun c => num_char c = true) (group3 ip).
Proof.
  intros ip H. destruct ip as [|x ip'] eqn:E; [cbv; constructor|].
  rewrite <- E in *.
  destruct (group3_shape ip) as (g0 & T & Hip & Hg & _); [subst; discriminate|].
  rewrite Hg. rewrite Hip in H. apply Forall_app in H. destruct H as [H0 HT].
  apply Forall_app. split; [exact H0|apply enc_num; exact HT].
Qed.

Lemma group3_nonempty : forall ip, ip <> [] -> group3 ip <> [].
Proof.
  intros ip H. destruct (group3_shape ip H) as (g0 & T & _ & Hg & Hl).
  rewrite Hg. destruct g0; [cbn [length] in Hl; lia|discriminate].
Qed.

Lemma ip_of_nonempty : forall d, ip_of d <> [].
Proof.
  intros d. destruct (ds_of_facts d) as (_ & Hlen & _ & _).
  unfold ip_of. intros E. apply (f_equal (@length N)) in E.
  rewrite firstn_length in E. cbn [length] in E. lia.
Qed.

Lemma show_num_chars : forall d, Forall (fun c => num_char c = true) (show d).
Proof.
  intros d. rewrite show_eq.
  destruct (ds_of_facts d) as (Hdig & _ & _ & _).
  assert (Hboth : Forall dig (ip_of d) /\ Forall dig (fp_of d)).
  { apply Forall_app. unfold ip_of, fp_of. rewrite firstn_skipn. exact Hdig. }
  destruct Hboth as [Hip0 Hfp0].
  pose proof (Forall_dig_num _ Hip0) as Hip. pose proof (Forall_dig_num _ Hfp0) as Hfp.
  apply Forall_app. split.
  - destruct (neg d); repeat constructor.
  - apply Forall_app. split.
    + destruct (pfmt d) as [[|]|]; try exact Hip. apply group3_num. exact Hip.
    + unfold tailpart. destruct (fp_of d) eqn:E; [constructor|].
      constructor; [reflexivity|exact Hfp].
Qed.

Lemma show_nonempty : forall d, show d <> [].
Proof.
  intros d. rewrite show_eq. destruct (neg d); [discriminate|].
  cbn [app]. pose proof (ip_of_nonempty d) as Hne.
  destruct (pfmt d) as [[|]|].
  - destruct (ip_of d); [congruence|discriminate].
  - pose proof (group3_nonempty _ Hne). destruct (group3 (ip_of d)); [congruence|discriminate].
  - destruct (ip_of d); [congruence|discriminate].
Qed.

Lemma num_char_facts : forall c, num_char c = true ->
  expr_punct c = true /\ ((32 <=? c) && (c <? 127)) = true /\ negb (c =? 10) = true /\ c <> 32.
Proof.
  intros c H. unfold num_char, expr_punct, is_digit in *. repeat split; lia.
Qed.

Lemma show_punct : forall d, forallb expr_punct (show d) = true.
Proof.
  intros d. apply forallb_forall. intros c Hc.
  pose proof (show_num_chars d) as H. rewrite Forall_forall in H.
  apply num_char_facts. auto.
Qed.

Lemma show_head : forall d, exists c r, show d = c :: r /\ c <> 32.
Proof.
  intros d. pose proof (show_nonempty d) as Hne. pose proof (show_num_chars d) as H.
  destruct (show d) as [|c r]; [congruence|]. exists c, r. split; [reflexivity|].
  inversion H; subst. apply num_char_facts. assumption.
Qed.

(* ------------------------------------------------------------------------- *)
(* 2. expr_punct strings are printable ASCII on one line                      *)
(* ------------------------------------------------------------------------- *)

Lemma punct_facts : forall c, expr_punct c = true ->
  ((32 <=? c) && (c <? 127)) = true /\ negb (c =? 10) = true.
Proof. intros c H. unfold expr_punct, is_digit in H. split; lia. Qed.

Lemma punct_printable : forall s, forallb expr_punct s = true -> printable_ascii s = true.
Proof.
  intros s H. unfold printable_ascii. apply forallb_forall. intros c Hc.
  rewrite forallb_forall in H. apply punct_facts. auto.
Qed.

Lemma punct_one_line : forall s, forallb expr_punct s = true -> one_line s = true.
Proof.
  intros s H. unfold one_line. apply forallb_forall. intros c Hc.
  rewrite forallb_forall in H. apply punct_facts. auto.
Qed.

Lemma show_one_line : forall d, one_line (show d) = true.
Proof. intros d. apply punct_one_line, show_punct. Qed.

Lemma show_printable : forall d, printable_ascii (show d) = true.
Proof. intros d. apply punct_printable, show_punct. Qed.

(* ------------------------------------------------------------------------- *)
(* 3. Tokens                                                                  *)
(* ------------------------------------------------------------------------- *)

Lemma toks_text_app : forall a b, toks_text (a ++ b) = toks_text a ++ toks_text b.
Proof. intros. unfold toks_text. apply flat_map_app. Qed.

Lemma has_comm_app : forall a b, has_comm (a ++ b) = has_comm a || has_comm b.
Proof. intros. unfold has_comm. apply existsb_app. Qed.

Lemma lit_text_nocomm : forall a, has_commodity a = false -> lit_text a = lit_number a.
Proof. intros a H. unfold lit_text. rewrite H. reflexivity. Qed.

Lemma align_prefix_nocomm : forall ts, has_comm ts = false -> align_prefix ts = toks_text ts.
Proof.
  induction ts as [|t ts IH]; intros H; [reflexivity|].
  cbn [has_comm existsb] in H. apply orb_false_iff in H. destruct H as [Ht Hts].
  change (toks_text (t :: ts)) with (tok_text t ++ toks_text ts).
  destruct t; cbn [align_prefix]; try (rewrite IH by exact Hts; reflexivity).
  cbn [tok_comm] in Ht. rewrite Ht. cbn [tok_text]. rewrite lit_text_nocomm by exact Ht.
  rewrite IH by exact Hts. reflexivity.
Qed.

Lemma align_prefix_app : forall a b,
  align_prefix (a ++ b) = if has_comm a then align_prefix a else align_prefix a ++ align_prefix b.
Proof.
  induction a as [|t a IH]; intros b; [reflexivity|].
  cbn [app]. cbn [has_comm existsb]. fold (has_comm a).
  destruct t; cbn [align_prefix tok_comm orb]; rewrite ?IH;
    try (destruct (has_comm a); [reflexivity|rewrite <- ?app_assoc; reflexivity]).
  destruct (has_commodity a0); cbn [orb]; [reflexivity|].
  destruct (has_comm a); [reflexivity|rewrite <- app_assoc; reflexivity].
Qed.

(* the alignment point is inside the text *)
Lemma align_prefix_is_prefix : forall ts, exists rest, toks_text ts = align_prefix ts ++ rest.
Proof.
  induction ts as [|t ts [rest IH]]; [exists []; reflexivity|].
  change (toks_text (t :: ts)) with (tok_text t ++ toks_text ts).
  destruct t; cbn [align_prefix]; try (exists rest; rewrite IH, <- ?app_assoc; reflexivity).
  cbn [tok_text]. unfold lit_text. destruct (has_commodity a).
  - exists ([32] ++ sa_commodity a ++ toks_text ts). rewrite <- !app_assoc. reflexivity.
  - exists rest. rewrite IH, <- app_assoc. reflexivity.
Qed.

(* ... it is the text of the tokens before the first commodity-bearing literal, plus that
   literal's number *)
Lemma align_prefix_first : forall ts, has_comm ts = true ->
  exists pre a post, ts = pre ++ TLit a :: post /\ has_comm pre = false /\
                     has_commodity a = true /\ align_prefix ts = toks_text pre ++ lit_number a.
Proof.
  induction ts as [|t ts IH]; intros H; [discriminate|].
  cbn [has_comm existsb] in H. fold (has_comm ts) in H.
  destruct (tok_comm t) eqn:Et.
  - destruct t; try discriminate. cbn [tok_comm] in Et.
    exists [], a, ts. repeat split; auto. cbn [align_prefix]. rewrite Et. reflexivity.
  - cbn [orb] in H. destruct (IH H) as (pre & a & post & Hts & Hpre & Ha & Hal).
    exists (t :: pre), a, post. repeat split.
    + rewrite Hts. reflexivity.
    + cbn [has_comm existsb]. rewrite Et. exact Hpre.
    + exact Ha.
    + change (toks_text (t :: pre)) with (tok_text t ++ toks_text pre).
      destruct t; cbn [align_prefix]; rewrite ?Hal, <- ?app_assoc; try reflexivity.
      cbn [tok_comm] in Et. rewrite Et. cbn [tok_text]. rewrite lit_text_nocomm by exact Et.
      reflexivity.
Qed.

(* no commodity text before the alignment point: only digits , . - + * / ( ) and spaces *)
Lemma align_prefix_punct : forall ts, forallb expr_punct (align_prefix ts) = true.
Proof.
  induction ts as [|t ts IH]; [reflexivity|].
  destruct t; cbn [align_prefix]; rewrite ?forallb_app, ?IH; try reflexivity.
  - destruct op; reflexivity.
  - destruct (has_commodity a); unfold lit_number.
    + apply show_punct.
    + rewrite forallb_app, show_punct, IH. reflexivity.
Qed.

(* ------------------------------------------------------------------------- *)
(* 4. fmt_vexpr / fmt_expr against the tokens                                 *)
(* ------------------------------------------------------------------------- *)

Definition mk_alignment (ts : list tok) : alignment :=
  if has_comm ts then Complete (length (align_prefix ts)) else Partial (length (align_prefix ts)).

Scheme s_vexpr_mut := Induction for s_vexpr Sort Prop
  with s_expr_mut := Induction for s_expr Sort Prop.
Combined Scheme s_vexpr_expr_ind from s_vexpr_mut, s_expr_mut.

Lemma fmt_amount_toks : forall a,
  fmt_amount a = (toks_text [TLit a], mk_alignment [TLit a]).
Proof.
  intros a. unfold fmt_amount, mk_alignment, toks_text, has_comm, rescale.
  cbn [flat_map existsb tok_comm tok_text align_prefix]. unfold lit_text, has_commodity, lit_number.
  destruct (sa_commodity a) eqn:E; cbn [orb]; rewrite ?app_nil_r; reflexivity.
Qed.

Lemma fmt_toks :
  (forall v, fmt_vexpr v = (toks_text (toks_v v), mk_alignment (toks_v v))) /\
  (forall e, fmt_expr e = (toks_text (toks_e e), mk_alignment (toks_e e))).
Proof.
  apply s_vexpr_expr_ind.
  - (* SParen *)
    intros e IH. cbn [fmt_vexpr toks_v]. rewrite IH. cbn [fst snd]. f_equal.
    + change (TOpen :: toks_e e ++ [TClose]) with ([TOpen] ++ toks_e e ++ [TClose]).
      rewrite !toks_text_app. reflexivity.
    + unfold mk_alignment.
      change (TOpen :: toks_e e ++ [TClose]) with ([TOpen] ++ (toks_e e ++ [TClose])).
      rewrite has_comm_app, (align_prefix_app [TOpen]).
      change (has_comm [TOpen]) with false. cbn [orb].
      rewrite has_comm_app, align_prefix_app.
      change (has_comm [TClose]) with false. rewrite orb_false_r.
      destruct (has_comm (toks_e e)); cbn [al_plus align_prefix tok_text];
        rewrite ?app_length; cbn [length app]; f_equal; lia.
  - (* SAmount *)
    intros a. cbn [fmt_vexpr toks_v]. apply fmt_amount_toks.
  - (* SUnaryNeg *)
    intros e IH. cbn [fmt_expr toks_e]. rewrite IH. cbn [fst snd]. f_equal.
    unfold mk_alignment.
    change (TNeg :: toks_e e) with ([TNeg] ++ toks_e e).
    rewrite has_comm_app, (align_prefix_app [TNeg]).
    change (has_comm [TNeg]) with false. cbn [orb].
    destruct (has_comm (toks_e e)); cbn [al_plus align_prefix tok_text];
      rewrite ?app_length; cbn [length app]; f_equal; lia.
  - (* SBinary *)
    intros op l IHl r IHr. cbn [fmt_expr toks_e]. rewrite IHl, IHr. cbn [fst snd]. f_equal.
    + rewrite !toks_text_app. reflexivity.
    + unfold mk_alignment.
      rewrite has_comm_app, align_prefix_app.
      rewrite has_comm_app, (align_prefix_app [TOp op]).
      change (has_comm [TOp op]) with false. cbn [orb].
      destruct (has_comm (toks_e l)); cbn [al_plus orb].
      * f_equal.
      * destruct (has_comm (toks_e r)); cbn [al_plus align_prefix tok_text];
          rewrite ?app_length; cbn [length app]; f_equal; lia.
  - (* SValue *)
    intros v IH. cbn [fmt_expr toks_e]. exact IH.
Qed.

Lemma show_vexpr_toks : forall v, show_vexpr v = toks_text (toks_v v).
Proof. intros v. unfold show_vexpr. rewrite (proj1 fmt_toks). reflexivity. Qed.

Lemma align_vexpr_prefix : forall v, align_vexpr v = length (vexpr_align_prefix v).
Proof.
  intros v. unfold align_vexpr, vexpr_align_prefix. rewrite (proj1 fmt_toks). cbn [snd].
  unfold mk_alignment. destruct (has_comm (toks_v v)); reflexivity.
Qed.

Lemma show_vexpr_split : forall v, exists rest, show_vexpr v = vexpr_align_prefix v ++ rest.
Proof.
  intros v. rewrite show_vexpr_toks. unfold vexpr_align_prefix. apply align_prefix_is_prefix.
Qed.

(* the printed expression starts with "(" or with a number: never with a space *)
Lemma toks_head :
  (forall v, exists c r, toks_text (toks_v v) = c :: r /\ c <> 32) /\
  (forall e, exists c r, toks_text (toks_e e) = c :: r /\ c <> 32).
Proof.
  apply s_vexpr_expr_ind.
  - intros e _. cbn [toks_v]. eexists 40, _. split; [reflexivity|lia].
  - intros a. cbn [toks_v]. unfold toks_text. cbn [flat_map tok_text]. rewrite app_nil_r.
    unfold lit_text, lit_number. destruct (show_head (sa_value a)) as (c & r & E & Hc).
    destruct (has_commodity a); rewrite E; eexists c, _; (split; [reflexivity|exact Hc]).
  - intros e _. cbn [toks_e]. eexists 45, _. split; [reflexivity|lia].
  - intros op l (c & r & E & Hc) r0 _. cbn [toks_e]. rewrite toks_text_app, E.
    eexists c, _. split; [reflexivity|exact Hc].
  - intros v IH. exact IH.
Qed.

Lemma show_vexpr_head : forall v, exists c r, show_vexpr v = c :: r /\ c <> 32.
Proof. intros v. rewrite show_vexpr_toks. apply (proj1 toks_head). Qed.

(* one line, when the commodities are *)
Lemma toks_one_line :
  (forall v, one_line_v v = true -> one_line (toks_text (toks_v v)) = true) /\
  (forall e, one_line_e e = true -> one_line (toks_text (toks_e e)) = true).
Proof.
  apply s_vexpr_expr_ind.
  - intros e IH H. cbn [one_line_v] in H. cbn [toks_v].
    change (TOpen :: toks_e e ++ [TClose]) with ([TOpen] ++ toks_e e ++ [TClose]).
    rewrite !toks_text_app. unfold one_line in *. rewrite !forallb_app, (IH H). reflexivity.
  - intros a H. cbn [one_line_v] in H. cbn [toks_v]. unfold toks_text. cbn [flat_map tok_text].
    rewrite app_nil_r. unfold lit_text, lit_number.
    pose proof (show_one_line (sa_value a)) as Hs. unfold one_line in *.
    destruct (has_commodity a); rewrite ?forallb_app, ?Hs, ?H; reflexivity.
  - intros e IH H. cbn [one_line_e] in H. cbn [toks_e].
    change (TNeg :: toks_e e) with ([TNeg] ++ toks_e e).
    rewrite toks_text_app. unfold one_line in *. rewrite forallb_app, (IH H). reflexivity.
  - intros op l IHl r IHr H. cbn [one_line_e] in H. apply andb_true_iff in H. destruct H as [Hl Hr].
    cbn [toks_e]. rewrite !toks_text_app. unfold one_line in *.
    rewrite !forallb_app, (IHl Hl), (IHr Hr). destruct op; reflexivity.
  - intros v IH H. exact (IH H).
Qed.

Lemma show_vexpr_one_line : forall v, one_line_v v = true -> one_line (show_vexpr v) = true.
Proof. intros v H. rewrite show_vexpr_toks. apply (proj1 toks_one_line). exact H. Qed.

(* ------------------------------------------------------------------------- *)
(* 5. The alignment of an expression, in one statement                        *)
(* ------------------------------------------------------------------------- *)

Theorem alignment_is_first_number : forall v,
  show_vexpr v = toks_text (toks_v v) /\
  align_vexpr v = length (vexpr_align_prefix v) /\
  (exists rest, show_vexpr v = vexpr_align_prefix v ++ rest) /\
  forallb expr_punct (vexpr_align_prefix v) = true /\
  (has_comm (toks_v v) = true ->
     exists pre a post, toks_v v = pre ++ TLit a :: post /\ has_comm pre = false /\
                        has_commodity a = true /\
                        vexpr_align_prefix v = toks_text pre ++ lit_number a) /\
  (has_comm (toks_v v) = false -> vexpr_align_prefix v = show_vexpr v).
Proof.
  intros v. split; [apply show_vexpr_toks|]. split; [apply align_vexpr_prefix|].
  split; [apply show_vexpr_split|]. split; [apply align_prefix_punct|]. split.
  - apply align_prefix_first.
  - intros H. rewrite show_vexpr_toks. apply align_prefix_nocomm. exact H.
Qed.
