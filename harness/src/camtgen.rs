//! Camt053 statements as data: generator (consistent single-currency statements and the
//! inconsistent / erroneous variants), the XML written from them (skeleton of
//! cli/tests/testdata/import/iso_camt.xml), the YAML configuration whose rewrite rules give
//! every record the fragment the generator chose, and the Coq terms of Run/Classify_C18.v.
use crate::coq;
use crate::imptree::{ostr_term, str_term};
use crate::prng::Rng;
use serde::{Deserialize, Serialize};
use std::fmt::Write as _;

#[derive(Clone, Debug, PartialEq, Serialize, Deserialize, Hash)]
pub struct Dec {
    pub neg: bool,
    pub m: u64,
    pub scale: u32,
    /// written without the leading zero (".05")
    pub bare_dot: bool,
}

impl Dec {
    pub fn new(m: i64, scale: u32) -> Dec {
        Dec { neg: m < 0, m: m.unsigned_abs(), scale, bare_dot: false }
    }
    pub fn text(&self) -> String {
        let digits = self.m.to_string();
        let digits = if digits.len() <= self.scale as usize {
            format!("{}{}", "0".repeat(self.scale as usize + 1 - digits.len()), digits)
        } else {
            digits
        };
        let (ip, fp) = digits.split_at(digits.len() - self.scale as usize);
        let ip = if self.bare_dot && ip == "0" && self.scale > 0 { "" } else { ip };
        format!("{}{}{}{}", if self.neg { "-" } else { "" }, ip, if self.scale > 0 { "." } else { "" }, fp)
    }
    /// value * 10^4 as an integer (scales are <= 4)
    pub fn units(&self) -> i128 {
        let v = self.m as i128 * 10i128.pow(4 - self.scale);
        if self.neg {
            -v
        } else {
            v
        }
    }
}

#[derive(Clone, Debug, PartialEq, Serialize, Deserialize, Hash)]
pub struct XAmt {
    pub v: Dec,
    pub ccy: String,
}

#[derive(Clone, Debug, PartialEq, Serialize, Deserialize, Hash)]
pub struct ChargeRec {
    pub amt: XAmt,
    pub credit: bool,
    /// ChrgInclInd: absent = false
    pub included: Option<bool>,
}

#[derive(Clone, Debug, PartialEq, Serialize, Deserialize, Hash)]
pub struct Exchange {
    pub src: String,
    pub tgt: String,
    pub rate: Dec,
}

#[derive(Clone, Debug, PartialEq, Serialize, Deserialize, Hash)]
pub struct AmtDetails {
    pub instd: XAmt,
    pub tx: XAmt,
    pub exchange: Option<Exchange>,
}

#[derive(Clone, Debug, PartialEq, Serialize, Deserialize, Hash, Default)]
pub struct Frag {
    pub payee: Option<String>,
    pub account: Option<String>,
    pub pending: bool,
}

impl Frag {
    pub fn cleared(&self) -> bool {
        self.account.is_some() && !self.pending
    }
}

/// RltdPties and RmtInf of a TxDtls: the texts a rewrite rule can look at besides the additional
/// information (C17).  None of a field = the element is absent.
#[derive(Clone, Debug, PartialEq, Serialize, Deserialize, Hash, Default)]
pub struct Parties {
    pub creditor: Option<String>,
    pub creditor_account: Option<String>,
    pub ultimate_creditor: Option<String>,
    pub debtor: Option<String>,
    pub debtor_account: Option<String>,
    pub ultimate_debtor: Option<String>,
    pub remittance: Option<String>,
    /// party names inside a <Pty> element (camt.053.001.08) instead of directly under the party
    pub nested: bool,
    /// account ids as <IBAN> instead of <Othr><Id>
    pub iban: bool,
}

#[derive(Clone, Debug, PartialEq, Serialize, Deserialize, Hash)]
pub struct Detail {
    pub reference: Option<String>,
    pub amt: XAmt,
    pub credit: bool,
    pub details: Option<AmtDetails>,
    pub charges: Option<Vec<ChargeRec>>,
    pub info: Option<String>,
    pub frag: Frag,
    /// None: the fixed `<RltdPties><Dbtr><Nm>NOTPROVIDED` of the C18 statements
    #[serde(default)]
    pub parties: Option<Parties>,
    /// <RvslInd> written inside the TxDtls (not an element the importer reads): absent = None
    #[serde(default)]
    pub reversal: Option<bool>,
    /// <TtlChrgsAndTaxAmt> of the Chrgs element (only written when `charges` is Some)
    #[serde(default)]
    pub charges_total: Option<XAmt>,
}

/// the Btch header of NtryDtls (optional in camt.053; the importer must not depend on it)
#[derive(Clone, Debug, PartialEq, Serialize, Deserialize, Hash, Default)]
pub enum BatchHdr {
    /// NbOfTxs = the number of TxDtls (at least 1), with TtlAmt and CdtDbtInd
    #[default]
    Consistent,
    /// no Btch element at all
    Absent,
    /// NbOfTxs says something else than the number of TxDtls
    Count(usize),
}

/// (year, month, day, as DtTm with this local time and offset)
#[derive(Clone, Debug, PartialEq, Serialize, Deserialize, Hash)]
pub struct XDate {
    pub y: i32,
    pub m: u32,
    pub d: u32,
    pub dttm: Option<String>,
}

#[derive(Clone, Debug, PartialEq, Serialize, Deserialize, Hash)]
pub struct Entry {
    pub amt: XAmt,
    pub credit: bool,
    pub booking: XDate,
    pub value: Option<XDate>,
    pub charges: Option<Vec<ChargeRec>>,
    /// NtryDtls present (with a Btch element) even when there is no TxDtls
    pub dtls_element: bool,
    pub details: Vec<Detail>,
    pub info: String,
    pub frag: Frag,
    #[serde(default)]
    pub batch: BatchHdr,
    /// <RvslInd> of the entry: absent = None.  CdtDbtInd already is the real direction of a
    /// reversal entry, so the element must not change the booking.  (Older replay files: false.)
    #[serde(default = "rvsl_legacy")]
    pub reversal: Option<bool>,
    /// <TtlChrgsAndTaxAmt> of the Chrgs element (only written when `charges` is Some)
    #[serde(default)]
    pub charges_total: Option<XAmt>,
}

fn rvsl_legacy() -> Option<bool> {
    Some(false)
}

#[derive(Clone, Debug, PartialEq, Serialize, Deserialize, Hash)]
pub struct Balance {
    pub opening: bool,
    pub amt: XAmt,
    pub credit: bool,
}

#[derive(Clone, Debug, PartialEq, Serialize, Deserialize, Hash)]
pub struct Statement {
    pub balances: Vec<Balance>,
    pub entries: Vec<Entry>,
}

#[derive(Clone, Debug, PartialEq, Serialize, Deserialize, Hash)]
pub struct Cfg {
    pub account: String,
    pub operator: Option<String>,
    pub new_to_old: bool,
    pub commodity: String,
    pub precisions: Vec<(String, u8)>,
}

#[derive(Clone, Debug, PartialEq, Serialize, Deserialize, Hash)]
pub struct Case {
    pub cfg: Cfg,
    pub stmts: Vec<Statement>,
    pub tag: String,
}

// ---------- XML ----------

pub fn xml_escape(s: &str) -> String {
    let mut o = String::new();
    for c in s.chars() {
        match c {
            '&' => o.push_str("&amp;"),
            '<' => o.push_str("&lt;"),
            '>' => o.push_str("&gt;"),
            '"' => o.push_str("&quot;"),
            '\n' => o.push_str("&#10;"),
            '\r' => o.push_str("&#13;"),
            '\t' => o.push_str("&#9;"),
            c => o.push(c),
        }
    }
    o
}

fn cd(credit: bool) -> &'static str {
    if credit {
        "CRDT"
    } else {
        "DBIT"
    }
}

fn amt_xml(tag: &str, a: &XAmt) -> String {
    format!("<{} Ccy=\"{}\">{}</{}>", tag, xml_escape(&a.ccy), a.v.text(), tag)
}

fn date_xml(tag: &str, d: &XDate) -> String {
    match &d.dttm {
        Some(t) => format!("<{}><DtTm>{:04}-{:02}-{:02}T{}</DtTm></{}>", tag, d.y, d.m, d.d, t, tag),
        None => format!("<{}><Dt>{:04}-{:02}-{:02}</Dt></{}>", tag, d.y, d.m, d.d, tag),
    }
}

fn charges_xml(ind: &str, c: &Option<Vec<ChargeRec>>, total: &Option<XAmt>) -> String {
    let mut s = String::new();
    if let Some(rs) = c {
        writeln!(s, "{}<Chrgs>", ind).unwrap();
        if let Some(t) = total {
            writeln!(s, "{}  {}", ind, amt_xml("TtlChrgsAndTaxAmt", t)).unwrap();
        }
        for r in rs {
            writeln!(s, "{}  <Rcrd>", ind).unwrap();
            writeln!(s, "{}    {}", ind, amt_xml("Amt", &r.amt)).unwrap();
            writeln!(s, "{}    <CdtDbtInd>{}</CdtDbtInd>", ind, cd(r.credit)).unwrap();
            if let Some(i) = r.included {
                writeln!(s, "{}    <ChrgInclInd>{}</ChrgInclInd>", ind, i).unwrap();
            }
            writeln!(s, "{}    <Tp><Prtry><Id>SHAR</Id></Prtry></Tp>", ind).unwrap();
            writeln!(s, "{}  </Rcrd>", ind).unwrap();
        }
        writeln!(s, "{}</Chrgs>", ind).unwrap();
    }
    s
}

fn parties_xml(p: &Parties) -> String {
    let mut s = String::new();
    let party = |tag: &str, name: &Option<String>| -> String {
        match name {
            None => String::new(),
            Some(n) if p.nested => format!("              <{}>\n                <Pty>\n                  <Nm>{}</Nm>\n                </Pty>\n              </{}>\n", tag, xml_escape(n), tag),
            Some(n) => format!("              <{}>\n                <Nm>{}</Nm>\n              </{}>\n", tag, xml_escape(n), tag),
        }
    };
    let acct = |tag: &str, id: &Option<String>| -> String {
        match id {
            None => String::new(),
            Some(i) if p.iban => format!("              <{}>\n                <Id>\n                  <IBAN>{}</IBAN>\n                </Id>\n              </{}>\n", tag, xml_escape(i), tag),
            Some(i) => format!("              <{}>\n                <Id>\n                  <Othr>\n                    <Id>{}</Id>\n                  </Othr>\n                </Id>\n              </{}>\n", tag, xml_escape(i), tag),
        }
    };
    let inner = format!(
        "{}{}{}{}{}{}",
        party("Dbtr", &p.debtor),
        acct("DbtrAcct", &p.debtor_account),
        party("UltmtDbtr", &p.ultimate_debtor),
        party("Cdtr", &p.creditor),
        acct("CdtrAcct", &p.creditor_account),
        party("UltmtCdtr", &p.ultimate_creditor)
    );
    if !inner.is_empty() {
        s.push_str("            <RltdPties>\n");
        s.push_str(&inner);
        s.push_str("            </RltdPties>\n");
    }
    if let Some(u) = &p.remittance {
        writeln!(s, "            <RmtInf>\n              <Ustrd>{}</Ustrd>\n            </RmtInf>", xml_escape(u)).unwrap();
    }
    s
}

pub fn xml(stmts: &[Statement]) -> String {
    let mut s = String::new();
    s.push_str("<?xml version=\"1.0\" encoding=\"UTF-8\"?>\n");
    s.push_str("<Document xmlns=\"urn:iso:std:iso:20022:tech:xsd:camt.053.001.04\">\n  <BkToCstmrStmt>\n");
    s.push_str("    <GrpHdr>\n      <MsgId>2021103100000000</MsgId>\n      <CreDtTm>2021-10-31T00:00:00</CreDtTm>\n    </GrpHdr>\n");
    for st in stmts {
        s.push_str("    <Stmt>\n      <Id>2021103100000000</Id>\n      <ElctrncSeqNb>2</ElctrncSeqNb>\n");
        s.push_str("      <Acct>\n        <Id>\n          <IBAN>CH3689144511369184655</IBAN>\n        </Id>\n      </Acct>\n");
        for b in &st.balances {
            writeln!(s, "      <Bal>\n        <Tp>\n          <CdOrPrtry>\n            <Cd>{}</Cd>\n          </CdOrPrtry>\n        </Tp>", if b.opening { "OPBD" } else { "CLBD" }).unwrap();
            writeln!(s, "        {}", amt_xml("Amt", &b.amt)).unwrap();
            writeln!(s, "        <CdtDbtInd>{}</CdtDbtInd>", cd(b.credit)).unwrap();
            s.push_str("        <Dt>\n          <Dt>2021-10-01</Dt>\n        </Dt>\n      </Bal>\n");
        }
        for e in &st.entries {
            s.push_str("      <Ntry>\n");
            writeln!(s, "        {}", amt_xml("Amt", &e.amt)).unwrap();
            writeln!(s, "        <CdtDbtInd>{}</CdtDbtInd>", cd(e.credit)).unwrap();
            if let Some(v) = e.reversal {
                writeln!(s, "        <RvslInd>{}</RvslInd>", v).unwrap();
            }
            s.push_str("        <Sts>BOOK</Sts>\n");
            writeln!(s, "        {}", date_xml("BookgDt", &e.booking)).unwrap();
            if let Some(v) = &e.value {
                writeln!(s, "        {}", date_xml("ValDt", v)).unwrap();
            }
            s.push_str("        <BkTxCd>\n          <Domn>\n            <Cd>PMNT</Cd>\n            <Fmly>\n              <Cd>RCDT</Cd>\n              <SubFmlyCd>OTHR</SubFmlyCd>\n            </Fmly>\n          </Domn>\n        </BkTxCd>\n");
            s.push_str(&charges_xml("        ", &e.charges, &e.charges_total));
            if e.dtls_element || !e.details.is_empty() {
                s.push_str("        <NtryDtls>\n");
                let nb = match &e.batch {
                    BatchHdr::Consistent => Some(e.details.len().max(1)),
                    BatchHdr::Absent => None,
                    BatchHdr::Count(n) => Some(*n),
                };
                if let Some(nb) = nb {
                    writeln!(s, "          <Btch>\n            <NbOfTxs>{}</NbOfTxs>\n            {}\n            <CdtDbtInd>{}</CdtDbtInd>\n          </Btch>", nb, amt_xml("TtlAmt", &e.amt), cd(e.credit)).unwrap();
                }
                for d in &e.details {
                    s.push_str("          <TxDtls>\n            <Refs>\n");
                    if let Some(r) = &d.reference {
                        writeln!(s, "              <AcctSvcrRef>{}</AcctSvcrRef>", xml_escape(r)).unwrap();
                    }
                    s.push_str("              <EndToEndId>NOTPROVIDED</EndToEndId>\n            </Refs>\n");
                    writeln!(s, "            {}", amt_xml("Amt", &d.amt)).unwrap();
                    writeln!(s, "            <CdtDbtInd>{}</CdtDbtInd>", cd(d.credit)).unwrap();
                    if let Some(v) = d.reversal {
                        writeln!(s, "            <RvslInd>{}</RvslInd>", v).unwrap();
                    }
                    if let Some(ad) = &d.details {
                        s.push_str("            <AmtDtls>\n");
                        writeln!(s, "              <InstdAmt>\n                {}\n              </InstdAmt>", amt_xml("Amt", &ad.instd)).unwrap();
                        writeln!(s, "              <TxAmt>\n                {}", amt_xml("Amt", &ad.tx)).unwrap();
                        if let Some(x) = &ad.exchange {
                            writeln!(s, "                <CcyXchg>\n                  <SrcCcy>{}</SrcCcy>\n                  <TrgtCcy>{}</TrgtCcy>\n                  <XchgRate>{}</XchgRate>\n                </CcyXchg>", xml_escape(&x.src), xml_escape(&x.tgt), x.rate.text()).unwrap();
                        }
                        s.push_str("              </TxAmt>\n            </AmtDtls>\n");
                    }
                    s.push_str(&charges_xml("            ", &d.charges, &d.charges_total));
                    match &d.parties {
                        None => s.push_str("            <RltdPties>\n              <Dbtr>\n                <Nm>NOTPROVIDED</Nm>\n              </Dbtr>\n            </RltdPties>\n"),
                        Some(p) => s.push_str(&parties_xml(p)),
                    }
                    if let Some(i) = &d.info {
                        writeln!(s, "            <AddtlTxInf>{}</AddtlTxInf>", xml_escape(i)).unwrap();
                    }
                    s.push_str("          </TxDtls>\n");
                }
                s.push_str("        </NtryDtls>\n");
            }
            writeln!(s, "        <AddtlNtryInf>{}</AddtlNtryInf>", xml_escape(&e.info)).unwrap();
            s.push_str("      </Ntry>\n");
        }
        s.push_str("    </Stmt>\n");
    }
    s.push_str("  </BkToCstmrStmt>\n</Document>\n");
    s
}

// ---------- YAML ----------

pub fn yaml_str(s: &str) -> String {
    let mut o = String::from("\"");
    for c in s.chars() {
        match c {
            '\\' => o.push_str("\\\\"),
            '"' => o.push_str("\\\""),
            '\n' => o.push_str("\\n"),
            '\r' => o.push_str("\\r"),
            '\t' => o.push_str("\\t"),
            '\u{feff}' => o.push_str("\\uFEFF"),
            c if (c as u32) < 0x20 => write!(o, "\\x{:02x}", c as u32).unwrap(),
            c => o.push(c),
        }
    }
    o.push('"');
    o
}

fn rule_yaml(field: &str, info: &str, f: &Frag) -> String {
    let mut s = String::new();
    writeln!(s, "  - matcher:\n      {}: {}", field, yaml_str(&format!("^{}$", regex::escape(info)))).unwrap();
    if let Some(p) = &f.payee {
        writeln!(s, "    payee: {}", yaml_str(p)).unwrap();
    }
    if let Some(a) = &f.account {
        writeln!(s, "    account: {}", yaml_str(a)).unwrap();
    }
    if f.pending {
        writeln!(s, "    pending: true").unwrap();
    }
    s
}

/// configuration document for `path: stmt.xml`; one rewrite rule per record that has a fragment
pub fn yaml(c: &Case) -> String {
    let mut s = String::new();
    writeln!(s, "path: stmt.xml\nencoding: UTF-8\naccount: {}\naccount_type: asset", yaml_str(&c.cfg.account)).unwrap();
    if let Some(op) = &c.cfg.operator {
        writeln!(s, "operator: {}", yaml_str(op)).unwrap();
    }
    writeln!(s, "commodity: {}", yaml_str(&c.cfg.commodity)).unwrap();
    if c.cfg.new_to_old || !c.cfg.precisions.is_empty() {
        writeln!(s, "format:").unwrap();
        if c.cfg.new_to_old {
            writeln!(s, "  row_order: new_to_old").unwrap();
        }
        if !c.cfg.precisions.is_empty() {
            writeln!(s, "  commodity:").unwrap();
            for (k, p) in &c.cfg.precisions {
                writeln!(s, "    {}:\n      precision: {}", yaml_str(k), p).unwrap();
            }
        }
    }
    let mut rules = String::new();
    for st in &c.stmts {
        for e in &st.entries {
            if e.details.is_empty() {
                if e.frag != Frag::default() {
                    rules.push_str(&rule_yaml("additional_entry_info", &e.info, &e.frag));
                }
            } else {
                for d in &e.details {
                    if d.frag != Frag::default() {
                        if let Some(i) = &d.info {
                            rules.push_str(&rule_yaml("additional_transaction_info", i, &d.frag));
                        }
                    }
                }
            }
        }
    }
    if !rules.is_empty() {
        writeln!(s, "rewrite:\n{}", rules).unwrap();
    }
    s
}

// ---------- Coq ----------

fn xamt_term(a: &XAmt) -> String {
    format!("(XA {} {} {} {})", coq::bool_(a.v.neg), a.v.m, a.v.scale, str_term(&a.ccy))
}

fn cd_term(credit: bool) -> &'static str {
    if credit {
        "Credit"
    } else {
        "Debit"
    }
}

fn charges_term(c: &Option<Vec<ChargeRec>>) -> String {
    match c {
        None => "[]".into(),
        Some(rs) => coq::list(rs.iter().map(|r| format!("(CR {} {} {})", xamt_term(&r.amt), cd_term(r.credit), coq::bool_(r.included.unwrap_or(false))))),
    }
}

fn frag_term(f: &Frag) -> String {
    format!("(FR {} {} {})", ostr_term(&f.payee), ostr_term(&f.account), coq::bool_(f.cleared()))
}

fn xdate_term(d: &XDate) -> String {
    format!("(DT {} {} {})", d.y, d.m, d.d)
}

pub fn doc_term(stmts: &[Statement]) -> String {
    coq::list(stmts.iter().map(|st| {
        let bals = coq::list(st.balances.iter().map(|b| format!("(BL {} {} {})", if b.opening { "OPBD" } else { "CLBD" }, xamt_term(&b.amt), cd_term(b.credit))));
        let ents = coq::list(st.entries.iter().map(|e| {
            let ds = coq::list(e.details.iter().map(|d| {
                let ad = coq::opt(d.details.as_ref().map(|ad| {
                    format!(
                        "(AD {} {})",
                        xamt_term(&ad.tx),
                        coq::opt(ad.exchange.as_ref().map(|x| format!("(CX {} {} {} {} {})", str_term(&x.src), str_term(&x.tgt), coq::bool_(x.rate.neg), x.rate.m, x.rate.scale)))
                    )
                }));
                // without AddtlTxInf no rule can match the detail
                let f = if d.info.is_some() { d.frag.clone() } else { Frag::default() };
                format!("(TD {} {} {} {} {} {})", ostr_term(&d.reference), xamt_term(&d.amt), cd_term(d.credit), ad, charges_term(&d.charges), frag_term(&f))
            }));
            let f = if e.details.is_empty() { e.frag.clone() } else { Frag::default() };
            format!(
                "(EN {} {} {} {} {} {} {})",
                xamt_term(&e.amt),
                cd_term(e.credit),
                xdate_term(&e.booking),
                coq::opt(e.value.as_ref().map(xdate_term)),
                charges_term(&e.charges),
                ds,
                frag_term(&f)
            )
        }));
        format!("(ST {} {})", bals, ents)
    }))
}

pub fn cfg_term(c: &Cfg) -> String {
    format!("(CF {} {})", ostr_term(&c.operator), coq::bool_(c.new_to_old))
}

// ---------- generation ----------

const CCYS: [&str; 4] = ["CHF", "EUR", "JPY", "USD"];
const ACCOUNTS: [&str; 5] = ["Expenses:Grocery", "Expenses:House Rent", "Income:Salary", "Assets:Wire:Money Bank", "Expenses:Cash"];
const PAYEES: [&str; 6] = ["Migros", "Jiro Okane", "OKANE BANK ATM", "Taro and Jiro", "Herr Haus", "Coop-1234"];

pub struct Bias {
    pub inconsistent_pct: u64,
    pub two_stmt_pct: u64,
    pub foreign_pct: u64,
    pub error_pct: u64,
}

/// the date `off` (+0..2) days after `start`, as Dt or now and then as DtTm with an offset
fn gen_date(r: &mut Rng, start: chrono::NaiveDate, off: i64) -> XDate {
    use chrono::Datelike;
    let d = start + chrono::Duration::days(off + r.below(3) as i64);
    let dttm = if r.chance(1, 8) {
        Some((*r.pick(&["10:15:00+02:00", "23:30:00+02:00", "00:10:00-05:00", "12:00:00Z", "00:00:00+14:00", "23:59:59-12:00"])).to_string())
    } else {
        None
    };
    XDate { y: d.year(), m: d.month(), d: d.day(), dttm }
}

fn gen_value(r: &mut Rng, scale: u32) -> u64 {
    let _ = scale;
    match r.below(10) {
        0 => 0,
        1..=4 => r.range(1, 500) as u64,
        5..=7 => r.range(1, 20000) as u64,
        _ => r.range(1000, 5_000_000) as u64,
    }
}

fn gen_frag(r: &mut Rng) -> Frag {
    match r.below(6) {
        0 | 1 => Frag::default(),
        2 => Frag { payee: Some(r.pick(&PAYEES).to_string()), account: None, pending: false },
        3 => Frag { payee: None, account: Some(r.pick(&ACCOUNTS).to_string()), pending: r.chance(1, 3) },
        _ => Frag { payee: Some(r.pick(&PAYEES).to_string()), account: Some(r.pick(&ACCOUNTS).to_string()), pending: r.chance(1, 4) },
    }
}

/// A charge record set and the signed sum (units of 1e-4, debit charge positive) of the
/// non-zero included ones.
fn gen_charges(r: &mut Rng, ccy: &str, scale: u32, allow_not_included: bool, mode: ChargeMode) -> (Option<Vec<ChargeRec>>, i128, bool) {
    if mode == ChargeMode::Never {
        return (None, 0, false);
    }
    if r.chance(3, 5) {
        return (None, 0, false);
    }
    // zero-only: also a Chrgs element without any record (only the zero total, gen_total)
    let n = if mode == ChargeMode::ZeroOnly { r.below(3) } else { 1 + r.below(2) };
    let mut rs = Vec::new();
    let mut sum = 0i128;
    let mut not_incl = false;
    for _ in 0..n {
        let zero = mode == ChargeMode::ZeroOnly || r.chance(1, 5);
        let m = if zero { 0 } else { r.range(1, 300) as u64 };
        let credit = r.chance(1, 5);
        let included = if allow_not_included && !not_incl && r.chance(1, 4) {
            not_incl = m != 0;
            if r.chance(1, 2) {
                None
            } else {
                Some(false)
            }
        } else {
            Some(true)
        };
        let v = Dec { neg: false, m, scale, bare_dot: r.chance(1, 10) };
        if included == Some(true) {
            sum += if credit { -v.units() } else { v.units() };
        }
        rs.push(ChargeRec { amt: XAmt { v, ccy: ccy.to_string() }, credit, included });
    }
    (Some(rs), sum, not_incl)
}

/// TtlChrgsAndTaxAmt: absent, or the sum of the records' amounts (always present when there is
/// no record at all: `<Chrgs><TtlChrgsAndTaxAmt Ccy="CHF">0.00</TtlChrgsAndTaxAmt></Chrgs>`)
fn gen_total(r: &mut Rng, c: &Option<Vec<ChargeRec>>, ccy: &str, scale: u32) -> Option<XAmt> {
    let rs = c.as_ref()?;
    if !rs.is_empty() && r.chance(1, 2) {
        return None;
    }
    let sum: i128 = rs.iter().map(|x| x.amt.v.units()).sum();
    Some(XAmt { v: dec_of_units(sum, scale), ccy: ccy.to_string() })
}

/// which charge records a statement may carry
#[derive(Clone, Copy, PartialEq, Eq, Debug)]
pub enum ChargeMode {
    Never,
    /// Chrgs elements with a zero total and no record, or zero-amount records only: nothing is
    /// booked for them, so they need no `operator` in the configuration
    ZeroOnly,
    Any,
}

pub fn gen_rvsl_entry(r: &mut Rng) -> Option<bool> {
    match r.below(6) {
        0 => Some(true),
        1 => None,
        _ => Some(false),
    }
}

pub fn gen_rvsl_detail(r: &mut Rng) -> Option<bool> {
    match r.below(8) {
        0 => Some(true),
        1 => Some(false),
        _ => None,
    }
}

fn dec_of_units(u: i128, scale: u32) -> Dec {
    let p = 10i128.pow(4 - scale);
    let q = u / p;
    Dec { neg: q < 0, m: q.unsigned_abs() as u64, scale, bare_dot: false }
}

/// One statement in currency `ccy` starting at `opening` (units of 1e-4); returns it and its closing balance.
fn gen_statement(r: &mut Rng, ccy: &str, scale: u32, opening: i128, b: &Bias, counter: &mut u32, mode: ChargeMode) -> (Statement, i128, bool) {
    let n = match r.below(12) {
        0 => 0,
        1 => 1,
        2..=8 => r.range(2, 5) as usize,
        _ => r.range(5, 8) as usize,
    };
    let mut entries = Vec::new();
    let mut total = opening;
    let mut consistent = true;
    // the entries start a few days before a calendar boundary drawn on purpose (caldate.rs: New
    // Year incl. the days whose ISO week belongs to the other year, leap day, month end, 1900 / 2100)
    // and run across it; value dates lie up to two days before or after the booking date
    let start = crate::caldate::gen_anchor(r, crate::caldate::YEAR_LO, crate::caldate::YEAR_HI, 8, 40);
    let start = start.max(crate::caldate::ymd(crate::caldate::YEAR_LO, 1, 3));
    let mut day = 0i64;
    for _ in 0..n {
        *counter += 1;
        let k = *counter;
        let credit = r.chance(2, 5);
        let sgn: i128 = if credit { 1 } else { -1 };
        let booking = gen_date(r, start, day);
        let booked = crate::caldate::ymd(booking.y, booking.m, booking.d);
        day = (day + r.below(4) as i64).min(25);
        let value = match r.below(5) {
            0 => None,
            1 | 2 => Some(XDate { dttm: None, ..booking.clone() }),
            // value dates lie up to two days before and up to two days after the booking date
            _ => { let off = r.below(3) as i64 - 2; Some(gen_date(r, booked, off)) }
        };
        let kind = r.below(10);
        if kind < 3 {
            // plain entry: no TxDtls
            let m = gen_value(r, scale);
            let amt = XAmt { v: Dec { neg: false, m, scale, bare_dot: r.chance(1, 12) }, ccy: ccy.to_string() };
            let (charges, inc_sum, ni) = if r.chance(1, 4) { gen_charges(r, ccy, scale, true, mode) } else { (None, 0, false) };
            let charges_total = gen_total(r, &charges, ccy, scale);
            if inc_sum != 0 || ni {
                consistent = false; // an included charge on an entry without details cannot be explained
            }
            total += sgn * amt.v.units();
            entries.push(Entry { amt, credit, booking, value, charges, dtls_element: r.chance(1, 2), details: vec![], info: format!("N{}", k), frag: gen_frag(r), batch: BatchHdr::Consistent, reversal: gen_rvsl_entry(r), charges_total });
        } else {
            let nd = if kind < 6 { 1 } else { r.range(2, 4) as usize };
            let (echarges, e_inc, e_ni) = if r.chance(1, 6) { gen_charges(r, ccy, scale, nd == 1, mode) } else { (None, 0, false) };
            let echarges_total = gen_total(r, &echarges, ccy, scale);
            let mut details = Vec::new();
            let mut sum = 0i128;
            for j in 0..nd {
                let dcredit = if nd > 1 && r.chance(1, 8) { !credit } else { credit };
                let ds: i128 = if dcredit { 1 } else { -1 };
                let m = gen_value(r, scale).max(if e_inc != 0 { 400 } else { 0 });
                let amt = XAmt { v: Dec { neg: false, m, scale, bare_dot: false }, ccy: ccy.to_string() };
                let (dcharges, d_inc, d_ni) = if r.chance(1, 4) { gen_charges(r, ccy, scale, !e_ni, mode) } else { (None, 0, false) };
                let dcharges_total = gen_total(r, &dcharges, ccy, scale);
                let inc = e_inc + d_inc;
                if e_ni || d_ni {
                    consistent = false; // outside "charges included in the amount"
                }
                // signed TxAmt = signed Amt + charges  (debit 52 with charge 2 -> TxAmt 50)
                let tx_units = ds * amt.v.units() + inc;
                let explain = inc != 0 && tx_units * ds >= 0 && !(e_ni || d_ni);
                let details_el = if explain {
                    let tx = XAmt { v: dec_of_units(tx_units * ds, scale), ccy: ccy.to_string() };
                    Some(AmtDetails { instd: tx.clone(), tx, exchange: None })
                } else if inc != 0 {
                    consistent = false;
                    None
                } else if !(e_ni || d_ni) && r.chance(1, 3) {
                    // same amount, possibly written with another scale
                    let same = XAmt { v: Dec { neg: false, m: amt.v.m * 10, scale: scale + 1, bare_dot: false }, ccy: ccy.to_string() };
                    Some(AmtDetails { instd: amt.clone(), tx: if r.chance(1, 2) { same } else { amt.clone() }, exchange: None })
                } else {
                    None
                };
                sum += ds * amt.v.units();
                details.push(Detail {
                    reference: if r.chance(4, 5) { Some(format!("2021103{}/{}/{}", r.below(2), k, j + 1)) } else { None },
                    amt,
                    credit: dcredit,
                    details: details_el,
                    charges: dcharges,
                    info: if r.chance(9, 10) { Some(format!("T{}x{}", k, j + 1)) } else { None },
                    frag: gen_frag(r),
                    parties: None,
                    reversal: gen_rvsl_detail(r),
                    charges_total: dcharges_total,
                });
            }
            // the entry amount is the signed sum of its details
            let (ecredit, emag) = if sum * sgn >= 0 { (credit, sum * sgn) } else { (!credit, -sum * sgn) };
            let mut eamt = XAmt { v: dec_of_units(emag, scale), ccy: ccy.to_string() };
            if r.chance(b.inconsistent_pct, 400) {
                eamt.v.m += 1 + r.below(50);
                consistent = false;
            }
            let es: i128 = if ecredit { 1 } else { -1 };
            total += es * eamt.v.units();
            // the Btch header is optional, and when present its NbOfTxs is only an announcement:
            // absent, too small, too large or zero, every TxDtls is a record of the statement
            let batch = match r.below(8) {
                0 | 1 => BatchHdr::Absent,
                2 => BatchHdr::Count(r.below(nd as u64) as usize),
                3 => BatchHdr::Count(nd + 1 + r.below(3) as usize),
                _ => BatchHdr::Consistent,
            };
            entries.push(Entry { amt: eamt, credit: ecredit, booking, value, charges: echarges, dtls_element: true, details, info: format!("B{}", k), frag: Frag::default(), batch, reversal: gen_rvsl_entry(r), charges_total: echarges_total });
        }
    }
    let mut closing = total;
    if r.chance(b.inconsistent_pct, 300) {
        closing += (1 + r.below(500) as i128) * 10i128.pow(4 - scale) * if r.chance(1, 2) { 1 } else { -1 };
        consistent = false;
    }
    let bal = |u: i128, opening: bool| Balance {
        opening,
        amt: XAmt { v: dec_of_units(u.abs(), scale), ccy: ccy.to_string() },
        credit: u >= 0,
    };
    let mut balances = vec![bal(opening, true), bal(closing, false)];
    if r.chance(1, 6) {
        balances.swap(0, 1);
    }
    if r.chance(1, 40) {
        let k = r.below(2) as usize;
        balances.remove(k);
        consistent = false;
    }
    (Statement { balances, entries }, closing, consistent)
}

/// Subtract `by` (units of 1e-4) from the OPBD and CLBD balances of the statement; returns the new closing balance.
fn shift_balances(st: &mut Statement, by: i128, scale: u32, ccy: &str) -> i128 {
    let mut closing = 0;
    for b in st.balances.iter_mut() {
        let u = if b.credit { b.amt.v.units() } else { -b.amt.v.units() } - by;
        b.amt = XAmt { v: dec_of_units(u.abs(), scale), ccy: ccy.to_string() };
        b.credit = u >= 0;
        if !b.opening {
            closing = u;
        }
    }
    closing
}

fn all_accounts_fresh(c: &Case) -> bool {
    c.stmts.iter().all(|s| s.entries.iter().all(|e| e.frag.account.as_deref() != Some(&c.cfg.account) && e.details.iter().all(|d| d.frag.account.as_deref() != Some(&c.cfg.account))))
}

pub fn gen_case(r: &mut Rng, b: &Bias) -> Case {
    let ccy = r.pick(&CCYS).to_string();
    let scale = if ccy == "JPY" { *r.pick(&[0u32, 0, 2]) } else { *r.pick(&[2u32, 2, 2, 1, 0, 3]) };
    // `operator` is optional: it is only needed when a charge is actually booked.  Without it a
    // statement has no Chrgs at all, Chrgs that book nothing (zero total / zero-amount records),
    // or real charges - then the import must fail with the invalid-configuration error.
    let has_operator = r.chance(4, 5);
    let mode = if has_operator {
        ChargeMode::Any
    } else {
        match r.below(5) {
            0 => ChargeMode::Never,
            1 | 2 => ChargeMode::ZeroOnly,
            _ => ChargeMode::Any,
        }
    };
    let cfg = Cfg {
        account: r.pick(&["Assets:Okane Bank", "Assets:Bank:CHF", "Liabilities:Card"]).to_string(),
        operator: if has_operator { Some("Okane Bank (fee)".to_string()) } else { None },
        new_to_old: r.chance(1, 2),
        commodity: ccy.clone(),
        precisions: match r.below(3) {
            0 => vec![],
            1 => vec![(ccy.clone(), 2)],
            _ => vec![(ccy.clone(), r.below(5) as u8), (if ccy == "EUR" { "USD" } else { "EUR" }.to_string(), 2)],
        },
    };
    let mut counter = 0u32;
    // boundary balances: an opening balance of exactly zero (a new account: the "Initial Balance"
    // transaction must still assert `= 0`), and a statement that ends at exactly zero
    let zero_mode = r.below(8);
    let opening = if zero_mode == 0 { 0 } else { (r.range(-200_000, 10_000_000) as i128) * 10i128.pow(4 - scale) };
    let mut stmts = Vec::new();
    let mut tag = String::from("consistent");
    let (mut s1, mut closing1, ok1) = gen_statement(r, &ccy, scale, opening, b, &mut counter, mode);
    if zero_mode == 1 {
        // shift both balances by the closing balance: the figures stay as (in)consistent as they were
        closing1 = shift_balances(&mut s1, closing1, scale, &ccy);
    }
    stmts.push(s1);
    let mut ok = ok1;
    if r.chance(b.two_stmt_pct, 100) {
        let (s2, _c2, ok2) = gen_statement(r, &ccy, scale, closing1, b, &mut counter, mode);
        stmts.push(s2);
        ok = ok && ok2;
    }
    if !ok {
        tag = "inconsistent".into();
    }
    let mut case = Case { cfg, stmts, tag };
    // foreign-currency detail: TxAmt in another currency with an exchange rate
    if r.chance(b.foreign_pct, 100) {
        let other = if ccy == "EUR" { "USD" } else { "EUR" };
        'outer: for st in case.stmts.iter_mut() {
            for e in st.entries.iter_mut() {
                if let Some(d) = e.details.first_mut() {
                    let same_ccy_rate = r.chance(1, 10);
                    d.details = Some(AmtDetails {
                        instd: XAmt { v: Dec::new(r.range(1, 5000), 2), ccy: other.to_string() },
                        tx: XAmt { v: Dec::new(r.range(1, 5000), 2), ccy: other.to_string() },
                        exchange: if r.chance(4, 5) {
                            Some(Exchange { src: ccy.clone(), tgt: if same_ccy_rate { ccy.clone() } else { other.to_string() }, rate: Dec::new(r.range(1, 3_000_000), 6) })
                        } else {
                            None
                        },
                    });
                    case.tag = "foreign".into();
                    break 'outer;
                }
            }
        }
    }
    // error variants: charge in another currency / a second not-included charge / no operator
    if r.chance(b.error_pct, 100) {
        let which = r.below(3);
        'outer2: for st in case.stmts.iter_mut() {
            for e in st.entries.iter_mut() {
                let target: &mut Option<Vec<ChargeRec>> = if let Some(d) = e.details.first_mut() { &mut d.charges } else { &mut e.charges };
                let mut rs = target.clone().unwrap_or_default();
                match which {
                    0 => rs.push(ChargeRec { amt: XAmt { v: Dec::new(150, 2), ccy: "GBP".into() }, credit: false, included: Some(false) }),
                    1 => {
                        rs.push(ChargeRec { amt: XAmt { v: Dec::new(150, 2), ccy: ccy.clone() }, credit: false, included: None });
                        rs.push(ChargeRec { amt: XAmt { v: Dec::new(50, 2), ccy: ccy.clone() }, credit: false, included: Some(false) });
                    }
                    _ => {
                        rs.push(ChargeRec { amt: XAmt { v: Dec::new(150, 2), ccy: ccy.clone() }, credit: false, included: Some(true) });
                        case.cfg.operator = None;
                    }
                }
                *target = Some(rs);
                case.tag = "error".into();
                break 'outer2;
            }
        }
    }
    if case.cfg.operator.is_none() && case.tag != "error" && nonzero_charges(&case) > 0 {
        case.tag = "error".into();
    }
    if !all_accounts_fresh(&case) {
        case.tag = "clash".into();
    }
    case
}

pub fn nonzero_charges(c: &Case) -> usize {
    shape(c).2
}

/// (Chrgs elements, of which without any non-zero record)
pub fn charge_elements(c: &Case) -> (usize, usize) {
    let mut all = 0;
    let mut zero = 0;
    let mut see = |c: &Option<Vec<ChargeRec>>| {
        if let Some(rs) = c {
            all += 1;
            if rs.iter().all(|r| r.amt.v.m == 0) {
                zero += 1;
            }
        }
    };
    for st in &c.stmts {
        for e in &st.entries {
            see(&e.charges);
            for d in &e.details {
                see(&d.charges);
            }
        }
    }
    (all, zero)
}

pub fn shape(c: &Case) -> (usize, usize, usize, usize) {
    let mut entries = 0;
    let mut batches = 0;
    let mut charges = 0;
    let mut details = 0;
    for st in &c.stmts {
        for e in &st.entries {
            entries += 1;
            if e.details.len() >= 2 {
                batches += 1;
            }
            details += e.details.len();
            let nz = |c: &Option<Vec<ChargeRec>>| c.as_ref().map(|rs| rs.iter().filter(|r| r.amt.v.m != 0).count()).unwrap_or(0);
            charges += nz(&e.charges) + e.details.iter().map(|d| nz(&d.charges)).sum::<usize>();
        }
    }
    (entries, batches, charges, details)
}
