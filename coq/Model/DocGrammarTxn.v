(* Transcription of doc/syntax.md (the documented ledger grammar), part 2: transactions --
   value expressions, postings (lot, cost, balance assertion), metadata lines, the
   transaction header -- and the file structure of Model/DocGrammar.v extended by them.
   Definitions only; the acceptance proofs are in Proofs/DocAcceptTxn.v.

   The documented grammar is a LOWER bound on what must be accepted, so doubtful rules are
   resolved toward the smaller language.  Choices (in addition to those of DocGrammar.v):

   Expressions
   * comma-decimal: a literal accepted by LitSpec.spec_scan that `fits` (96 bit mantissa, at
     most 28 places).  spec_scan is the declarative reading of the doc rule; it also takes
     one leading "-" and an empty integer part (".5"), which the parser reads the same way
     (so `-5 USD` is an amount-expr, and in a unary-expr the sign may belong to either rule).
   * commodity ::= one or more characters outside non_commodity_chars (the doc omits the +);
     amount-expr ::= comma-decimal sp* commodity?.
   * value-expr / paren-expr / add-expr / mul-expr / unary-expr as written, with the nesting
     of parentheses bounded: `doc_value_expr d h` allows d levels, the grammar uses d = 100
     (MAX_EXPR_DEPTH, known finding F7), and with the height of the syntax tree bounded: h
     is that height (an amount 1; parentheses, a minus sign and an operator one more than
     their tallest operand; a negative literal in the place of an operand counts 2, it is
     read as the negation of the literal), the grammar uses h <= 256 (MAX_EXPR_HEIGHT,
     finding C06-F23: in particular no chain of more than 255 operators).

   Dates
   * date ::= yyyy sep m sep d with a four digit year, one or two digit month and day, both
     separators "/" or both "-", and a day that exists in the proleptic Gregorian calendar
     (chrono_date).

   Metadata
   * the metadata of a transaction and of a posting is written on lines of its own, each
     indented:  sp+ ";" ... new-line  (the doc gives neither the indentation nor the line
     structure).  The same-line form `posting-line metadata? new-line` and the same-line
     `metadata` alternative of transaction-header are left out.
   * metadata-key-value ::= sp* tag sp* ":" sp* no-new-line* (the "::" form is the ":" form
     whose value starts with ":"; the doc says `expr`, TODO(#78): any text is taken);
     metadata-tag-words ::= sp* ":" (tag ":")+ as written (no trailing blanks);
     metadata-comment ::= sp* text where text has no line break, does not start with a blank
     and is neither tag-words-like nor key-value-like (tags_like, kv_like of
     RoundTripSpec.v): a text like `:a: hello` is a parse error (the doc writes
     `";" no-new-line*`, i.e. a second semicolon, which is covered).

   Postings
   * posting-line ::= sp+ (clear-state sp* )? account posting-value? ; without a clear-state
     the account does not start with "*" or "!" (it would be read as the mark).
   * account ::= wf_account of RoundTripSpec.v: words of characters other than blank, tab,
     CR, LF and ";" joined by single blanks, not made of Unicode white space only (finding:
     an account that is a single U+00A0 is in the documented grammar and is rejected).
   * posting-value ::= ("  " | "\t") sp* (posting-amount sp* )? balance? as written;
     posting-amount ::= value-expr sp* posting-lot? posting-cost? ; the lot parts (each
     followed by sp* ) in any order, each at most once; lot-price takes a value-expr of the
     documented form (the parser does; the doc says amount-expr, which is included);
     lot-note ::= "(" [^()@]* ")"; posting-cost and balance as written.

   Transactions
   * transaction-header ::= date ("=" date)? (sp+ note)? new-line;
     note ::= (clear-state sp* )? (code sp* )? payee ; code ::= "(" [^()\r\n]* ")" ;
     payee ::= [^\r\n;]* .  Without a code the payee does not start (after blanks) with "(",
     and with neither mark nor code it does not start with "*" or "!" (they would be read
     as a code / a mark; an unclosed "(" makes the code parser run over the following
     lines).
   * new-line ::= "\n" | "\r\n" | <EOF>; <EOF> only ends the last line of the file.
   * what follows a transaction: the end of the file, a line of blanks, or a line that does not
     start with a blank (the next directive); this is the file structure of DocGrammar.v.

   Documented texts that the parser model REJECTS (each excluded above; concrete witnesses are
   the `finding_*` Examples at the end of Proofs/DocAcceptTxn.v):
   * an account made of Unicode white space only, e.g. U+00A0            (wf_account)
   * a metadata comment that starts like tag words, `; :a: hello`        (tags_like)
   * the account `*` or `!` without a clear-state                        (no mark at the start)
   * a payee that starts with "(" without a code: the code parser runs on to the next ")" in
     a later line and the lines in between are lost                     (no "(" at the start)
   * a date that is not in the calendar, 2024/02/30                      (chrono_date)
   * a number that does not fit 96 bits / 28 places                      (fits)
   * parentheses nested deeper than 100                                  (depth index, F7)
   * an expression whose syntax tree is taller than 256, e.g. 256 numbers joined by "+" in
     parentheses                                                         (height index, C06-F23) *)
From Coq Require Import List NArith Bool.
From Okv Require Import Model.Lit Model.LitSpec Model.Comb Model.ParseExpr Model.ParseMeta
  Model.ParsePosting Model.ParseTxn Model.ParseDirective Model.DocGrammar Model.RoundTripSpec.
Import ListNotations.
Open Scope N_scope.

(* ================================================================================== *)
(* Expressions                                                                         *)
(* ================================================================================== *)

(* comma-decimal *)
Definition doc_decimal (l : list N) : Prop := exists t, spec_scan l = Some t /\ fits t = true.

Definition commodity_char (c : N) : bool := negb (is_non_commodity c).

(* amount-expr ::= comma-decimal sp* commodity? *)
Inductive doc_amount : list N -> Prop :=
| DAm : forall l s c, doc_decimal l -> sps0 s -> all commodity_char c -> doc_amount (l ++ s ++ c).

Definition add_char (c : N) : Prop := c = 43 \/ c = 45.      (* + - *)
Definition mul_char (c : N) : Prop := c = 42 \/ c = 47.      (* * / *)

(* 1 when the text starts with a minus sign *)
Definition neg_head (x : list N) : nat :=
  match x with
  | c :: _ => if c =? 45 then 1%nat else 0%nat
  | [] => 0%nat
  end.

(* value-expr ::= amount-expr | paren-expr ; paren-expr ::= "(" sp* add-expr sp* ")"
   add-expr ::= mul-expr (sp* [+-] sp* mul-expr)*
   mul-expr ::= unary-expr (sp* [*/] sp* unary-expr)*
   unary-expr ::= "-"? value-expr
   The first index bounds the nesting of parentheses, the second is the height of the syntax
   tree (of the tree the parser builds: a value-expr that starts with a minus sign is a negative
   literal, and as a unary-expr it is read as the negation of the positive literal). *)
Inductive doc_value_expr : nat -> nat -> list N -> Prop :=
| DV_amount : forall d x, doc_amount x -> doc_value_expr d 1 x
| DV_paren : forall d h s1 x s2, sps0 s1 -> doc_add d h x -> sps0 s2 ->
             doc_value_expr (S d) (S h) ([40] ++ s1 ++ x ++ s2 ++ [41])
with doc_add : nat -> nat -> list N -> Prop :=
| DA_one : forall d h x, doc_mul d h x -> doc_add d h x
| DA_more : forall d h1 h2 x s1 op s2 y, doc_add d h1 x -> sps0 s1 -> add_char op -> sps0 s2 -> doc_mul d h2 y ->
            doc_add d (S (Nat.max h1 h2)) (x ++ s1 ++ [op] ++ s2 ++ y)
with doc_mul : nat -> nat -> list N -> Prop :=
| DM_one : forall d h x, doc_unary d h x -> doc_mul d h x
| DM_more : forall d h1 h2 x s1 op s2 y, doc_mul d h1 x -> sps0 s1 -> mul_char op -> sps0 s2 -> doc_unary d h2 y ->
            doc_mul d (S (Nat.max h1 h2)) (x ++ s1 ++ [op] ++ s2 ++ y)
with doc_unary : nat -> nat -> list N -> Prop :=
| DU_pos : forall d h x, doc_value_expr d h x -> doc_unary d (neg_head x + h) x
| DU_neg : forall d h x, doc_value_expr d h x -> doc_unary d (S h) (45 :: x).

(* the documented value expression: nesting at most MAX_EXPR_DEPTH, height at most
   MAX_EXPR_HEIGHT *)
Definition doc_vexpr (x : list N) : Prop :=
  exists h, (h <= max_expr_height)%nat /\ doc_value_expr max_expr_depth h x.

(* ================================================================================== *)
(* Dates                                                                               *)
(* ================================================================================== *)
Definition date_sep (c : N) : Prop := c = 47 \/ c = 45.       (* / - *)

(* date ::= <yyyy/mm/dd> | <yyyy-mm-dd> *)
Inductive doc_date : list N -> Prop :=
| DDate : forall y sep m d,
    date_sep sep ->
    all Comb.is_digit y -> length y = 4%nat ->
    all Comb.is_digit m -> (1 <= length m <= 2)%nat ->
    all Comb.is_digit d -> (1 <= length d <= 2)%nat ->
    chrono_date y m d <> None ->
    doc_date (y ++ [sep] ++ m ++ [sep] ++ d).

(* ================================================================================== *)
(* Metadata                                                                            *)
(* ================================================================================== *)
(* what follows the ";" :  metadata-key-value | metadata-tag-words | metadata-comment *)
Inductive doc_meta_body : list N -> Prop :=
| MB_kv : forall s1 k s2 v, sps0 s1 -> tag k -> sps0 s2 -> text v ->
          doc_meta_body (s1 ++ k ++ s2 ++ [58] ++ v)
| MB_tags : forall s1 ts, sps0 s1 -> ts <> [] -> Forall tag ts ->
            doc_meta_body (s1 ++ [58] ++ flat_map (fun t => t ++ [58]) ts)
| MB_comment : forall s1 t, sps0 s1 -> text t -> starts is_sp t = false ->
               tags_like t = false -> kv_like t = false -> doc_meta_body (s1 ++ t).

(* a metadata line (without its line end): indentation, ";", the item *)
Inductive doc_meta_line : list N -> Prop :=
| ML : forall s b, sps1 s -> doc_meta_body b -> doc_meta_line (s ++ [59] ++ b).

(* ================================================================================== *)
(* Postings                                                                            *)
(* ================================================================================== *)
Definition clear_mark (c : N) : Prop := c = 42 \/ c = 33.     (* * ! *)
Definition note_char (c : N) : bool := negb (is_note_stop c).  (* [^()@] *)

Inductive lot_kind := LkPrice | LkDate | LkNote.

(* lot-price ::= "{{" sp* expr sp* "}}" | "{" sp* expr sp* "}" ; lot-date ::= "[" sp* date sp* "]" ;
   lot-note ::= "(" [^()@]* ")" *)
Inductive doc_lot_part : lot_kind -> list N -> Prop :=
| LP_total : forall s1 v s2, sps0 s1 -> doc_vexpr v -> sps0 s2 ->
             doc_lot_part LkPrice ([123; 123] ++ s1 ++ v ++ s2 ++ [125; 125])
| LP_rate : forall s1 v s2, sps0 s1 -> doc_vexpr v -> sps0 s2 ->
            doc_lot_part LkPrice ([123] ++ s1 ++ v ++ s2 ++ [125])
| LP_date : forall s1 dt s2, sps0 s1 -> doc_date dt -> sps0 s2 ->
            doc_lot_part LkDate ([91] ++ s1 ++ dt ++ s2 ++ [93])
| LP_note : forall n, all note_char n -> doc_lot_part LkNote ([40] ++ n ++ [41]).

(* posting-lot: the parts in any order, each at most once, each followed by sp* *)
Inductive doc_lot : list lot_kind -> list N -> Prop :=
| DL_nil : doc_lot [] []
| DL_cons : forall kd kds x s r, ~ In kd kds -> doc_lot_part kd x -> sps0 s -> doc_lot kds r ->
            doc_lot (kd :: kds) (x ++ s ++ r).

(* posting-cost ::= "@@" sp* value-expr | "@" sp* value-expr  (or absent) *)
Inductive doc_cost : list N -> Prop :=
| DC_none : doc_cost []
| DC_total : forall s v, sps0 s -> doc_vexpr v -> doc_cost ([64; 64] ++ s ++ v)
| DC_rate : forall s v, sps0 s -> doc_vexpr v -> doc_cost ([64] ++ s ++ v).

(* posting-amount ::= value-expr sp* posting-lot? posting-cost? *)
Inductive doc_posting_amount : list N -> Prop :=
| DPA : forall v s kds l c, doc_vexpr v -> sps0 s -> doc_lot kds l -> doc_cost c ->
        doc_posting_amount (v ++ s ++ l ++ c).

(* balance ::= "=" sp* value-expr sp* *)
Inductive doc_balance : list N -> Prop :=
| DB : forall s v s', sps0 s -> doc_vexpr v -> sps0 s' -> doc_balance ([61] ++ s ++ v ++ s').

(* posting-value ::= ("  " | "\t") sp* (posting-amount sp* )? balance? *)
Definition value_gap (g : list N) : Prop := g = [32; 32] \/ g = [9].
Inductive doc_posting_value : list N -> Prop :=
| DPV : forall g s pa b, value_gap g -> sps0 s ->
        (pa = [] \/ exists a s', doc_posting_amount a /\ sps0 s' /\ pa = a ++ s') ->
        (b = [] \/ doc_balance b) ->
        doc_posting_value (g ++ s ++ pa ++ b).

(* posting-line ::= sp+ (clear-state sp* )? account posting-value? *)
Inductive doc_posting_line : list N -> Prop :=
| DPL : forall s cs a pv, sps1 s ->
        ((cs = [] /\ starts is_clear_mark a = false) \/
         exists c s', clear_mark c /\ sps0 s' /\ cs = c :: s') ->
        wf_account a = true ->
        (pv = [] \/ doc_posting_value pv) ->
        doc_posting_line (s ++ cs ++ a ++ pv).

(* posting ::= posting-line new-line (metadata new-line)* , as lines with their line ends *)
Inductive doc_posting : lines -> Prop :=
| DP : forall l e ms, doc_posting_line l -> Forall (fun le => doc_meta_line (fst le)) ms ->
       doc_posting ((l, e) :: ms).

(* ================================================================================== *)
(* Transactions                                                                        *)
(* ================================================================================== *)
Definition payee_char (c : N) : bool := negb (is_payee_stop c).                       (* [^\r\n;] *)
Definition code_char (c : N) : bool := negb (c =? 40) && negb (c =? 41) && negb (is_nl c).  (* [^()\r\n] *)

(* note ::= (clear-state sp* )? (code sp* )? payee ; code ::= "(" [^()\r\n]* ")" ; payee ::= [^\r\n;]* *)
Inductive doc_note : list N -> Prop :=
| DN : forall cs code p,
    (cs = [] \/ exists c s', clear_mark c /\ sps0 s' /\ cs = c :: s') ->
    (code = [] \/ exists t s', all code_char t /\ sps0 s' /\ code = [40] ++ t ++ [41] ++ s') ->
    all payee_char p ->
    (code = [] -> starts (N.eqb 40) (skip_sp p) = false) ->
    (cs = [] -> code = [] -> starts is_clear_mark (skip_sp p) = false) ->
    doc_note (cs ++ code ++ p).

(* transaction-header ::= date ("=" date)? (sp+ note)?   (without its new-line) *)
Inductive doc_txn_header : list N -> Prop :=
| DH : forall d ed nt, doc_date d ->
       (ed = [] \/ exists d2, doc_date d2 /\ ed = 61 :: d2) ->
       (nt = [] \/ exists s n, sps1 s /\ doc_note n /\ nt = s ++ n) ->
       doc_txn_header (d ++ ed ++ nt).

(* transaction ::= transaction-header new-line (metadata new-line)* posting* , as lines *)
Inductive doc_transaction : lines -> Prop :=
| DT : forall h e ms ps, doc_txn_header h -> Forall (fun le => doc_meta_line (fst le)) ms ->
       Forall doc_posting ps -> doc_transaction ((h, e) :: ms ++ concat ps).

(* ================================================================================== *)
(* Whole files                                                                         *)
(* ================================================================================== *)
Definition directive2 (ls : lines) : Prop := directive ls \/ doc_transaction ls.

(* ledger-file ::= vertical-space* (directive vertical-space* )* with maximal comment blocks,
   as items_ok of DocGrammar.v with transactions among the directives *)
Fixpoint items_ok2 (its : list item) : Prop :=
  match its with
  | [] => True
  | Blank s _ :: r => sps0 s /\ items_ok2 r
  | Dir ls :: r =>
      directive2 ls /\ items_ok2 r /\
      (is_comment_block ls -> match r with Dir ls' :: _ => ~ is_comment_block ls' | _ => True end)
  end.

Definition In_doc_grammar_txn (s : list N) : Prop :=
  exists its, items_ok2 its /\ eof_only_last (flat_map item_lines its) /\
              s = render_lines (flat_map item_lines its).
