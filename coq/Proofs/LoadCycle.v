(* The loader as repaired for include cycles (loadc: load_impl with its stack of files being
   loaded) against the cycle-free core (load): the check never fires on a load that ends
   normally, so everything proved about load holds of loadc; and a cycle is an error. *)
From Coq Require Import List NArith Bool Lia Wf_nat.
From Okv Require Import Model.Glob Model.GlobSpec Model.Load Model.LoadSpec
  Proofs.GlobProofs Proofs.PathOrder Proofs.LoadProofs.
Import ListNotations.
Open Scope N_scope.

(* ---------- canonicalize is idempotent ---------- *)

Definition plain (c : name) : Prop := is_dot c = false /\ is_dotdot c = false.

Lemma canon_acc_plain : forall p acc, Forall plain acc -> Forall plain (canon_acc p acc).
Proof.
  induction p as [|a p IH]; intros acc H; cbn [canon_acc].
  - apply Forall_rev. exact H.
  - destruct (is_dot a) eqn:E1; [apply IH; exact H|]. destruct (is_dotdot a) eqn:E2.
    + apply IH. destruct acc; [constructor|inversion H; assumption].
    + apply IH. constructor; [split; assumption|exact H].
Qed.

Lemma canon_acc_id : forall p acc, Forall plain p -> canon_acc p acc = rev acc ++ p.
Proof.
  induction p as [|a p IH]; intros acc H; cbn [canon_acc].
  - rewrite app_nil_r. reflexivity.
  - inversion H as [|? ? [H1 H2] H3]; subst. rewrite H1, H2. rewrite IH by exact H3.
    cbn [rev]. rewrite <- app_assoc. reflexivity.
Qed.

Lemma canon_idem : forall p, canonicalize (canonicalize p) = canonicalize p.
Proof.
  intro p. unfold canonicalize at 1. rewrite canon_acc_id; [reflexivity|].
  apply canon_acc_plain. constructor.
Qed.

Lemma load_canon : forall n fs p, load n fs (canonicalize p) = load n fs p.
Proof. intros [|n] fs p; [reflexivity|]. cbn [load]. rewrite canon_idem. reflexivity. Qed.

Lemma loadc_canon : forall n fs st p, loadc n fs st (canonicalize p) = loadc n fs st p.
Proof. intros [|n] fs st p; [reflexivity|]. cbn [loadc]. rewrite canon_idem. reflexivity. Qed.

(* ---------- loadc refines load ---------- *)

Lemma load_all_mono : forall (ld ld' : path -> run),
  (forall k o, ld k = (o, Done) -> ld' k = (o, Done)) ->
  forall ps o, load_all ld ps = (o, Done) -> load_all ld' ps = (o, Done).
Proof.
  intros ld ld' H. induction ps as [|k ps IH]; intros o E; [exact E|].
  cbn [load_all fold_right] in *. fold (load_all ld ps) in E. fold (load_all ld' ps).
  apply then_done_inv in E. destruct E as [o1 [o2 [E1 [E2 E3]]]]. subst o.
  rewrite (H _ _ E1), (IH _ E2). reflexivity.
Qed.

Lemma load_entries_mono : forall (ld ld' : path -> run) fs cp,
  (forall k o, ld k = (o, Done) -> ld' k = (o, Done)) ->
  forall es o, load_entries ld fs cp es = (o, Done) -> load_entries ld' fs cp es = (o, Done).
Proof.
  intros ld ld' fs cp H. induction es as [|e es IH]; intros o E; [exact E|].
  destruct e as [w|id]; cbn [load_entries] in *.
  - destruct (include_targets fs cp w) as [err|ps]; [discriminate|].
    apply then_done_inv in E. destruct E as [o1 [o2 [E1 [E2 E3]]]]. subst o.
    rewrite (load_all_mono ld ld' H _ _ E1), (IH _ E2). reflexivity.
  - apply then_done_inv in E. destruct E as [o1 [o2 [E1 [E2 E3]]]]. subst o.
    injection E1 as E1. subst o1. rewrite (IH _ E2). reflexivity.
Qed.

Theorem loadc_refines_load : forall fs n st p o,
  loadc n fs st p = (o, Done) -> load n fs p = (o, Done).
Proof.
  intros fs. induction n as [|n IH]; intros st p o H; [discriminate|].
  cbn [loadc] in H. cbn [load].
  destruct (existsb (path_eqb (canonicalize p)) st); [discriminate|].
  destruct (lookup (canonicalize p) fs) as [content|]; [|discriminate].
  eapply load_entries_mono; [|exact H]. intros k o' E. eapply IH. exact E.
Qed.

(* ---------- a load that ends normally has no cycle below it ---------- *)

(* ck is loaded by an include of the file at cp *)
Definition child (fs : fsys) (cp ck : path) : Prop :=
  exists content w ps k,
    lookup cp fs = Some content /\ In (Inc w) content /\
    include_targets fs cp w = inr ps /\ In k ps /\ ck = canonicalize k.

Inductive reach (fs : fsys) : path -> path -> Prop :=
| R_one : forall a b, child fs a b -> reach fs a b
| R_step : forall a b c, child fs a b -> reach fs b c -> reach fs a c.

Lemma reach_child : forall fs a b c, reach fs a b -> child fs b c -> reach fs a c.
Proof.
  intros fs a b c H. induction H; intro Hc.
  - eapply R_step; [eassumption|]. apply R_one. exact Hc.
  - eapply R_step; [eassumption|]. apply IHreach. exact Hc.
Qed.

Lemma load_all_done_in : forall (ld : path -> run) ps o k,
  load_all ld ps = (o, Done) -> In k ps -> exists o', ld k = (o', Done).
Proof.
  induction ps as [|x ps IH]; intros o k E Hin; [destruct Hin|].
  cbn [load_all fold_right] in E. fold (load_all ld ps) in E.
  apply then_done_inv in E. destruct E as [o1 [o2 [E1 [E2 E3]]]].
  destruct Hin as [Hin|Hin]; [subst x; eauto|eapply IH; eauto].
Qed.

Lemma entries_children_done : forall (ld : path -> run) fs cp es o w ps k,
  load_entries ld fs cp es = (o, Done) -> In (Inc w) es ->
  include_targets fs cp w = inr ps -> In k ps -> exists o', ld k = (o', Done).
Proof.
  induction es as [|e es IH]; intros o w ps k E Hin T Hk; [destruct Hin|].
  destruct e as [w0|id]; cbn [load_entries] in E.
  - destruct (include_targets fs cp w0) as [err|ps0] eqn:T0; [discriminate|].
    apply then_done_inv in E. destruct E as [o1 [o2 [E1 [E2 E3]]]].
    destruct Hin as [Hin|Hin].
    + injection Hin as Hin. subst w0. rewrite T in T0. injection T0 as T0. subst ps0.
      eapply load_all_done_in; eauto.
    + eapply IH; eauto.
  - apply then_done_inv in E. destruct E as [o1 [o2 [E1 [E2 E3]]]].
    destruct Hin as [Hin|Hin]; [discriminate|]. eapply IH; eauto.
Qed.

Lemma child_done : forall fs m x o ck,
  load (S m) fs x = (o, Done) -> child fs (canonicalize x) ck -> exists o', load m fs ck = (o', Done).
Proof.
  intros fs m x o ck H [content [w [ps [k [L [Hin [T [Hk E]]]]]]]]. subst ck.
  cbn [load] in H. rewrite L in H.
  destruct (entries_children_done _ _ _ _ _ _ _ _ H Hin T Hk) as [o' Ho].
  exists o'. rewrite load_canon. exact Ho.
Qed.

Lemma reach_done : forall fs a b, reach fs a b ->
  forall n x o, canonicalize x = a -> load n fs x = (o, Done) ->
  exists n' o', (n' < n)%nat /\ load n' fs b = (o', Done).
Proof.
  intros fs a b H. induction H as [a b Hc|a b c Hc Hr IH]; intros n x o Ex Hl.
  - destruct n as [|m]; [discriminate|]. subst a. destruct (child_done _ _ _ _ _ Hl Hc) as [o' Ho].
    exists m, o'. split; [lia|exact Ho].
  - destruct n as [|m]; [discriminate|]. subst a. destruct (child_done _ _ _ _ _ Hl Hc) as [o' Ho].
    assert (Eb : canonicalize b = b).
    { destruct Hc as [? [? [? [k [_ [_ [_ [_ E]]]]]]]]. subst b. apply canon_idem. }
    destruct (IH m b o' Eb Ho) as [n' [o'' [Hlt Ho'']]]. exists n', o''. split; [lia|exact Ho''].
Qed.

Lemma no_self_reach : forall fs n x o,
  load n fs x = (o, Done) -> ~ reach fs (canonicalize x) (canonicalize x).
Proof.
  intros fs n. induction n as [n IH] using lt_wf_ind. intros x o H R.
  destruct (reach_done _ _ _ R n x o eq_refl H) as [n' [o' [Hlt Ho']]].
  apply (IH n' Hlt (canonicalize x) o' Ho'). rewrite canon_idem. exact R.
Qed.

(* ---------- the check never fires on a load that ends normally ---------- *)

Section Bridge.
  Variable fs : fsys.

  Definition ancestors_ok (st : list path) (cp : path) : Prop := forall q, In q st -> reach fs q cp.

  Definition B (n : nat) : Prop :=
    forall p o st, load n fs p = (o, Done) -> ancestors_ok st (canonicalize p) ->
    exists N, forall f, (N <= f)%nat -> loadc f fs st p = (o, Done).

  Section Level.
    Variable m : nat.
    Hypothesis IH : B m.
    Variable cp : path.
    Variable content : list entry.
    Hypothesis L : lookup cp fs = Some content.
    Variable st : list path.
    Hypothesis A : ancestors_ok st cp.

    Lemma bridge_all : forall w ps, In (Inc w) content -> include_targets fs cp w = inr ps ->
      forall qs o, incl qs ps -> load_all (load m fs) qs = (o, Done) ->
      exists N, forall f, (N <= f)%nat -> load_all (loadc f fs (cp :: st)) qs = (o, Done).
    Proof.
      intros w ps Hin T. induction qs as [|k qs IHq]; intros o I E.
      - exists O. intros. exact E.
      - cbn [load_all fold_right] in E. fold (load_all (load m fs) qs) in E.
        apply then_done_inv in E. destruct E as [o1 [o2 [E1 [E2 E3]]]]. subst o.
        assert (Hk : In k ps) by (apply I; left; reflexivity).
        assert (Hc : child fs cp (canonicalize k)) by (exists content, w, ps, k; auto).
        destruct (IH k o1 (cp :: st) E1) as [N1 L1].
        { intros q [Hq|Hq]; [subst q; apply R_one; exact Hc|eapply reach_child; [apply A; exact Hq|exact Hc]]. }
        destruct (IHq o2 (fun x Hx => I x (or_intror Hx)) E2) as [N2 L2].
        exists (Nat.max N1 N2). intros f Hf. cbn [load_all fold_right]. fold (load_all (loadc f fs (cp :: st)) qs).
        rewrite (L1 f) by lia. rewrite (L2 f) by lia. reflexivity.
    Qed.

    Lemma bridge_entries : forall es o, incl es content ->
      load_entries (load m fs) fs cp es = (o, Done) ->
      exists N, forall f, (N <= f)%nat -> load_entries (loadc f fs (cp :: st)) fs cp es = (o, Done).
    Proof.
      induction es as [|e es IHe]; intros o I E.
      - exists O. intros. exact E.
      - assert (I' : incl es content) by (intros x Hx; apply I; right; exact Hx).
        destruct e as [w|id]; cbn [load_entries] in E.
        + destruct (include_targets fs cp w) as [err|ps] eqn:T; [discriminate|].
          apply then_done_inv in E. destruct E as [o1 [o2 [E1 [E2 E3]]]]. subst o.
          destruct (bridge_all w ps (I _ (or_introl eq_refl)) T ps o1 (incl_refl _) E1) as [N1 L1].
          destruct (IHe o2 I' E2) as [N2 L2].
          exists (Nat.max N1 N2). intros f Hf. cbn [load_entries]. rewrite T.
          rewrite (L1 f) by lia. rewrite (L2 f) by lia. reflexivity.
        + apply then_done_inv in E. destruct E as [o1 [o2 [E1 [E2 E3]]]]. subst o.
          injection E1 as E1. subst o1. destruct (IHe o2 I' E2) as [N2 L2].
          exists N2. intros f Hf. cbn [load_entries]. rewrite (L2 f Hf). reflexivity.
    Qed.
  End Level.

  Lemma bridge : forall n, B n.
  Proof.
    induction n as [|m IH]; intros p o st H A; [discriminate|].
    pose proof H as H0. cbn [load] in H.
    destruct (lookup (canonicalize p) fs) as [content|] eqn:L; [|discriminate].
    destruct (bridge_entries m IH (canonicalize p) content L st A content o (incl_refl _) H) as [N LN].
    assert (Hst : existsb (path_eqb (canonicalize p)) st = false).
    { destruct (existsb (path_eqb (canonicalize p)) st) eqn:E; [|reflexivity]. exfalso.
      apply existsb_exists in E. destruct E as [q [Hq Eq]]. apply path_eqb_eq in Eq. subst q.
      exact (no_self_reach _ _ _ _ H0 (A _ Hq)). }
    exists (S N). intros f Hf. destruct f as [|f']; [lia|]. cbn [loadc]. rewrite Hst, L. apply LN. lia.
  Qed.
End Bridge.

Theorem load_done_loadc : forall fs n p o,
  load n fs p = (o, Done) -> exists N, forall f, (N <= f)%nat -> loadc f fs [] p = (o, Done).
Proof. intros fs n p o H. apply (bridge fs n p o [] H). intros q []. Qed.

(* the loader with its cycle check delivers exactly the expansions *)
Theorem loadc_iff_expands : forall fs, wf_fs fs ->
  forall p out, (exists fuel, loadc fuel fs [] p = (out, Done)) <-> expands fs p out.
Proof.
  intros fs W p out. split.
  - intros [f H]. eapply load_sound; [exact W|]. eapply loadc_refines_load. exact H.
  - intro H. destruct (load_complete fs W p out H) as [n Hn].
    destruct (load_done_loadc fs n p out (Hn n (le_n n))) as [N HN]. exists N. apply HN. lia.
Qed.

Theorem loadc_complete : forall fs, wf_fs fs ->
  forall p out, expands fs p out -> exists N, forall f, (N <= f)%nat -> loadc f fs [] p = (out, Done).
Proof.
  intros fs W p out H. destruct (load_complete fs W p out H) as [n Hn].
  exact (load_done_loadc fs n p out (Hn n (le_n n))).
Qed.

Theorem loadc_split_invariant : forall fs root L,
  wf_fs fs -> cut_of fs root L ->
  exists N, forall f, (N <= f)%nat -> exists out, loadc f fs [] root = (out, Done) /\ map snd out = L.
Proof.
  intros fs root L W C. destruct (proj1 (cut_expands_mut fs) _ _ C) as [out [E M]].
  destruct (loadc_complete fs W _ _ E) as [N HN]. exists N. intros f Hf. exists out. split; [apply HN; exact Hf|exact M].
Qed.

(* a file that is being loaded and is included again is an error, not a recursion *)
Theorem cycle_is_error : forall fs f st p,
  In (canonicalize p) st -> loadc (S f) fs st p = ([], Failed IncludeCycle).
Proof.
  intros fs f st p H. cbn [loadc].
  assert (E : existsb (path_eqb (canonicalize p)) st = true).
  { apply existsb_exists. exists (canonicalize p). split; [exact H|]. apply path_eqb_eq. reflexivity. }
  rewrite E. reflexivity.
Qed.

(* a self-including file: the repaired loader answers IncludeCycle whatever the fuel; without the
   check the recursion only ever runs out of fuel *)
Example self_include :
  let fs := [ ([[114]; [109; 46; 108]], [Ent 1; Inc [109; 46; 108]]) ] in
  loadc 5 fs [] [[114]; [109; 46; 108]] = ([([[114]; [109; 46; 108]], 1)], Failed IncludeCycle) /\
  load 5 fs [[114]; [109; 46; 108]] = ([([[114]; [109; 46; 108]], 1); ([[114]; [109; 46; 108]], 1); ([[114]; [109; 46; 108]], 1);
                                        ([[114]; [109; 46; 108]], 1); ([[114]; [109; 46; 108]], 1)], OutOfFuel).
Proof. split; vm_compute; reflexivity. Qed.

(* the same file included twice from different places is not a cycle *)
Example included_twice :
  let fs := [ ([[114]; [109; 46; 108]], [Inc [99; 46; 108]; Inc [99; 46; 108]]); ([[114]; [99; 46; 108]], [Ent 7]) ] in
  loadc 3 fs [] [[114]; [109; 46; 108]] = ([([[114]; [99; 46; 108]], 7); ([[114]; [99; 46; 108]], 7)], Done).
Proof. vm_compute. reflexivity. Qed.
