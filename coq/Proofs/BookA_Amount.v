(* Lemma library about Base/Dec.v predicates and Model/Amount.v operations. *)
From Coq Require Import List NArith ZArith Bool QArith Qcanon Lia Permutation.
From Okv Require Import Base.Maps.
From Okv Require Import Base.Dec.
From Okv Require Import Model.Amount.
From Okv Require Import Model.Book.
From Okv Require Import Model.BookSpec.
From Okv Require Import Proofs.BookA_Maps.
Import ListNotations.
Open Scope Qc_scope.

(* ---- Qc predicates ---- *)

Lemma Qc_eq_bool_refl x : Qc_eq_bool x x = true.
Proof. unfold Qc_eq_bool. destruct (Qc_eq_dec x x); [reflexivity|congruence]. Qed.

Lemma qc_zero_true_iff x : qc_zero x = true <-> x = 0.
Proof.
  unfold qc_zero. split.
  - apply Qc_eq_bool_correct.
  - intros ->. apply Qc_eq_bool_refl.
Qed.

Lemma qc_zero_false_iff x : qc_zero x = false <-> x <> 0.
Proof.
  rewrite <- qc_zero_true_iff. destruct (qc_zero x); split; congruence.
Qed.

Lemma qc_zero_0 : qc_zero 0 = true.
Proof. apply qc_zero_true_iff. reflexivity. Qed.

Lemma qc_neg_true_iff x : qc_neg x = true <-> x < 0.
Proof.
  unfold qc_neg. rewrite Qclt_alt. destruct (x ?= 0); split; congruence.
Qed.

Lemma qc_neg_false_iff x : qc_neg x = false <-> 0 <= x.
Proof.
  split.
  - intros H. apply Qcnot_lt_le. intros Hlt. apply qc_neg_true_iff in Hlt. congruence.
  - intros H. destruct (qc_neg x) eqn:E; [|reflexivity].
    apply qc_neg_true_iff in E. exfalso. eapply Qcle_not_lt; eauto.
Qed.

Lemma sign_positive_nonzero x : x <> 0 -> (sign_positive x = true <-> 0 < x).
Proof.
  intros Hx. unfold sign_positive. rewrite negb_true_iff, qc_neg_false_iff. split.
  - intros H. apply Qcle_lt_or_eq in H. destruct H; [assumption|congruence].
  - apply Qclt_le_weak.
Qed.

Lemma sign_positive_false_nonzero x : sign_positive x = false <-> x < 0.
Proof.
  unfold sign_positive. rewrite negb_false_iff. apply qc_neg_true_iff.
Qed.

Lemma with_sign_of_spec t q :
  with_sign_of t q = if Qclt_le_dec q 0 then - Qcabs.Qcabs t else Qcabs.Qcabs t.
Proof.
  unfold with_sign_of. destruct (Qclt_le_dec q 0) as [H|H].
  - apply qc_neg_true_iff in H. rewrite H. reflexivity.
  - apply qc_neg_false_iff in H. rewrite H. reflexivity.
Qed.

(* a total written with a minus sign (`@@ -1,000 USD`) is the same total: only its magnitude is read *)
Lemma with_sign_of_opp t q : with_sign_of (- t) q = with_sign_of t q.
Proof. rewrite !with_sign_of_spec, Qcabs.Qcabs_opp. reflexivity. Qed.

Lemma xchg_apply_total_opp c t v : xchg_apply (XT c (- t)) v = xchg_apply (XT c t) v.
Proof. unfold xchg_apply. rewrite with_sign_of_opp. reflexivity. Qed.

Lemma total_written_sign_ignored c t v :
  xchg_apply (XT c (- t)) v = xchg_apply (XT c t) v
  /\ snd (xchg_apply (XT c t) v) = if Qclt_le_dec v 0 then - Qcabs.Qcabs t else Qcabs.Qcabs t.
Proof. split; [exact (xchg_apply_total_opp c t v) | exact (with_sign_of_spec t v)]. Qed.

(* ---- zero tests on amounts ---- *)

Lemma a_is_zero_iff a : a_is_zero a = true <-> all_zero a.
Proof.
  unfold a_is_zero, all_zero. rewrite forallb_forall. split.
  - intros H c v Hin. apply qc_zero_true_iff. apply (H (c, v)). exact Hin.
  - intros H [c v] Hin. apply qc_zero_true_iff. cbn [snd]. eapply H; eauto.
Qed.

Lemma a_is_zero_false_iff a : a_is_zero a = false <-> ~ all_zero a.
Proof.
  rewrite <- a_is_zero_iff. destruct (a_is_zero a); split; congruence.
Qed.

Lemma in_remove_zeros c v a : In (c, v) (a_remove_zeros a) <-> In (c, v) a /\ v <> 0.
Proof.
  unfold a_remove_zeros. rewrite filter_In. cbn [snd].
  rewrite negb_true_iff, qc_zero_false_iff. tauto.
Qed.

Lemma remove_zeros_nil_iff a : a_remove_zeros a = [] <-> all_zero a.
Proof.
  split.
  - intros H c v Hin. destruct (Qc_eq_dec v 0) as [E|E]; [exact E|].
    assert (In (c, v) (a_remove_zeros a)) as Hin' by (apply in_remove_zeros; tauto).
    rewrite H in Hin'. destruct Hin'.
  - intros H. destruct (a_remove_zeros a) as [|[c v] r] eqn:E; [reflexivity|].
    assert (In (c, v) (a_remove_zeros a)) as Hin by (rewrite E; left; reflexivity).
    apply in_remove_zeros in Hin. destruct Hin as [Hin Hv]. exfalso. apply Hv. eapply H; eauto.
Qed.

Lemma NoDup_remove_zeros a : NoDup (keys a) -> NoDup (keys (a_remove_zeros a)).
Proof. apply NoDup_keys_filter. Qed.

(* ---- a_get ---- *)

Lemma a_get_nil c : a_get [] c = 0.
Proof. reflexivity. Qed.

Lemma a_get_single c v c' : a_get (a_single c v) c' = if (c =? c')%N then v else 0.
Proof. unfold a_get, a_single. cbn [get]. destruct (c =? c')%N; reflexivity. Qed.

Lemma a_get_set c v a c' : a_get (set c v a) c' = if (c =? c')%N then v else a_get a c'.
Proof. unfold a_get. rewrite get_set. destruct (c =? c')%N; reflexivity. Qed.

Lemma a_get_add1 a c v c' :
  a_get (a_add1 a c v) c' = if (c =? c')%N then a_get a c' + v else a_get a c'.
Proof.
  unfold a_add1. destruct (get c a) as [x|] eqn:E.
  - rewrite a_get_set. destruct (N.eqb_spec c c') as [H|H]; [|reflexivity].
    subst. unfold a_get. rewrite E. reflexivity.
  - unfold a_get. rewrite get_app. cbn [get].
    destruct (N.eqb_spec c c') as [H|H].
    + subst. rewrite E. ring.
    + destruct (get c' a); reflexivity.
Qed.

Lemma a_get_add_pa a p c : a_get (a_add_pa a p) c = a_get a c + pa_get p c.
Proof.
  destruct p as [|c' v]; cbn [a_add_pa pa_get].
  - ring.
  - rewrite a_get_add1. destruct (c' =? c)%N; ring.
Qed.

Lemma a_get_neg a c : a_get (a_neg a) c = - a_get a c.
Proof.
  unfold a_get, a_neg.
  rewrite (get_map_snd (fun p => - snd p) (fun _ v => - v)) by reflexivity.
  destruct (get c a); cbn [option_map]; ring.
Qed.

Lemma a_get_remove_zeros a c : NoDup (keys a) -> a_get (a_remove_zeros a) c = a_get a c.
Proof.
  intros H. unfold a_get, a_remove_zeros. rewrite get_filter by exact H.
  destruct (get c a) as [v|]; [|reflexivity]. cbn [snd].
  destruct (qc_zero v) eqn:E; cbn [negb]; [|reflexivity].
  apply qc_zero_true_iff in E. congruence.
Qed.

Lemma a_get_add_fold b : forall a c,
  a_get (a_add a b) c = a_get a c + qc_sum (map (fun p => if (fst p =? c)%N then snd p else 0) b).
Proof.
  unfold a_add. induction b as [|[k v] r IH]; intros a c; cbn [fold_left map qc_sum fst snd].
  - ring.
  - rewrite IH, a_get_add1. destruct (k =? c)%N; ring.
Qed.

Lemma qc_sum_get b c : NoDup (keys b) ->
  qc_sum (map (fun p => if (fst p =? c)%N then snd p else 0) b) = a_get b c.
Proof.
  induction b as [|[k v] r IH]; cbn [map qc_sum fst snd keys]; [reflexivity|].
  intros H. inversion H as [|? ? Hni Hnd]; subst.
  unfold a_get. cbn [get]. destruct (N.eqb_spec k c) as [E|E].
  - subst. fold (keys r) in Hni. apply get_none_iff in Hni.
    rewrite IH by exact Hnd. unfold a_get. rewrite Hni. ring.
  - rewrite IH by exact Hnd. unfold a_get. ring.
Qed.

(* the sum of two amounts, commodity by commodity *)
Lemma a_get_add a b c : NoDup (keys b) -> a_get (a_add a b) c = a_get a c + a_get b c.
Proof. intros H. rewrite a_get_add_fold, qc_sum_get by exact H. reflexivity. Qed.

(* ---- NoDup keys is preserved ---- *)

Lemma NoDup_add1 a c v : NoDup (keys a) -> NoDup (keys (a_add1 a c v)).
Proof.
  intros H. unfold a_add1. destruct (get c a) eqn:E.
  - apply NoDup_keys_set. exact H.
  - rewrite <- set_absent by exact E. apply NoDup_keys_set. exact H.
Qed.

Lemma NoDup_add_pa a p : NoDup (keys a) -> NoDup (keys (a_add_pa a p)).
Proof. destruct p; cbn [a_add_pa]; [auto|apply NoDup_add1]. Qed.

Lemma NoDup_add b : forall a, NoDup (keys a) -> NoDup (keys (a_add a b)).
Proof.
  unfold a_add. induction b as [|[k v] r IH]; intros a H; cbn [fold_left]; [exact H|].
  apply IH. apply NoDup_add1. exact H.
Qed.

Lemma keys_neg a : keys (a_neg a) = keys a.
Proof. unfold a_neg. apply (keys_map_snd (fun p => - snd p)). Qed.

Lemma keys_round f a : keys (a_round f a) = keys a.
Proof.
  unfold a_round.
  apply (keys_map_snd (fun p => match get (fst p) f with Some dp => round_dp dp (snd p) | None => snd p end)).
Qed.

(* ---- Permutation: the balance condition does not see the order of the residual ---- *)

Lemma all_zero_perm a a' : Permutation a a' -> all_zero a -> all_zero a'.
Proof.
  intros HP H c v Hin. apply (H c v). eapply Permutation_in; [apply Permutation_sym; exact HP|exact Hin].
Qed.

Lemma remove_zeros_perm a a' : Permutation a a' -> Permutation (a_remove_zeros a) (a_remove_zeros a').
Proof.
  unfold a_remove_zeros. induction 1; cbn [filter].
  - constructor.
  - destruct (negb (qc_zero (snd x))); [constructor|]; assumption.
  - destruct (negb (qc_zero (snd x))), (negb (qc_zero (snd y))); try apply Permutation_refl.
    apply perm_swap.
  - eapply Permutation_trans; eauto.
Qed.

Lemma two_opposite_perm a a' : Permutation a a' -> two_opposite a -> two_opposite a'.
Proof.
  intros HP [Hlen [c1 [v1 [c2 [v2 [H1 [H2 [Hn Hp]]]]]]]]. split.
  - rewrite <- Hlen. apply Permutation_length. apply Permutation_sym. apply remove_zeros_perm. exact HP.
  - exists c1, v1, c2, v2. repeat split; try assumption; eapply Permutation_in; eauto.
Qed.

Lemma round_perm f a a' : Permutation a a' -> Permutation (a_round f a) (a_round f a').
Proof. unfold a_round. apply Permutation_map. Qed.

Lemma balanced_perm f r r' : Permutation r r' -> balanced f r -> balanced f r'.
Proof.
  intros HP [H|H]; [left|right].
  - eapply all_zero_perm; [apply round_perm; exact HP|exact H].
  - eapply two_opposite_perm; [apply round_perm; exact HP|exact H].
Qed.
