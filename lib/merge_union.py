#!/usr/bin/env python3
"""Resolve git conflict markers in a file by keeping both sides (ours first, then the lines of
theirs that ours lacks).  Good for registries such as harness/src/main.rs."""
import sys
for p in sys.argv[1:]:
    out, ours, theirs, state = [], [], [], 0
    for line in open(p):
        if line.startswith("<<<<<<< "):
            state, ours, theirs = 1, [], []
        elif line.startswith("=======") and state == 1:
            state = 2
        elif line.startswith(">>>>>>> ") and state == 2:
            out.extend(ours)
            out.extend(l for l in theirs if l not in ours)
            state = 0
        elif state == 1:
            ours.append(line)
        elif state == 2:
            theirs.append(line)
        else:
            out.append(line)
    open(p, "w").write("".join(out))
