(* Parser combinators mirroring the winnow 0.7 combinators used by core/src/parse/*.rs.
   Input is the remaining text as a list of Unicode scalar values; a result carries the rest of
   the input, also on failure (winnow leaves the stream where the failing component stopped:
   primitives and `verify`/`try_map` reset to their start, sequences stay where the failing
   component failed, tuple `alt` stays where its LAST alternative failed, `opt`/`repeat`/
   `peek` reset).  Hazards are values: PPanic (winnow's assert in debug builds, slicing), PFuel
   (the model's recursion budget; excluded by Proofs/ParseTotal.v).  Definitions only. *)
From Coq Require Import List NArith Bool.
Import ListNotations.
Open Scope N_scope.

Inductive presult (A : Type) : Type :=
| POk (a : A) (rest : list N)
| PErr (cut : bool) (lbl : N) (rest : list N)   (* ErrMode::Cut / Backtrack; innermost StrContext::Label (0 = none) *)
| PPanic (why : N)                              (* 1: `repeat` parsers must always consume *)
| PFuel.
Arguments POk {A} a rest.
Arguments PErr {A} cut lbl rest.
Arguments PPanic {A} why.
Arguments PFuel {A}.

Definition parser (A : Type) := list N -> presult A.

(* ---- bytes ---- *)
Definition utf8_len1 (c : N) : N :=
  if c <? 128 then 1 else if c <? 2048 then 2 else if c <? 65536 then 3 else 4.
Fixpoint utf8_len (s : list N) : N :=
  match s with [] => 0 | c :: r => utf8_len1 c + utf8_len r end.

(* span in "bytes remaining" form: (remaining at start, remaining at end); the top level
   turns it into absolute offsets  total - remaining *)
Definition rspan := (N * N)%type.

(* ---- sequencing ---- *)
Definition ret {A} (a : A) : parser A := fun i => POk a i.
Definition bind {A B} (p : parser A) (k : A -> parser B) : parser B :=
  fun i => match p i with
           | POk a r => k a r
           | PErr c l r => PErr c l r
           | PPanic w => PPanic w
           | PFuel => PFuel
           end.
Notation "x <- p ;; k" := (bind p (fun x => k)) (at level 61, p at next level, right associativity).
Notation "p ;;; k" := (bind p (fun _ => k)) (at level 61, right associativity).

Definition pmap {A B} (f : A -> B) (p : parser A) : parser B := x <- p ;; ret (f x).
Definition preceded {A B} (p : parser A) (q : parser B) : parser B := p ;;; q.
Definition terminated {A B} (p : parser A) (q : parser B) : parser A := x <- p ;; q ;;; ret x.
Definition delimited {A B C} (p : parser A) (q : parser B) (r : parser C) : parser B :=
  p ;;; x <- q ;; r ;;; ret x.
Definition void {A} (p : parser A) : parser unit := p ;;; ret tt.

(* ---- tokens ---- *)
Definition fail {A} : parser A := fun i => PErr false 0 i.

Definition any : parser N :=
  fun i => match i with [] => PErr false 0 i | c :: r => POk c r end.

(* one_of = any.verify(set): resets on mismatch *)
Definition one_of (f : N -> bool) : parser N :=
  fun i => match i with
           | c :: r => if f c then POk c r else PErr false 0 i
           | [] => PErr false 0 i
           end.
Definition chr (c : N) : parser N := one_of (N.eqb c).

Fixpoint strip_prefix (l i : list N) : option (list N) :=
  match l with
  | [] => Some i
  | a :: l' => match i with
               | b :: i' => if a =? b then strip_prefix l' i' else None
               | [] => None
               end
  end.
Definition literal (l : list N) : parser (list N) :=
  fun i => match strip_prefix l i with Some r => POk l r | None => PErr false 0 i end.

Fixpoint span_while (f : N -> bool) (i : list N) : list N * list N :=
  match i with
  | c :: r => if f c then let (a, b) := span_while f r in (c :: a, b) else ([], i)
  | [] => ([], [])
  end.
Definition take_while0 (f : N -> bool) : parser (list N) :=
  fun i => let (a, b) := span_while f i in POk a b.
Definition take_while1 (f : N -> bool) : parser (list N) :=
  fun i => let (a, b) := span_while f i in
           match a with [] => PErr false 0 i | _ => POk a b end.
Definition take_till0 (f : N -> bool) : parser (list N) := take_while0 (fun c => negb (f c)).
Definition take_till1 (f : N -> bool) : parser (list N) := take_while1 (fun c => negb (f c)).

Definition eof : parser unit :=
  fun i => match i with [] => POk tt [] | _ => PErr false 0 i end.

(* ---- choice, lookahead ---- *)
Definition opt {A} (p : parser A) : parser (option A) :=
  fun i => match p i with
           | POk a r => POk (Some a) r
           | PErr false _ _ => POk None i
           | PErr true l r => PErr true l r
           | PPanic w => PPanic w
           | PFuel => PFuel
           end.

(* tuple alt: each alternative starts from the same input; the failure of the last one is
   reported as is (position and, ContextError::or keeping the later error, its label) *)
Definition alt {A} (p q : parser A) : parser A :=
  fun i => match p i with
           | PErr false _ _ => q i
           | x => x
           end.

Definition peek {A} (p : parser A) : parser A :=
  fun i => match p i with
           | POk a _ => POk a i
           | PErr c l _ => PErr c l i
           | PPanic w => PPanic w
           | PFuel => PFuel
           end.

(* combinator::not: succeeds (without consuming) iff the parser fails *)
Definition pnot {A} (p : parser A) : parser unit :=
  fun i => match p i with
           | POk _ _ => PErr false 0 i
           | PErr false _ _ => POk tt i
           | PErr true l _ => PErr true l i
           | PPanic w => PPanic w
           | PFuel => PFuel
           end.

(* combinator::has_peek = peek(opt(f)).map(is_some) *)
Definition has_peek {A} (p : parser A) : parser bool :=
  pmap (fun o => match o with Some _ => true | None => false end) (peek (opt p)).

Definition cut_err {A} (p : parser A) : parser A :=
  fun i => match p i with
           | PErr _ l r => PErr true l r
           | x => x
           end.

(* Parser::context(StrContext::Label): ContextError keeps every context, Display shows the
   first Label pushed, i.e. the innermost one *)
Definition context {A} (lbl : N) (p : parser A) : parser A :=
  fun i => match p i with
           | PErr c 0 r => PErr c lbl r
           | x => x
           end.

Definition cond {A} (b : bool) (p : parser A) : parser (option A) :=
  if b then pmap Some p else ret None.
Definition cond_else {A} (b : bool) (p q : parser A) : parser A := if b then p else q.

(* ---- slices and spans ---- *)
(* Parser::take: the consumed slice *)
Definition taken {A} (p : parser A) : parser (list N) :=
  fun i => match p i with
           | POk _ r => POk (firstn (length i - length r) i) r
           | PErr c l r => PErr c l r
           | PPanic w => PPanic w
           | PFuel => PFuel
           end.
Definition with_taken {A} (p : parser A) : parser (A * list N) :=
  fun i => match p i with
           | POk a r => POk (a, firstn (length i - length r) i) r
           | PErr c l r => PErr c l r
           | PPanic w => PPanic w
           | PFuel => PFuel
           end.
Definition with_span {A} (p : parser A) : parser (A * rspan) :=
  fun i => match p i with
           | POk a r => POk (a, (utf8_len i, utf8_len r)) r
           | PErr c l r => PErr c l r
           | PPanic w => PPanic w
           | PFuel => PFuel
           end.

(* verify / try_map: on rejection the stream is reset to the start *)
Definition try_map {A B} (p : parser A) (f : A -> option B) : parser B :=
  fun i => match p i with
           | POk a r => match f a with Some b => POk b r | None => PErr false 0 i end
           | PErr c l r => PErr c l r
           | PPanic w => PPanic w
           | PFuel => PFuel
           end.

(* ---- repetition (fuel = an upper bound on the number of iterations; callers pass the
   length of the input, and every successful iteration must consume) ---- *)
Definition consumed (i r : list N) : bool := Nat.ltb (length r) (length i).

(* repeat(0.., p) accumulating into a Vec *)
Fixpoint many0 {A} (fuel : nat) (p : parser A) (i : list N) : presult (list A) :=
  match p i with
  | POk a r =>
      if consumed i r then
        match fuel with
        | O => PFuel
        | S f => match many0 f p r with
                 | POk l r' => POk (a :: l) r'
                 | x => x
                 end
        end
      else PPanic 1
  | PErr false _ _ => POk [] i
  | PErr true l r => PErr true l r
  | PPanic w => PPanic w
  | PFuel => PFuel
  end.

(* repeat(1.., p): the first iteration is not checked for consumption *)
Definition many1 {A} (fuel : nat) (p : parser A) : parser (list A) :=
  a <- p ;; l <- many0 fuel p ;; ret (a :: l).

(* repeat_till(1.., f, g) accumulating into (): f once, then (g | f)* g *)
Fixpoint repeat_till_loop {A B} (fuel : nat) (f : parser A) (g : parser B) (i : list N) : presult B :=
  match g i with
  | POk b r => POk b r
  | PErr false _ _ =>
      match f i with
      | POk _ r =>
          if consumed i r then
            match fuel with
            | O => PFuel
            | S n => repeat_till_loop n f g r
            end
          else PPanic 1
      | PErr c l r => PErr c l r
      | PPanic w => PPanic w
      | PFuel => PFuel
      end
  | PErr true l r => PErr true l r
  | PPanic w => PPanic w
  | PFuel => PFuel
  end.
Definition repeat_till1 {A B} (fuel : nat) (f : parser A) (g : parser B) : parser B :=
  f ;;; repeat_till_loop fuel f g.

(* separated(1.., p, sep) *)
Fixpoint separated_loop {A B} (fuel : nat) (p : parser A) (sep : parser B) (i : list N) : presult (list A) :=
  match sep i with
  | PErr false _ _ => POk [] i
  | PErr true l r => PErr true l r
  | PPanic w => PPanic w
  | PFuel => PFuel
  | POk _ r =>
      if consumed i r then
        match p r with
        | PErr false _ _ => POk [] i
        | PErr true l r' => PErr true l r'
        | PPanic w => PPanic w
        | PFuel => PFuel
        | POk a r' =>
            match fuel with
            | O => PFuel
            | S n => match separated_loop n p sep r' with
                     | POk l r'' => POk (a :: l) r''
                     | x => x
                     end
            end
        end
      else PPanic 2
  end.
Definition separated1 {A B} (fuel : nat) (p : parser A) (sep : parser B) : parser (list A) :=
  a <- p ;; l <- separated_loop fuel p sep ;; ret (a :: l).

(* separated_foldl1(p, sep, op) *)
Fixpoint foldl1_loop {A B} (fuel : nat) (p : parser A) (sep : parser B) (op : A -> B -> A -> A)
         (acc : A) (i : list N) : presult A :=
  match sep i with
  | PErr false _ _ => POk acc i
  | PErr true l r => PErr true l r
  | PPanic w => PPanic w
  | PFuel => PFuel
  | POk s r =>
      if consumed i r then
        match p r with
        | PErr false _ _ => POk acc i
        | PErr true l r' => PErr true l r'
        | PPanic w => PPanic w
        | PFuel => PFuel
        | POk b r' =>
            match fuel with
            | O => PFuel
            | S n => foldl1_loop n p sep op (op acc s b) r'
            end
        end
      else PPanic 1
  end.
Definition separated_foldl1 {A B} (fuel : nat) (p : parser A) (sep : parser B) (op : A -> B -> A -> A)
  : parser A :=
  fun i => match p i with
           | POk a r => foldl1_loop fuel p sep op a r
           | x => x
           end.

(* ---- character classes (explicit finite tables) ---- *)
Definition is_sp (c : N) : bool := (c =? 32) || (c =? 9).           (* AsChar::is_space *)
Definition is_digit (c : N) : bool := (48 <=? c) && (c <=? 57).
Definition is_nl (c : N) : bool := (c =? 10) || (c =? 13).
Definition mem (c : N) (l : list N) : bool := existsb (N.eqb c) l.

(* char::is_whitespace = Unicode White_Space: 25 code points *)
Definition is_white_space (c : N) : bool :=
  ((9 <=? c) && (c <=? 13)) || (c =? 32) || (c =? 133) || (c =? 160) || (c =? 5760) ||
  ((8192 <=? c) && (c <=? 8202)) || (c =? 8232) || (c =? 8233) || (c =? 8239) ||
  (c =? 8287) || (c =? 12288).
(* char::is_ascii_whitespace: space, \t, \n, \x0C, \r *)
Definition is_ascii_whitespace (c : N) : bool :=
  (c =? 32) || (c =? 9) || (c =? 10) || (c =? 12) || (c =? 13).

Fixpoint trim_start (s : list N) : list N :=
  match s with
  | c :: r => if is_white_space c then trim_start r else s
  | [] => []
  end.
(* linear (List.rev is quadratic): drop the maximal white-space suffix *)
Fixpoint trim_end (s : list N) : list N :=
  match s with
  | [] => []
  | c :: r => match trim_end r with
              | [] => if is_white_space c then [] else [c]
              | t => c :: t
              end
  end.
Definition trim (s : list N) : list N := trim_end (trim_start s).

Definition space0 : parser (list N) := take_while0 is_sp.
Definition space1 : parser (list N) := take_while1 is_sp.
Definition digit1 : parser (list N) := take_while1 is_digit.
