"""Orchestration of one property check: Coq build + assumption audit, harness build against
/repo's working tree, correspondence run (harness -> cases_k.v -> coqc shards), verdicts,
directed search, known findings, evidence.  See DESIGN.md section 3."""
import concurrent.futures
import fcntl
import hashlib
import json
import os
import re
import shutil
import subprocess
import sys
import time

ROOT = os.path.dirname(os.path.dirname(os.path.abspath(__file__)))
COQ = os.path.join(ROOT, "coq")
BUILD = os.path.join(ROOT, ".build")
# OKV_REPO lets a development run point the whole check at another checkout of okane (a scratch
# worktree with a candidate change); registered commands never set it: they use /repo.
REPO = os.environ.get("OKV_REPO", "/repo")
ALT = REPO != "/repo"
# several development runs against different checkouts may go on at once: OKV_ALT_TAG separates them
ALT_TAG = os.environ.get("OKV_ALT_TAG", "alt")
TARGET = os.path.join(BUILD, "target-" + ALT_TAG if ALT else "target")
OKV = os.path.join(TARGET, "release", "okv")
HARNESS = os.path.join(BUILD, "harness-" + ALT_TAG) if ALT else os.path.join(ROOT, "harness")
OKANE_TARGET = os.path.join(BUILD, "okane-target-" + ALT_TAG if ALT else "okane-target")

# axioms of the standard library a theorem may depend on (each named in DESIGN.md section 6)
AXIOM_ALLOW = {
    # none needed so far: every property theorem is closed under the global context
}

FORBIDDEN = re.compile(
    r"\b(Admitted|admit|Axiom|Axioms|Parameter|Parameters|Conjecture|Admit Obligations|"
    r"bypass_check|Unset Guard Checking|Unset Positivity Checking|Unset Universe Checking|"
    r"type-in-type|impredicative-set)\b")

VERDICT_NAMES = {0: "Agree", 1: "ModelMismatch", 2: "PropertyFail", 9: "HarnessError"}


def log(*a):
    print(*a, file=sys.stderr, flush=True)


def run(cmd, timeout=None, cwd=None, env=None):
    e = dict(os.environ)
    e["CARGO_NET_OFFLINE"] = "true"
    if env:
        e.update(env)
    try:
        p = subprocess.run(cmd, cwd=cwd, env=e, timeout=timeout, stdout=subprocess.PIPE,
                           stderr=subprocess.STDOUT, text=True, errors="replace")
        return p.returncode, p.stdout
    except subprocess.TimeoutExpired as ex:
        out = ex.stdout or ""
        if isinstance(out, bytes):
            out = out.decode("utf-8", "replace")
        return 124, out + "\n[timeout]"


def strip_comments(src):
    out, depth, i, n = [], 0, 0, len(src)
    while i < n:
        if src.startswith("(*", i):
            depth += 1
            i += 2
        elif src.startswith("*)", i) and depth > 0:
            depth -= 1
            i += 2
        else:
            if depth == 0:
                out.append(src[i])
            i += 1
    return "".join(out)


def coq_sources():
    res = []
    for d in ("Base", "Model", "Proofs", "Props", "Run"):
        p = os.path.join(COQ, d)
        if os.path.isdir(p):
            for f in sorted(os.listdir(p)):
                if f.endswith(".v"):
                    res.append(os.path.join(d, f))
    if os.path.exists(os.path.join(COQ, "Pins.v")):
        res.append("Pins.v")
    return res


def ensure_makefile():
    srcs = coq_sources()
    proj = "-Q . Okv\n" + "\n".join(srcs) + "\n"
    pp = os.path.join(COQ, "_CoqProject")
    old = open(pp).read() if os.path.exists(pp) else None
    if old != proj or not os.path.exists(os.path.join(COQ, "Makefile")):
        with open(pp, "w") as f:
            f.write(proj)
        rc, out = run(["coq_makefile", "-f", "_CoqProject", "-o", "Makefile"], cwd=COQ, timeout=120)
        if rc != 0:
            raise RuntimeError("coq_makefile failed:\n" + out)


def make_targets(targets, timeout=1500):
    ensure_makefile()
    return run(["make", "-j16"] + targets, cwd=COQ, timeout=timeout)


def dep_cone(vfile):
    """transitive Okv dependencies of a .v file (relative paths under coq/), itself included"""
    seen, todo = set(), [vfile]
    while todo:
        f = todo.pop()
        if f in seen or not os.path.exists(os.path.join(COQ, f)):
            continue
        seen.add(f)
        src = strip_comments(open(os.path.join(COQ, f)).read())
        for m in re.finditer(r"From\s+Okv\s+Require\s+(?:Import\s+|Export\s+)?(.*?)\.(?=\s|$)", src, re.S):
            for mod in m.group(1).split():
                todo.append(mod.replace(".", "/") + ".v")
        for m in re.finditer(r"(?<!From Okv )Require\s+(?:Import\s+|Export\s+)?((?:Okv\.[\w.]+\s*)+)\.(?=\s|$)", src, re.S):
            for mod in m.group(1).split():
                todo.append(mod[len("Okv."):].replace(".", "/") + ".v")
    return sorted(seen)


def audit_sources(files):
    """forbidden vernacular anywhere in the given sources (comments stripped)"""
    bad = []
    for f in files:
        src = strip_comments(open(os.path.join(COQ, f)).read())
        for m in FORBIDDEN.finditer(src):
            line = src.count("\n", 0, m.start()) + 1
            bad.append("%s:%d: %s" % (f, line, m.group(0)))
    return bad


def parse_assumptions(out):
    """-> list of (closed: bool, axioms: [names]) per Print Assumptions in order"""
    blocks = []
    cur = None
    for line in out.splitlines():
        if line.startswith("Closed under the global context"):
            blocks.append((True, []))
            cur = None
        elif line.startswith("Axioms:"):
            cur = []
            blocks.append((False, cur))
        elif cur is not None:
            m = re.match(r"^([A-Za-z_][\w.']*)\s*(:|$)", line)
            if m:
                cur.append(m.group(1))
            elif line and not line[0].isspace():
                cur = None
    return blocks


def theorems_of(props_file):
    src = strip_comments(open(os.path.join(COQ, props_file)).read())
    thms = re.findall(r"\b(?:Theorem|Lemma|Corollary)\s+([\w']+)", src)
    prints = re.findall(r"Print\s+Assumptions\s+([\w']+)\s*\.", src)
    return thms, prints


def check_proofs(prop, cfg):
    """Build the property's theorem file and classifier; audit assumptions.
    -> dict(ok, obligations, discharged, theorems, axioms, log, classifier_ok)"""
    props_file = cfg["props"]
    classify_file = cfg["classify"]
    res = {"ok": False, "obligations": 0, "discharged": 0, "theorems": [], "axioms": {},
           "log": "", "classifier_ok": False, "broken": None}
    rc, out = make_targets([classify_file + "o"])
    res["log"] += out[-4000:]
    res["classifier_ok"] = rc == 0
    if rc != 0:
        res["broken"] = "coq build of %s failed" % classify_file
    thms, prints = theorems_of(props_file)
    res["theorems"] = thms
    res["obligations"] = len(thms)
    rc2, out2 = make_targets([props_file + "o"])
    res["log"] += out2[-4000:]
    if rc2 != 0:
        res["broken"] = "coq build of %s (or a lemma file it depends on) failed" % props_file
        return res
    # recompile the theorem file alone to read the Print Assumptions output afresh
    tmp = os.path.join(BUILD, "tmp")
    os.makedirs(tmp, exist_ok=True)
    rc3, out3 = run(["coqc", "-Q", ".", "Okv", "-o", os.path.join(tmp, prop + ".vo"), props_file],
                    cwd=COQ, timeout=600)
    if rc3 != 0:
        res["broken"] = "coqc %s failed" % props_file
        res["log"] += out3[-4000:]
        return res
    blocks = parse_assumptions(out3)
    problems = []
    if set(prints) != set(thms) or len(blocks) != len(prints):
        problems.append("every theorem needs exactly one Print Assumptions (theorems %s, printed %s, blocks %d)"
                        % (thms, prints, len(blocks)))
    discharged = 0
    for name, (closed, axs) in zip(prints, blocks):
        res["axioms"][name] = axs
        notallowed = [a for a in axs if a not in AXIOM_ALLOW]
        if notallowed:
            problems.append("theorem %s depends on axioms outside the allow-list: %s" % (name, notallowed))
        else:
            discharged += 1
    # statements are pinned (lib/pins.json, rewritten only by lib/pin.py)
    try:
        import pin
        pins = json.load(open(os.path.join(ROOT, "lib", "pins.json"))).get(prop, None)
        now = pin.statements(os.path.join(COQ, props_file))
        if pins is not None and pins != now:
            changed = sorted(set(pins) ^ set(now)) + sorted(k for k in pins if k in now and pins[k] != now[k])
            problems.append("theorem statements differ from lib/pins.json: %s" % changed)
    except FileNotFoundError:
        pass
    cone = dep_cone(props_file) + [f for f in dep_cone(classify_file)]
    bad = audit_sources(sorted(set(cone)))
    if bad:
        problems.append("forbidden vernacular: " + "; ".join(bad))
    if problems:
        res["broken"] = "; ".join(problems)
        res["discharged"] = 0
        return res
    res["discharged"] = discharged
    res["ok"] = discharged == len(thms) and len(thms) > 0
    if not res["ok"] and not res["broken"]:
        res["broken"] = "no theorems found in %s" % props_file
    return res


def run_coqchk(props_file):
    """independent re-check of the compiled cone; -> (ok, summary)"""
    mod = "Okv." + props_file[:-2].replace("/", ".")
    rc, out = run(["coqchk", "-silent", "-o", "-Q", ".", "Okv", mod], cwd=COQ, timeout=2400)
    m = re.search(r"\* Axioms:(.*?)\n\s*\n\* Constants", out, re.S)
    axioms = m.group(1).strip() if m else "?"
    bad = [x for x in ("type-in-type: <none>", "unsafe (co)fixpoints: <none>", "positivity is assumed: <none>") if x not in out]
    names = [] if axioms == "<none>" else re.findall(r"^\s*([\w.']+)", axioms, re.M)
    ok = rc == 0 and not bad and all(n in AXIOM_ALLOW for n in names)
    return ok, "coqchk %s: axioms %s%s" % (mod, axioms.replace("\n", " "), "" if not bad else " UNSAFE " + ",".join(bad))


def build_harness():
    """-> (status, log): status in ok | repo_broken | harness_broken"""
    os.makedirs(BUILD, exist_ok=True)
    if ALT:
        shutil.rmtree(HARNESS, ignore_errors=True)
        shutil.copytree(os.path.join(ROOT, "harness"), HARNESS, ignore=shutil.ignore_patterns("target", "Cargo.lock"))
        ct = open(os.path.join(HARNESS, "Cargo.toml")).read().replace('path = "/repo/', 'path = "%s/' % REPO)
        open(os.path.join(HARNESS, "Cargo.toml"), "w").write(ct)
    shutil.copyfile(os.path.join(REPO, "Cargo.lock"), os.path.join(HARNESS, "Cargo.lock"))
    env = {"CARGO_TARGET_DIR": TARGET}
    rc, out = run(["cargo", "build", "--release", "--offline"], cwd=HARNESS,
                  env=env, timeout=1500)
    if rc == 0:
        return "ok", out[-2000:]
    # does /repo itself build?
    rc2, out2 = run(["cargo", "build", "--release", "--offline", "-p", "okane-core", "-p", "okane",
                     "-p", "okane-golden"], cwd=HARNESS, env=env, timeout=1500)
    if rc2 != 0:
        return "repo_broken", out2[-6000:]
    return "harness_broken", out[-6000:]


def build_okane_bin():
    env = {"CARGO_TARGET_DIR": OKANE_TARGET}
    rc, out = run(["cargo", "build", "--release", "--offline", "-p", "okane", "--bin", "okane"],
                  cwd=REPO, env=env, timeout=1500)
    return rc == 0, out[-4000:], os.path.join(OKANE_TARGET, "release", "okane")


def parse_verdicts(out):
    m = re.search(r"=\s*\[(.*?)\]\s*(?:%N)?\s*:\s*list", out, re.S)
    if not m:
        if re.search(r"=\s*\[\s*\]", out):
            return []
        return None
    body = m.group(1)
    return [int(x) for x in re.findall(r"\d+", body)]


def run_shard(path):
    t0 = time.time()
    # vm_compute over tens of thousands of cases recurses deeply (map / flat_map): lift the stack limit
    rc, out = run(["sh", "-c", "ulimit -s unlimited 2>/dev/null || ulimit -s 1000000 2>/dev/null; exec coqc -noglob -Q \"$1\" Okv -o \"$2\"o \"$2\"", "sh", COQ, path],
                  timeout=1800, cwd=os.path.dirname(path))
    if rc != 0:
        return path, None, out[-3000:], time.time() - t0
    v = parse_verdicts(out)
    return path, v, out[-3000:] if v is None else "", time.time() - t0


def shard_workers(cfg):
    """coqc processes to run at once: 16, fewer when 16 evaluations of this property's shards would not
    fit in the memory available now (`shard_mem_mb` in lib/props.d: the measured peak of one shard of the
    thorough tier; default 1500)"""
    try:
        avail = 0
        for line in open("/proc/meminfo"):
            if line.startswith("MemAvailable:"):
                avail = int(line.split()[1]) // 1024
        return max(2, min(16, int(avail * 0.7 // cfg.get("shard_mem_mb", 1500))))
    except Exception:
        return 16


def correspondence(prop, cfg, tier, seed, tag="main", extra=None):
    """run the harness and classify.  -> dict(results=[(verdict, replay)], meta, error)"""
    out_dir = os.path.join(BUILD, "run", "%s-%s-%d" % (prop, tag, os.getpid()))
    shutil.rmtree(out_dir, ignore_errors=True)
    os.makedirs(out_dir)
    cmd = [OKV, prop.lower(), "--seed", str(seed), "--tier", tier, "--out", out_dir,
           "--corpus", os.path.join(ROOT, "corpus", prop),
           "--shards", str(cfg.get("shards_" + tier, 16))] + (extra or [])
    rc, out = run(cmd, timeout=cfg.get("harness_timeout", 1500), cwd=BUILD,
                  env={"OKV_OKANE_BIN": os.path.join(OKANE_TARGET, "release", "okane"),
                       "OKV_SCRATCH": os.path.join(BUILD, "scratch"), "OKV_REPO": REPO})
    if rc != 0:
        return {"error": "harness exited %d:\n%s" % (rc, out[-3000:]), "results": [], "meta": {}, "dir": out_dir}
    meta = json.load(open(os.path.join(out_dir, "meta.json")))
    shards = sorted(f for f in os.listdir(out_dir) if re.match(r"cases_\d+\.v$", f))
    # the header of a case file may import modules outside the classifier's own cone: build them
    if shards:
        head = "".join(open(os.path.join(out_dir, shards[0])).readlines()[:12])
        mods = set()
        for m in re.finditer(r"From\s+Okv\s+Require\s+(?:Import\s+|Export\s+)?(.*?)\.(?=\s|$)", head, re.S):
            mods.update(x.replace(".", "/") + ".vo" for x in m.group(1).split())
        mods = sorted(x for x in mods if os.path.exists(os.path.join(COQ, x[:-1])))
        if mods:
            rc2, out2 = make_targets(mods)
            if rc2 != 0:
                return {"error": "coq build of modules imported by the case files failed:\n" + out2[-2000:], "results": [], "meta": meta, "dir": out_dir}
    results = []
    err = None
    paths = [os.path.join(out_dir, s) for s in shards]
    with concurrent.futures.ThreadPoolExecutor(max_workers=shard_workers(cfg)) as ex:
        outcomes = list(ex.map(run_shard, paths))
    # a coqc that died without a message from Coq (killed: out of memory on a busy machine) says nothing
    # about the cases: such shards are evaluated again, one at a time; a Coq error is never retried
    for i, (path, v, elog, secs) in enumerate(outcomes):
        if v is None and "Error" not in elog and "[timeout]" not in elog:
            log("[%s] shard %s: coqc ended without a verdict or an error (killed?); evaluating it again alone"
                % (prop, os.path.basename(path)))
            outcomes[i] = run_shard(path)
    for path, v, elog, secs in outcomes:
            replays = [json.loads(l) for l in open(path[:-2] + ".jsonl")]
            if v is None:
                err = "coqc failed on %s:\n%s" % (path, elog)
                continue
            if len(v) != len(replays):
                err = "verdict count %d != case count %d in %s" % (len(v), len(replays), path)
                continue
            results.extend(zip(v, replays))
    return {"error": err, "results": results, "meta": meta, "dir": out_dir}


def load_known():
    p = os.path.join(ROOT, "known_findings.json")
    if not os.path.exists(p):
        return []
    return json.load(open(p))


def write_replay(prop, name, payload):
    d = os.path.join(BUILD, "replays")
    os.makedirs(d, exist_ok=True)
    h = hashlib.sha1(json.dumps(payload, sort_keys=True).encode()).hexdigest()[:10]
    p = os.path.join(d, "%s-%s-%s.json" % (prop, name, h))
    with open(p, "w") as f:
        json.dump(payload, f, indent=1, ensure_ascii=False)
    return p


def write_evidence(prop, ev):
    d = os.path.join(ROOT, "evidence")
    os.makedirs(d, exist_ok=True)
    with open(os.path.join(d, prop + ".json"), "w") as f:
        json.dump(ev, f, indent=1, ensure_ascii=False)


def check(prop, cfg, tier, seed, replay=None):
    t0 = time.time()
    os.makedirs(BUILD, exist_ok=True)
    lock = open(os.path.join(BUILD, "lock"), "w")
    fcntl.flock(lock, fcntl.LOCK_EX)
    violations = []   # (line_tail, replay_path)
    known_lines = []
    known = [k for k in load_known() if k.get("property") == prop and k.get("status") == "known"]
    known_codes = {int(k["code"]): k for k in known if "code" in k}

    # 1. proofs
    pr = check_proofs(prop, cfg)
    log("[%s] proofs: %d/%d discharged%s" % (prop, pr["discharged"], pr["obligations"],
                                            "" if pr["ok"] else " -- BROKEN: %s" % pr["broken"]))
    coqchk_line = None
    if tier == "thorough" and pr["ok"] and not replay:
        ok, coqchk_line = run_coqchk(cfg["props"])
        log("[%s] %s" % (prop, coqchk_line))
        if not ok:
            pr["ok"] = False
            pr["broken"] = coqchk_line
            pr["discharged"] = 0
    # 2. harness against the current tree
    status, blog = build_harness()
    if status == "repo_broken":
        log("[%s] /repo does not build; nothing to decide\n%s" % (prop, blog))
        return 2
    if cfg.get("needs_bin"):
        ok, blog2, _ = build_okane_bin()
        if not ok:
            log("[%s] okane binary does not build\n%s" % (prop, blog2))
            return 2
    corr = {"results": [], "meta": {}, "error": None}
    corr_broken = None
    if status == "harness_broken":
        corr_broken = "the harness no longer compiles against /repo (public signature changed?)"
        corr["error"] = blog
    elif not pr["classifier_ok"]:
        corr_broken = pr["broken"]
    else:
        extra = ["--replay", os.path.abspath(replay)] if replay else None
        corr = correspondence(prop, cfg, tier, seed, extra=extra)
        if corr["error"]:
            corr_broken = "correspondence run failed: " + corr["error"][:500]

    def classify_results(results):
        fails, mism, agree, kn = [], [], 0, {}
        for v, rep in results:
            if v == 0:
                agree += 1
            elif v == 1:
                mism.append(rep)
            elif v >= 100 and (v - 100) in known_codes:
                kn.setdefault(v - 100, []).append(rep)
            else:
                fails.append((v, rep))
        return fails, mism, agree, kn

    fails, mism, agree, kn = classify_results(corr["results"])
    searched = 0
    if not fails and (mism or corr_broken or not pr["ok"]) and status == "ok" and pr["classifier_ok"] and not replay and not os.environ.get("OKV_NO_SEARCH"):
        # 3.4 directed search: spend the budget looking for an input on which the property fails
        budget = cfg.get("search_s", 240 if tier == "quick" else 900)
        s = seed
        while not fails and time.time() - t0 < budget:
            s += 1000003
            c2 = correspondence(prop, cfg, "thorough" if searched else tier, s, tag="search")
            searched += len(c2["results"])
            f2, m2, a2, k2 = classify_results(c2["results"])
            fails.extend(f2)
            shutil.rmtree(c2.get("dir", ""), ignore_errors=True)
            if c2["error"]:
                break
    if fails:
        for v, rep in fails[:5]:
            rep = dict(rep)
            rep["verdict"] = VERDICT_NAMES.get(v, str(v))
            rep["replay_cmd"] = "./check %s --replay <this file>" % prop
            violations.append(("", write_replay(prop, "fail", rep)))
    elif mism or corr_broken or not pr["ok"]:
        payload = {"property": prop, "no_failing_input_found": True,
                   "broken_theorem_or_correspondence": pr["broken"] if not pr["ok"] else
                   (corr_broken or "correspondence Run/Classify_%s: implementation and model differ on %d case(s)" % (prop, len(mism))),
                   "disagreeing_cases": mism[:5], "searched_cases": searched,
                   "coq_log_tail": pr["log"][-1500:] if not pr["ok"] else "",
                   "harness_log_tail": (corr["error"] or "")[-1500:]}
        violations.append((" no-failing-input-found", write_replay(prop, "broken", payload)))
    for code, reps in sorted(kn.items()):
        k = known_codes[code]
        known_lines.append("KNOWN-FINDING: property=%s %s (%s; %d case(s) this run)" % (prop, k["what"], k["id"], len(reps)))
    # known findings are printed whether or not a case of the class was generated this run
    for k in known:
        if "code" not in k or int(k["code"]) not in kn:
            known_lines.append("KNOWN-FINDING: property=%s %s (%s)" % (prop, k["what"], k["id"]))

    meta = corr["meta"] or {}
    tb = ["Coq 8.16.1 kernel (coqc; vm_compute used by the classifier, no native_compute)",
          "hand-written Gallina model tied to /repo by the correspondence run (harness/, Run/Classify_%s.v, lib/okv.py)" % prop]
    for name, axs in pr["axioms"].items():
        tb.append("%s: %s" % (name, "closed under the global context" if not axs else "axioms " + ", ".join(axs)))
    if coqchk_line:
        tb.append(coqchk_line)
    tb.extend(cfg.get("trusted", []))
    ev = {
        "property_id": prop, "tier": tier, "seed": seed, "level": "proof",
        "coverage": {
            "obligations": max(pr["obligations"], 1), "discharged": pr["discharged"],
            "theorems": pr["theorems"],
            "checker_cmd": "make -C coq %so && coqc -Q coq Okv .build/run/%s-*/cases_*.v" % (cfg["props"], prop),
            "trusted_base": tb,
            "traces_validated_against_impl": agree,
            "evaluations": meta.get("evaluations", len(corr["results"])),
            "distinct_nontrivial": meta.get("distinct_nontrivial", 0),
            "rule": meta.get("rule", ""),
            "samples": meta.get("samples", [])[:6],
            "input_distribution": meta.get("distribution", {}),
            "verdicts": {"agree": agree, "model_mismatch": len(mism), "property_fail": len(fails),
                         "known": {str(k): len(v) for k, v in kn.items()}},
            "search_cases": searched,
            "exhaustive": False,
            "explanation": cfg.get("explanation", ""),
        },
        "assumptions": meta.get("assumptions", []) + cfg.get("assumptions", []),
        "wall_s": round(time.time() - t0, 2),
        "violations": len(violations),
    }
    if not replay and not ALT:
        write_evidence(prop, ev)
    if corr.get("dir"):
        shutil.rmtree(corr["dir"], ignore_errors=True)
    for l in known_lines:
        print(l)
    for tail, path in violations:
        print("VIOLATION property=%s replay=%s%s" % (prop, path, tail))
    log("[%s] %s tier: %d cases, %d agree, %d mismatch, %d fail, %.1fs" %
        (prop, tier, len(corr["results"]), agree, len(mism), len(fails), time.time() - t0))
    sys.stdout.flush()
    return 1 if violations else 0
