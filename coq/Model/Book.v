(* Model of report::book_keeping (add_transaction, process_posting, ComputedPosting,
   Exchange, check_balance) and report::balance::Balance, over canonical account and
   commodity ids.  Follows core/src/report/book_keeping.rs statement by statement, as
   repaired by the fix: commits listed in known_findings.json. *)
From Coq Require Import List NArith ZArith Bool QArith Qcanon.
From Okv Require Import Base.Maps Base.Dec Model.Amount.
Import ListNotations.
Open Scope Qc_scope.

(* ---- syntax (resolved names) ---- *)
Inductive exchange := XTotal (e : vexpr) | XRate (e : vexpr).
Record posting := { p_account : aid; p_amount : option vexpr; p_cost : option exchange;
                    p_lot : option exchange; p_balance : option vexpr }.
Record txn := { t_date : Z; t_posts : list posting }.
Inductive entry := ETxn (t : txn) | EFormat (c : cid) (dp : nat) | ENop.

(* ---- results ---- *)
Record oposting := { o_account : aid; o_amount : amount; o_converted : option (cid * Qc) }.
Record otxn := { o_date : Z; o_posts : list oposting }.

Inductive source := SLedger | SPriceDB.
(* PriceEvent: price_x = (xc, xv), price_y = (yc, yv) *)
Record price_event := { e_source : source; e_date : Z; e_xc : cid; e_xv : Qc; e_yc : cid; e_yv : Qc }.

Inductive bk_err :=
| EvalFailure (e : eval_err)
| BalanceFailure                       (* MultiCommodityWithPartialSet *)
| UndeduciblePostingAmount (i j : nat)
| UnbalancedPostings (residual : amount)
| BalanceAssertionFailure (posting_index : nat) (computed diff : amount)
| ZeroAmountWithExchange
| ZeroExchangeRate
| ExchangeWithAmountCommodity.

Inductive outcome (A : Type) := Ok (a : A) | Err (e : bk_err) | Panic.
Arguments Ok {A} a. Arguments Err {A} e. Arguments Panic {A}.

Definition bind {A B} (x : outcome A) (f : A -> outcome B) : outcome B :=
  match x with Ok a => f a | Err e => Err e | Panic => Panic end.
Notation "'do' x <- a ; b" := (bind a (fun x => b)) (at level 200, x pattern, a at level 100, b at level 200).
Definition lift_eval {A} (x : A + eval_err) : outcome A :=
  match x with inl a => Ok a | inr e => Err (EvalFailure e) end.

(* ---- Balance: HashMap<Account, Amount> ---- *)
Definition balance := amap amount.
Definition bal_get (b : balance) (a : aid) : amount := match get a b with Some x => x | None => [] end.

(* add_posting_amount / add_amount: entry().or_default() += ..; remove_zero_entries; returns the account's amount *)
Definition bal_add_pa (b : balance) (a : aid) (p : posting_amount) : balance * amount :=
  let cur := a_remove_zeros (a_add_pa (bal_get b a) p) in (set a cur b, cur).
Definition bal_add_amount (b : balance) (a : aid) (x : amount) : balance :=
  set a (a_remove_zeros (a_add (bal_get b a) x)) b.

(* Amount::set_partial *)
Definition a_set_partial (cur : amount) (c : cid) (v : Qc) : amount * Qc :=
  let prev := a_get cur c in
  (if qc_zero v then remove c cur else set c v cur, prev).

(* Balance::set_partial: returns the previous value *)
Definition bal_set_partial (b : balance) (a : aid) (p : posting_amount) : outcome (balance * posting_amount) :=
  match p with
  | PZero =>
      let prev := bal_get b a in
      match amount_to_pa prev with
      | inl pp => Ok (set a [] b, pp)
      | inr _ => Err BalanceFailure
      end
  | PSingle c v =>
      let '(cur, prev) := a_set_partial (bal_get b a) c v in
      Ok (set a cur b, PSingle c prev)
  end.

(* Amount::assert_balance: expected - actual, or zero when consistent *)
Definition assert_balance (cur : amount) (expected : posting_amount) : amount :=
  match expected with
  | PZero => if a_is_zero cur then [] else a_neg cur
  | PSingle c v => let d := v - a_get cur c in if qc_zero d then [] else a_single c d
  end.

(* ---- Exchange ---- *)
Inductive xchg := XT (c : cid) (v : Qc) | XR (c : cid) (v : Qc).

Definition xchg_from_syntax (amt : posting_amount) (x : exchange) : outcome xchg :=
  do r <- (match x with
           | XRate e => do s <- lift_eval (match eval_v e with inl v => ev_to_single v | inr er => inr er end);
                        Ok (XR (fst s) (snd s))
           | XTotal e => do s <- lift_eval (match eval_v e with inl v => ev_to_single v | inr er => inr er end);
                         Ok (XT (fst s) (snd s))
           end);
  let '(rc, rv) := match r with XT c v => (c, v) | XR c v => (c, v) end in
  if qc_zero rv then Err ZeroExchangeRate else
  match amt with
  | PZero => Err ZeroAmountWithExchange
  | PSingle c _ => if (c =? rc)%N then Err ExchangeWithAmountCommodity else Ok r
  end.

(* Exchange::exchange on a SingleAmount (c, v) *)
Definition xchg_apply (x : xchg) (v : Qc) : cid * Qc :=
  match x with
  | XR rc rv => (rc, rv * v)
  | XT tc tv => (tc, with_sign_of tv v)
  end.

Record computed := { c_amount : posting_amount; c_cost : option xchg; c_lot : option xchg }.

Definition option_or {A} (a b : option A) : option A := match a with Some _ => a | None => b end.

Definition pa_to_single (p : posting_amount) : outcome (cid * Qc) :=
  match p with PSingle c v => Ok (c, v) | PZero => Err (EvalFailure SingleAmountRequired) end.

(* calculate_balance_amount: lot price, else cost, else the amount itself *)
Definition balance_amount (c : computed) : outcome posting_amount :=
  match option_or (c_lot c) (c_cost c) with
  | Some x => do s <- pa_to_single (c_amount c);
              let r := xchg_apply x (snd s) in Ok (PSingle (fst r) (snd r))
  | None => Ok (c_amount c)
  end.
(* calculate_converted_amount: cost, else lot *)
Definition converted_amount (c : computed) : outcome (option (cid * Qc)) :=
  match option_or (c_cost c) (c_lot c) with
  | Some x => do s <- pa_to_single (c_amount c); Ok (Some (xchg_apply x (snd s)))
  | None => Ok None
  end.

Definition posting_price_event (date : Z) (c : computed) : outcome (option price_event) :=
  match option_or (c_cost c) (c_lot c) with
  | None => Ok None
  | Some x =>
      match c_amount c with
      | PZero => Panic                          (* unreachable!() in the source *)
      | PSingle ac av =>
          match x with
          | XR rc rv => Ok (Some {| e_source := SLedger; e_date := date; e_xc := ac; e_xv := 1; e_yc := rc; e_yv := rv |})
          | XT tc tv => Ok (Some {| e_source := SLedger; e_date := date; e_xc := ac; e_xv := Qcabs.Qcabs av; e_yc := tc; e_yv := tv |})
          end
      end
  end.

Record evaluated_posting := { ep_amount : posting_amount; ep_converted : option (cid * Qc); ep_delta : posting_amount }.

Definition eval_pa (e : vexpr) : outcome posting_amount :=
  lift_eval (match eval_v e with inl v => ev_to_pa v | inr er => inr er end).

(* process_posting: index i is only used to point at the posting in an assertion failure *)
Definition process_posting (b : balance) (date : Z) (i : nat) (p : posting)
  : outcome (balance * option evaluated_posting * option price_event) :=
  match p_amount p, p_balance p with
  | None, None => Ok (b, None, None)
  | None, Some bc =>
      do current <- eval_pa bc;
      do r <- bal_set_partial b (p_account p) current;
      let '(b', prev) := r in
      do amt <- lift_eval (pa_check_sub current prev);
      Ok (b', Some {| ep_amount := amt; ep_converted := None; ep_delta := amt |}, None)
  | Some sa, bc =>
      do amt <- eval_pa sa;
      do cost <- (match p_cost p with Some x => do r <- xchg_from_syntax amt x; Ok (Some r) | None => Ok None end);
      do lot <- (match p_lot p with Some x => do r <- xchg_from_syntax amt x; Ok (Some r) | None => Ok None end);
      let c := {| c_amount := amt; c_cost := cost; c_lot := lot |} in
      let '(b', current) := bal_add_pa b (p_account p) amt in
      do _ <- (match bc with
               | None => Ok tt
               | Some bexpr =>
                   do expected <- eval_pa bexpr;
                   let diff := assert_balance current expected in
                   if a_is_absolute_zero diff then Ok tt
                   else Err (BalanceAssertionFailure i current diff)
               end);
      do delta <- balance_amount c;
      do conv <- converted_amount c;
      do ev <- posting_price_event date c;
      Ok (b', Some {| ep_amount := amt; ep_converted := conv; ep_delta := delta |}, ev)
  end.

(* check_balance *)
Definition sign_positive (v : Qc) : bool := negb (qc_neg v).

Definition fill_converted (c1 : cid) (v1 : Qc) (c2 : cid) (v2 : Qc) (p : oposting) : oposting :=
  match amount_to_single (o_amount p) with
  | inl (c, v) =>
      if (c1 =? c)%N then {| o_account := o_account p; o_amount := o_amount p;
                             o_converted := Some (c2, Qcabs.Qcabs (v2 / v1) * v) |}
      else if (c2 =? c)%N then {| o_account := o_account p; o_amount := o_amount p;
                                  o_converted := Some (c1, Qcabs.Qcabs (v1 / v2) * v) |}
      else p
  | inr _ => p
  end.

Definition check_balance (f : formats) (date : Z) (posts : list oposting) (residual : amount)
  : outcome (list oposting * option price_event) :=
  let r := a_round f residual in
  if a_is_zero r then Ok (posts, None) else
  let r := a_remove_zeros r in
  match r with
  | [(c1, v1); (c2, v2)] =>
      if negb (Bool.eqb (sign_positive v1) (sign_positive v2)) then
        if qc_zero v1 || qc_zero v2 then Panic    (* Decimal `/` by zero *)
        else Ok (map (fill_converted c1 v1 c2 v2) posts,
                 Some {| e_source := SLedger; e_date := date; e_xc := c1; e_xv := Qcabs.Qcabs v1;
                         e_yc := c2; e_yv := Qcabs.Qcabs v2 |})
      else Err (UnbalancedPostings r)
  | _ => Err (UnbalancedPostings r)
  end.

Record bstate := { s_bal : balance; s_fmt : formats; s_events : list price_event; s_txns : list otxn }.
Definition bstate0 : bstate := {| s_bal := []; s_fmt := []; s_events := []; s_txns := [] |}.

(* the posting loop of add_transaction *)
Record loop_st := { l_bal : balance; l_posts : list oposting (* reversed *); l_unfilled : option nat;
                    l_residual : amount; l_events : list price_event (* reversed *) }.

Definition loop_step (date : Z) (acc : outcome loop_st) (ip : nat * posting) : outcome loop_st :=
  do st <- acc;
  let '(i, p) := ip in
  do r <- process_posting (l_bal st) date i p;
  let '(b', ep, ev) := r in
  let evs := match ev with Some e => e :: l_events st | None => l_events st end in
  match ep with
  | Some e =>
      Ok {| l_bal := b';
            l_posts := {| o_account := p_account p; o_amount := pa_to_amount (ep_amount e);
                          o_converted := ep_converted e |} :: l_posts st;
            l_unfilled := l_unfilled st;
            l_residual := a_add_pa (l_residual st) (ep_delta e);
            l_events := evs |}
  | None =>
      match l_unfilled st with
      | Some first => Err (UndeduciblePostingAmount first i)
      | None =>
          Ok {| l_bal := b';
                l_posts := {| o_account := p_account p; o_amount := a_zero; o_converted := None |} :: l_posts st;
                l_unfilled := Some i; l_residual := l_residual st; l_events := evs |}
      end
  end.

Fixpoint enumerate {A} (i : nat) (l : list A) : list (nat * A) :=
  match l with [] => [] | x :: r => (i, x) :: enumerate (S i) r end.

Fixpoint set_nth {A} (n : nat) (f : A -> A) (l : list A) : list A :=
  match l, n with
  | [], _ => []
  | x :: r, O => f x :: r
  | x :: r, S k => x :: set_nth k f r
  end.

Definition add_transaction (s : bstate) (t : txn) : outcome bstate :=
  do st <- fold_left (loop_step (t_date t))
                     (enumerate 0 (t_posts t))
                     (Ok {| l_bal := s_bal s; l_posts := []; l_unfilled := None; l_residual := a_zero; l_events := [] |});
  let posts := rev (l_posts st) in
  let evs := rev (l_events st) in
  match l_unfilled st with
  | Some u =>
      let deduced := a_neg (l_residual st) in
      let posts' := set_nth u (fun p => {| o_account := o_account p; o_amount := deduced; o_converted := o_converted p |}) posts in
      let acct := match nth_error posts u with Some p => o_account p | None => 0%N end in
      Ok {| s_bal := bal_add_amount (l_bal st) acct deduced; s_fmt := s_fmt s;
            s_events := s_events s ++ evs;
            s_txns := s_txns s ++ [{| o_date := t_date t; o_posts := posts' |}] |}
  | None =>
      do r <- check_balance (s_fmt s) (t_date t) posts (l_residual st);
      let '(posts', ev) := r in
      Ok {| s_bal := l_bal st; s_fmt := s_fmt s;
            s_events := s_events s ++ evs ++ (match ev with Some e => [e] | None => [] end);
            s_txns := s_txns s ++ [{| o_date := t_date t; o_posts := posts' |}] |}
  end.

Definition process_entry (s : bstate) (e : entry) : outcome bstate :=
  match e with
  | ETxn t => add_transaction s t
  | EFormat c dp => Ok {| s_bal := s_bal s; s_fmt := set c dp (s_fmt s); s_events := s_events s; s_txns := s_txns s |}
  | ENop => Ok s
  end.

(* process: the first failing entry aborts the run; its index is reported *)
Fixpoint process_from (i : nat) (s : bstate) (es : list entry) : outcome bstate * nat :=
  match es with
  | [] => (Ok s, i)
  | e :: r => match process_entry s e with
              | Ok s' => process_from (S i) s' r
              | Err x => (Err x, i)
              | Panic => (Panic, i)
              end
  end.
Definition process (es : list entry) : outcome bstate * nat := process_from 0 bstate0 es.

(* the posting loop alone: which posting is unfilled and what the other postings sum to *)
Definition txn_loop (s : bstate) (t : txn) : outcome loop_st :=
  fold_left (loop_step (t_date t)) (enumerate 0 (t_posts t))
            (Ok {| l_bal := s_bal s; l_posts := []; l_unfilled := None; l_residual := a_zero; l_events := [] |}).
