(* C15 round trip, posting line: indent, clear mark, account, amount column, ` @ ` cost,
   ` = ` balance assertion read back as printed (numbers up to padding). *)
From Coq Require Import List NArith ZArith Bool Lia ZifyBool ZifyN ZifyNat.
From Okv Require Import Model.Lit Model.SingleEntry2 Model.TxnText Model.TxnTextSpec.
From Okv Require Import Proofs.TxnTextLines Proofs.TxnTextAmount.
Import ListNotations.
Open Scope N_scope.

Local Arguments N.add : simpl never.
Local Arguments N.mul : simpl never.
Local Arguments N.sub : simpl never.
Local Arguments N.leb : simpl never.
Local Arguments N.ltb : simpl never.
Local Arguments N.eqb : simpl never.

Ltac step := cbv beta iota zeta delta [orb andb negb fst snd].

(* ---------------- account ---------------- *)
Definition wsp (x : N) : bool := is_word_char x || (x =? 32).

(* the rest of an account after a word: empty, or space-separated words *)
Definition acct_tail (s : str) : Prop :=
  forallb wsp s = true /\ no_double_space s = true /\ (s <> [] -> last s 0 <> 32).

Lemma nds_tl : forall c l, no_double_space (c :: l) = true -> no_double_space l = true.
Proof.
  intros c [|b l] H; [reflexivity|]. cbn [no_double_space] in H.
  apply andb_true_iff in H. destruct H as [_ H]. exact H.
Qed.

Lemma nds_suffix : forall a b, no_double_space (a ++ b) = true -> no_double_space b = true.
Proof.
  induction a as [|c a IH]; intros b H; [exact H|].
  apply IH. cbn [app] in H. apply nds_tl in H. exact H.
Qed.

Lemma last_suffix : forall (a b : str), b <> [] -> last (a ++ b) 0 = last b 0.
Proof.
  induction a as [|c a IH]; intros b H; [reflexivity|].
  cbn [app last]. destruct (a ++ b) eqn:E.
  - destruct a; [cbn [app] in E; congruence|discriminate].
  - rewrite <- E. apply IH. exact H.
Qed.

Lemma acct_tail_suffix : forall a b, acct_tail (a ++ b) -> acct_tail b.
Proof.
  intros a b (H1 & H2 & H3). split; [|split].
  - rewrite forallb_app in H1. apply andb_true_iff in H1. tauto.
  - apply nds_suffix in H2. exact H2.
  - intros Hb. rewrite <- (last_suffix a b Hb). apply H3.
    destruct a; [exact Hb|discriminate].
Qed.

Definition two_sp (R : str) : Prop := exists R', R = 32 :: 32 :: R'.

Lemma read_words_ok : forall n s R fuel,
  (length s <= n)%nat -> (length s <= fuel)%nat -> acct_tail s -> stops is_word_char s -> two_sp R ->
  read_words fuel (s ++ R) = (s, R).
Proof.
  induction n as [|n IH]; intros s R fuel Hn Hf Ht Hs (R' & ->).
  - destruct s; [|cbn [length] in Hn; lia]. cbn [app]. destruct fuel; reflexivity.
  - destruct s as [|c s1].
    + cbn [app]. destruct fuel; reflexivity.
    + destruct Ht as (T1 & T2 & T3).
      assert (Hc : c = 32).
      { cbn [stops] in Hs. apply forallb_hd in T1. unfold wsp in T1. lia. }
      subst c.
      destruct s1 as [|c2 s2].
      { exfalso. apply T3; [discriminate|reflexivity]. }
      assert (Hc2 : is_word_char c2 = true).
      { cbn [no_double_space] in T2. apply forallb_tl, forallb_hd in T1. unfold wsp in T1. lia. }
      destruct fuel as [|f]; [cbn [length] in Hf; lia|].
      cbn [app read_words]. ev_lit. rewrite Hc2. step.
      change (c2 :: s2 ++ 32 :: 32 :: R') with ((c2 :: s2) ++ 32 :: 32 :: R').
      rewrite span_app_gen by (reflexivity || discriminate).
      destruct (span_facts is_word_char (c2 :: s2)) as (E & Fw & Sw).
      set (w := fst (span is_word_char (c2 :: s2))) in *.
      set (s' := snd (span is_word_char (c2 :: s2))) in *.
      assert (Hlen : (length (c2 :: s2) = length w + length s')%nat) by (rewrite E at 1; apply app_length).
      assert (Ht' : acct_tail s').
      { apply (acct_tail_suffix (32 :: w)). cbn [app]. rewrite <- E. repeat split; assumption. }
      rewrite (IH s' (32 :: 32 :: R') f); try assumption.
      * rewrite <- E. reflexivity.
      * cbn [length] in *. lia.
      * cbn [length] in *. lia.
      * exists R'. reflexivity.
Qed.

Lemma ra_eq : forall l,
  read_account l = let '(w, r) := span is_word_char l in
                   match w with
                   | [] => None
                   | _ => let '(ws, r') := read_words (length r) r in Some (w ++ ws, r')
                   end.
Proof. reflexivity. Qed.

Lemma clean_account_facts : forall a, clean_account a = true ->
  exists c r, a = c :: r /\ is_word_char c = true /\ (c =? 42) = false /\ (c =? 33) = false /\ acct_tail a.
Proof.
  intros a H. unfold clean_account in H. destruct a as [|c r]; [discriminate|].
  apply andb_true_iff in H. destruct H as [H H5].
  apply andb_true_iff in H. destruct H as [H H4].
  apply andb_true_iff in H. destruct H as [H H3].
  apply andb_true_iff in H. destruct H as [H1 H2].
  exists c, r. split; [reflexivity|].
  pose proof (forallb_hd _ _ _ H1) as Hc. cbv beta in Hc.
  split; [lia|]. split; [lia|]. split; [lia|].
  split; [exact H1|]. split; [exact H4|]. intros _. lia.
Qed.

Theorem read_account_ok : forall a R, clean_account a = true -> two_sp R ->
  read_account (a ++ R) = Some (a, R).
Proof.
  intros a R H HR. destruct (clean_account_facts a H) as (c & r & -> & Hc & _ & _ & Ht).
  assert (HR' := HR). destruct HR' as (R' & ER).
  rewrite ra_eq.
  rewrite span_app_gen by (subst R; reflexivity || discriminate).
  destruct (span_facts is_word_char (c :: r)) as (E & Fw & Sw).
  assert (Hw : fst (span is_word_char (c :: r)) <> []).
  { cbn [span]. rewrite Hc. destruct (span is_word_char r). discriminate. }
  destruct (span is_word_char (c :: r)) as [w s']. cbn [fst snd] in *.
  destruct w as [|w0 w]; [congruence|]. cbv beta iota zeta.
  rewrite (read_words_ok (length s') s' R); try assumption.
  - rewrite <- E. reflexivity.
  - apply le_n.
  - rewrite app_length. lia.
  - apply (acct_tail_suffix (w0 :: w)). rewrite <- E. exact Ht.
Qed.

(* ---------------- amount, cost, balance ---------------- *)
Definition cost_str (p : precisions) (c : option samount) : str :=
  match c with Some c => [32;64;32] ++ amt_str p c | None => [] end.
Definition bal_str (p : precisions) (b : option samount) : str :=
  match b with Some b => [32;61;32] ++ amt_str p b | None => [] end.

Definition rb_pamount (p : precisions) (pa : pamount) : pamount :=
  {| pa_amount := rb_amount p (pa_amount pa); pa_cost := option_map (rb_amount p) (pa_cost pa) |}.

Definition opt_clean (a : option samount) : Prop :=
  match a with Some x => clean_amount x = true | None => True end.

Lemma bal_str_rest_ok : forall p b, rest_ok (bal_str p b).
Proof. intros p [b|]; [apply rest_ok_eq|left; reflexivity]. Qed.

(* after the spaces, a balance text is `= amount` *)
Definition bal_tail (p : precisions) (b : option samount) : str :=
  match b with Some b => 61 :: 32 :: amt_str p b | None => [] end.

Lemma drop_sp_bal : forall p b, drop_sp (bal_str p b) = bal_tail p b.
Proof.
  intros p [b|]; [|reflexivity]. unfold bal_str, bal_tail. cbn [app].
  rewrite drop_sp_32, drop_sp_stop by reflexivity. reflexivity.
Qed.

Theorem read_posting_amount_text : forall p pa b,
  clean_amount (pa_amount pa) = true -> opt_clean (pa_cost pa) ->
  exists r, read_posting_amount (amt_str p (pa_amount pa) ++ cost_str p (pa_cost pa) ++ bal_str p b)
            = PASome (rb_pamount p pa) r /\ drop_sp r = bal_tail p b.
Proof.
  intros p [a cost] b Ha Hc. cbn [pa_amount pa_cost] in *. unfold rb_pamount. cbn [pa_amount pa_cost].
  unfold read_posting_amount.
  destruct cost as [c|]; cbn [cost_str option_map opt_clean] in *.
  - destruct (read_amount_text p a (([32;64;32] ++ amt_str p c) ++ bal_str p b) Ha) as (r & Hr & Hd).
    { cbn [app]. apply rest_ok_at. }
    rewrite Hr. cbv beta iota zeta. rewrite Hd. rewrite <- app_assoc. cbn [app].
    rewrite drop_sp_32, drop_sp_stop by reflexivity. cbv beta iota zeta. ev_lit. step.
    rewrite drop_sp_32, drop_sp_stop by (apply numhead_stops_sp, amt_str_numhead).
    destruct (read_amount_text p c (bal_str p b) Hc (bal_str_rest_ok p b)) as (r3 & Hr3 & Hd3).
    rewrite Hr3. exists r3. split; [reflexivity|]. rewrite Hd3. apply drop_sp_bal.
  - cbn [app].
    destruct (read_amount_text p a (bal_str p b) Ha (bal_str_rest_ok p b)) as (r & Hr & Hd).
    rewrite Hr. cbv beta iota zeta. rewrite Hd, drop_sp_bal.
    destruct b as [b|]; cbn [bal_tail].
    + ev_lit. step. eexists. split; [reflexivity|]. apply drop_sp_stop. reflexivity.
    + exists []. split; reflexivity.
Qed.

(* ---------------- read_indented in stages ---------------- *)
Definition ri_mk (cl : clear) (acct : str) (amt : option pamount) (bal : option samount)
                 (meta : list metadata) : lres :=
  LPosting {| sp_account := acct; sp_clear := cl; sp_amount := amt; sp_balance := bal; sp_meta := meta |}.

Definition ri_bal (cl : clear) (acct : str) (amt : option pamount) (r3 : str) : lres :=
  let bal :=
    match r3 with
    | c4 :: r4 =>
        if c4 =? 61 then
          match read_amount (drop_sp r4) with
          | ASome b r5 => inl (Some b, drop_sp r5)
          | ANone => inl (None, r3)
          | AUnsupported => inr tt
          end
        else inl (None, r3)
    | [] => inl (None, r3)
    end in
  match bal with
  | inr _ => LUnsupported
  | inl (b, r6) => match read_line_end r6 with Some m => ri_mk cl acct amt b m | None => LErr end
  end.

Definition ri_amt (cl : clear) (acct : str) (r2 : str) : lres :=
  match read_posting_amount r2 with
  | PAUnsupported => LUnsupported
  | pa =>
      let '(amt, r3) := match pa with PASome x r' => (Some x, drop_sp r') | _ => (None, r2) end in
      ri_bal cl acct amt r3
  end.

Definition ri_acct (cl : clear) (l1 : str) : lres :=
  match read_account l1 with
  | None => LErr
  | Some (acct, r1) =>
      let r2 := drop_sp r1 in
      if at_eol r2 || (match r2 with c3 :: _ => c3 =? 59 | [] => false end) then
        match read_line_end r2 with Some m => ri_mk cl acct None None m | None => LErr end
      else ri_amt cl acct r2
  end.

Lemma read_indented_eq : forall c r,
  read_indented (c :: r) =
  if c =? 59 then match read_meta r with Some m => LMeta m | None => LErr end
  else
    let '(cl, l1) := if c =? 42 then (Cleared, drop_sp r) else if c =? 33 then (Pending, drop_sp r)
                     else (Uncleared, c :: r) in
    ri_acct cl l1.
Proof. reflexivity. Qed.

Lemma ri_bal_ok : forall p cl acct amt b, opt_clean b ->
  ri_bal cl acct amt (bal_tail p b) = ri_mk cl acct amt (option_map (rb_amount p) b) [].
Proof.
  intros p cl acct amt [b|] Hb; cbn [bal_tail option_map opt_clean] in *; [|reflexivity].
  unfold ri_bal. step. ev_lit. step.
  rewrite drop_sp_32, drop_sp_stop by (rewrite <- (app_nil_r (amt_str p b)); apply numhead_stops_sp, amt_str_numhead).
  destruct (read_amount_text p b [] Hb (or_introl eq_refl)) as (r & Hr & Hd).
  rewrite app_nil_r in Hr. rewrite Hr. step. rewrite Hd. reflexivity.
Qed.

Lemma ri_amt_ok : forall p cl acct pa b,
  clean_amount (pa_amount pa) = true -> opt_clean (pa_cost pa) -> opt_clean b ->
  ri_amt cl acct (amt_str p (pa_amount pa) ++ cost_str p (pa_cost pa) ++ bal_str p b)
  = ri_mk cl acct (Some (rb_pamount p pa)) (option_map (rb_amount p) b) [].
Proof.
  intros p cl acct pa b Ha Hc Hb. unfold ri_amt.
  destruct (read_posting_amount_text p pa b Ha Hc) as (r & Hr & Hd).
  rewrite Hr. step. rewrite Hd. apply ri_bal_ok. exact Hb.
Qed.

Lemma numhead_not_eol : forall x, numhead x ->
  (at_eol x || (match x with c3 :: _ => c3 =? 59 | [] => false end)) = false.
Proof.
  intros x (c & r & -> & H). assert (E1 : (c =? 59) = false) by chr. assert (E2 : (c =? 13) = false) by chr.
  rewrite E1. destruct r; cbn [at_eol]; [rewrite E2|]; reflexivity.
Qed.

Lemma spaces_two : forall n X, (2 <= n)%nat -> two_sp (spaces n ++ X).
Proof.
  intros n X H. destruct n as [|[|n]]; try lia. exists (spaces n ++ X). reflexivity.
Qed.

Lemma ri_acct_ok : forall p cl acct n pa b,
  clean_account acct = true -> (2 <= n)%nat ->
  clean_amount (pa_amount pa) = true -> opt_clean (pa_cost pa) -> opt_clean b ->
  ri_acct cl (acct ++ spaces n ++ amt_str p (pa_amount pa) ++ cost_str p (pa_cost pa) ++ bal_str p b)
  = ri_mk cl acct (Some (rb_pamount p pa)) (option_map (rb_amount p) b) [].
Proof.
  intros p cl acct n pa b Hacct Hn Ha Hc Hb. unfold ri_acct.
  rewrite read_account_ok by (exact Hacct || apply spaces_two; exact Hn).
  cbv beta iota zeta. rewrite drop_sp_spaces.
  pose proof (amt_str_numhead p (pa_amount pa) (cost_str p (pa_cost pa) ++ bal_str p b)) as Hh.
  rewrite drop_sp_stop by (apply numhead_stops_sp; exact Hh).
  rewrite numhead_not_eol by exact Hh.
  apply ri_amt_ok; assumption.
Qed.

(* ---------------- the posting line ---------------- *)
Definition posting_body (p : precisions) (n : nat) (po : sposting) (pa : pamount) : str :=
  clear_text (sp_clear po) ++ sp_account po ++ spaces n ++
  amt_str p (pa_amount pa) ++ cost_str p (pa_cost pa) ++ bal_str p (sp_balance po).

Definition rb_posting (p : precisions) (po : sposting) : sposting :=
  {| sp_account := sp_account po; sp_clear := sp_clear po;
     sp_amount := option_map (rb_pamount p) (sp_amount po);
     sp_balance := option_map (rb_amount p) (sp_balance po); sp_meta := [] |}.

Definition clean_posting_line (po : sposting) (pa : pamount) : Prop :=
  sp_amount po = Some pa /\ clean_account (sp_account po) = true /\
  clean_amount (pa_amount pa) = true /\ opt_clean (pa_cost pa) /\ opt_clean (sp_balance po).

Theorem read_indented_posting : forall p n po pa, clean_posting_line po pa -> (2 <= n)%nat ->
  read_indented (posting_body p n po pa) = LPosting (rb_posting p po).
Proof.
  intros p n po pa (Hs & Hacct & Ha & Hc & Hb) Hn. unfold posting_body, rb_posting. rewrite Hs. cbn [option_map].
  destruct (clean_account_facts _ Hacct) as (c & r & E & Hw & N42 & N33 & _).
  set (X := sp_account po ++ spaces n ++ amt_str p (pa_amount pa) ++ cost_str p (pa_cost pa) ++ bal_str p (sp_balance po)).
  assert (HX : stops is_sp X).
  { unfold X. rewrite E. cbn [app stops]. chr. }
  destruct (sp_clear po) eqn:Ecl; cbn [clear_text app].
  - assert (EX : X = c :: (r ++ spaces n ++ amt_str p (pa_amount pa) ++ cost_str p (pa_cost pa) ++ bal_str p (sp_balance po))).
    { unfold X. rewrite E. reflexivity. }
    rewrite EX, read_indented_eq. assert (N59 : (c =? 59) = false) by chr.
    rewrite N59, N42, N33. cbv beta iota zeta. rewrite <- EX. unfold X.
    apply ri_acct_ok; assumption.
  - rewrite read_indented_eq. ev_lit. cbv beta iota zeta.
    rewrite drop_sp_32, drop_sp_stop by exact HX. unfold X. apply ri_acct_ok; assumption.
  - rewrite read_indented_eq. ev_lit. cbv beta iota zeta.
    rewrite drop_sp_32, drop_sp_stop by exact HX. unfold X. apply ri_acct_ok; assumption.
Qed.

(* the line as read_body meets it *)
Definition posting_lb (p : precisions) (n : nat) (po : sposting) (pa : pamount) : str :=
  s_indent ++ posting_body p n po pa.

Lemma posting_body_head : forall p n po pa, clean_posting_line po pa -> (2 <= n)%nat ->
  exists c r, posting_body p n po pa = c :: r /\ is_sp c = false /\ r <> [].
Proof.
  intros p n po pa (Hs & Hacct & _) Hn. unfold posting_body.
  destruct (clean_account_facts _ Hacct) as (c & r & E & Hw & _).
  destruct (spaces_two n (amt_str p (pa_amount pa) ++ cost_str p (pa_cost pa) ++ bal_str p (sp_balance po)) Hn) as (R' & ER).
  rewrite ER, E. destruct (sp_clear po); cbn [clear_text app].
  - exists c. eexists. split; [reflexivity|]. split; [chr|]. destruct r; discriminate.
  - eexists _, _. split; [reflexivity|]. split; [reflexivity|discriminate].
  - eexists _, _. split; [reflexivity|]. split; [reflexivity|discriminate].
Qed.

Lemma posting_line_reads : forall p n po pa, clean_posting_line po pa -> (2 <= n)%nat ->
  starts_indented (posting_lb p n po pa) = true /\ at_eol (drop_sp (posting_lb p n po pa)) = false /\
  read_indented (drop_sp (posting_lb p n po pa)) = LPosting (rb_posting p po).
Proof.
  intros p n po pa H Hn. unfold posting_lb, s_indent. cbn [app]. rewrite !drop_sp_32.
  destruct (posting_body_head p n po pa H Hn) as (c & r & E & Hc & Hr).
  assert (Hs : stops is_sp (posting_body p n po pa)) by (rewrite E; exact Hc).
  rewrite drop_sp_stop by exact Hs.
  split; [reflexivity|]. split.
  - rewrite E. destruct r; [congruence|reflexivity].
  - apply read_indented_posting; assumption.
Qed.

(* ---------------- no line break in a posting line ---------------- *)
Lemma opt_amt_nolf : forall p (pre : str) b, opt_clean b -> nolf pre = true ->
  nolf (match b with Some b => pre ++ amt_str p b | None => [] end) = true.
Proof.
  intros p pre [b|] H Hp; [|reflexivity]. apply nolf_app; [exact Hp|apply amt_str_nolf; exact H].
Qed.

Lemma posting_lb_nolf : forall p n po pa, clean_posting_line po pa -> nolf (posting_lb p n po pa) = true.
Proof.
  intros p n po pa (Hs & Hacct & Ha & Hc & Hb). unfold posting_lb, posting_body.
  apply nolf_app; [reflexivity|].
  apply nolf_app; [destruct (sp_clear po); reflexivity|].
  apply nolf_app.
  { destruct (clean_account_facts _ Hacct) as (_ & _ & _ & _ & _ & _ & (T1 & _)).
    revert T1. apply forallb_imp. intros c H. unfold wsp in H. chr. }
  apply nolf_app; [apply forallb_repeat; reflexivity|].
  apply nolf_app; [apply amt_str_nolf; exact Ha|].
  apply nolf_app; [apply opt_amt_nolf; [exact Hc|reflexivity]|apply opt_amt_nolf; [exact Hb|reflexivity]].
Qed.

(* ---------------- the printer's posting text is that line ---------------- *)
Definition pcol (p : precisions) (w : nat) (po : sposting) (pa : pamount) : nat :=
  get_column 48 ((w + length (clear_text (sp_clear po))) + snd (amount_text p (pa_amount pa))) 2.

Lemma pcol_ge2 : forall p w po pa, (2 <= pcol p w po pa)%nat.
Proof.
  intros. unfold pcol, get_column.
  destruct (_ <? 48)%nat eqn:E; [|lia]. apply Nat.ltb_lt in E. lia.
Qed.

Lemma posting_text_eq : forall p w po pa, sp_amount po = Some pa ->
  posting_text p w po = posting_lb p (pcol p w po pa) po pa ++ [10] ++ flat_map meta_line (sp_meta po).
Proof.
  intros p w po pa Hs. unfold posting_text, posting_lb, posting_body, pcol, cost_str, bal_str, amt_str.
  rewrite Hs. destruct (amount_text p (pa_amount pa)) as [s al]. cbn [fst snd].
  destruct (sp_balance po) as [b|].
  - destruct (amount_text p b) as [sb alb]. cbn [fst]. unfold pad_left. cbn [length Nat.sub spaces repeat app].
    destruct (pa_cost pa); repeat rewrite <- app_assoc; reflexivity.
  - destruct (pa_cost pa); repeat rewrite <- app_assoc; reflexivity.
Qed.
