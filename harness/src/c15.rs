//! C15: import emits ledger text that reads back as intended.  Implementation under test:
//! import(Csv | IsoCamt053 | Viseca) + to_double_entry, printed exactly as ImportCmd::run does
//! (DisplayContext{precisions}.as_display(&txn) + '\n'), then okane_core::parse::parse_ledger on
//! the printed text.  Statement records carry adversarial text in every field that reaches the
//! ledger (payee, code, note, category, commodity).
use crate::caldate;
use crate::camtgen::{self, xml_escape, yaml_str};
use crate::coq::{self, Shards, Stats};
use crate::imptree::{self, ImportRun, TxObs};
use crate::prng::Rng;
use crate::Opts;
use okane_core::parse::{parse_ledger, ParseOptions};
use okane_core::syntax::plain;
use serde::{Deserialize, Serialize};
use serde_json::json;
use std::fmt::Write as _;
use unicode_width::UnicodeWidthStr;

const HEADER: &str = "From Coq Require Import List NArith ZArith.\nFrom Okv Require Import Model.Lit Model.SingleEntry2 Model.TxnText Run.Classify_C15.\nImport ListNotations.\nOpen Scope N_scope.";

#[derive(Clone, Debug, PartialEq, Serialize, Deserialize, Hash)]
pub struct Run {
    pub importer: String, // "camt" | "csv" | "viseca"
    pub path: String,
    pub input: String,
    pub yaml: String,
    pub records: usize,
    /// what each statement record says in the statement's own terms (known before the cell text
    /// was written), in output order; empty when the generator does not know
    #[serde(default)]
    pub intended: Vec<Intent>,
    /// the numeric cells written in a notation okane's number grammar does not know or with
    /// trailing junk (the cell texts); empty for an ordinary statement
    #[serde(default)]
    pub junk: Vec<String>,
    /// the generator wrote a statement the importer is meant to read (a generated CSV statement
    /// without a junk cell): a refusal is then a case of its own
    #[serde(default)]
    pub must_import: bool,
}

/// (negative, mantissa, scale)
pub type Num = (bool, u64, u32);

#[derive(Clone, Debug, PartialEq, Serialize, Deserialize, Hash, Default)]
pub struct Intent {
    /// signed movement of the configured account
    pub amount: Option<Num>,
    /// stated balance of the account after the record
    pub balance: Option<Num>,
    /// fee booked to Expenses:Commissions
    pub charge: Option<Num>,
    /// stated exchange rate of a converted record (attached to some posting as its `@` cost)
    #[serde(default)]
    pub rate: Option<Num>,
    /// stated secondary amount of a converted record (its magnitude is some posting's amount)
    #[serde(default)]
    pub secondary: Option<Num>,
    /// the calendar date the record states (year, month, day)
    #[serde(default)]
    pub date: Option<(i32, u32, u32)>,
    /// the payee text the record states, as one line (line breaks are spaces, outer white space
    /// dropped: single_entry::one_line); only where no rewrite rule captures a payee
    #[serde(default)]
    pub payee: Option<String>,
}

// ---------- adversarial text ----------

const BENIGN: [&str; 8] = ["Migros Zurich", "Jiro Okane", "OKANE BANK ATM", "Coop-1234", "Taro and Jiro", "Rent 2021/10", "a", "Herr Haus Okane und Frau Hause Okane"];

/// (text, tag)
fn adv_text(r: &mut Rng) -> (String, &'static str) {
    let b = r.pick(&BENIGN).to_string();
    match r.below(36) {
        0..=5 => (b, "benign"),
        30 => (format!("2020/01/01 {}", b), "date_like"),
        31 => (format!("= {} CHF @ 3", r.below(100)), "punct"),
        32 => (format!("{} (", b), "punct"),
        33 => (format!("{}:{}", b, r.below(10)), "punct"),
        34 => (format!("#{} |{}%", r.below(100), b), "punct"),
        35 => (format!("{}\u{2003}{}", b, r.pick(&BENIGN)), "non_ascii"),
        6 => (format!("{}; {}", b, r.pick(&BENIGN)), "semicolon"),
        7 => (format!(";{}", b), "semicolon"),
        8 => (format!("{}\n{}", b, r.pick(&BENIGN)), "linebreak"),
        9 => (format!("{}\r\n{}", b, r.pick(&BENIGN)), "linebreak"),
        10 => (format!("{}\r{}", b, r.pick(&BENIGN)), "linebreak"),
        11 => (format!("{}\n2020/01/01 Injected\n    Assets:Evil  100 CHF\n    Income:Evil", b), "injection"),
        12 => (format!("({}) {}", r.below(1000), b), "paren"),
        13 => (format!("({}", b), "paren"),
        14 => (format!("*{}", b), "star"),
        15 => (format!("! {}", b), "bang"),
        16 => (format!("{}  {}", b, r.pick(&BENIGN)), "double_space"),
        17 => (format!("{}\t{}", b, r.pick(&BENIGN)), "tab"),
        18 => (format!(":{}:", r.pick(&["tag", "a:b", "x"])), "tags"),
        19 => (format!(":tag: {}", b), "tags"),
        20 => (format!("{}: {}", r.pick(&["key", "Payee", "k1"]), b), "key_value"),
        21 => (format!("{}:: 1 + 2", r.pick(&["key", "k"])), "key_value"),
        22 => (r.pick(&["山田商店", "Zürich Café", "Ünïcödé ŝtring", "円普通預金へ振替", "🍣 sushi"]).to_string(), "non_ascii"),
        23 => (format!(" {} ", b), "outer_space"),
        24 => (format!("{}\u{3000}", b), "outer_space"),
        25 => (format!("\u{a0}{}", b), "outer_space"),
        26 => (std::iter::repeat(b.as_str()).take(40 + r.below(40) as usize).collect::<Vec<_>>().join(" "), "long"),
        27 => (format!("{} ({}) = {} @ {}", b, r.below(100), r.below(100), r.below(10)), "punct"),
        28 => (format!("{})", b), "close_paren"),
        _ => (String::new(), "empty"),
    }
}

/// one statement record in ten carries no text at all (no payee, no reference / code, no
/// note): the importer then prints the header `DATE * ` and the postings directly under it
fn blank_record(r: &mut Rng, st: &mut Stats) -> bool {
    let b = r.chance(1, 10);
    if b {
        st.count("record:no_payee_no_code_no_note");
    }
    b
}

fn code_text(r: &mut Rng) -> (Option<String>, &'static str) {
    match r.below(12) {
        0 | 1 => (None, "none"),
        2..=6 => (Some(format!("2021103{}/{}/1", r.below(3), r.below(99))), "benign"),
        7 => (Some(if r.chance(1, 2) { format!("A{})B", r.below(9)) } else { "x (y) z".to_string() }), "close_paren"),
        8 => (Some(format!("REF {} / {}", r.below(99), r.below(9))), "benign"),
        9 => (Some(format!("line1\nline{}", r.below(9))), "linebreak"),
        10 => (Some(" padded ; semi ".to_string()), "semicolon"),
        _ => (Some(String::new()), "empty"),
    }
}

fn commodity_text(r: &mut Rng, base: &str) -> (String, &'static str) {
    match r.below(25) {
        0 => ((*r.pick(&["US D", "C4"])).to_string(), "bad_commodity"),
        1 => ("Fr".to_string(), "benign"),
        2 => ("€".to_string(), "non_ascii"),
        3 => ("".to_string(), "empty"),
        4 => ("A;B".to_string(), "bad_commodity"),
        5 => ("chf".to_string(), "benign"),
        _ => (base.to_string(), "benign"),
    }
}

fn dec_text(r: &mut Rng, allow_group: bool) -> String {
    let scale = *r.pick(&[0u32, 0, 1, 2, 2, 2, 3, 5]);
    let m = match r.below(8) {
        0 => 0,
        1..=3 => r.range(1, 999),
        4..=5 => r.range(1000, 999_999),
        _ => r.range(1_000_000, 99_999_999_999),
    };
    crate::ledger::num_text(m, scale, allow_group && r.chance(1, 2))
}

fn gen_num(r: &mut Rng) -> (u64, u32) {
    let scale = *r.pick(&[0u32, 0, 1, 2, 2, 2, 3, 5]);
    let m = match r.below(8) {
        0 => 0,
        1..=3 => r.range(1, 999),
        4..=5 => r.range(1000, 999_999),
        _ => r.range(1_000_000, 99_999_999_999),
    };
    (m as u64, scale)
}

/// A money cell of a CSV statement for the number (neg, m, scale): bare, or with a commodity
/// prefix (`$`, CHF, USD) and the minus sign before the prefix or after it, with or without
/// grouping commas: -1,950.25  -$1.46  $-1,950.25  -USD 5  USD -5  USD-5
fn money_cell(r: &mut Rng, st: &mut Stats, n: Num) -> String {
    let (neg, m, scale) = n;
    let body = crate::ledger::num_text(m as i64, scale, r.chance(1, 2));
    let minus = if neg { "-" } else { "" };
    let (text, shape) = match r.below(6) {
        0 | 1 => (format!("{}{}", minus, body), "bare"),
        2 | 3 => {
            let sym = *r.pick(&["$", "$", "CHF ", "USD ", "USD", "EUR "]);
            if r.chance(1, 2) {
                (format!("{}{}{}", minus, sym, body), "minus_before_prefix")
            } else {
                (format!("{}{}{}", sym, minus, body), "minus_after_prefix")
            }
        }
        4 => (format!("{}{} {}", minus, body, r.pick(&["CHF", "USD"])), "suffix"),
        _ => (format!("{}{}", minus, body), "bare"),
    };
    if neg {
        st.count(&format!("csv_negative_cell:{}", shape));
    }
    text
}

/// a money cell, or - when `junk` - the same figure in a notation okane does not know / with
/// trailing junk; the flag tells whether the cell still says exactly that figure
fn cell(r: &mut Rng, st: &mut Stats, n: Num, junk: bool, written: &mut Vec<String>, column: &str) -> (String, bool) {
    if junk {
        let (t, tag, definite) = crate::impgen::foreign_number(r, n.0, n.1, n.2);
        st.count(&format!("csv_junk_cell:{}:{}", column, tag));
        written.push(t.clone());
        (t, definite)
    } else {
        (money_cell(r, st, n), true)
    }
}

fn precisions_yaml(r: &mut Rng, comms: &[&str]) -> String {
    let mut s = String::new();
    let mut seen: Vec<&str> = Vec::new();
    for c in comms {
        if r.chance(2, 3) && !c.is_empty() && !seen.contains(c) {
            seen.push(c);
            writeln!(s, "    {}:\n      precision: {}", yaml_str(c), r.pick(&[0u8, 2, 2, 2, 3, 4, 8, 30])).unwrap();
        }
    }
    if s.is_empty() {
        s
    } else {
        format!("  commodity:\n{}", s)
    }
}

// ---------- Camt053 ----------

fn gen_camt(r: &mut Rng, st: &mut Stats) -> Run {
    let n = 1 + r.below(3) as usize;
    let (ccy, ctag) = commodity_text(r, "CHF");
    st.count(&format!("text:commodity:{}", ctag));
    let mut x = String::new();
    x.push_str("<?xml version=\"1.0\" encoding=\"UTF-8\"?>\n<Document xmlns=\"urn:iso:std:iso:20022:tech:xsd:camt.053.001.04\">\n  <BkToCstmrStmt>\n    <Stmt>\n");
    if r.chance(1, 2) {
        writeln!(x, "      <Bal><Tp><CdOrPrtry><Cd>OPBD</Cd></CdOrPrtry></Tp><Amt Ccy=\"{}\">{}</Amt><CdtDbtInd>CRDT</CdtDbtInd></Bal>", xml_escape(&ccy), dec_text(r, false)).unwrap();
        writeln!(x, "      <Bal><Tp><CdOrPrtry><Cd>CLBD</Cd></CdOrPrtry></Tp><Amt Ccy=\"{}\">{}</Amt><CdtDbtInd>{}</CdtDbtInd></Bal>", xml_escape(&ccy), dec_text(r, false), if r.chance(1, 5) { "DBIT" } else { "CRDT" }).unwrap();
    } else {
        writeln!(x, "      <Bal><Tp><CdOrPrtry><Cd>CLBD</Cd></CdOrPrtry></Tp><Amt Ccy=\"{}\">{}</Amt><CdtDbtInd>CRDT</CdtDbtInd></Bal>", xml_escape(&ccy), dec_text(r, false)).unwrap();
    }
    let mut records = 0;
    // the entries of a statement lie within a week that reaches or crosses a calendar boundary
    let week = caldate::Window::new(r, caldate::YEAR_LO, caldate::YEAR_HI, 6);
    for k in 0..n {
        // one record in ten states nothing but date and amount: no payee text, no reference.
        // It is printed as `DATE * ` with the postings directly below.
        let blank = blank_record(r, st);
        let (payee, ptag) = if blank { (String::new(), "empty") } else { adv_text(r) };
        let (code, cotag) = if blank { (None, "none") } else { code_text(r) };
        st.count(&format!("text:payee:{}", ptag));
        st.count(&format!("text:code:{}", cotag));
        let credit = r.chance(2, 5);
        let amt = dec_text(r, false);
        let day = week.pick(r);
        let vday = if r.chance(1, 3) { week.pick(r) } else { day };
        st.count(&format!("date:camt booking:{}", caldate::class_of(day)));
        st.count(&format!("date:camt value:{}", caldate::class_of(vday)));
        // xs:date, or now and then xs:dateTime with an offset: the local date of the text counts
        let mut dt = |d: chrono::NaiveDate| {
            if r.chance(1, 8) {
                format!("<DtTm>{}T{}</DtTm>", d.format("%Y-%m-%d"), r.pick(&["10:15:00+02:00", "23:30:00+02:00", "00:10:00-05:00", "12:00:00Z", "00:00:00+14:00", "23:59:59-12:00"]))
            } else {
                format!("<Dt>{}</Dt>", d.format("%Y-%m-%d"))
            }
        };
        let (bk, vl) = (dt(day), dt(vday));
        writeln!(x, "      <Ntry>\n        <Amt Ccy=\"{}\">{}</Amt>\n        <CdtDbtInd>{}</CdtDbtInd>\n        <BookgDt>{}</BookgDt>\n        <ValDt>{}</ValDt>\n        <BkTxCd/>", xml_escape(&ccy), amt, if credit { "CRDT" } else { "DBIT" }, bk, vl).unwrap();
        let entry_charge = r.chance(1, 6);
        if entry_charge {
            writeln!(x, "        <Chrgs><Rcrd><Amt Ccy=\"{}\">{}</Amt><CdtDbtInd>DBIT</CdtDbtInd><ChrgInclInd>true</ChrgInclInd></Rcrd></Chrgs>", xml_escape(&ccy), dec_text(r, false)).unwrap();
        }
        if r.chance(4, 5) {
            records += 1;
            x.push_str("        <NtryDtls>\n          <TxDtls>\n            <Refs>");
            if let Some(c) = &code {
                write!(x, "<AcctSvcrRef>{}</AcctSvcrRef>", xml_escape(c)).unwrap();
            }
            x.push_str("</Refs>\n");
            writeln!(x, "            <Amt Ccy=\"{}\">{}</Amt>\n            <CdtDbtInd>{}</CdtDbtInd>", xml_escape(&ccy), amt, if credit { "CRDT" } else { "DBIT" }).unwrap();
            match r.below(5) {
                0 => {
                    // foreign amount with a rate
                    let (occy, otag) = commodity_text(r, "EUR");
                    st.count(&format!("text:commodity:{}", otag));
                    writeln!(x, "            <AmtDtls><InstdAmt><Amt Ccy=\"{}\">{}</Amt></InstdAmt><TxAmt><Amt Ccy=\"{}\">{}</Amt><CcyXchg><SrcCcy>{}</SrcCcy><TrgtCcy>{}</TrgtCcy><XchgRate>{}</XchgRate></CcyXchg></TxAmt></AmtDtls>",
                        xml_escape(&occy), dec_text(r, false), xml_escape(&occy), dec_text(r, false), xml_escape(&ccy), xml_escape(&occy), dec_text(r, false)).unwrap();
                }
                1 => {
                    writeln!(x, "            <AmtDtls><InstdAmt><Amt Ccy=\"{}\">{}</Amt></InstdAmt><TxAmt><Amt Ccy=\"{}\">{}</Amt></TxAmt></AmtDtls>", xml_escape(&ccy), amt, xml_escape(&ccy), dec_text(r, false)).unwrap();
                }
                _ => {}
            }
            if r.chance(1, 5) {
                writeln!(x, "            <Chrgs><Rcrd><Amt Ccy=\"{}\">{}</Amt><CdtDbtInd>{}</CdtDbtInd><ChrgInclInd>true</ChrgInclInd></Rcrd></Chrgs>", xml_escape(&ccy), dec_text(r, false), if r.chance(1, 4) { "CRDT" } else { "DBIT" }).unwrap();
            }
            writeln!(x, "            <AddtlTxInf>K{} {}</AddtlTxInf>\n          </TxDtls>\n        </NtryDtls>", k, xml_escape(&payee)).unwrap();
            writeln!(x, "        <AddtlNtryInf>B{}</AddtlNtryInf>\n      </Ntry>", k).unwrap();
        } else {
            records += 1;
            writeln!(x, "        <AddtlNtryInf>N{} {}</AddtlNtryInf>\n      </Ntry>", k, xml_escape(&payee)).unwrap();
        }
    }
    x.push_str("    </Stmt>\n  </BkToCstmrStmt>\n</Document>\n");
    let mut y = String::new();
    writeln!(y, "path: in.xml\nencoding: UTF-8\naccount: {}\naccount_type: asset\noperator: {}\ncommodity: CHF", yaml_str(*r.pick(&["Assets:Okane Bank", "Assets:Bank CHF", "Liabilities:カード"])), yaml_str(*r.pick(&["Okane Bank (fee)", "Bank"]))).unwrap();
    let p = precisions_yaml(r, &[ccy.as_str(), "EUR", "CHF"]);
    if !p.is_empty() {
        writeln!(y, "format:\n{}", p.trim_end()).unwrap();
    }
    let dot = if r.chance(1, 2) { "(?s)" } else { "" };
    writeln!(y, "rewrite:\n  - matcher:\n      additional_transaction_info: {}", yaml_str(&format!("{}^K\\d+ ?(?P<payee>.*)$", dot))).unwrap();
    writeln!(y, "  - matcher:\n      additional_entry_info: {}", yaml_str(&format!("{}^N\\d+ ?(?P<payee>.*)$", dot))).unwrap();
    writeln!(y, "  - matcher:\n      payee: \"(?i)migros|coop\"\n    account: Expenses:Grocery").unwrap();
    writeln!(y, "  - matcher:\n      payee: \"Okane\"\n    account: \"Assets:Wire:Money Bank\"\n    pending: true").unwrap();
    // the opening-balance transaction is a record of the statement as well
    let has_opening = x.contains("OPBD");
    Run { importer: "camt".into(), path: "in.xml".into(), input: x, yaml: y, records: records + if has_opening { 1 } else { 0 }, intended: vec![], junk: vec![], must_import: false }
}

// ---------- CSV ----------

fn csv_field(s: &str) -> String {
    if s.contains(',') || s.contains('"') || s.contains('\n') || s.contains('\r') || s.starts_with(' ') || s.ends_with(' ') {
        format!("\"{}\"", s.replace('"', "\"\""))
    } else {
        s.to_string()
    }
}

/// the text fields of a statement with a junk number cell are benign, so that what the importer
/// makes of the number is not hidden behind a known text class
fn text_of(r: &mut Rng, benign: bool) -> (String, &'static str) {
    if benign {
        (r.pick(&BENIGN).to_string(), "benign")
    } else {
        adv_text(r)
    }
}
fn comm_of(r: &mut Rng, base: &str, benign: bool) -> (String, &'static str) {
    if benign {
        (base.to_string(), "benign")
    } else {
        commodity_text(r, base)
    }
}

const CSV_DATE_FORMATS: [&str; 7] = ["%Y-%m-%d", "%Y-%m-%d", "%Y/%m/%d", "%d.%m.%Y", "%m/%d/%Y", "%d.%m.%y", "%d %b %Y"];

fn gen_csv(r: &mut Rng, st: &mut Stats) -> Run {
    if r.chance(1, 3) {
        return gen_csv_text_first(r, st);
    }
    let n = 1 + r.below(4) as usize;
    let layout = r.below(3);
    let mut t = String::new();
    let mut y = String::new();
    let liability = r.chance(1, 2);
    writeln!(y, "path: in.csv\nencoding: UTF-8\naccount: {}\naccount_type: {}\noperator: \"Bank (fee)\"\ncommodity: CHF", yaml_str(*r.pick(&["Assets:Okane Bank", "Liabilities:Okane Card"])), if liability { "liability" } else { "asset" }).unwrap();
    let date_fmt = *r.pick(&CSV_DATE_FORMATS);
    st.count(&format!("csv_date_format:{}", date_fmt));
    writeln!(y, "format:\n  date: {}", yaml_str(date_fmt)).unwrap();
    // a two-digit year means 1970..2069 to chrono
    let (ylo, yhi) = if date_fmt.contains("%y") { (1970, 2069) } else { (caldate::YEAR_LO, caldate::YEAR_HI) };
    let week = caldate::Window::new(r, ylo, yhi, 6);
    let mut row_date = |r: &mut Rng, st: &mut Stats| -> (String, Option<(i32, u32, u32)>) {
        use chrono::Datelike;
        let d = week.pick(r);
        st.count(&format!("date:csv:{}", caldate::class_of(d)));
        (d.format(date_fmt).to_string(), Some((d.year(), d.month(), d.day())))
    };
    let new_to_old = r.chance(1, 3);
    if new_to_old {
        writeln!(y, "  row_order: new_to_old").unwrap();
    }
    let mut intended: Vec<Intent> = Vec::new();
    // one statement in five has one numeric cell in a notation okane's number grammar does not
    // know, or with trailing junk: it must be refused or that very figure booked
    let junk_row: Option<usize> = if r.chance(1, 5) { Some(r.below(n as u64) as usize) } else { None };
    let junk_col = r.below(3);
    let mut junk: Vec<String> = Vec::new();
    let p = precisions_yaml(r, &["CHF", "EUR", "USD"]);
    y.push_str(&p);
    match layout {
        0 => {
            // amount / balance / note / category / commodity column / charge
            writeln!(y, "  fields:\n    date: Date\n    payee: Payee\n    amount: Amount\n    balance: Balance\n    note: Note\n    category: Cat\n    commodity: Ccy\n    charge: Fee").unwrap();
            t.push_str("Date,Payee,Amount,Balance,Note,Cat,Ccy,Fee\n");
            for k in 0..n {
                let blank = blank_record(r, st);
                let (payee, ptag) = if blank { (String::new(), "empty") } else { text_of(r, junk_row.is_some()) };
                let (note, ntag) = if blank { (String::new(), "empty") } else { text_of(r, junk_row.is_some()) };
                let (ccy, ctag) = comm_of(r, "CHF", junk_row.is_some());
                st.count(&format!("text:payee:{}", ptag));
                st.count(&format!("text:note:{}", ntag));
                st.count(&format!("text:commodity:{}", ctag));
                // an `amount` column is the statement's own figure: negated for a liability account
                let jk = if junk_row == Some(k) { junk_col } else { 99 };
                let (m, sc) = gen_num(r);
                let a: Num = (r.chance(2, 5), m, sc);
                let (amount, a_def) = cell(r, st, a, jk == 0, &mut junk, "amount");
                let (bal, ibal) = if r.chance(1, 2) || jk == 1 {
                    let (m, sc) = gen_num(r);
                    let b: Num = (r.chance(1, 4), m, sc);
                    let (t, def) = cell(r, st, b, jk == 1, &mut junk, "balance");
                    (t, if def { Some(b) } else { None })
                } else {
                    (String::new(), None)
                };
                let (fee, ifee) = if r.chance(1, 4) || jk == 2 {
                    let (m, sc) = gen_num(r);
                    let f: Num = (r.chance(1, 5), m, sc);
                    let (t, def) = cell(r, st, f, jk == 2, &mut junk, "charge");
                    (t, if m == 0 || !def { None } else { Some(f) })
                } else {
                    (String::new(), None)
                };
                let (dtext, idate) = row_date(r, st);
                intended.push(Intent { amount: if a_def { Some((a.0 != liability, a.1, a.2)) } else { None }, balance: ibal, charge: ifee, date: idate, ..Default::default() });
                writeln!(t, "{},{},{},{},{},{},{},{}", csv_field(&dtext), csv_field(&payee), csv_field(&amount), csv_field(&bal), csv_field(&note), csv_field(*r.pick(&["food", "misc"])), csv_field(&ccy), csv_field(&fee)).unwrap();
            }
            writeln!(y, "rewrite:\n  - matcher:\n      payee: \"^Debit (?P<code>[^ ]*) (?P<payee>.*)$\"\n  - matcher:\n      category: food\n    account: Expenses:Food").unwrap();
        }
        1 => {
            // credit / debit, secondary amount with rate (conversion)
            writeln!(y, "  fields:\n    date: Date\n    payee: Payee\n    credit: In\n    debit: Out\n    secondary_amount: SAmt\n    secondary_commodity: SCcy\n    rate: Rate").unwrap();
            t.push_str("Date,Payee,In,Out,SAmt,SCcy,Rate\n");
            for k in 0..n {
                // a blank record has an empty Payee cell: no rule captures a code or a payee
                let blank = blank_record(r, st);
                let (payee, ptag) = if blank { (String::new(), "empty") } else { text_of(r, junk_row.is_some()) };
                st.count(&format!("text:payee:{}", ptag));
                let credit = r.chance(1, 2);
                // usually unsigned; a negative figure in the credit (debit) column is a reversal
                let jk = if junk_row == Some(k) { junk_col } else { 99 };
                let (m, sc) = gen_num(r);
                let an: Num = (r.chance(1, 5), m, sc);
                let (a, a_def) = cell(r, st, an, jk == 0, &mut junk, if credit { "credit" } else { "debit" });
                let conv = r.chance(1, 2) || jk == 1 || jk == 2;
                let (sc, sctag) = if conv { comm_of(r, "EUR", junk_row.is_some()) } else { (String::new(), "none") };
                if conv {
                    st.count(&format!("text:commodity:{}", sctag));
                }
                let sc = if conv && (sc.is_empty() || sc == "CHF") { "EUR".to_string() } else { sc };
                let mut it = Intent { amount: if a_def { Some((an.0 == credit, an.1, an.2)) } else { None }, ..Default::default() };
                let (samt, rate) = if conv {
                    let (m, s2) = gen_num(r);
                    let sn: Num = (r.chance(1, 4), m, s2);
                    let (st_, sdef) = cell(r, st, sn, jk == 1, &mut junk, "secondary_amount");
                    let rn: Num = (false, (r.range(1, 200) * 10000 + r.below(10000) as i64) as u64, 4);
                    let (rt, rdef) = if jk == 2 { cell(r, st, rn, true, &mut junk, "rate") } else { (crate::ledger::num_text(rn.1 as i64, 4, false), true) };
                    if sdef {
                        it.secondary = Some(sn);
                    }
                    if rdef {
                        it.rate = Some(rn);
                    }
                    (st_, rt)
                } else {
                    (String::new(), String::new())
                };
                let (dtext, idate) = row_date(r, st);
                it.date = idate;
                intended.push(it);
                let code_word = if junk_row.is_some() { *r.pick(&["1234", "77", "12"]) } else { *r.pick(&["1234", "A)B", "", "77", "Z-9", "8/8", "x;y", "12"]) };
                let payee_cell = if blank { String::new() } else { format!("Debit {} {}", code_word, payee) };
                writeln!(t, "{},{},{},{},{},{},{}", csv_field(&dtext), csv_field(&payee_cell),
                    csv_field(if credit { &a } else { "" }), csv_field(if credit { "" } else { &a }),
                    csv_field(&samt), csv_field(&sc), csv_field(&rate)).unwrap();
            }
            writeln!(y, "rewrite:\n  - matcher:\n      payee: \"(?s)^Debit (?P<code>[^ ]*) (?P<payee>.*)$\"\n  - matcher:\n      payee: Okane\n    account: Assets:Wire\n    pending: true").unwrap();
        }
        _ => {
            // template payee from category and note
            writeln!(y, "  fields:\n    date: Date\n    payee:\n      template: \"{{category}} - {{note}}\"\n    category: Action\n    note: Description\n    amount: Amount").unwrap();
            t.push_str("Date,Action,Description,Amount\n");
            for k in 0..n {
                let (cat, ctag) = text_of(r, junk_row.is_some());
                let (note, ntag) = text_of(r, junk_row.is_some());
                st.count(&format!("text:category:{}", ctag));
                st.count(&format!("text:note:{}", ntag));
                let (m, sc) = gen_num(r);
                let a: Num = (r.chance(2, 5), m, sc);
                let (at, a_def) = cell(r, st, a, junk_row == Some(k), &mut junk, "amount");
                let (dtext, idate) = row_date(r, st);
                intended.push(Intent { amount: if a_def { Some((a.0 != liability, a.1, a.2)) } else { None }, date: idate, ..Default::default() });
                writeln!(t, "{},{},{},{}", csv_field(&dtext), csv_field(&cat), csv_field(&note), csv_field(&at)).unwrap();
            }
        }
    }
    if new_to_old {
        intended.reverse();
    }
    Run { importer: "csv".into(), path: "in.csv".into(), input: t, yaml: y, records: n, must_import: junk.is_empty(), intended, junk }
}


/// single_entry::one_line as the statement's reader would do it by hand: line breaks are spaces,
/// outer white space (Unicode White_Space, as str::trim) is dropped
fn one_line(s: &str) -> String {
    s.replace(['\r', '\n'], " ").trim().to_string()
}

/// RFC 4180 writer: a cell is quoted only when it has to be (it holds the delimiter, a double
/// quote or a line break) - or, now and then, although it need not be; a cell that merely
/// *begins* with `#`, `'`, `;`, `=`, a space, a tab or U+FEFF is written bare
fn rfc_field(r: &mut Rng, s: &str, delim: char) -> String {
    if s.contains(delim) || s.contains('"') || s.contains('\n') || s.contains('\r') || r.chance(1, 6) {
        format!("\"{}\"", s.replace('"', "\"\""))
    } else {
        s.to_string()
    }
}

/// A free-text cell beginning with a character some CSV dialect (or spreadsheet) treats
/// specially: comment marks, quotes, the other delimiters, formula triggers, white space, a byte
/// order mark; or an empty cell.  (text, class)
fn special_start_text(r: &mut Rng) -> (String, &'static str) {
    let (rest, _) = if r.chance(1, 4) { adv_text(r) } else { (r.pick(&BENIGN).to_string(), "benign") };
    let rest = if rest.is_empty() { "x".to_string() } else { rest };
    let (lead, class): (&str, &'static str) = match r.below(20) {
        0..=3 => (*r.pick(&["#", "# ", "#1 ", "##"]), "hash"),
        4 => ("\"", "double_quote"),
        5 => ("'", "apostrophe"),
        6 => (";", "semicolon"),
        7 => ("=", "equals"),
        8 => (*r.pick(&["+", "-", "@"]), "formula_sign"),
        9 => (" ", "space"),
        10 => ("\t", "tab"),
        11 => ("\u{feff}", "byte_order_mark"),
        12 => (*r.pick(&["//", "%", "!", "*", "--", "|", ",", "\\"]), "other_mark"),
        13 => return (String::new(), "empty"),
        14 => return ((*r.pick(&["#", "\"", "'", ";", "=", " ", "\t", "\u{feff}", "\"\"", "# #"])).to_string(), "mark_only"),
        _ => ("", "plain"),
    };
    (format!("{}{}", lead, rest), class)
}

/// CSV statements whose FIRST column is free text (payee or note) - the date sits in a later
/// column - written under one of four delimiters by an RFC 4180 writer; text cells begin with
/// characters CSV dialects treat specially.  The generator states for each record its date, payee
/// and amount: the number and the content of the transactions read back are checked against it.
fn gen_csv_text_first(r: &mut Rng, st: &mut Stats) -> Run {
    use chrono::Datelike;
    let n = 1 + r.below(5) as usize;
    let liability = r.chance(1, 3);
    let delim: char = *r.pick(&[',', ',', ';', '\t', '|']);
    let date_fmt = *r.pick(&CSV_DATE_FORMATS);
    st.count("csv_layout:text_first");
    st.count(&format!("csv_date_format:{}", date_fmt));
    st.count(&format!("csv_delimiter:{:?}", delim));
    let (ylo, yhi) = if date_fmt.contains("%y") { (1970, 2069) } else { (caldate::YEAR_LO, caldate::YEAR_HI) };
    let week = caldate::Window::new(r, ylo, yhi, 6);
    // columns: 0 payee, 1 note, 2 date, 3 amount, 4 balance, 5 a column the configuration ignores
    let first = if r.chance(2, 3) { 0usize } else { 1 };
    let mut rest: Vec<usize> = vec![if first == 0 { 1 } else { 0 }, 2, 3];
    if r.chance(1, 2) {
        rest.push(4);
    }
    if r.chance(1, 3) {
        rest.push(5);
    }
    r.shuffle(&mut rest);
    let mut cols = vec![first];
    cols.extend(rest);
    // labels; the first one may itself begin with a special character
    let first_label = match r.below(8) {
        0 => format!("#{}", if first == 0 { "Payee" } else { "Text" }),
        1 => "# of record".to_string(),
        2 => (*r.pick(&["=Payee", "'Payee", ";Payee", " Payee", "\"Payee\""])).to_string(),
        _ => (if first == 0 { "Payee" } else { "Text" }).to_string(),
    };
    if first_label != "Payee" && first_label != "Text" {
        st.count("csv_first_label:special");
    }
    let label = |c: usize| -> String {
        if c == first {
            first_label.clone()
        } else {
            ["Payee", "Text", "Booked", "Amount", "Saldo", "Ref"][c].to_string()
        }
    };
    let by_index = r.chance(1, 3);
    let pos = |c: usize| -> String {
        let i = cols.iter().position(|x| *x == c).unwrap();
        if by_index {
            format!("{}", i + 1)
        } else {
            yaml_str(&label(c))
        }
    };
    let new_to_old = r.chance(1, 3);
    let mut y = String::new();
    writeln!(y, "path: in.csv\nencoding: UTF-8\naccount: {}\naccount_type: {}\noperator: \"Bank (fee)\"\ncommodity: CHF", yaml_str(*r.pick(&["Assets:Okane Bank", "Liabilities:Okane Card"])), if liability { "liability" } else { "asset" }).unwrap();
    writeln!(y, "format:\n  date: {}", yaml_str(date_fmt)).unwrap();
    if delim != ',' || r.chance(1, 2) {
        writeln!(y, "  delimiter: {}", yaml_str(&delim.to_string())).unwrap();
    }
    if new_to_old {
        writeln!(y, "  row_order: new_to_old").unwrap();
    }
    y.push_str(&precisions_yaml(r, &["CHF"]));
    writeln!(y, "  fields:\n    payee: {}\n    note: {}\n    date: {}\n    amount: {}", pos(0), pos(1), pos(2), pos(3)).unwrap();
    if cols.contains(&4) {
        writeln!(y, "    balance: {}", pos(4)).unwrap();
    }
    // rules that give an account but never a payee: the payee booked is the statement's text
    writeln!(y, "rewrite:\n  - matcher:\n      payee: \"(?i)migros|coop\"\n    account: Expenses:Grocery\n  - matcher:\n      payee: \"Okane\"\n    account: Assets:Wire\n    pending: true").unwrap();
    let ds = delim.to_string();
    let mut t = String::new();
    // one export in ten begins with a byte order mark
    if r.chance(1, 10) {
        st.count("csv_file:byte_order_mark");
        t.push('\u{feff}');
    }
    let head: Vec<String> = cols.iter().map(|c| rfc_field(r, &label(*c), delim)).collect();
    t.push_str(&head.join(&ds));
    t.push('\n');
    let mut intended: Vec<Intent> = Vec::new();
    for _ in 0..n {
        // a blank record: payee and note cells both empty or white space only
        let blank = blank_record(r, st);
        let blank_cell = |r: &mut Rng| -> (String, &'static str) {
            if r.chance(2, 3) {
                (String::new(), "empty")
            } else {
                ((*r.pick(&[" ", "\t", "  "])).to_string(), "mark_only")
            }
        };
        let (payee, pclass) = if blank { blank_cell(r) } else { special_start_text(r) };
        let (note, nclass) = if blank { blank_cell(r) } else { special_start_text(r) };
        st.count(&format!("csv_first_cell:{}", if first == 0 { pclass } else { nclass }));
        st.count(&format!("text:payee:start_{}", pclass));
        st.count(&format!("text:note:start_{}", nclass));
        let d = week.pick(r);
        st.count(&format!("date:csv:{}", caldate::class_of(d)));
        let (m, sc) = gen_num(r);
        let a: Num = (r.chance(2, 5), m, sc);
        let amount = money_cell(r, st, a);
        let bal = if r.chance(2, 3) {
            let (m, sc) = gen_num(r);
            let b: Num = (r.chance(1, 4), m, sc);
            (money_cell(r, st, b), Some(b))
        } else {
            (String::new(), None)
        };
        let junk_col = (*r.pick(&["", "#ref", "r 1", "=1+1"])).to_string();
        let cells: Vec<String> = cols
            .iter()
            .map(|c| match c {
                0 => payee.clone(),
                1 => note.clone(),
                2 => d.format(date_fmt).to_string(),
                3 => amount.clone(),
                4 => bal.0.clone(),
                _ => junk_col.clone(),
            })
            .collect();
        let written: Vec<String> = cells.iter().map(|c| rfc_field(r, c, delim)).collect();
        if written[0].starts_with('#') {
            st.count("csv_record_line_starts_with:#");
        }
        t.push_str(&written.join(&ds));
        t.push_str(if r.chance(1, 8) { "\r\n" } else { "\n" });
        intended.push(Intent {
            amount: Some((a.0 != liability, a.1, a.2)),
            balance: if cols.contains(&4) { bal.1 } else { None },
            date: Some((d.year(), d.month(), d.day())),
            payee: Some(one_line(&payee)),
            ..Default::default()
        });
    }
    if new_to_old {
        intended.reverse();
    }
    Run { importer: "csv".into(), path: "in.csv".into(), input: t, yaml: y, records: n, intended, junk: vec![], must_import: true }
}

// ---------- Viseca ----------

fn gen_viseca(r: &mut Rng, st: &mut Stats) -> Run {
    let n = 1 + r.below(3) as usize;
    let mut t = String::new();
    for _ in 0..n {
        let (mut payee, ptag) = adv_text(r);
        if payee.contains('\n') || payee.contains('\r') {
            payee = payee.replace(['\n', '\r'], " ");
        }
        if payee.is_empty() {
            payee = "x".into();
        }
        st.count(&format!("text:payee:{}", ptag));
        // dd.mm.yy: chrono reads a two-digit year as 1970..2069
        let date = caldate::gen_anchor(r, 1970, 2069, 1, 1);
        let edate = date + chrono::Duration::days(if r.chance(1, 4) { 0 } else { 1 });
        st.count(&format!("date:viseca:{}", caldate::class_of(date)));
        st.count(&format!("date:viseca effective:{}", caldate::class_of(edate)));
        let (d, e) = (date.format("%d.%m.%y").to_string(), edate.format("%d.%m.%y").to_string());
        let amount = format!("{}.{:02}", r.range(0, 2500), r.below(100));
        match r.below(3) {
            0 => {
                writeln!(t, "{} {} {} {}{}", d, e, payee, amount, if r.chance(1, 4) { " -" } else { "" }).unwrap();
                writeln!(t, "{}", r.pick(&["Telecommunication services", "Service stations; misc", ":tag:"])).unwrap();
            }
            1 => {
                writeln!(t, "{} {} {} EUR {}.{:02} {}", d, e, payee, r.range(1, 900), r.below(100), amount).unwrap();
                writeln!(t, "Service stations").unwrap();
                writeln!(t, "Exchange rate 1.092432 of {} CHF {}.{:02}", d, r.range(1, 900), r.below(100)).unwrap();
                writeln!(t, "Processing fee 1.75% CHF 0.{:02}", r.below(100)).unwrap();
            }
            _ => {
                writeln!(t, "{} {} {} CHF {}.{:02} {}", d, e, payee, r.range(1, 900), r.below(100), amount).unwrap();
                writeln!(t, "Game, toy, and hobby shops").unwrap();
                writeln!(t, "Processing fee 1.75% CHF 0.{:02}", r.below(100)).unwrap();
            }
        }
    }
    let mut y = String::new();
    writeln!(y, "path: in.txt\nencoding: UTF-8\naccount: \"Liabilities:Okane Card\"\naccount_type: liability\noperator: \"Okane Card (fee)\"\ncommodity: CHF").unwrap();
    let p = precisions_yaml(r, &["CHF", "EUR"]);
    if !p.is_empty() {
        writeln!(y, "format:\n{}", p.trim_end()).unwrap();
    }
    writeln!(y, "rewrite:\n  - matcher:\n      category: Telecommunication\n    account: Expenses:Telecom\n  - matcher:\n      payee: Okane\n    account: Assets:Wire\n    pending: true").unwrap();
    Run { importer: "viseca".into(), path: "in.txt".into(), input: t, yaml: y, records: n, intended: vec![], junk: vec![], must_import: false }
}

// ---------- observation ----------

#[derive(Clone, Debug)]
pub enum Item {
    Txn(TxObs),
    Other(String),
}

#[derive(Clone, Debug)]
pub enum Parsed {
    Items(Vec<Item>, Option<String>),
    Hang,
    Panic(String),
}

/// parse_ledger over the whole printed output; stops at the first error.  Runs on a helper
/// thread with a watchdog: a parser that spins is reported as an observation (the thread is
/// abandoned; it dies with the process).
pub fn read_back(text: &str) -> Parsed {
    let (tx, rx) = std::sync::mpsc::channel();
    let owned = text.to_string();
    std::thread::spawn(move || {
        let r = std::panic::catch_unwind(|| {
            let mut items = Vec::new();
            let mut err = None;
            for e in parse_ledger::<plain::Ident>(&ParseOptions::default(), &owned) {
                match e {
                    Ok((_, plain::LedgerEntry::Txn(t))) => match imptree::tx_obs(&t) {
                        Ok(o) => items.push(Item::Txn(o)),
                        Err(m) => items.push(Item::Other(m)),
                    },
                    Ok((_, other)) => items.push(Item::Other(format!("{:?}", other).chars().take(80).collect())),
                    Err(e) => {
                        err = Some(format!("{}", e));
                        break;
                    }
                }
            }
            Parsed::Items(items, err)
        });
        let _ = tx.send(r.unwrap_or_else(|p| Parsed::Panic(p.downcast_ref::<String>().cloned().unwrap_or_default())));
    });
    match rx.recv_timeout(std::time::Duration::from_secs(10)) {
        Ok(p) => p,
        Err(_) => Parsed::Hang,
    }
}

fn expected_scale(a: &imptree::AmtObs, prec: &[(String, u8)]) -> u32 {
    let p = prec.iter().find(|(k, _)| *k == a.comm).map(|(_, v)| *v as u32).unwrap_or(0);
    let mut d = rust_decimal::Decimal::from_i128_with_scale(a.v.mant as i128, a.v.scale);
    d.rescale(std::cmp::max(a.v.scale, p.min(28)));
    d.scale()
}

fn same_amt(a: &imptree::AmtObs, b: &imptree::AmtObs, prec: &[(String, u8)]) -> bool {
    let da = rust_decimal::Decimal::from_i128_with_scale(a.v.mant as i128, a.v.scale);
    let db = rust_decimal::Decimal::from_i128_with_scale(b.v.mant as i128, b.v.scale);
    let sign_ok = a.v.mant == 0 || a.v.neg == b.v.neg;
    a.comm == b.comm && da == db && sign_ok && b.v.scale == expected_scale(a, prec)
}

/// the implementation-level reading of the property on one transaction (for the distribution
/// figures; the verdict is computed in Coq from the same data)
pub fn same_txn(a: &TxObs, b: &TxObs, prec: &[(String, u8)]) -> Result<(), &'static str> {
    if a.date != b.date {
        return Err("date");
    }
    if a.edate != b.edate {
        return Err("effective_date");
    }
    if a.clear != b.clear {
        return Err("clear_state");
    }
    if a.code != b.code {
        return Err("code");
    }
    if a.payee != b.payee {
        return Err("payee");
    }
    if a.meta != b.meta {
        return Err("metadata");
    }
    if a.posts.len() != b.posts.len() {
        return Err("posting_count");
    }
    for (p, q) in a.posts.iter().zip(b.posts.iter()) {
        if p.account != q.account {
            return Err("account");
        }
        if p.clear != q.clear {
            return Err("posting_clear_state");
        }
        match (&p.amount, &q.amount) {
            (None, None) => {}
            (Some((x, cx)), Some((z, cz))) => {
                if !same_amt(x, z, prec) {
                    return Err("amount");
                }
                match (cx, cz) {
                    (None, None) => {}
                    (Some(u), Some(v)) if same_amt(u, v, prec) => {}
                    _ => return Err("cost"),
                }
            }
            _ => return Err("amount_presence"),
        }
        match (&p.balance, &q.balance) {
            (None, None) => {}
            (Some(u), Some(v)) if same_amt(u, v, prec) => {}
            _ => return Err("balance"),
        }
        if p.meta != q.meta {
            return Err("posting_metadata");
        }
    }
    Ok(())
}

fn width_term(t: &TxObs) -> String {
    // display width (unicode-width crate, an oracle of the layout) of each posting's account
    coq::list(t.posts.iter().map(|p| format!("{}", UnicodeWidthStr::width_cjk(p.account.as_str()))))
}

fn item_term(i: &Item) -> String {
    match i {
        Item::Txn(t) => format!("(ITxn {})", imptree::tx_term(t)),
        Item::Other(_) => "IOther".to_string(),
    }
}

pub fn emit(sh: &mut Shards, st: &mut Stats, run: &Run, source: &str, nontrivial: bool) {
    let fmt = format_of(&run.importer);
    let r = imptree::run_import(run.input.as_bytes(), &run.yaml, &run.path, fmt);
    st.count(&format!("gen:{}", source));
    st.count(&format!("importer:{}", run.importer));
    let imp = match r {
        ImportRun::Ok(i) => i,
        ImportRun::Err(d, _) => {
            // not a transaction-producing run: nothing was printed, nothing to read back
            st.count(&format!("impl:import_error:{}", d.chars().take(40).collect::<String>()));
            if !run.junk.is_empty() || run.must_import {
                // a statement with a cell that is not a number of okane's grammar was refused: a case
                // of its own (nothing printed, so nothing misread; the model of str_to_comma_decimal
                // must refuse one of the cells, and the error must be the number error).  A refused
                // statement WITHOUT such a cell is a case as well: every generated CSV statement without one is a
                // statement the importer is meant to read, so the classifier finds no cell that explains the
                // refusal (ModelMismatch) - a record swallowed as the header, say
                let code = if d.contains("failed to parse comma decimal") { 10 } else { 99 };
                if run.junk.is_empty() {
                    st.count("impl:refused_statement_without_junk_cell");
                }
                st.eval(&(&run.input, &run.yaml), nontrivial);
                if !run.junk.is_empty() {
                    st.count(&format!("impl:refused_statement_with_junk_cell:kind{}", code));
                }
                let rep = json!({"property": "C15", "run": serde_json::to_value(run).unwrap(), "impl": {"import_error": d},
                    "reproduce": "write run.input to in.csv and run.yaml to cfg.yml; okane import --config cfg.yml in.csv"});
                sh.push(format!("CRefused {} {}", coq::list(run.junk.iter().map(|c| coq::bytes_list(c.as_bytes()))), code), vec![rep]);
            }
            return;
        }
        ImportRun::BadConfig(m) => {
            st.count("impl:bad_config");
            eprintln!("bad config: {}\n{}", m, run.yaml);
            return;
        }
        ImportRun::Panic(m) => {
            st.eval(&(&run.input, &run.yaml), nontrivial);
            st.count("impl:import_panic");
            let rep = json!({"property": "C15", "run": serde_json::to_value(run).unwrap(), "impl": {"import_panic": m}});
            sh.push("CPanic".to_string(), vec![rep]);
            return;
        }
    };
    let mut trees = Vec::new();
    let mut text = String::new();
    let mut outside = None;
    for (t, s) in &imp.txns {
        match t {
            Ok(t) => trees.push(t.clone()),
            Err(m) => outside = Some(m.clone()),
        }
        text.push_str(s);
    }
    if outside.is_some() {
        st.count("impl:tree_outside_shape");
        return;
    }
    st.eval(&(&run.input, &run.yaml), nontrivial);
    let parsed = read_back(&text);
    // distribution: the property on the implementation level
    let outcome = match &parsed {
        Parsed::Hang => "hang".to_string(),
        Parsed::Panic(_) => "panic".to_string(),
        Parsed::Items(items, err) => {
            let mut res = String::from("roundtrip_ok");
            for (k, t) in trees.iter().enumerate() {
                match items.get(k) {
                    Some(Item::Txn(p)) => {
                        if let Err(why) = same_txn(t, p, &imp.precisions) {
                            res = format!("differs:{}", why);
                            break;
                        }
                    }
                    Some(Item::Other(_)) => {
                        res = "differs:not_a_transaction".into();
                        break;
                    }
                    None => {
                        res = if err.is_some() { "differs:parse_error".into() } else { "differs:missing_transaction".into() };
                        break;
                    }
                }
            }
            if res == "roundtrip_ok" {
                if items.len() > trees.len() {
                    res = "differs:extra_entries".into();
                } else if err.is_some() {
                    res = "differs:parse_error_after".into();
                } else if trees.len() != run.records {
                    res = "differs:record_count".into();
                }
            }
            res
        }
    };
    st.count(&format!("impl:{}", outcome));
    st.add("shape:transactions", trees.len() as u64);
    st.add("shape:text_bytes", text.len() as u64);
    let parsed_term = match &parsed {
        Parsed::Hang => "RHang".to_string(),
        Parsed::Panic(_) => "RPanic".to_string(),
        Parsed::Items(items, err) => format!("(RItems {} {})", coq::list(items.iter().map(item_term)), coq::bool_(err.is_some())),
    };
    let parsed_json = match &parsed {
        Parsed::Hang => json!("hang"),
        Parsed::Panic(m) => json!({ "panic": m }),
        Parsed::Items(items, err) => json!({"entries": items.iter().map(|i| match i { Item::Txn(t) => imptree::tx_json(t), Item::Other(m) => json!({"other": m}) }).collect::<Vec<_>>(), "error": err}),
    };
    let rep = json!({"property": "C15", "run": serde_json::to_value(run).unwrap(), "printed": text,
        "built": trees.iter().map(imptree::tx_json).collect::<Vec<_>>(), "read_back": parsed_json, "outcome": outcome,
        "reproduce": "write run.input to in.xml|in.csv|in.txt and run.yaml to cfg.yml; okane import --config cfg.yml <file> > out.ledger; okane format out.ledger"});
    if st.samples.len() < 2 || (st.samples.len() < 5 && outcome != "roundtrip_ok" && text.len() < 1500) {
        st.sample(rep.clone(), 5);
    }
    let num_term = |n: &Option<Num>| coq::opt(n.as_ref().map(|(neg, m, s)| format!("(mkd {} {} {})", coq::bool_(*neg), m, s)));
    let intents = coq::list(run.intended.iter().map(|i| {
        format!(
            "(INT {} {} {} {} {} {} {})",
            num_term(&i.amount),
            num_term(&i.balance),
            num_term(&i.charge),
            num_term(&i.rate),
            num_term(&i.secondary),
            coq::opt(i.date.as_ref().map(imptree::date_term)),
            coq::opt(i.payee.as_ref().map(|p| imptree::str_term(p)))
        )
    }));
    if !run.intended.is_empty() {
        st.count("runs_with_intended_values");
    }
    let term = format!(
        "CRun {} {} {} {} {} {} {} {}",
        coq::list(imp.precisions.iter().map(|(k, v)| format!("({}, {}%nat)", imptree::str_term(k), v))),
        imptree::str_term(&imp.account),
        intents,
        run.records,
        coq::list(trees.iter().map(imptree::tx_term)),
        coq::list(trees.iter().map(width_term)),
        imptree::str_term(&text),
        parsed_term
    );
    sh.push(term, vec![rep]);
}

fn corpus_runs(dir: &std::path::Path, extra: &[String]) -> (Vec<Run>, bool) {
    let mut files: Vec<std::path::PathBuf> = Vec::new();
    let mut replay = false;
    if let Some(i) = extra.iter().position(|a| a == "--replay") {
        replay = true;
        if let Some(p) = extra.get(i + 1) {
            files.push(p.into());
        }
    } else if let Ok(rd) = std::fs::read_dir(dir) {
        files = rd.filter_map(|e| e.ok()).map(|e| e.path()).collect();
        files.sort();
    }
    let mut out = Vec::new();
    for p in files {
        if let Ok(text) = std::fs::read_to_string(&p) {
            if let Ok(v) = serde_json::from_str::<serde_json::Value>(&text) {
                if let Some(c) = v.get("run") {
                    if let Ok(c) = serde_json::from_value::<Run>(c.clone()) {
                        out.push(c);
                    }
                }
            }
        }
    }
    (out, replay)
}

fn format_of(importer: &str) -> okane::import::Format {
    match importer {
        "camt" => okane::import::Format::IsoCamt053,
        "csv" => okane::import::Format::Csv,
        _ => okane::import::Format::Viseca,
    }
}

/// the statements and configuration of cli/tests/testdata/import (real files of the repository)
fn testdata_runs() -> Vec<Run> {
    let dir = std::path::Path::new("/repo/cli/tests/testdata/import");
    let mut out = Vec::new();
    let yaml = match std::fs::read_to_string(dir.join("test_config.yml")) {
        Ok(c) => c,
        Err(_) => return out,
    };
    for (f, imp) in [("iso_camt.xml", "camt"), ("index_amount.csv", "csv"), ("label_credit_debit.csv", "csv"), ("csv_template.csv", "csv"), ("csv_multi_currency.csv", "csv"), ("viseca.txt", "viseca")] {
        if let Ok(input) = std::fs::read_to_string(dir.join(f)) {
            let mut run = Run { importer: imp.into(), path: f.into(), input, yaml: yaml.clone(), records: 0, intended: vec![], junk: vec![], must_import: false };
            // the number of records is read off the output itself for the repository's own files
            if let ImportRun::Ok(i) = imptree::run_import(run.input.as_bytes(), &run.yaml, &run.path, format_of(imp)) {
                run.records = i.txns.len();
            }
            out.push(run);
        }
    }
    out
}

pub fn run(o: &Opts) {
    let mut st = Stats::new();
    // smaller files in the thorough tier: coqc memory grows with the size of the case literal
    let mut sh = Shards::new(&o.out, if o.thorough { o.shards * 6 } else { o.shards }, HEADER);
    st.rule = "statement files for the three importers (Camt053 XML with payee captured from AddtlTxInf/AddtlNtryInf, code from AcctSvcrRef, currency attribute, charges, foreign amounts with rates; CSV in three date-first layouts: amount/balance/note/category/commodity/charge columns, credit/debit with secondary amount and rate, template payee - and, for a third of the CSV statements, a text-first layout: the FIRST column is the payee or the note, date / amount / balance / an ignored column follow in random order, fields by label or by index, first label possibly `#Payee` `# of record` `=Payee`, delimiter , ; tab or |, written by an RFC 4180 writer that quotes only what must be quoted, CRLF now and then, one file in ten behind a byte order mark; its payee and note cells begin with `#` `# ` `##` `\"` `\'` `;` `=` `+` `-` `@` space, tab, U+FEFF, `//` `%` `!` `*` `|` `,` `\\`, are such a mark alone, or are empty; Viseca text); one record in ten carries no text at all - no payee, no code / reference, no note - so that the header is printed as `DATE * ` with the postings directly below (record:no_payee_no_code_no_note); every record is dated on purpose (harness/src/caldate.rs): a quarter in the days around New Year whose ISO week belongs to the neighbouring year, 1 January / 31 December, 29 February and the 28 February / 1 March of 1900 and 2100, month ends and starts, 1900-01-01 / 2100-12-31 / 1970-01-01 / 2038-01-19 / 2069-12-31, else uniform over 1900-2100 (1970-2069 where the year has two digits: Viseca, CSV `%d.%m.%y`), the records of one statement within a week that reaches or crosses the drawn day; CSV dates under %Y-%m-%d, %Y/%m/%d, %d.%m.%Y, %m/%d/%Y, %d.%m.%y, `%d %b %Y`; Camt053 dates as Dt or (1 in 8) DtTm with offsets up to +14:00 / -12:00; the generator's own date for each CSV record - and in the text-first layout its payee as one line - is checked against the transaction read back, and a statement without a junk cell that the importer refuses is a case (ModelMismatch); whose text fields are drawn from an adversarial pool (`;`, LF/CR/CRLF, injected transaction text, leading `(` `*` `!`, double space, tab, `:tag:`, `key: value`, non-ASCII, outer white space incl. U+3000/U+00A0, 2 kB fields, empty) with varied amounts (grouping commas, scales 0-5; CSV amount / credit / debit / balance / charge / secondary-amount cells bare, commodity-suffixed or prefixed with `$` / a currency code and the minus sign before or after the prefix: -$1.46, $-1,950.25, -USD 5, USD -5; the generator's own figure for each cell - also the rate and the secondary amount of a converted record - is checked against the transaction read back; one CSV statement in five has one amount / credit / debit / balance / charge / secondary-amount / rate cell in a notation okane's number grammar does not know or with trailing junk (6'540.35, 1 234.56, 12.50-, (12.50), +12.50, 1.234,56, 12,50, 1,23,456.78, 12..5, 12.50*, 5 USD EUR, --5, 1.5e0, 12.5x): refused, or read back as that very figure) and configured precisions 0-30; import + to_double_entry, printed as ImportCmd does, re-read with parse_ledger; non-trivial = some text field holds a character outside [A-Za-z0-9 ]; distinct by input + configuration".into();
    st.assumptions.push("account names and the operator (charge payee) come from the configuration and are well-formed account names / plain text; only statement-file text is adversarial".into());
    st.assumptions.push("amount fields of the Camt053 and Viseca statement files are valid numbers; CSV cells may be in a foreign notation or carry trailing junk, never a notation that okane's grammar reads as a different number (1,234 for 1.234)".into());
    let (corpus, replay) = corpus_runs(&o.corpus, &o.extra);
    for c in &corpus {
        emit(&mut sh, &mut st, c, "corpus", true);
    }
    if !replay {
        for c in testdata_runs() {
            emit(&mut sh, &mut st, &c, "testdata", true);
        }
        let mut r = Rng::new(o.seed, 1501);
        let n = if o.thorough { 12000 } else { 1200 };
        for _ in 0..n {
            let before: u64 = st.dist.iter().filter(|(k, _)| k.starts_with("text:") && !k.ends_with(":benign") && !k.ends_with(":none")).map(|(_, v)| *v).sum();
            let run = match r.below(10) {
                0..=3 => gen_camt(&mut r, &mut st),
                4..=7 => gen_csv(&mut r, &mut st),
                _ => gen_viseca(&mut r, &mut st),
            };
            let after: u64 = st.dist.iter().filter(|(k, _)| k.starts_with("text:") && !k.ends_with(":benign") && !k.ends_with(":none")).map(|(_, v)| *v).sum();
            emit(&mut sh, &mut st, &run, "random", after > before);
        }
    }
    sh.finish(&st);
    let _ = camtgen::shape;
}
