(* C18 classifier: 0 Agree | 1 ModelMismatch | 2 PropertyFail | 9 harness error.
   A case is a deserialised Camt053 document (with the extractor's fragments), the configuration,
   and what the implementation did: the transactions `import` + `to_double_entry` built and what
   report::process made of funding + the text `okane import` prints.
   spec_holds re-derives the property from the statement and the observation (Model/CamtSpec.v),
   without running Model/Camt.v's import; the comparison with the model comes second. *)
From Coq Require Import List NArith ZArith Bool QArith Qcanon.
From Okv Require Import Base.Maps Base.Dec Model.Amount Model.Book Model.Lit Model.SingleEntry2
  Model.Camt Model.CamtBook Model.CamtSpec.
Import ListNotations.
Open Scope N_scope.

(* ---- constructors the harness prints ---- *)
Definition DT (y m d : N) : date := {| d_y := y; d_m := m; d_d := d |}.
Definition XA (ng : bool) (m : N) (s : nat) (ccy : str) : xamount := {| xa_value := mkd ng m s; xa_ccy := ccy |}.
Definition CR (a : xamount) (cd : cdind) (incl : bool) : charge_record :=
  {| cr_amount := a; cr_cd := cd; cr_included := incl |}.
(* the rules of the C18 statements capture no code (C17 runs those) *)
Definition FR (p a : option str) (cl : bool) : fragment :=
  {| f_payee := p; f_account := a; f_cleared := cl; f_code := None |}.
Definition CX (src tgt : str) (ng : bool) (m : N) (s : nat) : cexchange :=
  {| cx_src := src; cx_tgt := tgt; cx_rate := mkd ng m s |}.
Definition AD (a : xamount) (x : option cexchange) : amount_details := {| ad_amount := a; ad_exchange := x |}.
Definition TD (r : option str) (a : xamount) (cd : cdind) (ad : option amount_details)
              (ch : list charge_record) (f : fragment) : detail :=
  {| td_ref := r; td_amount := a; td_cd := cd; td_details := ad; td_charges := ch; td_frag := f |}.
Definition EN (a : xamount) (cd : cdind) (bk : date) (vd : option date) (ch : list charge_record)
              (ds : list detail) (f : fragment) : entry :=
  {| en_amount := a; en_cd := cd; en_booking := bk; en_value := vd; en_charges := ch;
     en_details := ds; en_frag := f |}.
Definition BL (c : bal_code) (a : xamount) (cd : cdind) : balance := {| b_code := c; b_amount := a; b_cd := cd |}.
Definition ST (bs : list balance) (es : list entry) : statement := {| st_balances := bs; st_entries := es |}.
Definition CF (op : option str) (n2o : bool) : config := {| cf_operator := op; cf_new_to_old := n2o |}.

Definition SA (ng : bool) (m : N) (s : nat) (c : str) : samount := {| sa_value := mkd ng m s; sa_comm := c |}.
Definition PA (a : samount) (cost : option samount) : pamount := {| pa_amount := a; pa_cost := cost |}.
Definition PO (a : str) (c : clear) (amt : option pamount) (b : option samount) (m : list metadata) : sposting :=
  {| sp_account := a; sp_clear := c; sp_amount := amt; sp_balance := b; sp_meta := m |}.
Definition TX (d : date) (e : option date) (c : clear) (code : option str) (payee : str)
              (m : list metadata) (ps : list sposting) : stxn :=
  {| tr_date := d; tr_edate := e; tr_clear := c; tr_code := code; tr_payee := payee; tr_meta := m; tr_posts := ps |}.

(* what report::process did with funding + printed import output *)
Inductive pobs :=
| PAccepted (final : list (str * pdec))      (* the account's balance, by commodity name *)
| PRejected (kind : N) (entry : nat)         (* kind: 1 EvalFailure 2 BalanceFailure 3 Undeducible 4 Unbalanced
                                                5 BalanceAssertion 6 ZeroAmountWithExchange 7 ZeroExchangeRate
                                                8 ExchangeWithAmountCommodity 9 other; entry: index in the file *)
| PPanic.
Inductive obs :=
| OOk (txns : list stxn) (p : pobs)
| OErr (kind : N)                            (* 1 same-commodity rate 2 two rates 3 charge commodity
                                                4 transferred already set 5 no operator 9 other *)
| OPanic.

Record case := { c_cfg : config; c_acct : str; c_doc : document; c_obs : obs }.
Definition C (cfg : config) (acct : str) (doc : document) (o : obs) : case :=
  {| c_cfg := cfg; c_acct := acct; c_doc := doc; c_obs := o |}.

(* ---- equality ---- *)
Definition pdec_eqb (a b : pdec) : bool :=
  Bool.eqb (neg a) (neg b) && (mant a =? mant b) && Nat.eqb (scale a) (scale b)
  && match pfmt a, pfmt b with
     | None, None => true | Some Plain, Some Plain => true | Some Comma3Dot, Some Comma3Dot => true
     | _, _ => false
     end.
Definition opt_eqb {A} (f : A -> A -> bool) (a b : option A) : bool :=
  match a, b with Some x, Some y => f x y | None, None => true | _, _ => false end.
Fixpoint list_eqb {A} (f : A -> A -> bool) (a b : list A) : bool :=
  match a, b with
  | [], [] => true
  | x :: r, y :: s => f x y && list_eqb f r s
  | _, _ => false
  end.
Definition clear_eqb (a b : clear) : bool :=
  match a, b with Uncleared, Uncleared => true | Cleared, Cleared => true | Pending, Pending => true | _, _ => false end.
Definition samount_eqb (a b : samount) : bool := pdec_eqb (sa_value a) (sa_value b) && str_eqb (sa_comm a) (sa_comm b).
Definition pamount_eqb (a b : pamount) : bool :=
  samount_eqb (pa_amount a) (pa_amount b) && opt_eqb samount_eqb (pa_cost a) (pa_cost b).
Definition meta_eqb (a b : metadata) : bool :=
  match a, b with
  | MComment x, MComment y => str_eqb x y
  | MKeyValue k v, MKeyValue k' v' => str_eqb k k' && str_eqb v v'
  | MKeyExpr k v, MKeyExpr k' v' => str_eqb k k' && str_eqb v v'
  | MWordTags x, MWordTags y => list_eqb str_eqb x y
  | _, _ => false
  end.
Definition sposting_eqb (a b : sposting) : bool :=
  str_eqb (sp_account a) (sp_account b) && clear_eqb (sp_clear a) (sp_clear b)
  && opt_eqb pamount_eqb (sp_amount a) (sp_amount b) && opt_eqb samount_eqb (sp_balance a) (sp_balance b)
  && list_eqb meta_eqb (sp_meta a) (sp_meta b).
Definition stxn_eqb (a b : stxn) : bool :=
  date_eqb (tr_date a) (tr_date b) && opt_eqb date_eqb (tr_edate a) (tr_edate b)
  && clear_eqb (tr_clear a) (tr_clear b) && opt_eqb str_eqb (tr_code a) (tr_code b)
  && str_eqb (tr_payee a) (tr_payee b) && list_eqb meta_eqb (tr_meta a) (tr_meta b)
  && list_eqb sposting_eqb (tr_posts a) (tr_posts b).

(* ---- the property, from the statement and the observation ---- *)
Definition qeq (a b : Qc) : bool := Qc_eq_bool a b.

Definition acct_posting (acct : str) (t : stxn) : option sposting :=
  find (fun p => str_eqb (sp_account p) acct) (tr_posts t).
Definition posting_value (p : sposting) : option (Qc * str) :=
  match sp_amount p with
  | Some pa => Some (d_value (sa_value (pa_amount pa)), sa_comm (pa_amount pa))
  | None => None
  end.
Definition asserted (acct : str) (t : stxn) : option (Qc * str) :=
  match acct_posting acct t with
  | Some p => match sp_balance p with Some b => Some (d_value (sa_value b), sa_comm b) | None => None end
  | None => None
  end.

(* credit +, debit -, with the statement's magnitude; date rule *)
Definition unit_matches (acct : str) (u : unit_rec) (t : stxn) : bool :=
  let e := unit_entry u in
  date_eqb (tr_date t) (expected_date e)
  && opt_eqb date_eqb (tr_edate t) (expected_edate e)
  && match acct_posting acct t with
     | Some p => match posting_value p with
                 | Some (v, c) => qeq v (unit_value u) && str_eqb c (xa_ccy (unit_amount u))
                 | None => false
                 end
     | None => false
     end.

Definition asserts (acct : str) (t : stxn) (b : balance) : bool :=
  match asserted acct t with
  | Some (v, c) => qeq v (balance_value b) && str_eqb c (xa_ccy (b_amount b))
  | None => false
  end.

Definition opening_matches (acct : str) (first : entry) (ob : balance) (t : stxn) : bool :=
  date_eqb (tr_date t) (expected_date first)
  && asserts acct t ob
  && match acct_posting acct t with
     | Some p => match posting_value p with Some (v, _) => qeq v 0 | None => false end
     | None => false
     end.

Fixpoint units_match (acct : str) (us : list unit_rec) (ts : list stxn) : bool :=
  match us, ts with
  | [], [] => true
  | u :: r, t :: s => unit_matches acct u t && units_match acct r s
  | _, _ => false
  end.

Definition block_len (cfg : config) (st : statement) : nat :=
  (match balance_of st OPBD, st_entries st with Some _, _ :: _ => 1 | _, _ => 0 end
   + length (stmt_units cfg st))%nat.

(* one statement's block of transactions: shape, sign and dates, opening assertion *)
Definition block_ok (cfg : config) (acct : str) (st : statement) (ts : list stxn) : bool :=
  match balance_of st OPBD, st_entries st with
  | Some ob, first :: _ =>
      match ts with
      | t0 :: rest => opening_matches acct first ob t0 && units_match acct (stmt_units cfg st) rest
      | [] => false
      end
  | _, _ => units_match acct (stmt_units cfg st) ts
  end.

Definition closing_ok (acct : str) (st : statement) (ts : list stxn) : bool :=
  match balance_of st CLBD, rev ts with
  | Some cb, tl :: _ => asserts acct tl cb
  | _, _ => true
  end.

(* statements in order, each against its block; the closing assertion is checked on a block unless
   the next statement is empty (its closing balance then lands on this block's last transaction) *)
Fixpoint blocks_ok (cfg : config) (acct : str) (doc : document) (ts : list stxn) : bool :=
  match doc with
  | [] => match ts with [] => true | _ => false end
  | st :: rest =>
      let n := block_len cfg st in
      let blk := firstn n ts in
      Nat.eqb (length blk) n
      && block_ok cfg acct st blk
      && (match rest with
          | nxt :: _ => match st_entries nxt with [] => true | _ => closing_ok acct st blk end
          | [] => closing_ok acct st blk
          end)
      && blocks_ok cfg acct rest (skipn n ts)
  end.

(* a chain of consistent statements in one currency *)
Fixpoint chain_ok (cfg : config) (c0 : str) (doc : document) : bool :=
  match doc with
  | [] => true
  | st :: rest =>
      consistent_b cfg c0 st
      && (match rest, balance_of st CLBD with
          | nxt :: _, Some cb =>
              match balance_of nxt OPBD with
              | Some ob => qeq (balance_value ob) (balance_value cb)
              | None => false
              end
          | _, _ => true
          end)
      && chain_ok cfg c0 rest
  end.

Definition doc_currency (doc : document) : str :=
  match doc with
  | st :: _ => match balance_of st OPBD with Some ob => xa_ccy (b_amount ob) | None => [] end
  | [] => []
  end.
Definition doc_opening (doc : document) : option oamount :=
  match doc with st :: _ => find_balance (st_balances st) OPBD | [] => None end.
Definition doc_closing_value (doc : document) : option Qc :=
  match rev doc with
  | st :: _ => option_map balance_value (balance_of st CLBD)
  | [] => None
  end.

Definition acct_fresh (cfg : config) (acct : str) (doc : document) : bool :=
  forallb (fun st => forallb (fun a => negb (str_eqb a acct)) (counter_accounts cfg st)) doc.

Definition final_is (final : list (str * pdec)) (c0 : str) (v : Qc) : bool :=
  match final with
  | [] => qeq v 0
  | [(c, x)] => str_eqb c c0 && qeq (d_value x) v
  | _ => false
  end.

Definition conserves_ok (cfg : config) (acct : str) (doc : document) (p : pobs) : bool :=
  let c0 := doc_currency doc in
  if nonempty doc && chain_ok cfg c0 doc && acct_fresh cfg acct doc then
    match p, doc_closing_value doc with
    | PAccepted final, Some v => final_is final c0 v
    | _, _ => false
    end
  else true.

Definition spec_holds (c : case) : bool :=
  match c_obs c with
  | OPanic => false
  | OErr _ =>
      (* a consistent statement must be imported *)
      negb (nonempty (c_doc c) && chain_ok (c_cfg c) (doc_currency (c_doc c)) (c_doc c))
  | OOk ts p =>
      blocks_ok (c_cfg c) (c_acct c) (c_doc c) ts && conserves_ok (c_cfg c) (c_acct c) (c_doc c) p
  end.

(* ---- the model's behaviour ---- *)
Fixpoint index_of (names : list str) (s : str) (i : N) : N :=
  match names with
  | [] => i
  | n :: r => if str_eqb n s then i else index_of r s (i + 1)
  end.

Definition err_kind (e : bk_err) : N :=
  match e with
  | EvalFailure _ => 1 | BalanceFailure => 2 | UndeduciblePostingAmount _ _ => 3
  | UnbalancedPostings _ => 4 | BalanceAssertionFailure _ _ _ => 5 | ZeroAmountWithExchange => 6
  | ZeroExchangeRate => 7 | ExchangeWithAmountCommodity => 8
  end.
Definition ierr_kind (e : ierr) : N :=
  match e with
  | ESameCommodityRate => 1 | ETwoRates => 2 | EChargeCommodity => 3 | ETransferredSet => 4 | ENoOperator => 5
  end.

Definition s_funding : str := [69;113;117;105;116;121;58;70;117;110;100;105;110;103].  (* Equity:Funding *)

Definition all_accounts (acct : str) (ts : list stxn) : list str :=
  acct :: s_funding :: flat_map (fun t => map sp_account (tr_posts t)) ts.
Definition all_commodities (ts : list stxn) (final : list (str * pdec)) : list str :=
  map fst final ++
  flat_map (fun t => flat_map (fun p =>
     (match sp_amount p with
      | Some pa => sa_comm (pa_amount pa) :: match pa_cost pa with Some c => [sa_comm c] | None => [] end
      | None => [] end) ++ match sp_balance p with Some b => [sa_comm b] | None => [] end) (tr_posts t)) ts.

Definition final_agrees (final : list (str * pdec)) (ic : str -> cid) (m : amount) : bool :=
  Nat.eqb (length final) (length m)
  && forallb (fun cv => match get (ic (fst cv)) m with
                        | Some v => qeq v (d_value (snd cv))
                        | None => false
                        end) final.

Definition proc_agrees (acct : str) (doc : document) (mts : list SingleEntry2.txn) (p : pobs) : bool :=
  let sts := map (fun t => to_double_entry t acct) mts in
  let accts := all_accounts acct sts in
  let comms := all_commodities sts (match p with PAccepted f => f | _ => [] end) in
  let ia := fun s => index_of accts s 0 in
  let ic := fun s => index_of comms s 0 in
  match process (ledger_of ia ic (ia s_funding) acct (doc_opening doc) mts), p with
  | (Ok L, _), PAccepted final => final_agrees final ic (bal_get (s_bal L) (ia acct))
  | (Err e, k), PRejected kind k' => (err_kind e =? kind) && Nat.eqb k k'
  | (Panic, _), PPanic => true
  | _, _ => false
  end.

Definition model_agrees (c : case) : bool :=
  match import (c_cfg c) (c_doc c), c_obs c with
  | inl mts, OOk ts p =>
      list_eqb stxn_eqb ts (map (fun t => to_double_entry t (c_acct c)) mts)
      && proc_agrees (c_acct c) (c_doc c) mts p
  | inr e, OErr k => ierr_kind e =? k
  | _, _ => false
  end.

Definition classify (c : case) : N :=
  if negb (spec_holds c) then 2
  else if model_agrees c then 0 else 1.

Definition verdicts (cs : list case) : list N := map classify cs.
