(* From the syntax tree the parser returns (Model/Syntax.v: written names, decimals as
   written) to the ledger report::process books (Model/Named.v over Model/Book.v: name ids,
   exact rationals, day numbers), and the whole path of `okane format` / `okane balance` /
   `okane register` on one text with every hazard of every stage as a value.  Definitions only.

   Names are numbered in order of first appearance (accounts and commodities separately), the
   numbering the report-layer harnesses use.  An `include` is a no-op here: what the loader
   does with it is Model/Load.v. *)
From Coq Require Import List NArith ZArith Bool QArith Qcanon.
From Okv Require Import Base.Maps Base.Dec Model.Lit Model.Syntax Model.Amount Model.Book Model.Query
     Model.Render Model.PriceDb Model.PriceHazard Model.Convert Model.Intern Model.Named
     Model.Display Model.ParseLedger.
Import ListNotations.

(* ---- names ---- *)
Fixpoint name_eqb (a b : str) : bool :=
  match a, b with
  | [], [] => true
  | x :: a', y :: b' => (x =? y)%N && name_eqb a' b'
  | _, _ => false
  end.

Fixpoint find_name (tbl : list str) (s : str) (i : N) : option N :=
  match tbl with
  | [] => None
  | x :: r => if name_eqb x s then Some i else find_name r s (i + 1)%N
  end.

Definition intern (tbl : list str) (s : str) : list str * N :=
  match find_name tbl s 0%N with
  | Some i => (tbl, i)
  | None => (tbl ++ [s], N.of_nat (length tbl))
  end.

Fixpoint intern_all (tbl : list str) (l : list str) : list str * list N :=
  match l with
  | [] => (tbl, [])
  | s :: r => let '(t1, i) := intern tbl s in
              let '(t2, is) := intern_all t1 r in (t2, i :: is)
  end.

(* ---- numbers and dates ---- *)
Definition low_dec (d : pdec) : Qc :=
  of_dec (if neg d then (- Z.of_N (mant d))%Z else Z.of_N (mant d)) (scale d).

(* days since 1970-01-01 of a proleptic Gregorian date (chrono's NaiveDate ordering and differences) *)
Definition low_date (d : date) : Z :=
  let m := Z.of_N (d_month d) in
  let y := (if m <=? 2 then d_year d - 1 else d_year d)%Z in
  let era := (y / 400)%Z in
  let yoe := (y - era * 400)%Z in
  let doy := ((153 * (if 2 <? m then m - 3 else m + 9) + 2) / 5 + Z.of_N (d_day d) - 1)%Z in
  let doe := (yoe * 365 + yoe / 4 - yoe / 100 + doy)%Z in
  (era * 146097 + doe - 719468)%Z.

(* ---- expressions ---- *)
Definition low_op (op : s_binop) : binop :=
  match op with SAdd => OAdd | SSub => OSub | SMul => OMul | SDiv => ODiv end.

Fixpoint low_v (tc : list str) (v : s_vexpr) : list str * vexpr :=
  match v with
  | SParen e => let '(t, e') := low_e tc e in (t, VParen e')
  | SAmount a =>
      match sa_commodity a with
      | [] => (tc, VAmt (low_dec (sa_value a)) None)
      | c => let '(t, i) := intern tc c in (t, VAmt (low_dec (sa_value a)) (Some i))
      end
  end
with low_e (tc : list str) (e : s_expr) : list str * expr :=
  match e with
  | SUnaryNeg x => let '(t, x') := low_e tc x in (t, EUnaryNeg x')
  | SBinary op l r =>
      let '(t1, l') := low_e tc l in
      let '(t2, r') := low_e t1 r in
      (t2, EBin (low_op op) l' r')
  | SValue v => let '(t, v') := low_v tc v in (t, EVal v')
  end.

Definition low_ov (tc : list str) (o : option s_vexpr) : list str * option vexpr :=
  match o with
  | None => (tc, None)
  | Some v => let '(t, v') := low_v tc v in (t, Some v')
  end.

Definition low_ox (tc : list str) (o : option s_exchange) : list str * option exchange :=
  match o with
  | None => (tc, None)
  | Some (STotal v) => let '(t, v') := low_v tc v in (t, Some (XTotal v'))
  | Some (SRate v) => let '(t, v') := low_v tc v in (t, Some (XRate v'))
  end.

(* ---- postings, transactions, declarations ---- *)
Definition low_posting (ta tc : list str) (p : s_posting) : list str * list str * posting :=
  let '(ta', a) := intern ta (sp_account p) in
  let '(t1, amt) := low_ov tc (option_map pa_amount (sp_amount p)) in
  let '(t2, cost) := low_ox t1 (match sp_amount p with Some pa => pa_cost pa | None => None end) in
  let '(t3, lot) := low_ox t2 (match sp_amount p with Some pa => lot_price (pa_lot pa) | None => None end) in
  let '(t4, bal) := low_ov t3 (sp_balance p) in
  (ta', t4, {| p_account := a; p_amount := amt; p_cost := cost; p_lot := lot; p_balance := bal |}).

Fixpoint low_posts (ta tc : list str) (ps : list s_posting) : list str * list str * list posting :=
  match ps with
  | [] => (ta, tc, [])
  | p :: r =>
      let '(ta1, tc1, p') := low_posting ta tc p in
      let '(ta2, tc2, r') := low_posts ta1 tc1 r in
      (ta2, tc2, p' :: r')
  end.

Definition account_aliases (ds : list s_account_detail) : list str :=
  flat_map (fun d => match d with ADAlias a => [a] | _ => [] end) ds.
Definition commodity_aliases (ds : list s_commodity_detail) : list str :=
  flat_map (fun d => match d with CDAlias a => [a] | _ => [] end) ds.
(* set_format is called for every `format` sub-directive: the last one stays *)
Definition commodity_format (ds : list s_commodity_detail) : option nat :=
  fold_left (fun acc d => match d with CDFormat a => Some (scale (sa_value a)) | _ => acc end) ds None.

Definition low_entry (ta tc : list str) (e : s_entry) : list str * list str * nentry :=
  match e with
  | STxn t =>
      let '(ta', tc', ps) := low_posts ta tc (st_posts t) in
      (ta', tc', NTxn {| t_date := low_date (st_date t); t_posts := ps |})
  | SAccount name ds =>
      let '(t1, n) := intern ta name in
      let '(t2, als) := intern_all t1 (account_aliases ds) in
      (t2, tc, NAccount n als)
  | SCommodity name ds =>
      let '(t1, n) := intern tc name in
      let '(t2, als) := intern_all t1 (commodity_aliases ds) in
      (ta, t2, NCommodity n als (commodity_format ds))
  | _ => (ta, tc, NNop)
  end.

Fixpoint low_entries (ta tc : list str) (es : list s_entry) : list str * list str * list nentry :=
  match es with
  | [] => (ta, tc, [])
  | e :: r =>
      let '(ta1, tc1, e') := low_entry ta tc e in
      let '(ta2, tc2, r') := low_entries ta1 tc1 r in
      (ta2, tc2, e' :: r')
  end.

(* ---- the commands on one text ---- *)
Record report_opts := {
  ro_exchange : option str;       (* -X NAME *)
  ro_historical : bool;           (* --historical *)
  ro_now : Z;                     (* --now *)
  ro_start : option Z; ro_end : option Z;
  ro_db : list pline              (* the parsed --price-db file, commodities already numbered *)
}.

Inductive stage := StParse | StFormat | StProcess | StPrices | StQuery.

Inductive pl_result :=
| PlParseError (e : parse_error)
| PlProcessError (formatted : str) (e : nerr) (entry : nat)
| PlCommodityNotFound (formatted : str)                       (* QueryError::CommodityNotFound *)
| PlConversionError (formatted : str) (e : conv_err)
| PlReport (formatted : str)
           (balance : list (aid * list (cid * Qc)))
           (register : list (aid * list (cid * Qc) * list (cid * Qc)))
| PlHazard (st : stage).            (* a panic, an endless loop or an exhausted budget in that stage *)

Definition conversion_of (o : report_opts) (tc : list str) (sc : store) : option conversion + unit :=
  match ro_exchange o with
  | None => inl None
  | Some x =>
      match find_name tc x 0%N with
      | None => inr tt
      | Some i =>
          match resolve sc i with
          | None => inr tt
          | Some c => inl (Some {| cv_strategy := if ro_historical o then Historical else UpToDate (ro_now o);
                                   cv_target := c |})
          end
      end
  end.

Definition pipeline (w : str -> nat) (fuel : nat) (choose : chooser) (o : report_opts) (s : list N) : pl_result :=
  match parse_ledger s with
  | LErr _ e => PlParseError e
  | LPanic _ | LDiverge _ | LFuel => PlHazard StParse
  | LOk es =>
      let ents := map e_entry es in
      if existsb (entry_hazard w) ents then PlHazard StFormat else
      let text := format_entries w ents in
      let '(_, tc, nes) := low_entries [] [] ents in
      match process_named nes with
      | (NPanic, _) => PlHazard StProcess
      | (NErr e, i) => PlProcessError text e i
      | (NOk st, _) =>
          let b := n_book st in
          match repository_chk (s_events b) (ro_db o) with
          | None => PlHazard StPrices
          | Some recs =>
              match conversion_of o tc (n_com st) with
              | inr _ => PlCommodityNotFound text
              | inl cv =>
                  match balance_query fuel choose recs b cv (ro_start o) (ro_end o) with
                  | COutOfFuel => PlHazard StQuery
                  | CErr e => PlConversionError text e
                  | COk bal => PlReport text (render_balance bal) (render_register (postings_of b None))
                  end
              end
          end
      end
  end.
