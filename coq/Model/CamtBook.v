(* From an imported (syntax) transaction to the book-keeping model's input, i.e. what
   load + eval make of the text `okane import` prints: names are interned (ia, ic: any maps from
   account / commodity text to ids), a literal with an empty commodity is a bare number, the cost
   is a rate.  Plus the funding transaction that puts the opening balance on the account.
   Definitions only. *)
From Coq Require Import List NArith ZArith Bool QArith Qcanon.
From Okv Require Import Base.Maps Base.Dec Model.Amount Model.Book Model.Lit Model.SingleEntry2.
Import ListNotations.

(* the rational a Decimal denotes *)
Definition d_value (x : pdec) : Qc :=
  of_dec (if neg x then (- Z.of_N (mant x))%Z else Z.of_N (mant x)) (scale x).

Section Intern.
  Variable ia : str -> aid.
  Variable ic : str -> cid.

  Definition vexpr_of (a : samount) : vexpr :=
    VAmt (d_value (sa_value a)) (match sa_comm a with [] => None | c => Some (ic c) end).

  Definition posting_of (p : sposting) : Book.posting :=
    {| p_account := ia (sp_account p);
       p_amount := option_map (fun pa => vexpr_of (pa_amount pa)) (sp_amount p);
       p_cost := match sp_amount p with
                 | Some pa => option_map (fun c => XRate (vexpr_of c)) (pa_cost pa)
                 | None => None
                 end;
       p_lot := None;
       p_balance := option_map vexpr_of (sp_balance p) |}.

  (* only the order of dates matters to the book-keeping model *)
  Definition date_z (d : date) : Z := Z.of_N (d_y d * 10000 + d_m d * 100 + d_d d).

  Definition txn_of (t : stxn) : Book.txn :=
    {| t_date := date_z (tr_date t); t_posts := map posting_of (tr_posts t) |}.

  (* `acct  opening` / `funding account  -opening` *)
  Definition funding (fa : aid) (acct : str) (opening : oamount) : Book.entry :=
    let v := as_syntax_amount opening in
    let nv := as_syntax_amount (oa_neg opening) in
    ETxn {| t_date := 0%Z;
            t_posts := [ {| p_account := ia acct; p_amount := Some (vexpr_of v); p_cost := None;
                            p_lot := None; p_balance := None |};
                         {| p_account := fa; p_amount := Some (vexpr_of nv); p_cost := None;
                            p_lot := None; p_balance := None |} ] |}.

  Definition ledger_of (fa : aid) (acct : str) (opening : option oamount) (txns : list SingleEntry2.txn)
    : list Book.entry :=
    (match opening with Some o => [funding fa acct o] | None => [] end)
    ++ map (fun t => ETxn (txn_of (to_double_entry t acct))) txns.
End Intern.
