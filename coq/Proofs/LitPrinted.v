(* Every numeric literal of a syntax tree is written by the printer (Model/Display.v) with
   `show`, the model of PrettyDecimal's Display, in every position where display.rs prints a
   number: posting amount, operands of value expressions, lot price, cost, balance assertion
   / assignment, and the `format` line of a commodity directive. *)
From Coq Require Import List NArith ZArith Bool.
From Okv Require Import Model.Lit Model.LitSpec Model.Syntax Model.Display Proofs.LitShow Proofs.DisplayExpr.
Import ListNotations.

Definition infix {A} (x l : list A) : Prop := exists pre post, l = pre ++ x ++ post.

Lemma infix_refl : forall {A} (x : list A), infix x x.
Proof. intros A x. exists [], []. rewrite app_nil_r. reflexivity. Qed.
Lemma infix_app_l : forall {A} (x l r : list A), infix x l -> infix x (l ++ r).
Proof. intros A x l r [p [q ->]]. exists p, (q ++ r). rewrite <- !app_assoc. reflexivity. Qed.
Lemma infix_app_r : forall {A} (x l r : list A), infix x r -> infix x (l ++ r).
Proof. intros A x l r [p [q ->]]. exists (l ++ p), q. rewrite <- !app_assoc. reflexivity. Qed.
Lemma infix_flat_map : forall {A B} (f : A -> list B) x a l, In a l -> infix x (f a) -> infix x (flat_map f l).
Proof.
  intros A B f x a l. induction l as [| b l IH]; intros I H; [destruct I |].
  cbn [flat_map]. destruct I as [-> | I]; [apply infix_app_l; exact H | apply infix_app_r; auto].
Qed.

(* the literals of a value expression, left to right *)
Fixpoint vexpr_lits (v : s_vexpr) : list pdec :=
  match v with
  | SAmount a => [sa_value a]
  | SParen e => expr_lits e
  end
with expr_lits (e : s_expr) : list pdec :=
  match e with
  | SUnaryNeg e1 => expr_lits e1
  | SBinary _ l r => expr_lits l ++ expr_lits r
  | SValue v => vexpr_lits v
  end.

Definition exch_lits (x : option s_exchange) : list pdec :=
  match x with Some (SRate v) | Some (STotal v) => vexpr_lits v | None => [] end.

Definition posting_lits (p : s_posting) : list pdec :=
  (match sp_amount p with
   | Some pa => vexpr_lits (pa_amount pa) ++ exch_lits (lot_price (pa_lot pa)) ++ exch_lits (pa_cost pa)
   | None => []
   end) ++
  (match sp_balance p with Some b => vexpr_lits b | None => [] end).

Definition detail_lits (d : s_commodity_detail) : list pdec :=
  match d with CDFormat a => [sa_value a] | _ => [] end.

Definition entry_lits (e : s_entry) : list pdec :=
  match e with
  | STxn t => flat_map posting_lits (st_posts t)
  | SCommodity _ ds => flat_map detail_lits ds
  | _ => []
  end.

Lemma fmt_amount_shows : forall a, infix (show (sa_value a)) (fst (fmt_amount a)).
Proof.
  intros a. unfold fmt_amount, rescale. destruct (sa_commodity a); cbn [fst].
  - apply infix_refl.
  - apply infix_app_l. apply infix_refl.
Qed.

Lemma fmt_vexpr_expr_shows :
  (forall v d, In d (vexpr_lits v) -> infix (show d) (fst (fmt_vexpr v))) /\
  (forall e d, In d (expr_lits e) -> infix (show d) (fst (fmt_expr e))).
Proof.
  apply s_vexpr_expr_ind.
  - intros e IH d I. cbn [vexpr_lits] in I. cbn [fmt_vexpr fst].
    apply infix_app_r. apply infix_app_l. apply IH. exact I.
  - intros a d I. cbn [vexpr_lits] in I. destruct I as [<- | []]. cbn [fmt_vexpr]. apply fmt_amount_shows.
  - intros e IH d I. cbn [expr_lits] in I. cbn [fmt_expr fst]. apply infix_app_r. apply IH. exact I.
  - intros op l IHl r IHr d I. cbn [expr_lits] in I. cbn [fmt_expr fst]. apply in_app_or in I.
    destruct I as [I | I].
    + apply infix_app_l. apply IHl. exact I.
    + apply infix_app_r. apply infix_app_r. apply IHr. exact I.
  - intros v IH d I. cbn [expr_lits] in I. cbn [fmt_expr]. apply IH. exact I.
Qed.

Lemma show_vexpr_shows : forall v d, In d (vexpr_lits v) -> infix (show d) (show_vexpr v).
Proof. intros v d I. unfold show_vexpr. apply (proj1 fmt_vexpr_expr_shows). exact I. Qed.

Lemma print_lot_shows : forall l d, In d (exch_lits (lot_price l)) -> infix (show d) (print_lot l).
Proof.
  intros l d I. unfold print_lot. apply infix_app_l. unfold exch_lits in I.
  destruct (lot_price l) as [[v | v] |]; [| | destruct I];
    apply infix_app_r; apply infix_app_l; apply show_vexpr_shows; exact I.
Qed.

Lemma print_cost_shows : forall c d, In d (exch_lits c) -> infix (show d) (print_cost c).
Proof.
  intros c d I. unfold print_cost. unfold exch_lits in I.
  destruct c as [[v | v] |]; [| | destruct I]; apply infix_app_r; apply show_vexpr_shows; exact I.
Qed.

Lemma print_posting_shows : forall w p d, In d (posting_lits p) -> infix (show d) (print_posting w p).
Proof.
  intros w p d I. unfold print_posting. apply infix_app_l. unfold posting_line.
  do 3 apply infix_app_r. unfold posting_lits in I. apply in_app_or in I. destruct I as [I | I].
  - apply infix_app_l. destruct (sp_amount p) as [pa |]; [| destruct I].
    unfold print_posting_amount. apply infix_app_r.
    apply in_app_or in I. destruct I as [I | I].
    + apply infix_app_l. apply (proj1 fmt_vexpr_expr_shows). exact I.
    + apply infix_app_r. apply in_app_or in I. destruct I as [I | I].
      * apply infix_app_l. apply print_lot_shows. exact I.
      * apply infix_app_r. apply print_cost_shows. exact I.
  - apply infix_app_r. destruct (sp_balance p) as [b |]; [| destruct I].
    unfold print_posting_balance. do 2 apply infix_app_r. apply show_vexpr_shows. exact I.
Qed.

Theorem print_entry_shows : forall w e d, In d (entry_lits e) -> infix (show d) (print_entry w e).
Proof.
  intros w e d I. destruct e; cbn [entry_lits] in I; try destruct I.
  - cbn [print_entry]. unfold print_txn. do 3 apply infix_app_r.
    apply in_flat_map in I. destruct I as [p [Ip Id]].
    eapply infix_flat_map; [exact Ip |]. apply print_posting_shows. exact Id.
  - cbn [print_entry]. do 3 apply infix_app_r.
    apply in_flat_map in I. destruct I as [x [Ix Id]].
    eapply infix_flat_map; [exact Ix |]. destruct x as [s | s | s | a]; cbn [detail_lits] in Id; [destruct Id | destruct Id | destruct Id |].
    destruct Id as [<- | []]. cbn [print_commodity_detail]. apply infix_app_r. apply infix_app_l.
    apply fmt_amount_shows.
Qed.

(* what `okane format` writes for a file: every literal of every entry, in every position, as a
   text that scans back to the same number, places and sign, and the same grouping style when
   there are thousands to group *)
Theorem format_shows_every_literal : forall w es e d,
  In e es -> In d (entry_lits e) -> wf_pdec d ->
  exists pre post d',
    format_entries w es = pre ++ show d ++ post /\
    scan (show d) = SOk d' /\ mant d' = mant d /\ scale d' = scale d /\ neg d' = neg d /\
    (big d = true -> pfmt d' = pfmt d).
Proof.
  intros w es e d Ie Id W.
  assert (H : infix (show d) (format_entries w es)).
  { unfold format_entries. eapply infix_flat_map; [exact Ie |]. apply infix_app_l.
    apply print_entry_shows. exact Id. }
  destruct H as [pre [post H]]. destruct (show_scan d W) as [d' S].
  exists pre, post, d'. split; [exact H | exact S].
Qed.
