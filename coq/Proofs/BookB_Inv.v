(* The state invariant Inv (Model/BookSpecB.v) is preserved by process_entry and holds of
   every reachable state; the posting loop of add_transaction, one posting at a time. *)
From Coq Require Import List NArith ZArith Bool QArith Qcanon Lia.
From Okv Require Import Base.Maps Base.Dec Model.Amount Model.Book Model.Query Model.BookSpecB Proofs.BookB_Maps.
Import ListNotations.
Open Scope Qc_scope.

Ltac dbind H :=
  match type of H with
  | bind ?x _ = _ => let E := fresh "E" in destruct x eqn:E; cbn [bind] in H; try discriminate H
  end.

(* ---- balances ---- *)
Lemma bal_get_set b a x a' : bal_get (set a x b) a' = if (a =? a')%N then x else bal_get b a'.
Proof.
  unfold bal_get. destruct (N.eqb_spec a a').
  - subst. now rewrite get_set_same.
  - now rewrite get_set_other by congruence.
Qed.

Lemma bal_wf_get b a : bal_wf b -> amt_wf (bal_get b a).
Proof.
  intros [_ H]. unfold bal_get. destruct (get a b) eqn:E.
  - apply get_some_in in E. eauto.
  - apply amt_wf_nil.
Qed.

Lemma bal_wf_set b a x : bal_wf b -> amt_wf x -> bal_wf (set a x b).
Proof.
  intros [Hnd H] Hx. split; [now apply NoDup_keys_set|].
  intros a' x' Hin. apply in_set in Hin. destruct Hin as [[_ ->]|Hin]; eauto.
Qed.

Lemma bal_wf_nil : bal_wf [].
Proof. split; [constructor|intros a x []]. Qed.

(* ---- sums ---- *)
Lemma sum_posts_cons o ps a c : sum_posts (o :: ps) a c = contrib a c o + sum_posts ps a c.
Proof. reflexivity. Qed.

Lemma sum_posts_app p q a c : sum_posts (p ++ q) a c = sum_posts p a c + sum_posts q a c.
Proof.
  induction p as [|o p IH]; [cbn [app]; unfold sum_posts at 2; cbn [fold_right]; ring|].
  cbn [app]. rewrite !sum_posts_cons, IH. ring.
Qed.

Lemma sum_posts_nil a c : sum_posts [] a c = 0.
Proof. reflexivity. Qed.

Lemma sum_posts_snoc p o a c : sum_posts (p ++ [o]) a c = sum_posts p a c + contrib a c o.
Proof. rewrite sum_posts_app, sum_posts_cons, sum_posts_nil. ring. Qed.

Definition same_amt (x y : oposting) : Prop := o_account x = o_account y /\ o_amount x = o_amount y.

Lemma contrib_same a c x y : same_amt x y -> contrib a c x = contrib a c y.
Proof. intros [H1 H2]. unfold contrib. now rewrite H1, H2. Qed.

Lemma sum_posts_same p q a c : Forall2 same_amt p q -> sum_posts p a c = sum_posts q a c.
Proof.
  induction 1 as [|x y p q Hxy _ IH]; [reflexivity|].
  rewrite !sum_posts_cons, IH. f_equal. now apply contrib_same.
Qed.

Lemma posts_wf_same p q : Forall2 same_amt p q -> posts_wf p -> posts_wf q.
Proof.
  induction 1 as [|x y p q [_ Hxy] _ IH]; intro H; [constructor|].
  inversion H; subst. constructor; [now rewrite <- Hxy|now apply IH].
Qed.

(* ---- bal_add_pa / bal_add_amount / bal_set_partial ---- *)
Lemma bal_add_pa_snd b a amt : snd (bal_add_pa b a amt) = bal_get (fst (bal_add_pa b a amt)) a.
Proof. unfold bal_add_pa. cbn [fst snd]. now rewrite bal_get_set, N.eqb_refl. Qed.

Lemma bal_add_pa_wf b a amt : bal_wf b -> bal_wf (fst (bal_add_pa b a amt)).
Proof.
  intro H. unfold bal_add_pa. cbn [fst]. apply bal_wf_set; [assumption|].
  apply amt_wf_remove_zeros. apply keys_add_pa. apply (bal_wf_get b a H).
Qed.

Lemma bal_add_pa_get b a amt a' c :
  bal_wf b ->
  a_get (bal_get (fst (bal_add_pa b a amt)) a') c =
  a_get (bal_get b a') c + (if (a =? a')%N then pa_get amt c else 0).
Proof.
  intro H. unfold bal_add_pa. cbn [fst]. rewrite bal_get_set.
  destruct (N.eqb_spec a a').
  - subst. rewrite a_get_remove_zeros, a_get_add_pa; [reflexivity|].
    apply keys_add_pa. apply (bal_wf_get b a' H).
  - ring.
Qed.

Lemma bal_add_pa_keys b a amt x : In x (keys (fst (bal_add_pa b a amt))) <-> x = a \/ In x (keys b).
Proof. unfold bal_add_pa. cbn [fst]. apply in_keys_set. Qed.

Lemma bal_add_pa_nozero b a amt : nozero (snd (bal_add_pa b a amt)).
Proof. unfold bal_add_pa. cbn [snd]. apply nozero_remove_zeros. Qed.

Lemma bal_add_amount_wf b a x : bal_wf b -> bal_wf (bal_add_amount b a x).
Proof.
  intro H. unfold bal_add_amount. apply bal_wf_set; [assumption|].
  apply amt_wf_remove_zeros. apply keys_add. apply (bal_wf_get b a H).
Qed.

Lemma bal_add_amount_get b a x a' c :
  bal_wf b -> NoDup (keys x) ->
  a_get (bal_get (bal_add_amount b a x) a') c =
  a_get (bal_get b a') c + (if (a =? a')%N then a_get x c else 0).
Proof.
  intros H Hx. unfold bal_add_amount. rewrite bal_get_set.
  destruct (N.eqb_spec a a').
  - subst. rewrite a_get_remove_zeros, a_get_add; [reflexivity|assumption|].
    apply keys_add. apply (bal_wf_get b a' H).
  - ring.
Qed.

Lemma bal_add_amount_keys b a x k : In k (keys (bal_add_amount b a x)) <-> k = a \/ In k (keys b).
Proof. unfold bal_add_amount. apply in_keys_set. Qed.

(* ---- process_posting, branch by branch ---- *)
Lemma pp_omitted b date i p :
  is_omitted p = true -> process_posting b date i p = Ok (b, None, None).
Proof.
  unfold is_omitted, process_posting. destruct (p_amount p); [discriminate|].
  destruct (p_balance p); [discriminate|reflexivity].
Qed.

Lemma pp_assign b date i p bc r :
  p_amount p = None -> p_balance p = Some bc -> process_posting b date i p = Ok r ->
  exists b' amt,
    r = (b', Some {| ep_amount := amt; ep_converted := None; ep_delta := amt |}, None)
    /\ (forall x, In x (keys b') <-> x = p_account p \/ In x (keys b))
    /\ (bal_wf b -> bal_wf b'
        /\ forall a c, a_get (bal_get b' a) c =
                       a_get (bal_get b a) c + (if (p_account p =? a)%N then pa_get amt c else 0)).
Proof.
  intros Ha Hb H. unfold process_posting in H. rewrite Ha, Hb in H.
  dbind H. rename a into current. dbind H. destruct a as [b' prev]. dbind H. rename a into amt.
  injection H as <-. exists b', amt. split; [reflexivity|].
  unfold bal_set_partial in E0. destruct current as [|c v].
  - (* bare zero *)
    destruct (amount_to_pa (bal_get b (p_account p))) as [pp|] eqn:Epp; [|discriminate].
    injection E0 as <- <-. split; [intro x; apply in_keys_set|].
    intro Hwf. split; [apply bal_wf_set; [assumption|apply amt_wf_nil]|].
    intros a c. rewrite bal_get_set. destruct (N.eqb_spec (p_account p) a); [|ring].
    subst a. unfold pa_check_sub in E1. cbn [pa_check_add] in E1. unfold lift_eval in E1.
    injection E1 as <-. rewrite a_get_nil.
    unfold amount_to_pa in Epp. destruct (bal_get b (p_account p)) as [|[k w] [|]]; try discriminate.
    + injection Epp as <-. unfold pa_get. cbn [pa_neg pa_to_amount]. unfold a_zero. rewrite !a_get_nil. ring.
    + injection Epp as <-. unfold pa_get. cbn [pa_neg pa_to_amount].
      change [(k, w)] with (a_single k w). rewrite !a_get_single.
      destruct (k =? c)%N; ring.
  - (* single commodity *)
    unfold a_set_partial in E0. injection E0 as <- <-.
    split; [intro x; apply in_keys_set|].
    unfold pa_check_sub in E1. cbn [pa_check_add pa_neg] in E1. rewrite N.eqb_refl in E1.
    cbn [lift_eval] in E1. injection E1 as <-.
    intro Hwf. pose proof (bal_wf_get b (p_account p) Hwf) as [Hnd Hnz].
    split.
    + apply bal_wf_set; [assumption|]. destruct (qc_zero v) eqn:Ez.
      * split; [now apply NoDup_keys_remove|]. intros k w Hin. apply in_remove in Hin. eauto.
      * split; [now apply NoDup_keys_set|]. intros k w Hin. apply in_set in Hin.
        destruct Hin as [[_ ->]|Hin]; [now apply qc_zero_false|eauto].
    + intros a c'. rewrite bal_get_set. destruct (N.eqb_spec (p_account p) a); [|ring].
      subst a. unfold pa_get. cbn [pa_to_amount]. rewrite a_get_single.
      destruct (N.eqb_spec c c').
      * subst c'. destruct (qc_zero v) eqn:Ez.
        -- apply qc_zero_true in Ez. subst v. unfold a_get at 1. rewrite get_remove_same by assumption. ring.
        -- unfold a_get at 1. rewrite get_set_same. ring.
      * destruct (qc_zero v); unfold a_get at 1.
        -- rewrite get_remove_other by congruence. fold (a_get (bal_get b (p_account p)) c'). ring.
        -- rewrite get_set_other by congruence. fold (a_get (bal_get b (p_account p)) c'). ring.
Qed.

Lemma pp_amount b date i p sa r :
  p_amount p = Some sa -> process_posting b date i p = Ok r ->
  exists amt conv delta ev,
    eval_pa sa = Ok amt
    /\ r = (fst (bal_add_pa b (p_account p) amt),
            Some {| ep_amount := amt; ep_converted := conv; ep_delta := delta |}, ev)
    /\ (forall bc, p_balance p = Some bc ->
        exists expected, eval_pa bc = Ok expected
                         /\ assert_balance (snd (bal_add_pa b (p_account p) amt)) expected = []).
Proof.
  intros Hsa H. unfold process_posting in H. rewrite Hsa in H.
  dbind H. rename a into amt. dbind H. rename a into cost. dbind H. rename a into lot.
  destruct (bal_add_pa b (p_account p) amt) as [b' current] eqn:Eb.
  dbind H. dbind H. rename a0 into delta. dbind H. rename a0 into conv. dbind H. rename a0 into ev.
  injection H as <-. exists amt, conv, delta, ev. rewrite Eb. cbn [fst snd].
  split; [reflexivity|]. split; [reflexivity|].
 intros bc Hbc. rewrite Hbc in E2. dbind E2. rename a0 into expected.
  exists expected. split; [reflexivity|].
  destruct (assert_balance current expected); [reflexivity|discriminate].
Qed.

(* a failed assertion is the only source of BalanceAssertionFailure *)
Lemma pp_assert_err b date i p j computed diff :
  process_posting b date i p = Err (BalanceAssertionFailure j computed diff) ->
  j = i /\ exists sa bc amt cl expected,
    p_amount p = Some sa /\ p_balance p = Some bc /\ eval_pa sa = Ok amt /\ eval_cost_lot amt p = Ok cl
    /\ eval_pa bc = Ok expected
    /\ computed = snd (bal_add_pa b (p_account p) amt)
    /\ diff = assert_balance computed expected /\ diff <> [].
Proof.
  intro H. unfold process_posting in H.
  destruct (p_amount p) as [sa|] eqn:Hsa.
  - unfold eval_pa, lift_eval in H.
    destruct (match eval_v sa with inl v => ev_to_pa v | inr er => inr er end) as [amt|e] eqn:Eamt;
      cbn [bind] in H; [|discriminate].
    destruct (match p_cost p with Some x => do r <- xchg_from_syntax amt x; Ok (Some r) | None => Ok None end)
      as [cost|e|] eqn:Ecost; cbn [bind] in H.
    2:{ exfalso. destruct (p_cost p); [|discriminate]. unfold xchg_from_syntax, lift_eval in Ecost.
        repeat match type of Ecost with
               | context [match ?x with _ => _ end] => destruct x; cbn [bind] in Ecost; try discriminate
               end; congruence. }
    2: discriminate.
    destruct (match p_lot p with Some x => do r <- xchg_from_syntax amt x; Ok (Some r) | None => Ok None end)
      as [lot|e|] eqn:Elot; cbn [bind] in H.
    2:{ exfalso. destruct (p_lot p); [|discriminate]. unfold xchg_from_syntax, lift_eval in Elot.
        repeat match type of Elot with
               | context [match ?x with _ => _ end] => destruct x; cbn [bind] in Elot; try discriminate
               end; congruence. }
    2: discriminate.
    destruct (bal_add_pa b (p_account p) amt) as [b' current] eqn:Eb.
    destruct (p_balance p) as [bc|] eqn:Hbc.
    + unfold lift_eval in H.
      destruct (match eval_v bc with inl v => ev_to_pa v | inr er => inr er end) as [expected|e] eqn:Eexp;
        cbn [bind] in H; [|discriminate].
      destruct (a_is_absolute_zero (assert_balance current expected)) eqn:Ed; cbn [bind] in H.
      * exfalso.
        unfold balance_amount, converted_amount, posting_price_event, pa_to_single in H.
        repeat match type of H with
               | context [match ?x with _ => _ end] => destruct x; cbn [bind c_amount c_cost c_lot] in H; try discriminate
               end.
      * injection H as Hj Hc Hd. subst j computed diff. split; [reflexivity|].
        exists sa, bc, amt, (cost, lot), expected. cbn [snd].
        repeat split; try reflexivity.
        -- unfold eval_pa, lift_eval. now rewrite Eamt.
        -- unfold eval_cost_lot. rewrite Ecost. cbn [bind]. rewrite Elot. reflexivity.
        -- unfold eval_pa, lift_eval. now rewrite Eexp.
        -- now rewrite Eb.
        -- intro Hx. rewrite Hx in Ed. discriminate.
    + exfalso. cbn [bind] in H.
      unfold balance_amount, converted_amount, posting_price_event, pa_to_single in H.
      repeat match type of H with
             | context [match ?x with _ => _ end] => destruct x; cbn [bind c_amount c_cost c_lot] in H; try discriminate
             end.
  - exfalso. destruct (p_balance p) as [bc|]; [|discriminate].
    unfold eval_pa, lift_eval, bal_set_partial, pa_check_sub, pa_check_add in H.
    repeat match type of H with
           | context [match ?x with _ => _ end] => destruct x; cbn [bind] in H; try discriminate
           end.
Qed.

(* ---- one step of the posting loop ---- *)
Lemma fold_loop_err date l e : fold_left (loop_step date) l (Err e) = Err e.
Proof. induction l as [|x l IH]; [reflexivity|]. cbn [fold_left]. exact IH. Qed.
Lemma fold_loop_panic date l : fold_left (loop_step date) l Panic = Panic.
Proof. induction l as [|x l IH]; [reflexivity|]. cbn [fold_left]. exact IH. Qed.

Record step_facts (st st' : loop_st) (i : nat) (p : posting) (o : oposting) : Prop := {
  sf_posts : l_posts st' = o :: l_posts st;
  sf_acct : o_account o = p_account p;
  sf_nodup : NoDup (keys (o_amount o));
  sf_om : is_omitted p = true ->
          o_amount o = [] /\ l_unfilled st = None /\ l_unfilled st' = Some i /\ l_bal st' = l_bal st;
  sf_nom : is_omitted p = false ->
           l_unfilled st' = l_unfilled st /\ In (p_account p) (keys (l_bal st'));
  sf_keys : forall x, In x (keys (l_bal st)) -> In x (keys (l_bal st'));
  sf_wf : bal_wf (l_bal st) -> bal_wf (l_bal st');
  sf_sum : bal_wf (l_bal st) ->
           forall a c, a_get (bal_get (l_bal st') a) c = a_get (bal_get (l_bal st) a) c + contrib a c o;
  sf_res : NoDup (keys (l_residual st)) -> NoDup (keys (l_residual st'))
}.

Lemma loop_step_ok date st i p st' :
  loop_step date (Ok st) (i, p) = Ok st' -> exists o, step_facts st st' i p o.
Proof.
  intro H. unfold loop_step in H. cbn [bind] in H.
  destruct (process_posting (l_bal st) date i p) as [r|e|] eqn:Epp; cbn [bind] in H; try discriminate.
  destruct r as [[b' ep] ev].
  destruct (is_omitted p) eqn:Eom.
  - rewrite pp_omitted in Epp by assumption. injection Epp as <- <- <-.
    destruct (l_unfilled st) eqn:Eu; [discriminate|]. injection H as <-.
    exists {| o_account := p_account p; o_amount := a_zero; o_converted := None |}.
    constructor; cbn [l_posts l_bal l_unfilled l_residual o_account o_amount]; try reflexivity.
    + constructor.
    + intros _. repeat split; assumption.
    + intro Hx. congruence.
    + trivial.
    + trivial.
    + intros _ a c. unfold contrib. cbn [o_account o_amount]. unfold a_zero. rewrite a_get_nil.
      destruct (p_account p =? a)%N; ring.
    + trivial.
  - destruct (p_amount p) as [sa|] eqn:Hsa.
    + destruct (pp_amount _ _ _ _ _ _ Hsa Epp) as (amt & conv & delta & ev' & Eamt & Hr & _).
      injection Hr as -> -> ->. injection H as <-.
      exists {| o_account := p_account p; o_amount := pa_to_amount amt; o_converted := conv |}.
      constructor; cbn [l_posts l_bal l_unfilled l_residual o_account o_amount ep_amount ep_converted ep_delta]; try reflexivity;
        try change (set (p_account p) (a_remove_zeros (a_add_pa (bal_get (l_bal st) (p_account p)) amt)) (l_bal st))
              with (fst (bal_add_pa (l_bal st) (p_account p) amt)).
      * apply keys_pa_to_amount.
      * intro Hx. congruence.
      * intros _. split; [reflexivity|]. apply bal_add_pa_keys. now left.
      * intros x Hx. apply bal_add_pa_keys. now right.
      * apply bal_add_pa_wf.
      * intros Hwf a c. rewrite bal_add_pa_get by assumption. unfold contrib, pa_get. reflexivity.
      * apply keys_add_pa.
    + destruct (p_balance p) as [bc|] eqn:Hbc;
        [|unfold is_omitted in Eom; rewrite Hsa, Hbc in Eom; discriminate].
      destruct (pp_assign _ _ _ _ _ _ Hsa Hbc Epp) as (b'' & amt & Hr & Hkeys & Hrest).
      injection Hr as -> -> ->. injection H as <-.
      exists {| o_account := p_account p; o_amount := pa_to_amount amt; o_converted := None |}.
      constructor; cbn [l_posts l_bal l_unfilled l_residual o_account o_amount ep_amount ep_converted ep_delta]; try reflexivity.
      * apply keys_pa_to_amount.
      * intro Hx. congruence.
      * intros _. split; [reflexivity|]. apply Hkeys. now left.
      * intros x Hx. apply Hkeys. now right.
      * intro Hwf. now apply Hrest.
      * intros Hwf a c. destruct (Hrest Hwf) as [_ Hs]. rewrite Hs. unfold contrib, pa_get. reflexivity.
      * apply keys_add_pa.
Qed.

(* ---- the loop stopped after k postings ---- *)
Lemma nth_error_enumerate {A} (l : list A) :
  forall i k, nth_error (enumerate i l) k = option_map (fun x => ((i + k)%nat, x)) (nth_error l k).
Proof.
  induction l as [|a l IH]; intros i k; destruct k; cbn [enumerate nth_error option_map]; try reflexivity.
  - now rewrite Nat.add_0_r.
  - rewrite IH. destruct (nth_error l k); cbn [option_map]; [|reflexivity].
    now replace (S i + k)%nat with (i + S k)%nat by lia.
Qed.

Lemma length_enumerate {A} (l : list A) : forall i, length (enumerate i l) = length l.
Proof. induction l as [|a l IH]; intro i; cbn; [reflexivity|now rewrite IH]. Qed.

Lemma firstn_S_nth {A} (l : list A) : forall k x, nth_error l k = Some x -> firstn (S k) l = firstn k l ++ [x].
Proof.
  induction l as [|a l IH]; intros k x H; destruct k; cbn in H; try discriminate.
  - injection H as ->. reflexivity.
  - cbn [firstn app]. f_equal. change (firstn (S k) l = firstn k l ++ [x]). now apply IH.
Qed.

Lemma loop_upto_S s t k p :
  nth_error (t_posts t) k = Some p ->
  loop_upto s t (S k) = loop_step (t_date t) (loop_upto s t k) (k, p).
Proof.
  intro H. unfold loop_upto. rewrite (firstn_S_nth _ k (k, p)).
  - now rewrite fold_left_app.
  - rewrite nth_error_enumerate, H. reflexivity.
Qed.

Lemma loop_upto_all s t : loop_upto s t (length (t_posts t)) = txn_loop s t.
Proof.
  unfold loop_upto, txn_loop. rewrite firstn_all2; [reflexivity|]. rewrite length_enumerate. lia.
Qed.

Lemma loop_upto_prev s t k p st' :
  nth_error (t_posts t) k = Some p -> loop_upto s t (S k) = Ok st' ->
  exists st, loop_upto s t k = Ok st /\ loop_step (t_date t) (Ok st) (k, p) = Ok st'.
Proof.
  intros Hn H. rewrite (loop_upto_S _ _ _ _ Hn) in H.
  destruct (loop_upto s t k) as [st|e|]; [|discriminate|discriminate].
  exists st. split; [reflexivity|assumption].
Qed.

Record LInv (s : bstate) (t : txn) (k : nat) (st : loop_st) : Prop := {
  li_len : length (l_posts st) = k;
  li_bal : bal_wf (l_bal st);
  li_res : NoDup (keys (l_residual st));
  li_wf : posts_wf (l_posts st);
  li_sum : forall a c, a_get (bal_get (l_bal st) a) c =
                       a_get (bal_get (s_bal s) a) c + sum_posts (rev (l_posts st)) a c;
  li_match : Forall2 (fun p o => o_account o = p_account p /\ (is_omitted p = true -> o_amount o = []))
                     (firstn k (t_posts t)) (rev (l_posts st));
  li_keys : forall x, In x (keys (s_bal s)) -> In x (keys (l_bal st));
  li_cover : forall j p, (j < k)%nat -> nth_error (t_posts t) j = Some p -> is_omitted p = false ->
                         In (p_account p) (keys (l_bal st));
  li_unf : match l_unfilled st with
           | Some u => (u < k)%nat /\ (exists p, nth_error (t_posts t) u = Some p /\ is_omitted p = true)
                       /\ forall j p, (j < k)%nat -> j <> u -> nth_error (t_posts t) j = Some p -> is_omitted p = false
           | None => forall j p, (j < k)%nat -> nth_error (t_posts t) j = Some p -> is_omitted p = false
           end
}.

Lemma LInv_init s t : bal_wf (s_bal s) -> LInv s t 0 (loop_init s).
Proof.
  intro H. constructor; cbn [loop_init l_posts l_bal l_residual l_unfilled length rev firstn]; try easy.
  - unfold a_zero. constructor.
  - constructor.
  - intros a c. rewrite sum_posts_nil. ring.
Qed.

Lemma LInv_step s t k st st' p o :
  LInv s t k st -> nth_error (t_posts t) k = Some p -> step_facts st st' k p o -> LInv s t (S k) st'.
Proof.
  intros L Hn F. destruct L, F.
  constructor.
  - rewrite sf_posts0. cbn [length]. now rewrite li_len0.
  - auto.
  - auto.
  - rewrite sf_posts0. constructor; assumption.
  - intros a c. rewrite sf_sum0 by assumption. rewrite li_sum0, sf_posts0. cbn [rev].
    rewrite sum_posts_snoc. ring.
  - rewrite sf_posts0. cbn [rev]. rewrite (firstn_S_nth _ _ _ Hn).
    apply Forall2_app; [assumption|]. constructor; [|constructor].
    split; [assumption|]. intro Hom. now apply sf_om0.
  - auto.
  - intros j q Hj Hq Hnom. destruct (Nat.eq_dec j k) as [->|Hne].
    + rewrite Hn in Hq. injection Hq as <-. now apply sf_nom0.
    + apply sf_keys0. eapply li_cover0; eauto. lia.
  - destruct (is_omitted p) eqn:Eom.
    + destruct (sf_om0 eq_refl) as (_ & Hu & Hu' & _). rewrite Hu'. split; [lia|]. split; [eauto|].
      rewrite Hu in li_unf0. intros j q Hj Hne Hq. apply (li_unf0 j q); [lia|assumption].
    + destruct (sf_nom0 eq_refl) as [Hu _]. rewrite Hu.
      destruct (l_unfilled st) as [u|].
      * destruct li_unf0 as (Hlt & Hex & Hoth). split; [lia|]. split; [assumption|].
        intros j q Hj Hne Hq. destruct (Nat.eq_dec j k) as [->|Hne'].
        -- rewrite Hn in Hq. now injection Hq as <-.
        -- apply (Hoth j q); [lia|assumption|assumption].
      * intros j q Hj Hq. destruct (Nat.eq_dec j k) as [->|Hne].
        -- rewrite Hn in Hq. now injection Hq as <-.
        -- apply (li_unf0 j q); [lia|assumption].
Qed.

Lemma loop_upto_inv s t : bal_wf (s_bal s) ->
  forall k st, (k <= length (t_posts t))%nat -> loop_upto s t k = Ok st -> LInv s t k st.
Proof.
  intro Hwf. induction k as [|k IH]; intros st Hk H.
  - unfold loop_upto in H. cbn [firstn fold_left] in H. injection H as <-. now apply LInv_init.
  - destruct (nth_error (t_posts t) k) as [p|] eqn:Hn.
    2:{ apply nth_error_None in Hn. lia. }
    destruct (loop_upto_prev _ _ _ _ _ Hn H) as (st0 & H0 & Hs).
    destruct (loop_step_ok _ _ _ _ _ Hs) as [o F].
    eapply LInv_step; eauto. apply IH; [lia|assumption].
Qed.

(* the stored postings only grow: a prefix run sees a prefix of them *)
Lemma loop_upto_prefix s t : bal_wf (s_bal s) ->
  forall d k st', (k + d <= length (t_posts t))%nat -> loop_upto s t (k + d) = Ok st' ->
  exists st, loop_upto s t k = Ok st /\ rev (l_posts st) = firstn k (rev (l_posts st')).
Proof.
  intro Hwf. induction d as [|d IH]; intros k st' Hk H.
  - rewrite Nat.add_0_r in H. exists st'. split; [assumption|].
    pose proof (loop_upto_inv s t Hwf k st' ltac:(lia) H) as L.
    rewrite firstn_all2; [reflexivity|]. rewrite rev_length, (li_len _ _ _ _ L). lia.
  - replace (k + S d)%nat with (S (k + d)) in H by lia.
    destruct (nth_error (t_posts t) (k + d)) as [p|] eqn:Hn.
    2:{ apply nth_error_None in Hn. lia. }
    destruct (loop_upto_prev _ _ _ _ _ Hn H) as (st0 & H0 & Hs).
    destruct (loop_step_ok _ _ _ _ _ Hs) as [o F].
    destruct (IH k st0 ltac:(lia) H0) as (st & Hst & Hrev).
    exists st. split; [assumption|].
    rewrite (sf_posts _ _ _ _ _ F). cbn [rev]. rewrite firstn_app.
    pose proof (loop_upto_inv s t Hwf (k + d) st0 ltac:(lia) H0) as L0.
    rewrite rev_length, (li_len _ _ _ _ L0).
    replace (k - (k + d))%nat with 0%nat by lia. cbn [firstn]. rewrite app_nil_r. exact Hrev.
Qed.

(* ---- after the loop ---- *)
Lemma fill_converted_same c1 v1 c2 v2 o : same_amt o (fill_converted c1 v1 c2 v2 o).
Proof.
  unfold fill_converted, same_amt. destruct (amount_to_single (o_amount o)) as [[c v]|]; [|split; reflexivity].
  destruct (c1 =? c)%N; [split; reflexivity|]. destruct (c2 =? c)%N; split; reflexivity.
Qed.

Lemma same_amt_refl l : Forall2 same_amt l l.
Proof. induction l; constructor; [split; reflexivity|assumption]. Qed.

Lemma same_amt_map g l : (forall o, same_amt o (g o)) -> Forall2 same_amt l (map g l).
Proof. intro H. induction l; cbn; constructor; auto. Qed.

Lemma check_balance_same f d posts r posts' ev :
  check_balance f d posts r = Ok (posts', ev) -> Forall2 same_amt posts posts'.
Proof.
  unfold check_balance. destruct (a_is_zero (a_round f r)).
  - intros [= <- <-]. apply same_amt_refl.
  - destruct (a_remove_zeros (a_round f r)) as [|[c1 v1] [|[c2 v2] [|]]]; try discriminate.
    destruct (negb (eqb (sign_positive v1) (sign_positive v2))); [|discriminate].
    destruct (qc_zero v1 || qc_zero v2); [discriminate|].
    intros [= <- <-]. apply same_amt_map. intro o. apply fill_converted_same.
Qed.

Definition fill_deduced (d : amount) (p : oposting) : oposting :=
  {| o_account := o_account p; o_amount := d; o_converted := o_converted p |}.

Lemma nth_error_set_nth {A} (f : A -> A) : forall l u j,
  nth_error (set_nth u f l) j = if Nat.eqb j u then option_map f (nth_error l j) else nth_error l j.
Proof.
  induction l as [|x l IH]; intros u j.
  - destruct u; destruct j; cbn; try reflexivity; destruct (Nat.eqb _ _); reflexivity.
  - destruct u; destruct j; cbn [set_nth nth_error Nat.eqb option_map]; try reflexivity. apply IH.
Qed.

Lemma length_set_nth {A} (f : A -> A) : forall l u, length (set_nth u f l) = length l.
Proof. induction l as [|x l IH]; intros [|u]; cbn; auto. Qed.

Lemma sum_posts_set_nth f : forall posts u o a c,
  nth_error posts u = Some o ->
  sum_posts (set_nth u f posts) a c = sum_posts posts a c - contrib a c o + contrib a c (f o).
Proof.
  induction posts as [|x l IH]; intros [|u] o a c H; cbn in H; try discriminate.
  - injection H as ->. cbn [set_nth]. rewrite !sum_posts_cons. ring.
  - cbn [set_nth]. rewrite !sum_posts_cons, (IH u o a c H). ring.
Qed.

Lemma posts_wf_set_nth f : (forall o, NoDup (keys (o_amount (f o)))) ->
  forall posts u, posts_wf posts -> posts_wf (set_nth u f posts).
Proof.
  intro Hf. induction posts as [|x l IH]; intros [|u] H; cbn [set_nth]; try assumption;
    inversion H; subst; constructor; auto. now apply IH.
Qed.

Lemma firstn_set_nth_ge {A} (f : A -> A) : forall l u n, (n <= u)%nat -> firstn n (set_nth u f l) = firstn n l.
Proof.
  induction l as [|x l IH]; intros u n H; [destruct u; reflexivity|].
  destruct u; destruct n; cbn [set_nth firstn]; try reflexivity; try lia.
  f_equal. apply IH. lia.
Qed.

Lemma firstn_set_nth_lt {A} (f : A -> A) : forall l u n, firstn n (set_nth u f l) = set_nth u f (firstn n l).
Proof.
  induction l as [|x l IH]; intros u n; [destruct u; destruct n; reflexivity|].
  destruct u; destruct n; cbn [set_nth firstn]; try reflexivity. f_equal. apply IH.
Qed.

Lemma Forall2_nth_l {A B} (R : A -> B -> Prop) : forall l1 l2 j x,
  Forall2 R l1 l2 -> nth_error l1 j = Some x -> exists y, nth_error l2 j = Some y /\ R x y.
Proof.
  intros l1 l2 j x H. revert j. induction H as [|a b l1 l2 Hab _ IH]; intros [|j] Hj; cbn in Hj; try discriminate.
  - injection Hj as ->. exists b. split; [reflexivity|assumption].
  - apply IH in Hj. exact Hj.
Qed.

Lemma Forall2_nth_r {A B} (R : A -> B -> Prop) : forall l1 l2 j y,
  Forall2 R l1 l2 -> nth_error l2 j = Some y -> exists x, nth_error l1 j = Some x /\ R x y.
Proof.
  intros l1 l2 j y H. revert j. induction H as [|a b l1 l2 Hab _ IH]; intros [|j] Hj; cbn in Hj; try discriminate.
  - injection Hj as ->. exists a. split; [reflexivity|assumption].
  - apply IH in Hj. exact Hj.
Qed.

Lemma add_transaction_stored s t s' :
  add_transaction s t = Ok s' ->
  exists st ot,
    txn_loop s t = Ok st /\ s_txns s' = s_txns s ++ [ot] /\ o_date ot = t_date t /\ s_fmt s' = s_fmt s
    /\ match l_unfilled st with
       | Some u =>
           o_posts ot = set_nth u (fill_deduced (a_neg (l_residual st))) (rev (l_posts st))
           /\ s_bal s' = bal_add_amount (l_bal st)
                           (match nth_error (rev (l_posts st)) u with Some p => o_account p | None => 0%N end)
                           (a_neg (l_residual st))
       | None => Forall2 same_amt (rev (l_posts st)) (o_posts ot) /\ s_bal s' = l_bal st
       end.
Proof.
  unfold add_transaction, txn_loop. intro H.
  destruct (fold_left (loop_step (t_date t)) (enumerate 0 (t_posts t))
              (Ok {| l_bal := s_bal s; l_posts := []; l_unfilled := None; l_residual := a_zero; l_events := [] |}))
    as [st|e|] eqn:E; cbn [bind] in H; try discriminate.
  exists st. destruct (l_unfilled st) as [u|] eqn:Eu.
  - injection H as <-. eexists. cbn [s_txns s_fmt s_bal].
    split; [reflexivity|]. split; [reflexivity|]. cbn [o_date o_posts]. repeat split; reflexivity.
  - dbind H. destruct a as [posts' ev]. injection H as <-. eexists. cbn [s_txns s_fmt s_bal].
    split; [reflexivity|]. split; [reflexivity|]. cbn [o_date o_posts]. repeat split; try reflexivity.
    eapply check_balance_same; eauto.
Qed.

Lemma all_postings_snoc s s' ot :
  s_txns s' = s_txns s ++ [ot] -> all_postings s' = all_postings s ++ o_posts ot.
Proof. unfold all_postings. intros ->. rewrite flat_map_app. cbn [flat_map]. now rewrite app_nil_r. Qed.

Lemma posts_wf_rev l : posts_wf l -> posts_wf (rev l).
Proof. unfold posts_wf. apply Forall_rev. Qed.

Lemma txn_loop_inv s t st : bal_wf (s_bal s) -> txn_loop s t = Ok st -> LInv s t (length (t_posts t)) st.
Proof. intros Hwf H. rewrite <- loop_upto_all in H. eapply loop_upto_inv; eauto. Qed.

Theorem add_transaction_inv s t s' : Inv s -> add_transaction s t = Ok s' -> Inv s'.
Proof.
  intros I H. destruct (add_transaction_stored _ _ _ H) as (st & ot & Hloop & Htx & _ & _ & Hcase).
  pose proof (txn_loop_inv s t st (inv_bal _ I) Hloop) as L.
  pose proof (li_match _ _ _ _ L) as Hm. rewrite firstn_all in Hm.
  pose proof (all_postings_snoc _ _ _ Htx) as Hall.
  destruct (l_unfilled st) as [u|] eqn:Eu.
  - destruct Hcase as [Hposts Hbal].
    pose proof (li_unf _ _ _ _ L) as Hu. rewrite Eu in Hu. destruct Hu as (Hlt & (q & Hq & Hqom) & Hoth).
    destruct (Forall2_nth_l _ _ _ _ _ Hm Hq) as (o & Ho & Hacct & Hamt). specialize (Hamt Hqom).
    rewrite Ho in Hbal.
    assert (Hded : NoDup (keys (a_neg (l_residual st)))) by (rewrite keys_neg; apply (li_res _ _ _ _ L)).
    constructor.
    + rewrite Hbal. apply bal_add_amount_wf. apply (li_bal _ _ _ _ L).
    + rewrite Hall. apply Forall_app. split; [apply (inv_posts _ I)|]. rewrite Hposts.
      apply posts_wf_set_nth; [intro; exact Hded|]. apply posts_wf_rev. apply (li_wf _ _ _ _ L).
    + intros p Hp. rewrite Hall in Hp. rewrite Hbal. apply bal_add_amount_keys.
      apply in_app_or in Hp. destruct Hp as [Hp|Hp].
      * right. apply (li_keys _ _ _ _ L). now apply (inv_cover _ I).
      * rewrite Hposts in Hp. apply In_nth_error in Hp. destruct Hp as [j Hj].
        rewrite nth_error_set_nth in Hj. destruct (Nat.eqb_spec j u) as [Heq|Hne].
        -- rewrite Heq in Hj. rewrite Ho in Hj. cbn in Hj. injection Hj as <-. now left.
        -- right. destruct (Forall2_nth_r _ _ _ _ _ Hm Hj) as (q' & Hq' & Hacct' & _).
           assert (Hjl : (j < length (t_posts t))%nat) by (apply nth_error_Some; congruence).
           rewrite Hacct'. apply (li_cover _ _ _ _ L j q'); [assumption|assumption|].
           apply (Hoth j q'); assumption.
    + intros a c. rewrite Hbal, Hall, sum_posts_app, Hposts.
      rewrite bal_add_amount_get by (try apply (li_bal _ _ _ _ L); assumption).
      rewrite (li_sum _ _ _ _ L), (inv_sum _ I), (sum_posts_set_nth _ _ _ _ _ _ Ho).
      unfold contrib, fill_deduced. cbn [o_account o_amount]. rewrite Hamt, a_get_nil.
      destruct (o_account o =? a)%N; ring.
  - destruct Hcase as [Hsame Hbal].
    pose proof (li_unf _ _ _ _ L) as Hu. rewrite Eu in Hu.
    constructor.
    + rewrite Hbal. apply (li_bal _ _ _ _ L).
    + rewrite Hall. apply Forall_app. split; [apply (inv_posts _ I)|].
      eapply posts_wf_same; eauto. apply posts_wf_rev. apply (li_wf _ _ _ _ L).
    + intros p Hp. rewrite Hall in Hp. rewrite Hbal.
      apply in_app_or in Hp. destruct Hp as [Hp|Hp].
      * apply (li_keys _ _ _ _ L). now apply (inv_cover _ I).
      * apply In_nth_error in Hp. destruct Hp as [j Hj].
        destruct (Forall2_nth_r _ _ _ _ _ Hsame Hj) as (o & Ho & Hoa & _).
        destruct (Forall2_nth_r _ _ _ _ _ Hm Ho) as (q' & Hq' & Hacct' & _).
        assert (Hjl : (j < length (t_posts t))%nat) by (apply nth_error_Some; congruence).
        rewrite <- Hoa, Hacct'. apply (li_cover _ _ _ _ L j q'); [assumption|assumption|].
        apply (Hu j q'); assumption.
    + intros a c. rewrite Hbal, Hall, sum_posts_app.
      rewrite (li_sum _ _ _ _ L), (inv_sum _ I), (sum_posts_same _ _ a c Hsame). reflexivity.
Qed.

Lemma Inv_init : Inv bstate0.
Proof.
  constructor; cbn.
  - apply bal_wf_nil.
  - constructor.
  - tauto.
  - intros a c. reflexivity.
Qed.

Theorem process_entry_inv s e s' : Inv s -> process_entry s e = Ok s' -> Inv s'.
Proof.
  intros I H. destruct e as [t|c dp|]; cbn [process_entry] in H.
  - eapply add_transaction_inv; eauto.
  - injection H as <-. destruct I. constructor; assumption.
  - now injection H as <-.
Qed.

Lemma process_from_inv es : forall i s s' n, Inv s -> process_from i s es = (Ok s', n) -> Inv s'.
Proof.
  induction es as [|e es IH]; intros i s s' n I H; cbn [process_from] in H.
  - now injection H as <- _.
  - destruct (process_entry s e) as [s1|x|] eqn:E; try discriminate.
    eapply IH; [|exact H]. eapply process_entry_inv; eauto.
Qed.

Theorem reachable_inv s : reachable s -> Inv s.
Proof. intros (es & n & H). eapply process_from_inv; [apply Inv_init|exact H]. Qed.
