(* C13: what `okane balance` and `okane register` print, and the text of a failing run, are the
   same for equivalent states; examples of equivalent but differently ordered states. *)
From Coq Require Import List NArith ZArith Bool QArith Qcanon Lia Permutation.
From Okv Require Import Base.Maps Base.Dec Model.Amount Model.Book Model.Query Model.Render Model.OrderSpec
     Proofs.MapsSort Proofs.RenderProofs Proofs.BookA_Maps Proofs.BookA_Amount
     Proofs.OrderMaps Proofs.OrderAmount Proofs.OrderBook.
Import ListNotations.
Open Scope Qc_scope.

(* ---- balance ---- *)
Lemma bal_round_equiv f f' b b' :
  map_equiv f f' -> bal_equiv b b' -> bal_equiv (bal_round f b) (bal_round f' b').
Proof.
  intros Hf [A [B C]]. unfold bal_round.
  split; [rewrite (keys_map_snd (fun p => a_round f (snd p))); exact A|].
  split; [rewrite (keys_map_snd (fun p => a_round f' (snd p))); exact B|].
  intros k.
  rewrite (get_map_snd (fun p => a_round f (snd p)) (fun _ v => a_round f v)) by reflexivity.
  rewrite (get_map_snd (fun p => a_round f' (snd p)) (fun _ v => a_round f' v)) by reflexivity.
  specialize (C k). destruct (get k b), (get k b'); cbn [option_map]; try contradiction; [|exact I].
  apply a_round_equiv; assumption.
Qed.

Lemma refold_equiv txns txns' st en :
  Forall2 otxn_equiv txns txns' -> bal_equiv (refold txns st en) (refold txns' st en).
Proof.
  intros H. unfold refold.
  apply (fold_left_rel bal_equiv otxn_equiv); [|exact H|apply bal_equiv_nil].
  intros b b' t t' Hb [Hd Hp]. rewrite Hd. destruct (range_contains st en (o_date t')); [|exact Hb].
  apply (fold_left_rel bal_equiv op_equiv); [|exact Hp|exact Hb].
  intros c c' p p' Hc [Ha [Hm _]]. rewrite Ha. apply bal_add_amount_equiv; assumption.
Qed.

Lemma balance_report_equiv s s' st en :
  st_equiv s s' -> bal_equiv (balance_report s st en) (balance_report s' st en).
Proof.
  intros [A B C D]. unfold balance_report. destruct (range_bypass st en); [exact A|].
  apply bal_round_equiv; [exact B|apply refold_equiv, D].
Qed.

Lemma stdout_balance_equiv s s' st en : st_equiv s s' -> stdout_balance s st en = stdout_balance s' st en.
Proof. intros H. apply render_balance_equiv, balance_report_equiv, H. Qed.

(* ---- register ---- *)
Lemma all_postings_equiv s s' : st_equiv s s' -> Forall2 op_equiv (all_postings s) (all_postings s').
Proof.
  intros [_ _ _ D]. unfold all_postings. eapply Forall2_flat_map; [|exact D]. intros t t' [_ H]. exact H.
Qed.

Lemma postings_of_equiv s s' flt : st_equiv s s' -> Forall2 op_equiv (postings_of s flt) (postings_of s' flt).
Proof.
  intros H. destruct flt as [a|]; cbn [postings_of]; [|apply all_postings_equiv, H].
  apply Forall2_filter; [|apply all_postings_equiv, H]. intros p p' [-> _]. reflexivity.
Qed.

Lemma render_register_from_equiv ps ps' : Forall2 op_equiv ps ps' -> forall acc acc', map_equiv acc acc' ->
  map (fun l => (fst (fst l), render_amount (snd (fst l)), render_amount (snd l))) (register_lines acc ps) =
  map (fun l => (fst (fst l), render_amount (snd (fst l)), render_amount (snd l))) (register_lines acc' ps').
Proof.
  induction 1 as [|p p' r r' [Ha [Hm _]] _ IH]; intros acc acc' Hacc; cbn [register_lines map fst snd]; [reflexivity|].
  pose proof (a_add_equiv _ _ _ _ Hacc Hm) as Hs.
  rewrite Ha, (render_amount_equiv _ _ Hm), (render_amount_equiv _ _ Hs). f_equal. apply IH, Hs.
Qed.

Lemma render_register_equiv ps ps' : Forall2 op_equiv ps ps' -> render_register ps = render_register ps'.
Proof. intros H. unfold render_register. apply render_register_from_equiv; [exact H|apply map_equiv_nil]. Qed.

Lemma stdout_register_equiv s s' flt : st_equiv s s' -> stdout_register s flt = stdout_register s' flt.
Proof. intros H. apply render_register_equiv, postings_of_equiv, H. Qed.

(* ---- a failing run ---- *)
Lemma stderr_equiv r r' : run_equiv r r' -> stderr_of r = stderr_of r'.
Proof.
  intros [Hi H]. unfold stderr_of. rewrite Hi.
  destruct (fst r), (fst r'); cbn [out_equiv] in H; try contradiction; try reflexivity.
  rewrite (render_err_equiv _ _ H). reflexivity.
Qed.

Lemma render_unbalanced_equiv e e' : err_equiv e e' -> render_unbalanced e = render_unbalanced e'.
Proof.
  destruct e, e'; cbn [err_equiv render_unbalanced]; intros H; try discriminate H; try reflexivity; try contradiction.
  f_equal. apply render_amount_equiv, H.
Qed.

(* ---- the whole claim, composed ---- *)
(* two runs over the same entries, started from equivalent states and re-ordered arbitrarily after
   every entry, stop at the same entry with the same printed error, or both succeed in states that
   print the same balance and register reports *)
Theorem runs_print_the_same es i s s' r r' :
  st_equiv s s' -> run_any_order i s es r -> run_any_order i s' es r' ->
  snd r = snd r' /\ stderr_of r = stderr_of r' /\
  match fst r, fst r' with
  | Ok f, Ok f' => st_equiv f f' /\
                   (forall st en, stdout_balance f st en = stdout_balance f' st en) /\
                   (forall flt, stdout_register f flt = stdout_register f' flt)
  | Err _, Err _ => True
  | Panic, Panic => True
  | _, _ => False
  end.
Proof.
  intros H R R'. pose proof (run_any_order_det es i s s' r r' H R R') as HE.
  split; [apply HE|]. split; [apply stderr_equiv, HE|]. destruct HE as [_ HE].
  destruct (fst r), (fst r'); cbn [out_equiv] in HE; try contradiction; auto.
  split; [exact HE|]. split; intros; [apply stdout_balance_equiv|apply stdout_register_equiv]; exact HE.
Qed.

(* ---- checkers for closed examples ---- *)
Section Checker.
  Context {V : Type} (R : V -> V -> Prop) (rb : V -> V -> bool).
  Hypothesis rb_sound : forall x y, rb x y = true -> R x y.

  Definition map_relb (m m' : amap V) : bool :=
    nodupb (keys m) && nodupb (keys m') &&
    forallb (fun k => match get k m, get k m' with
                      | Some x, Some y => rb x y
                      | None, None => true
                      | _, _ => false
                      end) (keys m ++ keys m').

  Lemma map_relb_sound m m' : map_relb m m' = true ->
    NoDup (keys m) /\ NoDup (keys m') /\
    forall k, match get k m, get k m' with
              | Some x, Some y => R x y
              | None, None => True
              | _, _ => False
              end.
  Proof.
    unfold map_relb. intros H. apply andb_true_iff in H. destruct H as [H H3].
    apply andb_true_iff in H. destruct H as [H1 H2].
    split; [apply nodupb_sound, H1|split; [apply nodupb_sound, H2|]].
    intros k. rewrite forallb_forall in H3.
    destruct (get k m) as [x|] eqn:E, (get k m') as [y|] eqn:E'; auto.
    - specialize (H3 k). rewrite E, E' in H3. apply rb_sound, H3.
      apply in_or_app. left. eapply get_some_in_keys, E.
    - specialize (H3 k). rewrite E, E' in H3. discriminate H3.
      apply in_or_app. left. eapply get_some_in_keys, E.
    - specialize (H3 k). rewrite E, E' in H3. discriminate H3.
      apply in_or_app. right. eapply get_some_in_keys, E'.
  Qed.
End Checker.

Definition amt_equivb : amount -> amount -> bool := map_relb Qc_eq_bool.
Definition bal_equivb : balance -> balance -> bool := map_relb amt_equivb.
Definition fmt_equivb : formats -> formats -> bool := map_relb Nat.eqb.

Lemma map_rel_eq_equiv {V} (m m' : amap V) :
  (NoDup (keys m) /\ NoDup (keys m') /\
   forall k, match get k m, get k m' with Some x, Some y => x = y | None, None => True | _, _ => False end) ->
  map_equiv m m'.
Proof.
  intros [A [B C]]. split; [exact A|split; [exact B|]]. intros k. specialize (C k).
  destruct (get k m), (get k m'); try contradiction; congruence.
Qed.

Lemma amt_equivb_sound a a' : amt_equivb a a' = true -> map_equiv a a'.
Proof. intros H. apply map_rel_eq_equiv. apply (map_relb_sound eq Qc_eq_bool Qc_eq_bool_correct), H. Qed.

Lemma fmt_equivb_sound f f' : fmt_equivb f f' = true -> map_equiv f f'.
Proof.
  intros H. apply map_rel_eq_equiv.
  apply (map_relb_sound eq Nat.eqb (fun x y E => proj1 (Nat.eqb_eq x y) E)), H.
Qed.

Lemma bal_equivb_sound b b' : bal_equivb b b' = true -> bal_equiv b b'.
Proof. intros H. apply (map_relb_sound map_equiv amt_equivb amt_equivb_sound), H. Qed.

(* ---- examples: the hypotheses are satisfiable by states that differ ---- *)
Module Examples.
  Definition usd : cid := 1%N.
  Definition eur : cid := 2%N.
  Definition lit (v : Z) (c : cid) : option vexpr := Some (VAmt (of_dec v 0) (Some c)).
  Definition post (a : aid) (x : option vexpr) : posting :=
    {| p_account := a; p_amount := x; p_cost := None; p_lot := None; p_balance := None |}.
  (* 10 gets 1 USD and 2 EUR; 11 takes the rest: its deduced amount has two commodities *)
  Definition t1 : txn := {| t_date := 1; t_posts := [post 10 (lit 1 usd); post 10 (lit 2 eur); post 11 None] |}.
  (* 5 USD against -7 EUR: a two-commodity residual, an exchange is implied *)
  Definition t2 : txn := {| t_date := 2; t_posts := [post 12 (lit 5 usd); post 13 (lit (-7) eur)] |}.
  (* asserts `= 5 USD` on account 10, which holds 2 USD and 2 EUR by then: the error carries the
     account's whole balance *)
  Definition t3 : txn :=
    {| t_date := 3;
       t_posts := [{| p_account := 10; p_amount := lit 1 usd; p_cost := None; p_lot := None;
                      p_balance := Some (VAmt (of_dec 5 0) (Some usd)) |}; post 11 None] |}.
  Definition ledger : list entry := [EFormat usd 2; EFormat eur 0; ETxn t1; ETxn t2].

  Definition ok_state (r : outcome bstate * nat) : bstate := match fst r with Ok s => s | _ => bstate0 end.
  Definition after3 : bstate := ok_state (process (firstn 3 ledger)).

  (* the same contents with every map iterating the other way round *)
  Definition after3' : bstate :=
    {| s_bal := [(11%N, [(eur, of_dec (-2) 0); (usd, of_dec (-1) 0)]); (10%N, [(eur, of_dec 2 0); (usd, of_dec 1 0)])];
       s_fmt := [(eur, 0%nat); (usd, 2%nat)];
       s_events := [];
       s_txns := [{| o_date := 1;
                     o_posts := [{| o_account := 10; o_amount := [(usd, of_dec 1 0)]; o_converted := None |};
                                 {| o_account := 10; o_amount := [(eur, of_dec 2 0)]; o_converted := None |};
                                 {| o_account := 11; o_amount := [(eur, of_dec (-2) 0); (usd, of_dec (-1) 0)];
                                    o_converted := None |}] |}] |}.

  Example after3_reached : process (firstn 3 ledger) = (Ok after3, 3%nat).
  Proof. reflexivity. Qed.

  Example after3_differ : after3 <> after3'.
  Proof. intros H. apply (f_equal (fun s => keys (s_bal s))) in H. vm_compute in H. discriminate H. Qed.

  Example after3_equiv : st_equiv after3 after3'.
  Proof.
    constructor.
    - apply bal_equivb_sound. vm_compute. reflexivity.
    - apply fmt_equivb_sound. vm_compute. reflexivity.
    - constructor.
    - constructor; [|constructor]. split; [reflexivity|].
      repeat (constructor; [split; [reflexivity|split; [apply amt_equivb_sound; vm_compute; reflexivity|reflexivity]]|]).
      constructor.
  Qed.

  (* the rest of the ledger from both: different states, equivalent, same reports *)
  Definition fin : bstate := ok_state (process_from 3 after3 [ETxn t2]).
  Definition fin' : bstate := ok_state (process_from 3 after3' [ETxn t2]).

  Example fin_run : run_any_order 0 bstate0 ledger (Ok fin, 4%nat).
  Proof. apply (process_from_is_run ledger 0 bstate0 st_equiv_init). Qed.

  Example fin'_run : run_any_order 0 bstate0 ledger (Ok fin', 4%nat).
  Proof.
    pose proof (processed_self _ _ _ after3_reached) as H3.
    assert (st_equiv after3' after3') as H3'
      by (eapply st_equiv_trans; [apply st_equiv_sym, after3_equiv|apply after3_equiv]).
    eapply rao_step; [reflexivity| |].
    { pose proof (process_entry_equiv _ _ (EFormat usd 2) st_equiv_init) as H. exact H. }
    eapply rao_step; [reflexivity| |].
    { pose proof (process_from_self [EFormat usd 2; EFormat eur 0] 0 bstate0 st_equiv_init) as H. exact H. }
    eapply rao_step; [reflexivity|exact after3_equiv|].
    apply (process_from_is_run [ETxn t2] 3 after3' H3').
  Qed.

  Example fin_differ : fin <> fin'.
  Proof. intros H. apply (f_equal (fun s => keys (s_bal s))) in H. vm_compute in H. discriminate H. Qed.

  Example fin_same_output :
    st_equiv fin fin' /\
    (forall st en, stdout_balance fin st en = stdout_balance fin' st en) /\
    (forall flt, stdout_register fin flt = stdout_register fin' flt).
  Proof.
    pose proof (runs_print_the_same ledger 0 bstate0 bstate0 _ _ st_equiv_init fin_run fin'_run) as [_ [_ H]].
    exact H.
  Qed.

  (* a failing entry: same index, same text, although the payloads are ordered differently *)
  Example failing_same_text :
    stderr_of (process_from 3 after3 [ETxn t3]) = stderr_of (process_from 3 after3' [ETxn t3]) /\
    fst (process_from 3 after3 [ETxn t3]) <> fst (process_from 3 after3' [ETxn t3]) /\
    exists c d, fst (process_from 3 after3 [ETxn t3]) = Err (BalanceAssertionFailure 0 c d) /\ length c = 2%nat.
  Proof.
    split; [apply stderr_equiv, process_from_equiv, after3_equiv|]. split.
    - intros H. vm_compute in H. discriminate H.
    - eexists. eexists. split; reflexivity.
  Qed.

  (* the orientation of the implied exchange does follow the order of the residual: ev_equiv cannot be `=` *)
  Example implied_exchange_orientation :
    let r := [(usd, of_dec 5 0); (eur, of_dec (-7) 0)] in
    let r' := [(eur, of_dec (-7) 0); (usd, of_dec 5 0)] in
    map_equiv r r' /\
    exists e, check_balance [] 2 [] r = Ok ([], Some e) /\ check_balance [] 2 [] r' = Ok ([], Some (ev_swap e)) /\
              e <> ev_swap e.
  Proof.
    split; [apply amt_equivb_sound; vm_compute; reflexivity|].
    eexists. split; [reflexivity|]. split; [reflexivity|].
    intros H. apply (f_equal e_xc) in H. vm_compute in H. discriminate H.
  Qed.
End Examples.

(* ---- bundled for Props/C13.v ---- *)
Theorem check_balance_respects_equiv f f' d posts posts' r r' :
  map_equiv f f' -> Forall2 op_equiv posts posts' -> map_equiv r r' ->
  out_equiv cb_equiv (check_balance f d posts r) (check_balance f' d posts' r') /\
  (forall e e', check_balance f d posts r = Err e -> check_balance f' d posts' r' = Err e' ->
                render_unbalanced e = render_unbalanced e' /\ render_err e = render_err e').
Proof.
  intros Hf Hp Hr. pose proof (check_balance_equiv f f' d posts posts' r r' Hf Hp Hr) as H.
  split; [exact H|]. intros e e' E E'. rewrite E, E' in H. cbn [out_equiv] in H.
  split; [apply render_unbalanced_equiv, H|apply render_err_equiv, H].
Qed.

Theorem reports_order_independent s s' : st_equiv s s' ->
  (forall st en, render_balance (balance_report s st en) = render_balance (balance_report s' st en)) /\
  render_register (all_postings s) = render_register (all_postings s') /\
  (forall flt, render_register (postings_of s flt) = render_register (postings_of s' flt)).
Proof.
  intros H. split; [intros; apply stdout_balance_equiv, H|].
  split; [apply (stdout_register_equiv s s' None H)|intros; apply stdout_register_equiv, H].
Qed.

Theorem error_text_order_independent :
  (forall e e', err_equiv e e' -> render_err e = render_err e' /\ render_unbalanced e = render_unbalanced e') /\
  (forall r r', run_equiv r r' -> stderr_of r = stderr_of r').
Proof.
  split; [|exact stderr_equiv]. intros e e' H. split; [apply render_err_equiv, H|apply render_unbalanced_equiv, H].
Qed.

Theorem st_equiv_equivalence :
  (forall s s', st_equiv s s' -> st_equiv s' s) /\
  (forall s1 s2 s3, st_equiv s1 s2 -> st_equiv s2 s3 -> st_equiv s1 s3) /\
  st_equiv bstate0 bstate0 /\
  (forall es s n, process es = (Ok s, n) -> st_equiv s s).
Proof.
  split; [exact st_equiv_sym|]. split; [exact st_equiv_trans|]. split; [exact st_equiv_init|exact processed_self].
Qed.

Theorem examples_exist :
  exists es s s' f f' n,
    process es = (Ok s, n) /\ s <> s' /\ st_equiv s s' /\
    (exists e, process_from n s [e] = (Ok f, S n) /\ process_from n s' [e] = (Ok f', S n)) /\
    f <> f' /\ st_equiv f f'.
Proof.
  exists (firstn 3 Examples.ledger), Examples.after3, Examples.after3', Examples.fin, Examples.fin', 3%nat.
  split; [exact Examples.after3_reached|]. split; [exact Examples.after3_differ|].
  split; [exact Examples.after3_equiv|]. split; [exists (ETxn Examples.t2); split; reflexivity|].
  split; [exact Examples.fin_differ|apply Examples.fin_same_output].
Qed.
