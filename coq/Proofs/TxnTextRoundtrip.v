(* C15 round trip: the text ImportCmd prints for clean transactions is read back by the model
   reader as the same transactions (numbers up to the padding `rescale` adds). *)
From Coq Require Import List NArith ZArith Bool Lia ZifyBool ZifyN ZifyNat.
From Okv Require Import Model.Lit Model.SingleEntry2 Model.TxnText Model.TxnTextSpec.
From Okv Require Import Proofs.TxnTextLines Proofs.TxnTextHeader Proofs.TxnTextMeta
                        Proofs.TxnTextAmount Proofs.TxnTextPosting.
Import ListNotations.
Open Scope N_scope.

Local Arguments N.add : simpl never.
Local Arguments N.mul : simpl never.
Local Arguments N.sub : simpl never.
Local Arguments N.leb : simpl never.
Local Arguments N.ltb : simpl never.
Local Arguments N.eqb : simpl never.

(* ---------------- what the reader returns ---------------- *)
Definition rbp (p : precisions) (po : sposting) : sposting :=
  {| sp_account := sp_account po; sp_clear := sp_clear po;
     sp_amount := option_map (rb_pamount p) (sp_amount po);
     sp_balance := option_map (rb_amount p) (sp_balance po); sp_meta := sp_meta po |}.

Definition rb_txn (p : precisions) (t : stxn) : stxn :=
  {| tr_date := tr_date t; tr_edate := tr_edate t; tr_clear := tr_clear t; tr_code := tr_code t;
     tr_payee := tr_payee t; tr_meta := tr_meta t; tr_posts := map (rbp p) (tr_posts t) |}.

(* ---------------- the printed text as a list of lines ---------------- *)
Definition posting_lines (p : precisions) (w : nat) (po : sposting) : list str :=
  match sp_amount po with
  | Some pa => posting_lb p (pcol p w po pa) po pa :: map meta_lb (sp_meta po)
  | None => []
  end.

Fixpoint postings_lines (p : precisions) (ws : list nat) (ps : list sposting) : list str :=
  match ps with
  | [] => []
  | po :: r => posting_lines p (hd 0%nat ws) po ++ postings_lines p (tl ws) r
  end.

Definition txn_lines (p : precisions) (ws : list nat) (t : stxn) : list str :=
  header_line t :: map meta_lb (tr_meta t) ++ postings_lines p ws (tr_posts t).

Fixpoint all_lines (p : precisions) (wss : list (list nat)) (ts : list stxn) : list str :=
  match ts with
  | [] => []
  | t :: r => txn_lines p (hd [] wss) t ++ [] :: all_lines p (tl wss) r
  end.

(* ---- clean, taken apart ---- *)
Lemma clean_parts : forall t, clean t = true ->
  clean_header t = true /\ forallb clean_meta (tr_meta t) = true /\ forallb clean_posting (tr_posts t) = true.
Proof.
  intros t H. unfold clean in H.
  apply andb_true_iff in H. destruct H as [H H6].
  apply andb_true_iff in H. destruct H as [H H5].
  unfold clean_header. rewrite H. repeat split; assumption.
Qed.

Lemma clean_posting_parts : forall po, clean_posting po = true ->
  exists pa, clean_posting_line po pa /\ forallb clean_meta (sp_meta po) = true.
Proof.
  intros po H. unfold clean_posting in H.
  apply andb_true_iff in H. destruct H as [H H4].
  apply andb_true_iff in H. destruct H as [H H3].
  apply andb_true_iff in H. destruct H as [H1 H2].
  destruct (sp_amount po) as [pa|] eqn:E; [|discriminate].
  apply andb_true_iff in H2. destruct H2 as [H2 H2'].
  exists pa. split; [|exact H4]. unfold clean_posting_line. rewrite E.
  split; [reflexivity|]. split; [exact H1|]. split; [exact H2|]. split.
  - destruct (pa_cost pa); [exact H2'|exact I].
  - destruct (sp_balance po); [exact H3|exact I].
Qed.

(* ---- text = unlines lines ---- *)
Lemma metas_unlines : forall ms, flat_map meta_line ms = unlines (map meta_lb ms).
Proof.
  induction ms as [|m ms IH]; [reflexivity|].
  cbn [flat_map map]. rewrite unlines_cons, IH, meta_line_eq, <- app_assoc. reflexivity.
Qed.

Lemma postings_unlines : forall p ps ws, forallb clean_posting ps = true ->
  postings_text p ws ps = unlines (postings_lines p ws ps).
Proof.
  induction ps as [|po r IH]; intros ws H; [reflexivity|].
  cbn [forallb] in H. apply andb_true_iff in H. destruct H as [H1 H2].
  destruct (clean_posting_parts po H1) as (pa & (Hs & _) & _).
  cbn [postings_text postings_lines]. rewrite unlines_app, <- (IH (tl ws) H2).
  f_equal. unfold posting_lines. rewrite Hs, (posting_text_eq _ _ _ _ Hs), unlines_cons, metas_unlines.
  reflexivity.
Qed.

Lemma txn_unlines : forall p ws t, clean t = true -> txn_text p ws t = unlines (txn_lines p ws t).
Proof.
  intros p ws t H. destruct (clean_parts t H) as (_ & _ & Hp).
  unfold txn_text, txn_lines. rewrite unlines_cons, unlines_app, header_text_eq, metas_unlines,
    (postings_unlines p _ ws Hp), <- app_assoc. reflexivity.
Qed.

Lemma print_all_unlines : forall p ts wss, forallb clean ts = true ->
  print_all p wss ts = unlines (all_lines p wss ts).
Proof.
  induction ts as [|t r IH]; intros wss H; [reflexivity|].
  cbn [forallb] in H. apply andb_true_iff in H. destruct H as [H1 H2].
  cbn [print_all all_lines]. rewrite unlines_app, unlines_cons, <- (IH (tl wss) H2), (txn_unlines p _ t H1).
  reflexivity.
Qed.

(* ---- no line has a line break ---- *)
Lemma metas_nolf : forall ms, forallb clean_meta ms = true -> forallb nolf (map meta_lb ms) = true.
Proof.
  induction ms as [|m ms IH]; intros H; [reflexivity|].
  cbn [forallb] in H. apply andb_true_iff in H. destruct H as [H1 H2].
  cbn [map forallb]. rewrite (meta_lb_nolf m H1), (IH H2). reflexivity.
Qed.

Lemma forallb_nolf_app : forall a b : list str,
  forallb nolf a = true -> forallb nolf b = true -> forallb nolf (a ++ b) = true.
Proof. intros a b H1 H2. rewrite forallb_app, H1, H2. reflexivity. Qed.

Lemma postings_nolf : forall p ps ws, forallb clean_posting ps = true ->
  forallb nolf (postings_lines p ws ps) = true.
Proof.
  induction ps as [|po r IH]; intros ws H; [reflexivity|].
  cbn [forallb] in H. apply andb_true_iff in H. destruct H as [H1 H2].
  destruct (clean_posting_parts po H1) as (pa & Hl & Hm).
  cbn [postings_lines]. apply forallb_nolf_app; [|apply IH; exact H2].
  unfold posting_lines. destruct Hl as (Hs & Hl). rewrite Hs. cbn [forallb].
  rewrite posting_lb_nolf by (split; assumption). rewrite (metas_nolf _ Hm). reflexivity.
Qed.

Lemma txn_lines_nolf : forall p ws t, clean t = true -> forallb nolf (txn_lines p ws t) = true.
Proof.
  intros p ws t H. destruct (clean_parts t H) as (Hh & Hm & Hp).
  unfold txn_lines. cbn [forallb]. rewrite (header_line_nolf t Hh). cbn [andb].
  apply forallb_nolf_app; [apply metas_nolf; exact Hm|apply postings_nolf; exact Hp].
Qed.

Lemma all_lines_nolf : forall p ts wss, forallb clean ts = true -> forallb nolf (all_lines p wss ts) = true.
Proof.
  induction ts as [|t r IH]; intros wss H; [reflexivity|].
  cbn [forallb] in H. apply andb_true_iff in H. destruct H as [H1 H2].
  cbn [all_lines]. apply forallb_nolf_app; [apply txn_lines_nolf; exact H1|].
  cbn [forallb]. rewrite (IH (tl wss) H2). reflexivity.
Qed.

(* ---------------- read_body ---------------- *)
Definition close (cur : option sposting) (t : stxn) : stxn :=
  match cur with Some p => add_post t p | None => t end.

Lemma read_body_step : forall l rest t cur,
  starts_indented l = true -> at_eol (drop_sp l) = false ->
  read_body (l :: rest) t cur =
  match read_indented (drop_sp l) with
  | LErr => BErr
  | LUnsupported => BUnsupported
  | LMeta m => match cur with
               | Some p => read_body rest t (Some (post_add_meta p m))
               | None => read_body rest (add_meta t m) None
               end
  | LPosting p => read_body rest (close cur t) (Some p)
  end.
Proof. intros l rest t cur H1 H2. cbn [read_body]. rewrite H1, H2. reflexivity. Qed.

Lemma read_body_blank : forall rest t cur, read_body ([] :: rest) t cur = BOk (close cur t) ([] :: rest).
Proof. reflexivity. Qed.

Lemma read_body_metas_txn : forall ms rest t, forallb clean_meta ms = true ->
  read_body (map meta_lb ms ++ rest) t None = read_body rest (fold_left add_meta ms t) None.
Proof.
  induction ms as [|m ms IH]; intros rest t H; [reflexivity|].
  cbn [forallb] in H. apply andb_true_iff in H. destruct H as [H1 H2].
  destruct (meta_line_reads m H1) as (A & B & C).
  cbn [map app]. rewrite read_body_step by assumption. rewrite C. cbn [fold_left]. apply IH. exact H2.
Qed.

Lemma read_body_metas_post : forall ms rest t po, forallb clean_meta ms = true ->
  read_body (map meta_lb ms ++ rest) t (Some po) = read_body rest t (Some (fold_left post_add_meta ms po)).
Proof.
  induction ms as [|m ms IH]; intros rest t po H; [reflexivity|].
  cbn [forallb] in H. apply andb_true_iff in H. destruct H as [H1 H2].
  destruct (meta_line_reads m H1) as (A & B & C).
  cbn [map app]. rewrite read_body_step by assumption. rewrite C. cbn [fold_left]. apply IH. exact H2.
Qed.

Lemma fold_post_add_meta : forall ms q,
  fold_left post_add_meta ms q =
  {| sp_account := sp_account q; sp_clear := sp_clear q; sp_amount := sp_amount q;
     sp_balance := sp_balance q; sp_meta := sp_meta q ++ ms |}.
Proof.
  induction ms as [|m ms IH]; intros q.
  - cbn [fold_left]. rewrite app_nil_r. destruct q; reflexivity.
  - cbn [fold_left]. rewrite IH. unfold post_add_meta. cbn [sp_account sp_clear sp_amount sp_balance sp_meta].
    rewrite <- app_assoc. reflexivity.
Qed.

Lemma fold_add_meta : forall ms t,
  fold_left add_meta ms t =
  {| tr_date := tr_date t; tr_edate := tr_edate t; tr_clear := tr_clear t; tr_code := tr_code t;
     tr_payee := tr_payee t; tr_meta := tr_meta t ++ ms; tr_posts := tr_posts t |}.
Proof.
  induction ms as [|m ms IH]; intros t.
  - cbn [fold_left]. rewrite app_nil_r. destruct t; reflexivity.
  - cbn [fold_left]. rewrite IH. unfold add_meta.
    cbn [tr_date tr_edate tr_clear tr_code tr_payee tr_meta tr_posts]. rewrite <- app_assoc. reflexivity.
Qed.

Lemma fold_add_post : forall qs t,
  fold_left add_post qs t =
  {| tr_date := tr_date t; tr_edate := tr_edate t; tr_clear := tr_clear t; tr_code := tr_code t;
     tr_payee := tr_payee t; tr_meta := tr_meta t; tr_posts := tr_posts t ++ qs |}.
Proof.
  induction qs as [|q qs IH]; intros t.
  - cbn [fold_left]. rewrite app_nil_r. destruct t; reflexivity.
  - cbn [fold_left]. rewrite IH. unfold add_post.
    cbn [tr_date tr_edate tr_clear tr_code tr_payee tr_meta tr_posts]. rewrite <- app_assoc. reflexivity.
Qed.

Lemma read_body_postings : forall p ps ws rest t cur, forallb clean_posting ps = true ->
  read_body (postings_lines p ws ps ++ [] :: rest) t cur
  = BOk (fold_left add_post (map (rbp p) ps) (close cur t)) ([] :: rest).
Proof.
  induction ps as [|po r IH]; intros ws rest t cur H; [reflexivity|].
  cbn [forallb] in H. apply andb_true_iff in H. destruct H as [H1 H2].
  destruct (clean_posting_parts po H1) as (pa & Hl & Hm).
  assert (Hs : sp_amount po = Some pa) by (destruct Hl; assumption).
  destruct (posting_line_reads p (pcol p (hd 0%nat ws) po pa) po pa Hl (pcol_ge2 _ _ _ _)) as (A & B & C).
  cbn [postings_lines]. unfold posting_lines. rewrite Hs. rewrite <- app_assoc. cbn [app].
  rewrite read_body_step by assumption. rewrite C.
  rewrite read_body_metas_post by exact Hm.
  rewrite IH by exact H2. cbn [map fold_left close]. f_equal. f_equal. f_equal.
  rewrite fold_post_add_meta. unfold rbp, rb_posting. cbn [sp_account sp_clear sp_amount sp_balance sp_meta app].
  reflexivity.
Qed.

Theorem read_body_txn : forall p ws t rest, clean t = true ->
  read_body ((map meta_lb (tr_meta t) ++ postings_lines p ws (tr_posts t)) ++ [] :: rest) (hdr t) None
  = BOk (rb_txn p t) ([] :: rest).
Proof.
  intros p ws t rest H. destruct (clean_parts t H) as (_ & Hm & Hp).
  rewrite <- app_assoc, read_body_metas_txn by exact Hm.
  rewrite read_body_postings by exact Hp.
  cbn [close]. rewrite fold_add_post, fold_add_meta. unfold hdr, rb_txn.
  cbn [tr_date tr_edate tr_clear tr_code tr_payee tr_meta tr_posts app]. reflexivity.
Qed.

(* ---------------- read_entries ---------------- *)
Lemma read_entries_header : forall f c r rest acc, is_digit c = true -> r <> [] ->
  read_entries (S f) ((c :: r) :: rest) acc =
  match read_header (c :: r) (existsb (has_char 41) rest) with
  | HErr => RItems (rev acc) true
  | HUnsupported => RUnsupported
  | HOk t =>
      match read_body rest t None with
      | BErr => RItems (rev acc) true
      | BUnsupported => RUnsupported
      | BOk t' rest' => read_entries f rest' (ITxn t' :: acc)
      end
  end.
Proof.
  intros f c r rest acc Hc Hr.
  assert (E1 : drop_cr (c :: r) = c :: r).
  { unfold drop_cr. rewrite span_stop; [reflexivity|]. cbn [stops]. chr. }
  assert (E2 : at_eol (drop_sp (c :: r)) = false).
  { rewrite drop_sp_stop by (cbn [stops]; chr). destruct r; [congruence|reflexivity]. }
  cbn [read_entries]. rewrite E1. cbv beta iota zeta. rewrite E2, Hc. reflexivity.
Qed.

Lemma read_entries_blank : forall f rest acc, read_entries (S f) ([] :: rest) acc = read_entries f rest acc.
Proof. reflexivity. Qed.

Lemma read_entries_txn : forall p ws t f rest acc, clean t = true ->
  read_entries (S f) (txn_lines p ws t ++ [] :: rest) acc
  = read_entries f ([] :: rest) (ITxn (rb_txn p t) :: acc).
Proof.
  intros p ws t f rest acc H. destruct (clean_parts t H) as (Hh & _ & _).
  destruct (header_line_head t Hh) as (c & r & E & Hc & Hr).
  unfold txn_lines. cbn [app]. rewrite E, read_entries_header by assumption.
  rewrite <- E, read_header_line by exact Hh.
  rewrite read_body_txn by exact H. reflexivity.
Qed.

Lemma read_entries_all : forall p ts wss f acc, forallb clean ts = true -> (2 * length ts + 1 <= f)%nat ->
  read_entries f (all_lines p wss ts) acc = RItems (rev acc ++ map ITxn (map (rb_txn p) ts)) false.
Proof.
  induction ts as [|t r IH]; intros wss f acc H Hf.
  - destruct f; [cbn [length] in Hf; lia|]. cbn [all_lines map]. rewrite app_nil_r. reflexivity.
  - cbn [forallb] in H. apply andb_true_iff in H. destruct H as [H1 H2].
    cbn [length] in Hf. destruct f as [|[|f]]; try lia.
    cbn [all_lines]. rewrite read_entries_txn by exact H1. rewrite read_entries_blank.
    rewrite IH by (exact H2 || lia). cbn [rev map]. rewrite <- app_assoc. reflexivity.
Qed.

Lemma all_lines_len : forall p ts wss, (2 * length ts <= length (all_lines p wss ts))%nat.
Proof.
  induction ts as [|t r IH]; intros wss; [cbn [length]; lia|].
  cbn [all_lines length]. unfold txn_lines. rewrite app_length. cbn [length].
  specialize (IH (tl wss)). lia.
Qed.

Theorem read_all_print_all : forall p wss ts, forallb clean ts = true ->
  read_all (print_all p wss ts) = RItems (map ITxn (map (rb_txn p) ts)) false.
Proof.
  intros p wss ts H. unfold read_all.
  rewrite print_all_unlines by exact H. rewrite split_unlines by (apply all_lines_nolf; exact H).
  cbv zeta. rewrite read_entries_all; [reflexivity|exact H|].
  pose proof (all_lines_len p ts wss). lia.
Qed.

(* ---------------- the transaction read back is the one printed ---------------- *)
Lemma list_same_map : forall {A} (f : A -> A -> bool) (g : A -> A) l,
  (forall x, In x l -> f x (g x) = true) -> list_same f l (map g l) = true.
Proof.
  intros A f g l. induction l as [|x l IH]; intros H; [reflexivity|].
  cbn [map list_same]. rewrite H by (left; reflexivity). apply IH. intros y Hy. apply H. right. exact Hy.
Qed.

Lemma list_same_refl : forall {A} (f : A -> A -> bool) l, (forall x, f x x = true) -> list_same f l l = true.
Proof.
  intros A f l H. induction l as [|x l IH]; [reflexivity|]. cbn [list_same]. rewrite H, IH. reflexivity.
Qed.

Lemma date_eqb_refl : forall d, date_eqb d d = true.
Proof. intros d. unfold date_eqb. rewrite !N.eqb_refl. reflexivity. Qed.

Lemma clear_eqb_refl : forall c, clear_eqb c c = true.
Proof. intros []; reflexivity. Qed.

Lemma meta_eqb_refl : forall m, meta_eqb m m = true.
Proof.
  intros [c|k v|k v|ts]; cbn [meta_eqb]; rewrite ?str_eqb_refl; try reflexivity.
  apply list_same_refl. apply str_eqb_refl.
Qed.

Lemma opt_same_refl : forall {A} (f : A -> A -> bool) o, (forall x, f x x = true) -> opt_same f o o = true.
Proof. intros A f [x|] H; [apply H|reflexivity]. Qed.

Lemma same_posting_rbp : forall p po, clean_posting po = true -> same_posting p po (rbp p po) = true.
Proof.
  intros p po H. destruct (clean_posting_parts po H) as (pa & (Hs & _ & Ha & Hc & Hb) & _).
  unfold same_posting, rbp. cbn [sp_account sp_clear sp_amount sp_balance sp_meta].
  rewrite str_eqb_refl, clear_eqb_refl, (list_same_refl _ _ meta_eqb_refl), Hs. cbn [option_map opt_same andb].
  unfold rb_pamount. cbn [pa_amount pa_cost]. rewrite (same_amount_rb p _ Ha). cbn [andb].
  assert (Hopt : forall o, opt_clean o -> opt_same (same_amount p) o (option_map (rb_amount p) o) = true).
  { intros [x|] Hx; [apply same_amount_rb; exact Hx|reflexivity]. }
  rewrite (Hopt _ Hc), (Hopt _ Hb). reflexivity.
Qed.

Theorem same_txn_rb : forall p t, clean t = true -> same_txn p t (rb_txn p t) = true.
Proof.
  intros p t H. destruct (clean_parts t H) as (_ & _ & Hp).
  unfold same_txn, rb_txn. cbn [tr_date tr_edate tr_clear tr_code tr_payee tr_meta tr_posts].
  rewrite date_eqb_refl, (opt_same_refl _ _ date_eqb_refl), clear_eqb_refl, (opt_same_refl _ _ str_eqb_refl),
    str_eqb_refl, (list_same_refl _ _ meta_eqb_refl). cbn [andb].
  apply list_same_map. intros po Hin. apply same_posting_rbp.
  rewrite forallb_forall in Hp. apply Hp. exact Hin.
Qed.

(* ---------------- the property ---------------- *)
Theorem roundtrip_all : forall p wss ts, forallb clean ts = true ->
  exists ts', read_all (print_all p wss ts) = RItems (map ITxn ts') false /\
              length ts' = length ts /\ list_same (same_txn p) ts ts' = true.
Proof.
  intros p wss ts H. exists (map (rb_txn p) ts). split; [apply read_all_print_all; exact H|].
  split; [apply map_length|].
  apply list_same_map. intros t Hin. apply same_txn_rb. rewrite forallb_forall in H. apply H. exact Hin.
Qed.

Theorem roundtrip : forall p ws t, clean t = true ->
  exists t', read_all (txn_text p ws t ++ [10]) = RItems [ITxn t'] false /\ same_txn p t t' = true.
Proof.
  intros p ws t H. exists (rb_txn p t). split; [|apply same_txn_rb; exact H].
  pose proof (read_all_print_all p [ws] [t]) as R. cbn [print_all hd forallb map] in R.
  rewrite app_nil_r, andb_true_r in R. apply R. exact H.
Qed.

Theorem one_txn_per_record : forall p ws t, clean t = true ->
  exists items, read_all (txn_text p ws t ++ [10]) = RItems items false /\ length items = 1%nat.
Proof.
  intros p ws t H. destruct (roundtrip p ws t H) as (t' & R & _).
  exists [ITxn t']. split; [exact R|reflexivity].
Qed.
