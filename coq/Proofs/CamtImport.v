(* Structure of iso_camt053::import on a single statement: which transaction comes from which
   record, which fields the builder methods touch, where the balance assertions land. *)
From Coq Require Import List NArith ZArith Bool QArith Qcanon Lia.
From Okv Require Import Base.Dec Model.Lit Model.SingleEntry2 Model.Camt Model.CamtBook Model.CamtSpec
  Proofs.CamtBasics.
Import ListNotations.

(* ---- text equality ---- *)
Lemma str_eqb_eq : forall a b, str_eqb a b = true -> a = b.
Proof.
  induction a as [|x a IH]; destruct b as [|y b]; simpl; intros H; try discriminate; auto.
  apply andb_true_iff in H. destruct H as [H1 H2]. apply N.eqb_eq in H1. subst. f_equal. auto.
Qed.

Lemma str_eqb_refl : forall a, str_eqb a a = true.
Proof. induction a; simpl; auto. rewrite N.eqb_refl. auto. Qed.

(* ---- definitions the property statements use ---- *)

(* the record a transaction is built from *)
Definition unit_txn (cfg : config) (u : unit_rec) : txn + ierr :=
  match u with UEntry e => entry_txn cfg e | UDetail e d => detail_txn cfg e d end.

(* a transaction with its balance assertion erased *)
Definition no_balance (t : txn) : txn :=
  {| x_date := x_date t; x_edate := x_edate t; x_code := x_code t; x_payee := x_payee t;
     x_comments := x_comments t; x_dest := x_dest t; x_clear := x_clear t;
     x_transferred := x_transferred t; x_amount := x_amount t; x_rates := x_rates t;
     x_balance := None; x_charges := x_charges t |}.
(* equal in every field except, possibly, x_balance *)
Definition same_but_balance (t' t : txn) : Prop := no_balance t' = no_balance t.

(* the opening-balance transaction of a statement: present iff there is an OPBD balance and an entry *)
Definition opening_of (st : statement) : list txn :=
  match find_balance (st_balances st) OPBD, st_entries st with
  | Some ob, first :: _ => [opening_txn first ob]
  | _, _ => []
  end.

Definition stmt_order (cfg : config) (st : statement) : list entry :=
  if cf_new_to_old cfg then rev (st_entries st) else st_entries st.

Definition last_bal (cb : option oamount) (ts : list txn) : list txn :=
  match cb with Some b => set_last_balance ts b | None => ts end.

(* ---- fields the builder methods leave alone ---- *)
Definition core (t : txn) :=
  (x_date t, x_edate t, x_code t, x_payee t, x_comments t, x_dest t, x_clear t, x_amount t, x_balance t).

Lemma add_charge_core : forall t p a, core (add_charge t p a) = core t.
Proof. reflexivity. Qed.

Lemma try_add_charge_not_included_core : forall t p a t',
  try_add_charge_not_included t p a = inl t' -> core t' = core t /\ x_rates t' = x_rates t.
Proof.
  intros t p a t'. unfold try_add_charge_not_included.
  destruct (negb _); [discriminate|].
  destruct (x_transferred t); [discriminate|].
  intros H. inversion H. split; reflexivity.
Qed.

Lemma add_charges_core : forall cfg rs t t',
  add_charges t cfg rs = inl t' -> core t' = core t /\ x_rates t' = x_rates t.
Proof.
  intros cfg rs. induction rs as [|cr rest IH]; intros t t' H; simpl in H.
  - inversion H. auto.
  - destruct (d_is_zero _); [auto|].
    destruct (cf_operator cfg) as [payee|]; [|discriminate].
    destruct (negb (cr_included cr)).
    + destruct (try_add_charge_not_included t payee _) as [t1|] eqn:E; [|discriminate].
      apply try_add_charge_not_included_core in E. destruct E as [E1 E2].
      apply IH in H. destruct H as [H1 H2]. split; congruence.
    + apply IH in H. exact H.
Qed.

Lemma add_rate_core : forall t s g r t',
  add_rate t s g r = inl t' ->
  core t' = core t /\ x_transferred t' = x_transferred t /\ x_charges t' = x_charges t.
Proof.
  intros t s g r t'. unfold add_rate.
  destruct (str_eqb s g); [discriminate|].
  destruct (rates_get g (x_rates t)).
  - destruct (_ && _); [|discriminate]. intros H; inversion H. repeat split.
  - intros H; inversion H. repeat split.
Qed.

Lemma set_transferred_core : forall t a, core (set_transferred t a) = core t.
Proof. reflexivity. Qed.

(* ---- base_txn ---- *)
Lemma guess_value_date_expected : forall e, guess_value_date e = expected_date e.
Proof. reflexivity. Qed.

Lemma base_txn_fields : forall e f a c,
  let t := base_txn e f a c in
  x_date t = expected_date e /\ x_edate t = expected_edate e /\ x_amount t = a /\
  x_balance t = None /\ x_dest t = f_account f /\ x_rates t = [] /\ x_transferred t = None /\
  x_charges t = [] /\
  x_payee t = payee_or_unknown f.
Proof.
  intros e f a c. unfold base_txn, expected_edate, set_effective_date.
  cbn [txn_new x_date]. rewrite guess_value_date_expected.
  destruct (date_eqb (expected_date e) (en_booking e)); destruct c; destruct (negb (f_cleared f));
    cbn; repeat split.
Qed.

(* ---- one record, one transaction ---- *)
Lemma detail_txn_inv : forall cfg e d t,
  detail_txn cfg e d = inl t ->
  exists t2 t3,
    core t2 = core (base_txn e (td_frag d) (to_data (td_amount d) (td_cd d)) (Some (detail_code d))) /\
    add_charges t2 cfg (en_charges e) = inl t3 /\ add_charges t3 cfg (td_charges d) = inl t.
Proof.
  intros cfg e d t. unfold detail_txn.
  set (b := base_txn e (td_frag d) (to_data (td_amount d) (td_cd d)) (Some (detail_code d))).
  match goal with |- match ?r with _ => _ end = _ -> _ => destruct r as [t2|] eqn:R end; [|discriminate].
  destruct (add_charges t2 cfg (en_charges e)) as [t3|] eqn:E3; [|discriminate].
  intros H. exists t2, t3. split; [|auto].
  destruct (td_details d) as [ad|].
  - destruct (negb _).
    + destruct (ad_exchange ad) as [x|].
      * destruct (add_rate b (cx_src x) (cx_tgt x) (cx_rate x)) as [t1|] eqn:E1; [|discriminate].
        inversion R. apply add_rate_core in E1. rewrite set_transferred_core. tauto.
      * inversion R. reflexivity.
    + inversion R. reflexivity.
  - inversion R. reflexivity.
Qed.

Lemma unit_txn_core : forall cfg u t,
  unit_txn cfg u = inl t ->
  core t = core (base_txn (unit_entry u) (unit_frag u) (to_data (unit_amount u) (unit_cd u))
                          (match u with UEntry e => Some (entry_code e) | UDetail _ d => Some (detail_code d) end)).
Proof.
  intros cfg [e|e d] t H; simpl in H.
  - unfold entry_txn in H. apply add_charges_core in H. apply H.
  - apply detail_txn_inv in H. destruct H as (t2 & t3 & H2 & H3 & H4).
    apply add_charges_core in H3, H4. simpl. destruct H3, H4. congruence.
Qed.

Lemma unit_txn_fields : forall cfg u t,
  unit_txn cfg u = inl t ->
  x_amount t = to_data (unit_amount u) (unit_cd u) /\
  x_date t = expected_date (unit_entry u) /\
  x_edate t = expected_edate (unit_entry u) /\
  x_balance t = None /\
  x_dest t = f_account (unit_frag u) /\
  x_payee t = payee_or_unknown (unit_frag u).
Proof.
  intros cfg u t H. apply unit_txn_core in H.
  match type of H with _ = core (base_txn ?e ?f ?a ?c) => pose proof (base_txn_fields e f a c) as B end.
  cbv zeta in B. destruct B as (B1 & B2 & B3 & B4 & B5 & _ & _ & _ & B9).
  unfold core in H. inversion H. repeat split; congruence.
Qed.

(* ---- entries_txns follows the units ---- *)
Definition from_unit (cfg : config) (u : unit_rec) (t : txn) : Prop := unit_txn cfg u = inl t.

Lemma details_txns_F2 : forall cfg e ds ts,
  details_txns cfg e ds = inl ts -> Forall2 (from_unit cfg) (map (UDetail e) ds) ts.
Proof.
  intros cfg e ds. induction ds as [|d r IH]; intros ts H; simpl in H.
  - inversion H. constructor.
  - destruct (detail_txn cfg e d) as [t|] eqn:E; [|discriminate].
    destruct (details_txns cfg e r) as [ts'|]; [|discriminate].
    inversion H. simpl. constructor; auto.
Qed.

Lemma entry_txns_F2 : forall cfg e ts,
  entry_txns cfg e = inl ts -> Forall2 (from_unit cfg) (entry_units e) ts.
Proof.
  intros cfg e ts. unfold entry_txns, entry_units. destruct (en_details e) as [|d r] eqn:D.
  - destruct (entry_txn cfg e) as [t|] eqn:E; [|discriminate]. intros H; inversion H.
    constructor; [exact E|constructor].
  - apply details_txns_F2.
Qed.

Lemma entries_txns_F2 : forall cfg es ts,
  entries_txns cfg es = inl ts -> Forall2 (from_unit cfg) (flat_map entry_units es) ts.
Proof.
  intros cfg es. induction es as [|e r IH]; intros ts H; simpl in H.
  - inversion H. constructor.
  - destruct (entry_txns cfg e) as [t1|] eqn:E; [|discriminate].
    destruct (entries_txns cfg r) as [t2|]; [|discriminate].
    inversion H. simpl. apply Forall2_app; auto. apply entry_txns_F2; auto.
Qed.

Lemma entry_units_nonempty : forall e, entry_units e <> [].
Proof. intros e. unfold entry_units. destruct (en_details e); simpl; discriminate. Qed.

Lemma stmt_units_nonempty : forall cfg st, st_entries st <> [] -> stmt_units cfg st <> [].
Proof.
  intros cfg st H. unfold stmt_units. destruct (cf_new_to_old cfg).
  - destruct (st_entries st) as [|e r]; [congruence|]. simpl. rewrite flat_map_app. simpl.
    rewrite app_nil_r. intros E. apply app_eq_nil in E. destruct E as [_ E].
    exact (entry_units_nonempty e E).
  - destruct (st_entries st) as [|e r]; [congruence|]. simpl. intros E.
    apply app_eq_nil in E. destruct E as [E _]. exact (entry_units_nonempty e E).
Qed.

(* ---- set_last_balance ---- *)
Lemma set_last_balance_snoc : forall l t b, set_last_balance (l ++ [t]) b = l ++ [set_balance t b].
Proof.
  induction l as [|x l IH]; intros t b; [reflexivity|].
  change ((x :: l) ++ [t]) with (x :: (l ++ [t])).
  cbn [set_last_balance]. destruct (l ++ [t]) eqn:E.
  - destruct l; discriminate.
  - rewrite <- E, IH. reflexivity.
Qed.

Lemma set_last_balance_app : forall op ts b, ts <> [] ->
  set_last_balance (op ++ ts) b = op ++ set_last_balance ts b.
Proof.
  intros op ts b H. destruct (exists_last H) as (l & t & E). subst ts.
  rewrite app_assoc, !set_last_balance_snoc, app_assoc. reflexivity.
Qed.

Lemma set_balance_same : forall t b, same_but_balance t (set_balance t b).
Proof. reflexivity. Qed.

Lemma same_but_balance_refl : forall t, same_but_balance t t.
Proof. reflexivity. Qed.

Lemma Forall2_same_refl : forall l, Forall2 same_but_balance l l.
Proof. induction l; constructor; auto. reflexivity. Qed.

Lemma set_last_balance_same : forall ts b, Forall2 same_but_balance ts (set_last_balance ts b).
Proof.
  intros ts b. destruct ts as [|x r]; [constructor|].
  assert (H : x :: r <> []) by discriminate.
  destruct (exists_last H) as (l & t & E). rewrite E, set_last_balance_snoc.
  apply Forall2_app; [apply Forall2_same_refl|]. constructor; [reflexivity|constructor].
Qed.

Lemma last_bal_same : forall cb ts, Forall2 same_but_balance ts (last_bal cb ts).
Proof. intros [b|] ts; simpl; [apply set_last_balance_same|apply Forall2_same_refl]. Qed.

Lemma Forall2_len : forall {A B} (R : A -> B -> Prop) l1 l2, Forall2 R l1 l2 -> length l1 = length l2.
Proof. intros A B R l1 l2 H. induction H; simpl; auto. Qed.

Lemma set_last_balance_length : forall ts b, length (set_last_balance ts b) = length ts.
Proof.
  intros ts b. pose proof (set_last_balance_same ts b) as H.
  symmetry. eapply Forall2_len; eauto.
Qed.

Lemma last_bal_length : forall cb ts, length (last_bal cb ts) = length ts.
Proof. intros [b|] ts; simpl; auto using set_last_balance_length. Qed.

(* ---- import of a single statement ---- *)
Lemma import_single_eq : forall cfg st,
  import cfg [st] =
  match entries_txns cfg (stmt_order cfg st) with
  | inl ts => inl (opening_of st ++ last_bal (find_balance (st_balances st) CLBD) ts)
  | inr e => inr e
  end.
Proof.
  intros cfg st. unfold import. cbn [import_from]. unfold import_stmt.
  fold (opening_of st). fold (stmt_order cfg st).
  destruct (entries_txns cfg (stmt_order cfg st)) as [ts|] eqn:E; [|reflexivity].
  f_equal. cbn [app].
  destruct ts as [|t r].
  - (* no entries: no opening either *)
    assert (S : st_entries st = []).
    { apply entries_txns_F2 in E. inversion E as [E0|].
      destruct (st_entries st) as [|e es] eqn:En; [reflexivity|].
      exfalso. assert (N : stmt_units cfg st <> []) by (apply stmt_units_nonempty; rewrite En; discriminate).
      apply N. unfold stmt_units. fold (stmt_order cfg st). unfold stmt_order in *. auto. }
    unfold opening_of. rewrite S. destruct (find_balance (st_balances st) OPBD);
      destruct (find_balance (st_balances st) CLBD); reflexivity.
  - destruct (find_balance (st_balances st) CLBD) as [cb|]; [|reflexivity].
    cbn [last_bal]. apply set_last_balance_app. discriminate.
Qed.

Lemma import_single : forall cfg st txns,
  import cfg [st] = inl txns ->
  exists ts, entries_txns cfg (stmt_order cfg st) = inl ts /\
             txns = opening_of st ++ last_bal (find_balance (st_balances st) CLBD) ts.
Proof.
  intros cfg st txns. rewrite import_single_eq.
  destruct (entries_txns cfg (stmt_order cfg st)) as [ts|]; [|discriminate].
  intros H. inversion H. exists ts. auto.
Qed.

Lemma import_single_units : forall cfg st txns,
  import cfg [st] = inl txns ->
  exists ts, Forall2 (from_unit cfg) (stmt_units cfg st) ts /\
             txns = opening_of st ++ last_bal (find_balance (st_balances st) CLBD) ts.
Proof.
  intros cfg st txns H. apply import_single in H. destruct H as (ts & E & H).
  exists ts. split; [|exact H]. apply entries_txns_F2 in E. exact E.
Qed.

Lemma Forall2_compose : forall {A B C} (R : A -> B -> Prop) (S : B -> C -> Prop) l1 l2 l3,
  Forall2 R l1 l2 -> Forall2 S l2 l3 -> Forall2 (fun a c => exists b, R a b /\ S b c) l1 l3.
Proof.
  intros A B C R S l1 l2 l3 H. revert l3. induction H; intros l3 H3; inversion H3; subst; constructor; eauto.
Qed.

Lemma Forall2_impl : forall {A B} (R S : A -> B -> Prop) l1 l2,
  (forall a b, R a b -> S a b) -> Forall2 R l1 l2 -> Forall2 S l1 l2.
Proof. intros A B R S l1 l2 H F. induction F; constructor; auto. Qed.

(* ---- 1. shape ---- *)
Theorem import_shape : forall cfg st txns,
  import cfg [st] = inl txns ->
  exists ts,
    txns = opening_of st ++ ts /\
    Forall2 (fun u t => exists t', unit_txn cfg u = inl t' /\ same_but_balance t' t) (stmt_units cfg st) ts.
Proof.
  intros cfg st txns H. apply import_single_units in H. destruct H as (ts & F & E).
  eexists. split; [exact E|].
  eapply Forall2_compose; [exact F|apply last_bal_same].
Qed.

Theorem import_shape_explicit : forall cfg st txns,
  import cfg [st] = inl txns ->
  exists op ts,
    txns = op ++ ts /\
    op = match find_balance (st_balances st) OPBD, st_entries st with
         | Some ob, first :: _ => [opening_txn first ob]
         | _, _ => []
         end /\
    Forall2 (fun u t => exists t', unit_txn cfg u = inl t' /\ same_but_balance t' t) (stmt_units cfg st) ts.
Proof.
  intros cfg st txns H. apply import_shape in H. destruct H as (ts & E & F).
  exists (opening_of st), ts. split; [exact E|]. split; [reflexivity|exact F].
Qed.

Lemma opening_of_length : forall st,
  length (opening_of st) =
  match find_balance (st_balances st) OPBD, st_entries st with Some _, _ :: _ => 1%nat | _, _ => 0%nat end.
Proof. intros st. unfold opening_of. destruct (find_balance _ _); destruct (st_entries st); reflexivity. Qed.

(* ---- 2. sign and dates ---- *)
Definition sign_date_ok (u : unit_rec) (t : txn) : Prop :=
  x_amount t = to_data (unit_amount u) (unit_cd u) /\
  d_value (oa_value (x_amount t)) = unit_value u /\
  oa_comm (x_amount t) = xa_ccy (unit_amount u) /\
  x_date t = expected_date (unit_entry u) /\
  x_edate t = expected_edate (unit_entry u) /\
  forall acct,
    tr_date (to_double_entry t acct) = expected_date (unit_entry u) /\
    tr_edate (to_double_entry t acct) = expected_edate (unit_entry u) /\
    In (src_posting t acct) (tr_posts (to_double_entry t acct)) /\
    sp_account (src_posting t acct) = acct /\
    sp_amount (src_posting t acct) = Some (to_posting_amount t (x_amount t)) /\
    pa_amount (to_posting_amount t (x_amount t)) = as_syntax_amount (to_data (unit_amount u) (unit_cd u)).

Lemma src_posting_in : forall t acct, In (src_posting t acct) (tr_posts (to_double_entry t acct)).
Proof.
  intros t acct. unfold to_double_entry. cbn [tr_posts].
  destruct (d_sign_positive _).
  - left. reflexivity.
  - right. apply in_or_app. right. left. reflexivity.
Qed.

Lemma same_but_balance_fields : forall t' t, same_but_balance t' t ->
  x_amount t = x_amount t' /\ x_date t = x_date t' /\ x_edate t = x_edate t' /\ x_dest t = x_dest t' /\
  x_rates t = x_rates t' /\ x_transferred t = x_transferred t' /\ x_charges t = x_charges t' /\
  x_payee t = x_payee t'.
Proof. intros t' t H. unfold same_but_balance, no_balance in H. inversion H. repeat split; auto. Qed.

Lemma from_unit_sign_date : forall cfg u t' t,
  unit_txn cfg u = inl t' -> same_but_balance t' t -> sign_date_ok u t.
Proof.
  intros cfg u t' t H S. apply unit_txn_fields in H. destruct H as (A & D & E & _).
  apply same_but_balance_fields in S. destruct S as (SA & SD & SE & _).
  assert (XA : x_amount t = to_data (unit_amount u) (unit_cd u)) by congruence.
  unfold sign_date_ok. rewrite XA.
  destruct (to_data_value (unit_amount u) (unit_cd u)) as [V Cm].
  split; [reflexivity|]. split; [exact V|]. split; [exact Cm|].
  split; [congruence|]. split; [congruence|].
  intros acct. split; [cbn; congruence|]. split; [cbn; congruence|].
  split; [apply src_posting_in|]. split; [reflexivity|]. split.
  - cbn. rewrite XA. reflexivity.
  - reflexivity.
Qed.

Theorem import_sign_date : forall cfg st txns,
  import cfg [st] = inl txns ->
  exists ts, txns = opening_of st ++ ts /\ Forall2 sign_date_ok (stmt_units cfg st) ts.
Proof.
  intros cfg st txns H. apply import_shape in H. destruct H as (ts & E & F).
  exists ts. split; [exact E|]. eapply Forall2_impl; [|exact F].
  intros u t (t' & H1 & H2). eapply from_unit_sign_date; eauto.
Qed.

(* ---- 3. balance assertions ---- *)
Lemma nth_error_set_last_balance : forall ts b i t,
  nth_error (set_last_balance ts b) i = Some t -> S i <> length ts -> nth_error ts i = Some t.
Proof.
  intros ts b i t H N. destruct ts as [|x r]; [exact H|].
  assert (NE : x :: r <> []) by discriminate.
  destruct (exists_last NE) as (l & tl & E). rewrite E in *. rewrite set_last_balance_snoc in H.
  rewrite app_length in N. simpl in N.
  assert (L : (i < length l)%nat).
  { assert (i < length (l ++ [set_balance tl b]))%nat by (apply nth_error_Some; congruence).
    rewrite app_length in H0. simpl in H0. lia. }
  rewrite nth_error_app1 in * by auto. exact H.
Qed.

Lemma from_unit_no_balance : forall cfg us ts,
  Forall2 (from_unit cfg) us ts -> forall i t, nth_error ts i = Some t -> x_balance t = None.
Proof.
  intros cfg us ts F. induction F as [|u t0 us ts R F IH]; intros i t H.
  - destruct i; discriminate.
  - destruct i; simpl in H.
    + inversion H. subst. apply unit_txn_fields in R. tauto.
    + eauto.
Qed.

Theorem import_assertions : forall cfg st txns,
  import cfg [st] = inl txns ->
  (* (a) the opening balance is asserted on the first transaction *)
  (forall ob first rest,
     find_balance (st_balances st) OPBD = Some ob -> st_entries st = first :: rest ->
     exists t0 rest', txns = t0 :: rest' /\ rest' <> [] /\
       x_payee t0 = s_initial_balance /\ x_date t0 = expected_date first /\
       oa_value (x_amount t0) = d_zero /\ oa_comm (x_amount t0) = oa_comm ob /\
       x_dest t0 = Some s_equity_adjustments /\ x_balance t0 = Some ob) /\
  (* (b) the closing balance is asserted on the last transaction *)
  (forall cb d, find_balance (st_balances st) CLBD = Some cb -> txns <> [] ->
     x_balance (last txns d) = Some cb) /\
  (* (c) no other transaction asserts a balance *)
  (forall i t, nth_error txns i = Some t ->
     (i = 0%nat -> opening_of st = []) ->
     (S i = length txns -> find_balance (st_balances st) CLBD = None) ->
     x_balance t = None) /\
  (* the assertion is written on the account's posting *)
  (forall t acct, In t txns ->
     sp_balance (src_posting t acct) = option_map as_syntax_amount (x_balance t)).
Proof.
  intros cfg st txns H. apply import_single_units in H. destruct H as (ts & F & E).
  split; [|split; [|split]].
  - intros ob first rest O S.
    assert (NE : ts <> []).
    { intros Z. subst ts. inversion F as [U|]. symmetry in U. revert U.
      apply stmt_units_nonempty. rewrite S. discriminate. }
    unfold opening_of in E. rewrite O, S in E. cbn [app] in E.
    eexists _, _. split; [exact E|]. split.
    + intros Z. apply NE. apply length_zero_iff_nil. rewrite <- (last_bal_length (find_balance (st_balances st) CLBD)), Z. reflexivity.
    + cbn. repeat split; reflexivity.
  - intros cb d C NE. rewrite C in E. cbn [last_bal] in E.
    destruct ts as [|x r].
    + exfalso. apply NE. rewrite E. cbn. inversion F as [U|].
      unfold opening_of. destruct (st_entries st) eqn:S.
      * destruct (find_balance (st_balances st) OPBD); reflexivity.
      * exfalso. symmetry in U. revert U. apply stmt_units_nonempty. rewrite S. discriminate.
    + assert (N : x :: r <> []) by discriminate.
      destruct (exists_last N) as (l & tl & El). rewrite El, set_last_balance_snoc in E.
      rewrite E, app_assoc, last_last. reflexivity.
  - intros i t N I0 IL.
    rewrite E in N.
    destruct (opening_of st) as [|o os] eqn:O.
    + cbn [app] in N. rewrite E in IL. cbn [app] in IL. rewrite last_bal_length in IL.
      destruct (find_balance (st_balances st) CLBD) as [cb|] eqn:C; cbn [last_bal] in N.
      * apply nth_error_set_last_balance in N.
        -- eapply from_unit_no_balance; eauto.
        -- intros Z. apply IL in Z. discriminate.
      * eapply from_unit_no_balance; eauto.
    + assert (os = []).
      { unfold opening_of in O. destruct (find_balance (st_balances st) OPBD); [|discriminate].
        destruct (st_entries st); [discriminate|]. inversion O. reflexivity. }
      subst os. destruct i as [|i]; [specialize (I0 eq_refl); discriminate|].
      cbn in N. rewrite E in IL. cbn in IL. rewrite last_bal_length in IL.
      destruct (find_balance (st_balances st) CLBD) as [cb|] eqn:C; cbn [last_bal] in N.
      * apply nth_error_set_last_balance in N.
        -- eapply from_unit_no_balance; eauto.
        -- intros Z. assert (Some cb = None) by (apply IL; lia). discriminate.
      * eapply from_unit_no_balance; eauto.
  - reflexivity.
Qed.
