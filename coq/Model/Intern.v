(* Model of report::intern::InternStore (core/src/report/intern.rs), as repaired by the fix:
   commit listed in known_findings.json (C12-F16).  Names are N ids (the harness numbers
   the distinct written names of a case); the identity of a canonical name is its own id,
   like the interned pointer of its string.
   records : HashMap<&str, Option<InternedStr>>  -- None = canonical, Some c = alias of c. *)
From Coq Require Import List NArith Bool.
From Okv Require Import Base.Maps.
Import ListNotations.
Open Scope N_scope.

Inductive irec := RCanonical | RAlias (canonical : N).
Definition store := amap irec.
Definition store0 : store := [].

Inductive intern_err := AlreadyCanonical | AlreadyAlias | ConflictingAlias.

(* InternStore::resolve: follow an alias to its canonical, one step *)
Definition resolve (s : store) (n : N) : option N :=
  match get n s with
  | Some RCanonical => Some n
  | Some (RAlias c) => Some c
  | None => None
  end.

(* insert_canonical_impl / insert_alias_impl: HashMap::insert of a key that is absent *)
Definition add_rec (s : store) (n : N) (r : irec) : store := s ++ [(n, r)].

(* InternStore::ensure *)
Definition ensure (s : store) (n : N) : store * N :=
  match resolve s n with
  | Some c => (s, c)
  | None => (add_rec s n RCanonical, n)
  end.

(* InternStore::insert_canonical *)
Definition insert_canonical (s : store) (n : N) : (store * N) + intern_err :=
  match get n s with
  | None => inl (add_rec s n RCanonical, n)
  | Some RCanonical => inl (s, n)
  | Some (RAlias _) => inr AlreadyAlias
  end.

(* InternStore::insert_alias *)
Definition insert_alias (s : store) (a : N) (canonical : N) : store + intern_err :=
  match get a s with
  | Some RCanonical => inr AlreadyCanonical
  | Some (RAlias c) => if c =? canonical then inl s else inr ConflictingAlias
  | None => inl (add_rec s a (RAlias canonical))
  end.

Definition is_canonical (s : store) (n : N) : bool :=
  match get n s with Some RCanonical => true | _ => false end.
