(* Elementary facts about the Camt model: value of a Decimal under negation, to_data. *)
From Coq Require Import List NArith ZArith Bool QArith Qcanon Lia.
From Okv Require Import Base.Dec Model.Lit Model.SingleEntry2 Model.Camt Model.CamtBook Model.CamtSpec.
Import ListNotations.
Open Scope Qc_scope.

Lemma of_dec_opp : forall m s, of_dec (- m) s = - of_dec m s.
Proof.
  intros m s. unfold of_dec, Qcopp. apply Qc_is_canon. unfold Q2Qc, this.
  rewrite !Qred_correct. reflexivity.
Qed.

Lemma d_value_neg : forall x, d_value (d_neg x) = - d_value x.
Proof.
  intros x. unfold d_value, d_neg. simpl. destruct (neg x); simpl.
  - rewrite of_dec_opp. ring.
  - rewrite of_dec_opp. reflexivity.
Qed.

(* credit +, debit - *)
Lemma to_data_value : forall a cd,
  d_value (oa_value (to_data a cd)) = signed cd (d_value (xa_value a)) /\ oa_comm (to_data a cd) = xa_ccy a.
Proof.
  intros a cd. destruct cd; simpl; split; auto. apply d_value_neg.
Qed.

(* for the non-negative amounts of a well-formed statement the sign bit is the indicator *)
Lemma to_data_sign : forall a cd, neg (xa_value a) = false ->
  neg (oa_value (to_data a cd)) = match cd with Credit => false | Debit => true end.
Proof. intros a cd H. destruct cd; simpl; rewrite H; reflexivity. Qed.
