(* Column arithmetic of a posting line (Model/Display.v posting_line): get_column, the gap after
   the account, where the number of the amount ends, where "=" falls. *)
From Coq Require Import List NArith ZArith Bool Arith Lia.
From Okv Require Import Model.Lit Model.Syntax Model.Display Model.DisplaySpec Proofs.DisplayExpr.
Import ListNotations.
Open Scope N_scope.

Local Arguments N.eqb : simpl never.
Local Arguments N.leb : simpl never.
Local Arguments N.ltb : simpl never.

(* ---- get_column ---- *)
Lemma get_column_eq : forall c l p,
  get_column c l p = (if (l + p <? c)%nat then (c - l)%nat else p).
Proof. reflexivity. Qed.

Lemma get_column_ge : forall c l p, (p <= get_column c l p)%nat.
Proof.
  intros c l p. unfold get_column. destruct (l + p <? c)%nat eqn:E; [|lia].
  apply Nat.ltb_lt in E. lia.
Qed.

Lemma get_column_aligned : forall c l p, (l + p < c)%nat -> (l + get_column c l p = c)%nat.
Proof.
  intros c l p H. unfold get_column. apply Nat.ltb_lt in H. rewrite H.
  apply Nat.ltb_lt in H. lia.
Qed.

(* ---- spaces ---- *)
Lemma spaces_snoc : forall n l, spaces n ++ 32 :: l = spaces (S n) ++ l.
Proof.
  induction n as [|n IH]; intros l; [reflexivity|].
  change (spaces (S n)) with (32 :: spaces n). cbn [app]. rewrite IH. reflexivity.
Qed.

Lemma spaces_length : forall n, length (spaces n) = n.
Proof. intros. apply repeat_length. Qed.

Lemma spaces_printable : forall n, printable_ascii (spaces n) = true.
Proof. induction n; [reflexivity|]. cbn. exact IHn. Qed.

Lemma spaces_one_line : forall n, one_line (spaces n) = true.
Proof. induction n; [reflexivity|]. cbn. exact IHn. Qed.

Lemma printable_app : forall a b, printable_ascii (a ++ b) = printable_ascii a && printable_ascii b.
Proof. intros. unfold printable_ascii. apply forallb_app. Qed.

(* ---- the gap after the account ---- *)
Lemma pad_left_eq : forall n, (3 <= n)%nat -> forall l,
  pad_left n [32; 61] ++ l = spaces (n - 1) ++ 61 :: l.
Proof.
  intros n H l. unfold pad_left. cbn [length].
  rewrite <- app_assoc. cbn [app]. rewrite spaces_snoc. f_equal. f_equal. lia.
Qed.

Theorem min_two_spaces : forall w p,
  (sp_amount p <> None \/ sp_balance p <> None) ->
  exists k c rest,
    posting_line w p = spaces 4 ++ mark p ++ sp_account p ++ spaces k ++ c :: rest /\
    (2 <= k)%nat /\ c <> 32.
Proof.
  intros w p H. unfold posting_line, mark.
  destruct (sp_amount p) as [pa|] eqn:Ea.
  - unfold print_posting_amount.
    destruct (show_vexpr_head (pa_amount pa)) as (c & r & Ec & Hc).
    unfold show_vexpr in Ec. rewrite Ec.
    eexists _, c, _. split; [|split; [apply get_column_ge|exact Hc]].
    rewrite <- !app_assoc. cbn [app]. reflexivity.
  - destruct (sp_balance p) as [b|] eqn:Eb; [|destruct H; congruence].
    unfold print_posting_balance, balance_padding. rewrite Ea.
    set (bp := get_column _ _ 3).
    assert (Hbp : (3 <= bp)%nat) by apply get_column_ge.
    cbn [app]. rewrite pad_left_eq by exact Hbp.
    exists (bp - 1)%nat, 61, ([32] ++ show_vexpr b). split; [reflexivity|split; [lia|lia]].
Qed.

(* ---- the amount column ---- *)
Lemma posting_line_amount : forall w p pa,
  sp_amount p = Some pa ->
  posting_line w p =
    spaces 4 ++ mark p ++ sp_account p ++
    spaces (get_column 48 (account_width w p + align_vexpr (pa_amount pa)) 2) ++
    show_vexpr (pa_amount pa) ++ print_lot (pa_lot pa) ++ print_cost (pa_cost pa) ++
    match sp_balance p with
    | Some b => [32; 61; 32] ++ show_vexpr b
    | None => []
    end.
Proof.
  intros w p pa Ea. unfold posting_line, mark. rewrite Ea.
  unfold print_posting_amount, align_vexpr, show_vexpr.
  rewrite <- !app_assoc. do 5 f_equal.
  destruct (sp_balance p) as [b|]; [|reflexivity].
  unfold print_posting_balance, balance_padding. rewrite Ea. reflexivity.
Qed.

Theorem amount_column : forall w p pa,
  sp_amount p = Some pa ->
  let aw := account_width w p in
  let pre := vexpr_align_prefix (pa_amount pa) in
  let pad := get_column 48 (aw + length pre) 2 in
  (exists rest,
     posting_line w p = spaces 4 ++ mark p ++ sp_account p ++ spaces pad ++ pre ++ rest) /\
  pad = (if (aw + length pre + 2 <? 48)%nat then (48 - (aw + length pre))%nat else 2%nat) /\
  ((aw + length pre + 2 < 48)%nat -> (4 + aw + pad + length pre = 52)%nat) /\
  (ascii_width_ok w -> (aw + length pre + 2 < 48)%nat ->
     (4 + length (mark p) + w (sp_account p) + w (spaces pad ++ pre) = 52)%nat).
Proof.
  intros w p pa Ea aw pre pad.
  assert (Hal : align_vexpr (pa_amount pa) = length pre) by apply align_vexpr_prefix.
  split; [|split; [|split]].
  - destruct (show_vexpr_split (pa_amount pa)) as [rest Hs].
    rewrite (posting_line_amount w p pa Ea), Hal, Hs. fold aw pre pad.
    eexists. rewrite <- !app_assoc. reflexivity.
  - unfold pad. rewrite get_column_eq. reflexivity.
  - intros H. unfold pad. pose proof (get_column_aligned 48 (aw + length pre) 2). lia.
  - intros Hw H.
    assert (Hp : printable_ascii (spaces pad ++ pre) = true).
    { rewrite printable_app, spaces_printable. apply punct_printable.
      unfold pre, vexpr_align_prefix. apply align_prefix_punct. }
    rewrite (Hw _ Hp), app_length, spaces_length.
    unfold aw, account_width, mark in *. fold pre in H.
    pose proof (get_column_aligned 48 (w (sp_account p) + length (print_clear_state (sp_clear p)) + length pre) 2).
    unfold pad, aw, account_width. lia.
Qed.

(* ---- the balance column ---- *)
Theorem balance_only : forall w p b,
  sp_amount p = None -> sp_balance p = Some b ->
  let aw := account_width w p in
  let trailing := balance_trailing w b in
  let bp := get_column (50 + trailing) aw 3 in
  posting_line w p = spaces 4 ++ mark p ++ sp_account p ++ spaces (bp - 1) ++ [61; 32] ++ show_vexpr b /\
  bp = (if (aw + 3 <? 50 + trailing)%nat then (50 + trailing - aw)%nat else 3%nat) /\
  (2 <= bp - 1)%nat /\
  ((aw + 3 < 50 + trailing)%nat -> (4 + aw + (bp - 1) + 1 = 54 + trailing)%nat).
Proof.
  intros w p b Ea Eb aw trailing bp.
  assert (Hbp : (3 <= bp)%nat) by apply get_column_ge.
  split; [|split; [|split]].
  - unfold posting_line, mark. rewrite Ea, Eb. cbn [app].
    unfold print_posting_balance, balance_padding. rewrite Ea. fold aw trailing bp.
    rewrite pad_left_eq by exact Hbp. reflexivity.
  - unfold bp. apply get_column_eq.
  - lia.
  - intros H. pose proof (get_column_aligned (50 + trailing) aw 3 H). fold bp in H0. lia.
Qed.

(* "=" after an amount (no lot, no cost) in the aligned regime: the same column *)
Theorem balance_after_amount : forall w p pa b,
  sp_amount p = Some pa -> sp_balance p = Some b ->
  pa_cost pa = None -> pa_lot pa = no_lot ->
  let aw := account_width w p in
  let al := align_vexpr (pa_amount pa) in
  let pad := get_column 48 (aw + al) 2 in
  posting_line w p =
    spaces 4 ++ mark p ++ sp_account p ++ spaces pad ++ show_vexpr (pa_amount pa) ++
    [32; 61; 32] ++ show_vexpr b /\
  ((aw + al + 2 < 48)%nat -> balance_underflow w (pa_amount pa) = false ->
   (4 + aw + pad + w (show_vexpr (pa_amount pa)) + 2 = 54 + balance_trailing w (pa_amount pa))%nat).
Proof.
  intros w p pa b Ea Eb Ec El aw al pad. split.
  - rewrite (posting_line_amount w p pa Ea), Eb, Ec, El. reflexivity.
  - intros H Hu. unfold balance_underflow in Hu. apply Nat.ltb_ge in Hu.
    unfold balance_trailing. fold al in Hu |- *.
    pose proof (get_column_aligned 48 (aw + al) 2). fold pad in H0. lia.
Qed.

(* in the regime where amounts are aligned, balance-only postings are too *)
Lemma aligned_amount_aligned_balance : forall aw al trailing,
  (aw + al + 2 < 48)%nat -> (aw + 3 < 50 + trailing)%nat.
Proof. intros. lia. Qed.

(* on ASCII nothing underflows *)
Lemma ascii_no_underflow : forall w b,
  ascii_width_ok w -> printable_ascii (show_vexpr b) = true -> balance_underflow w b = false.
Proof.
  intros w b Hw Hp. unfold balance_underflow. rewrite (Hw _ Hp).
  apply Nat.ltb_ge. rewrite align_vexpr_prefix.
  destruct (show_vexpr_split b) as [rest E]. rewrite E, app_length. lia.
Qed.

(* the number part is ASCII: the oracle gives it its length *)
Lemma number_width : forall w d, ascii_width_ok w -> w (show d) = length (show d).
Proof. intros w d Hw. apply Hw. apply show_printable. Qed.

(* `<` and `<=` in get_column choose between equal values at the boundary (the edit
   `left + padding <= colsize` is not a change of behaviour) *)
Lemma get_column_le_same : forall c l p,
  (if (l + p <=? c)%nat then (c - l)%nat else p) = get_column c l p.
Proof.
  intros c l p. unfold get_column.
  destruct (l + p <=? c)%nat eqn:E1; destruct (l + p <? c)%nat eqn:E2; try reflexivity.
  - apply Nat.leb_le in E1. apply Nat.ltb_ge in E2. lia.
  - apply Nat.leb_gt in E1. apply Nat.ltb_lt in E2. lia.
Qed.
