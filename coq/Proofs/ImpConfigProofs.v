(* Lemmas about Model/ImpConfig.v: the stable sort, the fold of merge, and the agreement of
   `merged` with the declarative reading of Model/ImpConfigSpec.v. *)
From Coq Require Import List NArith ZArith Bool Arith Lia Permutation Sorted.
From Okv Require Import Model.ImpConfig Model.ImpConfigSpec.
Import ListNotations.

(* ---- last_some ---- *)
Lemma last_some_from {A} (l : list (option A)) (acc : option A) :
  fold_left (fun acc x => option_or x acc) l acc = option_or (last_some l) acc.
Proof.
  unfold last_some. revert acc. induction l as [|x l IH]; intros acc; cbn [fold_left].
  - reflexivity.
  - rewrite IH. rewrite (IH (option_or x None)).
    destruct (fold_left _ l None); cbn; [reflexivity|]. destruct x; reflexivity.
Qed.

Lemma last_some_cons {A} (x : option A) (l : list (option A)) :
  last_some (x :: l) = option_or (last_some l) x.
Proof.
  unfold last_some at 1. cbn [fold_left]. rewrite last_some_from. destruct x; reflexivity.
Qed.

Lemma last_some_app {A} (l1 l2 : list (option A)) :
  last_some (l1 ++ l2) = option_or (last_some l2) (last_some l1).
Proof.
  unfold last_some at 1. rewrite fold_left_app. fold (last_some l1). apply last_some_from.
Qed.

Lemma last_some_all_none {A} (l : list (option A)) :
  (forall x, In x l -> x = None) -> last_some l = None.
Proof.
  induction l as [|x l IH]; intros H; [reflexivity|].
  rewrite last_some_cons, IH, (H x) by (intros; try apply H; cbn; auto). reflexivity.
Qed.

(* the last Some: everything after it is None *)
Lemma last_some_spec {A} (l : list (option A)) (v : A) :
  last_some l = Some v <-> exists l1 l2, l = l1 ++ Some v :: l2 /\ forall x, In x l2 -> x = None.
Proof.
  split.
  - induction l as [|x l IH]; intros H; [discriminate|].
    rewrite last_some_cons in H. destruct (last_some l) as [w|] eqn:E.
    + cbn in H. destruct (IH H) as (l1 & l2 & -> & Hn). exists (x :: l1), l2. auto.
    + cbn in H. subst x. exists [], l. split; [reflexivity|].
      intros y Hy. destruct y as [y|]; [|reflexivity]. exfalso.
      clear IH. induction l as [|z l IHl]; [destruct Hy|].
      rewrite last_some_cons in E. destruct (last_some l) eqn:E2; [discriminate|]. cbn in E. subst z.
      destruct Hy as [Hy|Hy]; [discriminate|]. auto.
  - intros (l1 & l2 & -> & Hn). rewrite last_some_app, last_some_cons, (last_some_all_none l2 Hn). reflexivity.
Qed.

Section Proofs.
  Context {P : Type}.
  Notation doc := (doc P).

  (* ---- fold of merge ---- *)
  Lemma fold_merge_scalar {A} (proj : doc -> option A)
        (Hproj : forall a b, proj (merge a b) = option_or (proj b) (proj a)) :
    forall l d, proj (fold_left merge l d) = last_some (map proj (d :: l)).
  Proof.
    induction l as [|x l IH]; intros d.
    - cbn. unfold last_some. cbn. destruct (proj d); reflexivity.
    - cbn [fold_left]. rewrite IH. cbn [map]. rewrite Hproj.
      rewrite !last_some_cons. destruct (last_some (map proj l)); cbn; [reflexivity|].
      destruct (proj x); reflexivity.
  Qed.

  Lemma fold_merge_rewrite : forall l (d : doc),
    d_rewrite (fold_left merge l d) = concat (map (@d_rewrite P) (d :: l)).
  Proof.
    induction l as [|x l IH]; intros d.
    - cbn. rewrite app_nil_r. reflexivity.
    - cbn [fold_left]. rewrite IH. cbn. rewrite app_assoc. reflexivity.
  Qed.

  Lemma last_default_irrelevant {A} : forall (l : list A) (y a b : A), last (y :: l) a = last (y :: l) b.
  Proof. induction l as [|z l IH]; intros y a b; [reflexivity|]. cbn in *. apply (IH z). Qed.

  Lemma fold_merge_path : forall l (d : doc), d_path (fold_left merge l d) = d_path (last l d).
  Proof.
    induction l as [|x l IH]; intros d; [reflexivity|].
    cbn [fold_left]. rewrite IH. destruct l as [|y l]; [reflexivity|].
    rewrite (last_default_irrelevant l y (merge d x) d). reflexivity.
  Qed.

  Lemma doc_eq : forall a b : doc,
    d_path a = d_path b -> d_encoding a = d_encoding b -> d_account a = d_account b ->
    d_account_type a = d_account_type b -> d_operator a = d_operator b ->
    d_commodity a = d_commodity b -> d_format a = d_format b -> d_rewrite a = d_rewrite b -> a = b.
  Proof. intros [] []; cbn; intros; subst; reflexivity. Qed.

  Lemma fold_merge_combine : forall l (d : doc), fold_left merge l d = combine_docs d l.
  Proof.
    intros l d. apply doc_eq; unfold combine_docs; cbn [d_path d_encoding d_account d_account_type
      d_operator d_commodity d_format d_rewrite].
    - apply fold_merge_path.
    - apply (fold_merge_scalar (@d_encoding P)). reflexivity.
    - apply (fold_merge_scalar (@d_account P)). reflexivity.
    - apply (fold_merge_scalar (@d_account_type P)). reflexivity.
    - apply (fold_merge_scalar (@d_operator P)). reflexivity.
    - apply (fold_merge_scalar (@d_commodity P)). reflexivity.
    - apply (fold_merge_scalar (@d_format P)). reflexivity.
    - apply fold_merge_rewrite.
  Qed.
End Proofs.

(* ---- the stable sort ---- *)
Section Sort.
  Context {A : Type} (key : A -> nat).
  Definition le_key (a b : A) : Prop := key a <= key b.

  Lemma insert_perm : forall x l, Permutation (insert_by key x l) (x :: l).
  Proof.
    induction l as [|y r IH]; cbn; [apply Permutation_refl|].
    destruct (key x <=? key y); [apply Permutation_refl|].
    eapply perm_trans; [apply perm_skip, IH|apply perm_swap].
  Qed.

  Lemma sort_perm : forall l, Permutation (stable_sort key l) l.
  Proof.
    induction l as [|x l IH]; cbn; [constructor|].
    eapply perm_trans; [apply insert_perm|]. apply perm_skip, IH.
  Qed.

  Lemma insert_hdrel : forall x a l, key a <= key x -> HdRel le_key a l -> HdRel le_key a (insert_by key x l).
  Proof.
    intros x a l Hax H. destruct l as [|y r]; cbn.
    - constructor. exact Hax.
    - destruct (key x <=? key y); constructor; [exact Hax|]. inversion H; assumption.
  Qed.

  Lemma insert_sorted : forall x l, Sorted le_key l -> Sorted le_key (insert_by key x l).
  Proof.
    induction l as [|y r IH]; intros H; cbn.
    - repeat constructor.
    - destruct (key x <=? key y) eqn:E.
      + constructor; [exact H|]. constructor. apply Nat.leb_le in E. exact E.
      + inversion H; subst. constructor; [apply IH; assumption|].
        apply insert_hdrel; [|assumption]. apply Nat.leb_gt in E. unfold le_key. lia.
  Qed.

  Lemma sort_sorted : forall l, Sorted le_key (stable_sort key l).
  Proof. induction l as [|x l IH]; cbn; [constructor|]. apply insert_sorted, IH. Qed.

  (* ties keep the input order: per key value, the sort does not reorder anything *)
  Lemma insert_filter : forall n x l,
    filter (fun y => key y =? n) (insert_by key x l) = filter (fun y => key y =? n) (x :: l).
  Proof.
    induction l as [|y r IH]; [reflexivity|]. cbn [insert_by].
    destruct (key x <=? key y) eqn:E; [reflexivity|].
    apply Nat.leb_gt in E. cbn [filter] in *. rewrite IH.
    destruct (key y =? n) eqn:Ey, (key x =? n) eqn:Ex; try reflexivity.
    apply Nat.eqb_eq in Ey, Ex. lia.
  Qed.

  Lemma sort_stable : forall n l,
    filter (fun y => key y =? n) (stable_sort key l) = filter (fun y => key y =? n) l.
  Proof.
    induction l as [|x l IH]; [reflexivity|]. cbn [stable_sort fold_right].
    fold (stable_sort key l). rewrite insert_filter. cbn [filter]. rewrite IH. reflexivity.
  Qed.

  (* a list sorted by key is determined by its per-key sublists *)
  Lemma sorted_all_ge : forall a l, Sorted le_key (a :: l) -> forall y, In y l -> key a <= key y.
  Proof.
    intros a l H. apply Sorted_StronglySorted in H; [|intros x y z; unfold le_key; lia].
    inversion H; subst. intros y Hy. eapply Forall_forall in H3; eauto.
  Qed.

  Lemma filter_nil_none : forall (f : A -> bool) l, filter f l = [] -> forall y, In y l -> f y = false.
  Proof.
    induction l as [|z l IH]; intros H y Hy; [destruct Hy|]. cbn in H.
    destruct (f z) eqn:E; [discriminate|]. destruct Hy as [->|Hy]; auto.
  Qed.

  Lemma sorted_unique : forall l1 l2,
    Sorted le_key l1 -> Sorted le_key l2 ->
    (forall n, filter (fun y => key y =? n) l1 = filter (fun y => key y =? n) l2) -> l1 = l2.
  Proof.
    induction l1 as [|a r1 IH]; intros l2 S1 S2 H.
    - destruct l2 as [|b r2]; [reflexivity|]. specialize (H (key b)). cbn in H.
      rewrite Nat.eqb_refl in H. discriminate.
    - destruct l2 as [|b r2].
      + specialize (H (key a)). cbn in H. rewrite Nat.eqb_refl in H. discriminate.
      + assert (Hab : key a = key b).
        { pose proof (H (key a)) as Ha. pose proof (H (key b)) as Hb. cbn in Ha, Hb.
          rewrite Nat.eqb_refl in Ha, Hb.
          destruct (key b =? key a) eqn:E1; [apply Nat.eqb_eq in E1; lia|].
          destruct (key a =? key b) eqn:E2; [apply Nat.eqb_eq in E2; lia|].
          (* a occurs in r2 and b occurs in r1 *)
          assert (In a r2).
          { assert (In a (filter (fun y => key y =? key a) r2)) by (rewrite <- Ha; left; reflexivity).
            apply filter_In in H0. tauto. }
          assert (In b r1).
          { assert (In b (filter (fun y => key y =? key b) r1)) by (rewrite Hb; left; reflexivity).
            apply filter_In in H1. tauto. }
          pose proof (sorted_all_ge _ _ S1 _ H1). pose proof (sorted_all_ge _ _ S2 _ H0).
          apply Nat.eqb_neq in E1. lia. }
        pose proof (H (key a)) as Ha. cbn in Ha. rewrite Nat.eqb_refl, <- Hab, Nat.eqb_refl in Ha.
        injection Ha as Hhd Htl. subst b. f_equal.
        apply IH; [inversion S1; assumption|inversion S2; assumption|].
        intros n. specialize (H n). cbn in H. destruct (key a =? n); [injection H; auto|exact H].
  Qed.
End Sort.

Section ByLength.
  Context {P : Type}.
  Notation doc := (doc P).

  Lemma filter_filter_key : forall (l : list doc) n m,
    filter (fun d => path_len d =? n) (filter (fun d => path_len d =? m) l)
    = if m =? n then filter (fun d => path_len d =? n) l else [].
  Proof.
    induction l as [|x l IH]; intros n m; cbn; [destruct (m =? n); reflexivity|].
    destruct (path_len x =? m) eqn:Em; cbn; rewrite IH.
    - apply Nat.eqb_eq in Em. subst m. destruct (path_len x =? n); reflexivity.
    - destruct (m =? n) eqn:E; [|reflexivity]. apply Nat.eqb_eq in E. subst m. rewrite Em. reflexivity.
  Qed.

  Lemma filter_flat_map_seq : forall (l : list doc) n start len,
    filter (fun d => path_len d =? n) (flat_map (fun m => filter (fun d => path_len d =? m) l) (seq start len))
    = if (start <=? n) && (n <? start + len) then filter (fun d => path_len d =? n) l else [].
  Proof.
    intros l n start len. revert start. induction len as [|len IH]; intros start; cbn [seq flat_map].
    - destruct (start <=? n) eqn:E1, (n <? start + 0) eqn:E2; try reflexivity.
      apply Nat.leb_le in E1. apply Nat.ltb_lt in E2. lia.
    - rewrite filter_app, filter_filter_key, IH.
      destruct (start =? n) eqn:E.
      + apply Nat.eqb_eq in E. subst n.
        replace (S start <=? start) with false by (symmetry; apply Nat.leb_gt; lia).
        replace (start <=? start) with true by (symmetry; apply Nat.leb_le; lia).
        replace (start <? start + S len) with true by (symmetry; apply Nat.ltb_lt; lia).
        cbn. apply app_nil_r.
      + apply Nat.eqb_neq in E. cbn [app].
        destruct (S start <=? n) eqn:E1, (start <=? n) eqn:E2, (n <? S start + len) eqn:E3, (n <? start + S len) eqn:E4;
          try reflexivity; exfalso;
          repeat match goal with
                 | H : (_ <=? _) = true |- _ => apply Nat.leb_le in H
                 | H : (_ <=? _) = false |- _ => apply Nat.leb_gt in H
                 | H : (_ <? _) = true |- _ => apply Nat.ltb_lt in H
                 | H : (_ <? _) = false |- _ => apply Nat.ltb_ge in H
                 end; lia.
  Qed.

  Lemma max_len_ge : forall (l : list doc) d, In d l -> path_len d <= max_len l.
  Proof.
    induction l as [|x l IH]; intros d H; [destruct H|].
    change (max_len (x :: l)) with (Nat.max (path_len x) (max_len l)).
    destruct H as [->|H]; [lia|]. specialize (IH _ H). lia.
  Qed.

  Lemma by_length_filter : forall (l : list doc) n,
    filter (fun d => path_len d =? n) (by_length l) = filter (fun d => path_len d =? n) l.
  Proof.
    intros l n. unfold by_length. rewrite filter_flat_map_seq. cbn [Nat.leb andb].
    destruct (n <? 0 + S (max_len l)) eqn:E; [reflexivity|].
    apply Nat.ltb_ge in E. symmetry.
    assert (Hn : forall d, In d l -> path_len d <> n).
    { intros d Hd. pose proof (max_len_ge l d Hd). lia. }
    clear E. induction l as [|x r IH]; [reflexivity|]. cbn [filter].
    destruct (path_len x =? n) eqn:Ex.
    - apply Nat.eqb_eq in Ex. exfalso. apply (Hn x); [left; reflexivity|exact Ex].
    - apply IH. intros d Hd. apply Hn. right. exact Hd.
  Qed.

  Lemma flat_map_seq_sorted : forall (l : list doc) start len,
    Sorted (le_key path_len) (flat_map (fun m => filter (fun d => path_len d =? m) l) (seq start len))
    /\ forall d, In d (flat_map (fun m => filter (fun d => path_len d =? m) l) (seq start len)) -> start <= path_len d.
  Proof.
    intros l start len. revert start. induction len as [|len IH]; intros start; cbn [seq flat_map].
    - split; [constructor|intros d []].
    - destruct (IH (S start)) as [IHs IHge]. split.
      + assert (Hall : forall d, In d (filter (fun d => path_len d =? start) l) -> path_len d = start).
        { intros d Hd. apply filter_In in Hd. apply Nat.eqb_eq. tauto. }
        revert Hall. generalize (filter (fun d => path_len d =? start) l) as f.
        set (rest := flat_map (fun m => filter (fun d => path_len d =? m) l) (seq (S start) len)) in *.
        induction f as [|a f IHf]; intros Hall; cbn [app]; [exact IHs|].
        constructor; [apply IHf; intros; apply Hall; right; assumption|].
        destruct f as [|b f]; cbn [app].
        * destruct rest as [|c t] eqn:E; constructor.
          unfold le_key. rewrite (Hall a (or_introl eq_refl)).
          assert (S start <= path_len c) by (apply IHge; left; reflexivity). lia.
        * constructor. unfold le_key. rewrite (Hall a), (Hall b); cbn; auto.
      + intros d Hd. apply in_app_or in Hd. destruct Hd as [Hd|Hd].
        * apply filter_In in Hd. destruct Hd as [_ Hd]. apply Nat.eqb_eq in Hd. lia.
        * specialize (IHge _ Hd). lia.
  Qed.

  Lemma by_length_sorted : forall l : list doc, Sorted (le_key path_len) (by_length l).
  Proof. intros l. apply flat_map_seq_sorted. Qed.

  (* the sort computes the declarative order *)
  Lemma stable_sort_by_length : forall l : list doc, stable_sort path_len l = by_length l.
  Proof.
    intros l. apply (sorted_unique path_len).
    - apply sort_sorted.
    - apply by_length_sorted.
    - intros n. rewrite sort_stable, by_length_filter. reflexivity.
  Qed.

  Lemma matching_applicable : forall docs fp, matching docs fp = @applicable P docs fp.
  Proof. intros. apply stable_sort_by_length. Qed.

  Lemma merged_spec : forall docs fp, merged docs fp = @spec_merged P docs fp.
  Proof.
    intros docs fp. unfold merged, spec_merged. rewrite matching_applicable.
    destruct (applicable docs fp) as [|d r]; [reflexivity|]. rewrite fold_merge_combine. reflexivity.
  Qed.
End ByLength.
