(* Splitting step by step: moving a stretch B of a file's entries into a new file q and leaving
   `include w` in its place (w resolving to exactly q) changes nothing that is delivered but
   the path the moved entries are attributed to.  Together with uncut_is_cut this builds cuts
   operationally: start from the one-file ledger and extract pieces, at any depth. *)
From Coq Require Import List NArith Bool Lia Sorting.Sorted.
From Okv Require Import Model.Glob Model.GlobSpec Model.Load Model.LoadSpec
  Proofs.GlobProofs Proofs.PathOrder Proofs.LoadProofs.
Import ListNotations.
Open Scope N_scope.

Definition update (p : path) (c : list entry) (fs : fsys) : fsys :=
  map (fun kc => if path_eqb (fst kc) p then (fst kc, c) else kc) fs.

(* the file system after the extraction *)
Definition extract (fs : fsys) (p q : path) (A C B : list entry) (w : str) : fsys :=
  (q, B) :: update p (A ++ Inc w :: C) fs.

Lemma update_keys : forall p c fs, map fst (update p c fs) = map fst fs.
Proof.
  intros. unfold update. rewrite map_map. apply map_ext. intros [k c0]. cbn.
  destruct (path_eqb k p); reflexivity.
Qed.

Lemma path_eqb_refl : forall p, path_eqb p p = true.
Proof. intro. apply path_eqb_eq. reflexivity. Qed.

Lemma path_eqb_neq : forall a b, a <> b -> path_eqb a b = false.
Proof. intros a b H. destruct (path_eqb a b) eqn:E; [|reflexivity]. apply path_eqb_eq in E. contradiction. Qed.

Lemma lookup_update_other : forall p c fs k, k <> p -> lookup k (update p c fs) = lookup k fs.
Proof.
  induction fs as [|[k0 c0] r IH]; intros k H; [reflexivity|].
  cbn. destruct (path_eqb k0 p) eqn:E; cbn.
  - apply path_eqb_eq in E. subst k0. rewrite (path_eqb_neq p k) by congruence. apply IH. exact H.
  - destruct (path_eqb k0 k); [reflexivity|]. apply IH. exact H.
Qed.

Lemma lookup_update_same : forall p c fs, In p (map fst fs) -> lookup p (update p c fs) = Some c.
Proof.
  induction fs as [|[k0 c0] r IH]; intro H; [destruct H|].
  cbn. destruct (path_eqb k0 p) eqn:E; cbn.
  - rewrite E. reflexivity.
  - rewrite E. apply IH. destruct H as [H|H]; [|exact H]. cbn in H. subst k0. rewrite path_eqb_refl in E. discriminate.
Qed.

Lemma lookup_some_key : forall fs k c, lookup k fs = Some c -> In k (map fst fs).
Proof. intros fs k c H. apply lookup_in in H. apply (in_map fst) in H. exact H. Qed.

Lemma then_done2 : forall o1 o2, then_ (o1, Done) (o2, Done) = (o1 ++ o2, Done).
Proof. reflexivity. Qed.

Lemma load_S : forall f fs x,
  load (S f) fs x =
  match lookup (canonicalize x) fs with
  | None => ([], Failed IONotFound)
  | Some content => load_entries (load f fs) fs (canonicalize x) content
  end.
Proof. reflexivity. Qed.

Section Step.
  Variable fs1 : fsys.
  Variables p q : path.
  Variables A B C : list entry.
  Variable w : str.
  Let fs2 := extract fs1 p q A C B w.

  Hypothesis W : wf_fs fs1.
  Hypothesis Hp : In (p, A ++ B ++ C) fs1.
  Hypothesis Hq_fresh : ~ In q (map fst fs1).
  Hypothesis Hq_canon : canonicalize q = q.
  (* the new include stands for the new file and nothing else *)
  Hypothesis Hw : include_targets fs2 p w = inr [q].
  (* no include that was already there matches the new file *)
  Hypothesis Hclean : forall k content w' ts,
    In (k, content) fs1 -> In (Inc w') content -> target_tokens k w' = Some ts ->
    matches_with ts (path_string q) = false.
  (* the includes that move keep their meaning (same directory, or written absolutely, ...) *)
  Hypothesis Hsame : forall w', In (Inc w') B -> target_tokens q w' = target_tokens p w'.

  Lemma keys2 : map fst fs2 = q :: map fst fs1.
  Proof. unfold fs2, extract. cbn. rewrite update_keys. reflexivity. Qed.

  Lemma wf2 : wf_fs fs2.
  Proof. unfold wf_fs. rewrite keys2. constructor; assumption. Qed.

  Lemma lookup2_q : lookup q fs2 = Some B.
  Proof. unfold fs2, extract. cbn. rewrite path_eqb_refl. reflexivity. Qed.

  Lemma lookup2_p : lookup p fs2 = Some (A ++ Inc w :: C).
  Proof.
    assert (Hpk : In p (map fst fs1)) by (apply (in_map fst) in Hp; exact Hp).
    unfold fs2, extract. cbn. rewrite path_eqb_neq by (intro E; subst; contradiction).
    apply lookup_update_same. exact Hpk.
  Qed.

  Lemma lookup2_other : forall k c, k <> p -> lookup k fs1 = Some c -> lookup k fs2 = Some c.
  Proof.
    intros k c Hk L. unfold fs2, extract. cbn.
    rewrite path_eqb_neq by (intro E; subst; apply Hq_fresh; eapply lookup_some_key; eauto).
    rewrite lookup_update_other by exact Hk. exact L.
  Qed.

  Lemma glob_keys2 : forall ts, matches_with ts (path_string q) = false -> glob_keys fs2 ts = glob_keys fs1 ts.
  Proof. intros ts H. unfold glob_keys. rewrite keys2. cbn. rewrite H. reflexivity. Qed.

  Lemma targets_transfer : forall cp cp' w' ps,
    include_targets fs1 cp w' = inr ps ->
    target_tokens cp' w' = target_tokens cp w' ->
    (forall ts, target_tokens cp w' = Some ts -> matches_with ts (path_string q) = false) ->
    include_targets fs2 cp' w' = inr ps.
  Proof.
    intros cp cp' w' ps H T Cl. unfold include_targets in H.
    destruct (parent cp) as [dir|] eqn:Ep; [|discriminate].
    destruct (parse_pattern (path_string (canonicalize (join dir w')))) as [ts| |] eqn:Et; [|discriminate|discriminate].
    assert (T1 : target_tokens cp w' = Some ts) by (unfold target_tokens; rewrite Ep, Et; reflexivity).
    rewrite T1 in T. unfold target_tokens in T. unfold include_targets.
    destruct (parent cp') as [dir'|]; [|discriminate].
    destruct (parse_pattern (path_string (canonicalize (join dir' w')))) as [ts0| |]; try discriminate.
    injection T as T. subst ts0.
    rewrite (glob_keys2 ts (Cl ts T1)). exact H.
  Qed.

  Definition ids (o : list (path * N)) : list N := map snd o.

  (* what one more level of fuel on the old file system gives, on the new one from some fuel on *)
  Definition Q (n : nat) : Prop :=
    forall x out, load n fs1 x = (out, Done) ->
    exists N out', (forall m, (N <= m)%nat -> load m fs2 x = (out', Done)) /\ ids out' = ids out.

  Section Level.
    Variable n : nat.
    Hypothesis IH : Q n.

    Lemma all_step : forall ps o,
      load_all (load n fs1) ps = (o, Done) ->
      exists N o', (forall m, (N <= m)%nat -> load_all (load m fs2) ps = (o', Done)) /\ ids o' = ids o.
    Proof.
      induction ps as [|k ps IHps]; intros o H.
      - cbn in H. injection H as H. subst. exists O, []. split; [reflexivity|reflexivity].
      - cbn [load_all fold_right] in H. fold (load_all (load n fs1) ps) in H.
        apply then_done_inv in H. destruct H as [o1 [o2 [H1 [H2 H3]]]]. subst o.
        destruct (IH k o1 H1) as [N1 [o1' [L1 E1]]]. destruct (IHps o2 H2) as [N2 [o2' [L2 E2]]].
        exists (Nat.max N1 N2), (o1' ++ o2'). split.
        + intros m Hm. cbn [load_all fold_right]. fold (load_all (load m fs2) ps).
          rewrite (L1 m) by lia. rewrite (L2 m) by lia. reflexivity.
        + unfold ids in *. rewrite !map_app, E1, E2. reflexivity.
    Qed.

    (* a stretch of entries, read in the file at cp before and in the file at cp' after *)
    Lemma entries_step : forall cp cp' es o,
      (forall w' ts, In (Inc w') es -> target_tokens cp w' = Some ts -> matches_with ts (path_string q) = false) ->
      (forall w', In (Inc w') es -> target_tokens cp' w' = target_tokens cp w') ->
      load_entries (load n fs1) fs1 cp es = (o, Done) ->
      exists N o', (forall m, (N <= m)%nat -> load_entries (load m fs2) fs2 cp' es = (o', Done)) /\ ids o' = ids o.
    Proof.
      induction es as [|e es IHes]; intros o Cl Sm H.
      - cbn in H. injection H as H. subst. exists O, []. split; reflexivity.
      - assert (Cl' : forall w' ts, In (Inc w') es -> target_tokens cp w' = Some ts -> matches_with ts (path_string q) = false)
          by (intros w' ts Hi; apply Cl; right; exact Hi).
        assert (Sm' : forall w', In (Inc w') es -> target_tokens cp' w' = target_tokens cp w')
          by (intros w' Hi; apply Sm; right; exact Hi).
        destruct e as [w'|id]; cbn [load_entries] in H.
        + destruct (include_targets fs1 cp w') as [err|ps] eqn:T; [discriminate|].
          apply then_done_inv in H. destruct H as [o1 [o2 [H1 [H2 H3]]]]. subst o.
          destruct (all_step ps o1 H1) as [N1 [o1' [L1 E1]]].
          destruct (IHes o2 Cl' Sm' H2) as [N2 [o2' [L2 E2]]].
          exists (Nat.max N1 N2), (o1' ++ o2'). split.
          * intros m Hm. cbn [load_entries].
            rewrite (targets_transfer cp cp' w' ps T (Sm w' (or_introl eq_refl))
                       (fun ts Ht => Cl w' ts (or_introl eq_refl) Ht)).
            rewrite (L1 m) by lia. rewrite (L2 m) by lia. reflexivity.
          * unfold ids in *. rewrite !map_app, E1, E2. reflexivity.
        + apply then_done_inv in H. destruct H as [o1 [o2 [H1 [H2 H3]]]]. subst o.
          injection H1 as H1. subst o1.
          destruct (IHes o2 Cl' Sm' H2) as [N2 [o2' [L2 E2]]].
          exists N2, ((cp', id) :: o2'). split.
          * intros m Hm. cbn [load_entries]. rewrite (L2 m Hm). reflexivity.
          * unfold ids in *. cbn. rewrite E2. reflexivity.
    Qed.
  End Level.

  Lemma clean_file : forall k content es,
    In (k, content) fs1 -> incl es content ->
    forall w' ts, In (Inc w') es -> target_tokens k w' = Some ts -> matches_with ts (path_string q) = false.
  Proof. intros k content es Hin I w' ts Hi T. eapply Hclean; eauto. Qed.

  Lemma step_all_fuel : forall n, Q n.
  Proof.
    induction n as [|n IH]; intros x out H; [discriminate|].
    cbn [load] in H. destruct (lookup (canonicalize x) fs1) as [content|] eqn:L; [|discriminate].
    destruct (path_eqb (canonicalize x) p) eqn:Ep.
    - (* the file that was cut *)
      apply path_eqb_eq in Ep. rewrite Ep in *.
      rewrite (in_lookup _ _ _ W Hp) in L. injection L as L. subst content.
      rewrite !load_entries_app in H.
      apply then_done_inv in H. destruct H as [oA [oBC [HA [HBC E]]]]. subst out.
      apply then_done_inv in HBC. destruct HBC as [oB [oC [HB [HC E]]]]. subst oBC.
      destruct (entries_step n IH p p A oA
                  (clean_file p _ A Hp ltac:(intros e He; apply in_or_app; left; exact He))
                  (fun _ _ => eq_refl) HA) as [NA [oA' [LA EA]]].
      destruct (entries_step n IH p q B oB
                  (clean_file p _ B Hp ltac:(intros e He; apply in_or_app; right; apply in_or_app; left; exact He))
                  Hsame HB) as [NB [oB' [LB EB]]].
      destruct (entries_step n IH p p C oC
                  (clean_file p _ C Hp ltac:(intros e He; apply in_or_app; right; apply in_or_app; right; exact He))
                  (fun _ _ => eq_refl) HC) as [NC [oC' [LC EC]]].
      exists (S (S (Nat.max NA (Nat.max NB NC)))), (oA' ++ oB' ++ oC'). split.
      + intros m Hm. destruct m as [|m1]; [lia|]. destruct m1 as [|m2]; [lia|].
        rewrite load_S. rewrite Ep, lookup2_p.
        change (A ++ Inc w :: C) with (A ++ [Inc w] ++ C). rewrite !load_entries_app.
        rewrite (LA (S m2)) by lia. rewrite (LC (S m2)) by lia.
        assert (LI : load_entries (load (S m2) fs2) fs2 p [Inc w] = (oB', Done)).
        { cbn [load_entries]. rewrite Hw. cbn [load_all fold_right]. rewrite load_S. rewrite Hq_canon, lookup2_q.
          rewrite (LB m2) by lia. cbn. rewrite !app_nil_r. reflexivity. }
        rewrite LI. reflexivity.
      + unfold ids in *. rewrite !map_app, EA, EB, EC. reflexivity.
    - (* any other file: same content, same meaning *)
      assert (Hne : canonicalize x <> p) by (intro E; rewrite E, path_eqb_refl in Ep; discriminate).
      pose proof (lookup_in _ _ _ L) as Hin.
      destruct (entries_step n IH (canonicalize x) (canonicalize x) content out
                  (clean_file _ _ content Hin (incl_refl _)) (fun _ _ => eq_refl) H) as [N [o' [Lo Eo]]].
      exists (S N), o'. split; [|exact Eo].
      intros m Hm. destruct m as [|m1]; [lia|]. cbn [load].
      rewrite (lookup2_other _ _ Hne L). apply Lo. lia.
  Qed.

  (* loading any root before and after the extraction delivers the same entries in the same order *)
  Theorem split_step : forall root n out,
    load n fs1 root = (out, Done) ->
    exists N out', (forall m, (N <= m)%nat -> load m fs2 root = (out', Done)) /\ map snd out' = map snd out.
  Proof. intros root n out H. exact (step_all_fuel n root out H). Qed.

  (* so a cut stays a cut of the same sequence *)
  Theorem cut_step : forall root L, cut_of fs1 root L -> cut_of fs2 root L.
  Proof.
    intros root L Hc. destruct (split_invariant fs1 root L W Hc) as [n Hn].
    destruct (Hn n (le_n n)) as [out [Hl Hi]].
    destruct (split_step root n out Hl) as [N [out' [Hl' Hi']]].
    rewrite <- Hi, <- Hi'. eapply loaded_is_cut; [exact wf2|]. apply (Hl' N). lia.
  Qed.
End Step.

(* ---------- the hypotheses are satisfiable: a concrete cut with literal, `..` and glob includes ---------- *)

Definition n_main : name := [109; 46; 108].            (* m.l *)
Definition ex_fs : fsys :=
  [ ([[114]; [97]; n_main],                            (* /r/a/m.l *)
       [Ent 5; Inc [46; 46; 47; 98; 47; 42; 46; 108]; Ent 9; Inc [46; 47; 122; 46; 108]]);   (* ../b/*.l , ./z.l *)
    ([[114]; [98]; [115]; [121; 46; 108]], [Ent 7]);   (* /r/b/s/y.l : one level deeper, never loaded *)
    ([[114]; [98]; [120; 46; 108]], [Ent 1; Ent 2]);   (* /r/b/x.l *)
    ([[114]; [98]; [97; 45; 49; 46; 108]], [Ent 3]);   (* /r/b/a-1.l *)
    ([[114]; [98]; [46; 104; 46; 108]], [Ent 66]);     (* /r/b/.h.l : a dot-file, never loaded *)
    ([[114]; [97]; [122; 46; 108]], [Ent 4]) ].        (* /r/a/z.l *)

Example ex_load :
  load 3 ex_fs [[114]; [97]; n_main]
  = ([ ([[114]; [97]; n_main], 5);
       ([[114]; [98]; [97; 45; 49; 46; 108]], 3);
       ([[114]; [98]; [120; 46; 108]], 1); ([[114]; [98]; [120; 46; 108]], 2);
       ([[114]; [97]; n_main], 9);
       ([[114]; [97]; [122; 46; 108]], 4) ], Done).
Proof. vm_compute. reflexivity. Qed.

Example ex_wf : wf_fs ex_fs.
Proof. unfold wf_fs. cbn. repeat constructor; cbn; intuition discriminate. Qed.

Example ex_cut : cut_of ex_fs [[114]; [97]; n_main] [5; 3; 1; 2; 9; 4].
Proof. exact (loaded_is_cut ex_fs _ 3 _ ex_wf ex_load). Qed.

Example ex_empty_glob :
  snd (load 3 [ ([[114]; n_main], [Ent 1; Inc [100; 47; 42; 46; 108]; Ent 2]); ([[114]; [100]; [46; 104; 46; 108]], [Ent 66]) ] [[114]; n_main])
  = Failed IONotFound.
Proof. vm_compute. reflexivity. Qed.
