(* C15 — import emits ledger text that reads back as intended.  Theorems only. *)
From Coq Require Import List NArith ZArith Bool.
From Okv Require Import Model.Lit Model.SingleEntry2 Model.TxnText Proofs.TxnTextRescale.
Import ListNotations.
Open Scope N_scope.

(* Numbers are printed without change of value, only padded: the printed Decimal is numerically
   equal to the built one, keeps its sign bit, and its scale is max(scale, min(precision, 28))
   whenever the padded mantissa fits 96 bits (else as many places as fit). *)
Theorem C15_rescale_value : forall p a,
  (scale (sa_value a) <= 28)%nat ->
  let target := Nat.max (scale (sa_value a)) (Nat.min (prec_of p (sa_comm a)) 28) in
  same_value (sa_value a) (display_rescale p a) = true /\
  neg (display_rescale p a) = neg (sa_value a) /\
  (mant (sa_value a) * pow10n (target - scale (sa_value a)) <= max96N -> scale (display_rescale p a) = target) /\
  padded_scale_ok p a (display_rescale p a) = true.
Proof. exact display_rescale_spec. Qed.
Print Assumptions C15_rescale_value.
